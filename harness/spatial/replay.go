package spatial

// replay.go: model -> code.  Every behaviour printed by TLC (SpatialGen /
// SpatialSim) is executed against a real in-process server.  The grid of the
// specification is embedded into float64 coordinates (embed.go), the abstract
// objects are rendered as real geometries, and - to exercise the R-tree below
// the model's three or four objects - filler objects that lie outside every
// query area are inserted and deleted in bulk between the steps.  After a
// step for which TLC supplied the table of expected replies, EVERY rectangle
// of the grid is queried with WITHIN and INTERSECTS, a sample of CLIPBY pairs
// and of SPARSE queries is added, and every reply is compared with TLC's set.
// All expected values are TLC's; this file only executes and compares.

import (
	"encoding/json"
	"fmt"
	"math"
	"math/rand"
	"sort"
	"strconv"
	"strings"
	"time"

	"github.com/tidwall/tile38/verifharness/t38"
)

// Geo is an object or an area of the specification (Spatial!Geo).
type Geo struct {
	K  string `json:"k"` // point | rect | string | empty | none
	X1 int    `json:"x1"`
	Y1 int    `json:"y1"`
	X2 int    `json:"x2"`
	Y2 int    `json:"y2"`
}

// Step is one element of Spatial!hist.
type Step struct {
	Op   string `json:"op"` // set | del | drop | rename
	ID   int    `json:"id"`
	O    Geo    `json:"o"`
	Prev Geo    `json:"prev"`
	At   int    `json:"at"`
	N    int    `json:"n"`
}

// Res is the expected reply of WITHIN (W) and INTERSECTS (I) for one area.
type Res struct {
	W []int `json:"w"`
	I []int `json:"i"`
}

// Behaviour is one line printed by TLC: the steps and the tables of expected replies - one table
// (after the last step) from the breadth-first generator, one per step from the simulator.
type Behaviour struct {
	H   []Step  `json:"h"`
	Res [][]Res `json:"res"`
}

// Areas is the once-printed table of the generator: AreaSeq and the CLIPBY table.
type Areas struct {
	Areas []Geo   `json:"areas"`
	Clip  [][]int `json:"clip"` // 1-based indices into Areas
	NIds  int     `json:"nids"`
	NX    int     `json:"nx"`
	NY    int     `json:"ny"`
}

// Mismatch is one disagreement between the real code and TLC's values.
type Mismatch struct {
	Behaviour int    `json:"behaviour"`
	Step      int    `json:"step"`
	Embedding string `json:"embedding"`
	Class     string `json:"class"` // lost | invented | duplicate | sparse-invented | error | audit
	Cmd       string `json:"cmd"`
	Text      string `json:"text"`
}

// Stats counts what was executed and compared.
type Stats struct {
	Behaviours       int            `json:"behaviours"`
	Steps            int            `json:"steps"`
	CheckedSteps     int            `json:"checked_steps"`
	Ops              map[string]int `json:"ops"`
	Transitions      map[string]int `json:"overwrite_classes"` // insert, move, same-box-other-kind, to-string, ...
	Queries          int            `json:"queries_compared"`
	QueriesByKind    map[string]int `json:"queries_by_kind"`
	NonEmpty         int            `json:"queries_expecting_ids"`
	IdsAgreed        int            `json:"ids_agreed"`
	ClipQueries      int            `json:"clipby_queries"`
	ClipEmpty        int            `json:"clipby_queries_with_empty_area"`
	SparseQueries    int            `json:"sparse_queries"`
	SparseThinned    int            `json:"sparse_replies_smaller_than_exact"`
	OtherKey         int            `json:"absent_key_queries"`
	Audits           int            `json:"audits"`
	FillerSets       int            `json:"filler_sets"`
	FillerDels       int            `json:"filler_dels"`
	MaxFillers       int            `json:"max_fillers_alive"`
	ByEmbedding      map[string]int `json:"checked_steps_by_embedding"`
	Renderings       map[string]int `json:"object_renderings"`
	AreaRenderings   map[string]int `json:"area_renderings"`
	Classes          map[string]int `json:"mismatch_classes"`
	CorruptedSteps   int            `json:"selftest_corrupted_steps"`
	CorruptedFlagged int            `json:"selftest_corrupted_steps_noticed"`
	FlaggedSteps     int            `json:"steps_with_mismatch"`
}

func NewStats() *Stats {
	return &Stats{Ops: map[string]int{}, Transitions: map[string]int{}, QueriesByKind: map[string]int{}, ByEmbedding: map[string]int{},
		Renderings: map[string]int{}, AreaRenderings: map[string]int{}, Classes: map[string]int{}}
}

func addMap(dst, src map[string]int) {
	for k, v := range src {
		dst[k] += v
	}
}

func (s *Stats) Add(o *Stats) {
	s.Behaviours += o.Behaviours
	s.Steps += o.Steps
	s.CheckedSteps += o.CheckedSteps
	s.Queries += o.Queries
	s.NonEmpty += o.NonEmpty
	s.IdsAgreed += o.IdsAgreed
	s.ClipQueries += o.ClipQueries
	s.ClipEmpty += o.ClipEmpty
	s.SparseQueries += o.SparseQueries
	s.SparseThinned += o.SparseThinned
	s.OtherKey += o.OtherKey
	s.Audits += o.Audits
	s.CorruptedSteps += o.CorruptedSteps
	s.CorruptedFlagged += o.CorruptedFlagged
	s.FlaggedSteps += o.FlaggedSteps
	s.FillerSets += o.FillerSets
	s.FillerDels += o.FillerDels
	if o.MaxFillers > s.MaxFillers {
		s.MaxFillers = o.MaxFillers
	}
	addMap(s.Ops, o.Ops)
	addMap(s.Transitions, o.Transitions)
	addMap(s.QueriesByKind, o.QueriesByKind)
	addMap(s.ByEmbedding, o.ByEmbedding)
	addMap(s.Renderings, o.Renderings)
	addMap(s.AreaRenderings, o.AreaRenderings)
	addMap(s.Classes, o.Classes)
}

// Options of a replay.
type Options struct {
	Areas      *Areas
	Embeddings []*Embedding
	Seed       int64
	Dir        string
	Fillers    int    // upper bound of the filler population of a behaviour (0: never any)
	BigEvery   int    // every BigEvery-th behaviour of a runner gets BigFillers fillers (0: never)
	BigFillers int    //
	AllEmbed   bool   // replay every behaviour under every embedding (default: one, round robin)
	ClipPairs  int    // CLIPBY pairs sampled per checked step
	Sparse     int    // SPARSE queries sampled per checked step
	Corrupt    string // self-test: corrupt the EXPECTED tables ("", "drop", "add")
	Plain      bool   // only the plain renderings (POINT / BOUNDS)
}

// Runner owns one real server.
type Runner struct {
	o       Options
	id      int
	srv     *t38.Srv
	c       *t38.Conn
	rng     *rand.Rand
	nrun    int
	fillers map[int]bool // alive filler numbers
	nextF   int
}

const (
	key1   = "c02:a"
	key2   = "c02:b"
	refKey = "c02:ref"
)

func NewRunner(id int, o Options) (*Runner, error) {
	srv, err := t38.Start(t38.Options{Dir: fmt.Sprintf("%s/srv%d", o.Dir, id), NoAOF: true})
	if err != nil {
		return nil, err
	}
	c, err := srv.Dial()
	if err != nil {
		srv.StopAndRemove()
		return nil, err
	}
	c.Timeout = 3 * time.Minute
	return &Runner{o: o, id: id, srv: srv, c: c, fillers: map[int]bool{}}, nil
}

func (r *Runner) Close() {
	r.c.Close()
	r.srv.StopAndRemove()
}

// pipeline sends all commands and reads all replies (writer and reader run concurrently, so
// neither side can stall on a full socket buffer).
func pipeline(c *t38.Conn, cmds [][]string) ([]t38.Value, error) {
	if len(cmds) == 0 {
		return nil, nil
	}
	errc := make(chan error, 1)
	go func() {
		var buf []byte
		for i, cmd := range cmds {
			buf = t38.AppendCommand(buf, cmd...)
			if len(buf) > 1<<15 || i == len(cmds)-1 {
				c.C.SetWriteDeadline(time.Now().Add(c.Timeout))
				if _, err := c.C.Write(buf); err != nil {
					errc <- err
					return
				}
				buf = buf[:0]
			}
		}
		errc <- nil
	}()
	out := make([]t38.Value, 0, len(cmds))
	for range cmds {
		v, err := c.Recv()
		if err != nil {
			return nil, err
		}
		out = append(out, v)
	}
	if err := <-errc; err != nil {
		return nil, err
	}
	return out, nil
}

func modelID(i int) string { return "m" + strconv.Itoa(i) }

func keyName(at int) string {
	if at == 1 {
		return key1
	}
	return key2
}

// ---------------------------------------------------------------- rendering

func (e *Embedding) lon(x int) string { return Fmt(e.X.At(x)) }
func (e *Embedding) lat(y int) string { return Fmt(e.Y.At(y)) }

func (e *Embedding) ring(g Geo) string {
	p := func(x, y int) string { return "[" + e.lon(x) + "," + e.lat(y) + "]" }
	return "[[" + p(g.X1, g.Y1) + "," + p(g.X2, g.Y1) + "," + p(g.X2, g.Y2) + "," + p(g.X1, g.Y2) + "," + p(g.X1, g.Y1) + "]]"
}

// renderObject: SET arguments after `SET key id` for an abstract object; several real geometries
// denote the same closed point set.  Returns the arguments and the name of the rendering.
func (e *Embedding) renderObject(g Geo, pick int, plain bool) ([]string, string) {
	pt := "[" + e.lon(g.X1) + "," + e.lat(g.Y1) + "]"
	switch g.K {
	case "point":
		if plain {
			pick = 0
		}
		switch pick % 6 {
		case 0:
			return []string{"POINT", e.lat(g.Y1), e.lon(g.X1)}, "point:POINT"
		case 1:
			return []string{"POINT", e.lat(g.Y1), e.lon(g.X1), "117.5"}, "point:POINT-z"
		case 2:
			return []string{"OBJECT", `{"type":"Point","coordinates":` + pt + `}`}, "point:geojson-Point"
		case 3:
			return []string{"OBJECT", `{"type":"Feature","geometry":{"type":"Point","coordinates":` + pt + `},"properties":{"n":1}}`}, "point:Feature(Point)"
		case 4:
			return []string{"OBJECT", `{"type":"MultiPoint","coordinates":[` + pt + `]}`}, "point:MultiPoint"
		default:
			return []string{"OBJECT", `{"type":"GeometryCollection","geometries":[{"type":"Point","coordinates":` + pt + `}]}`}, "point:GeometryCollection(Point)"
		}
	case "rect":
		bounds := []string{"BOUNDS", e.lat(g.Y1), e.lon(g.X1), e.lat(g.Y2), e.lon(g.X2)}
		if plain {
			return bounds, "rect:BOUNDS"
		}
		degX, degY := g.X1 == g.X2, g.Y1 == g.Y2
		switch {
		case degX && degY:
			return bounds, "rect:BOUNDS(degenerate-point)"
		case degX || degY:
			// a degenerate rectangle is a segment
			if pick%3 == 1 {
				return []string{"OBJECT", `{"type":"LineString","coordinates":[[` + e.lon(g.X1) + "," + e.lat(g.Y1) + `],[` + e.lon(g.X2) + "," + e.lat(g.Y2) + `]]}`}, "rect:LineString(segment)"
			}
			if pick%3 == 2 {
				return []string{"OBJECT", `{"type":"MultiLineString","coordinates":[[[` + e.lon(g.X1) + "," + e.lat(g.Y1) + `],[` + e.lon(g.X2) + "," + e.lat(g.Y2) + `]]]}`}, "rect:MultiLineString(segment)"
			}
			return bounds, "rect:BOUNDS(degenerate-segment)"
		}
		switch pick % 6 {
		case 0, 1:
			return bounds, "rect:BOUNDS"
		case 2:
			return []string{"OBJECT", `{"type":"Polygon","coordinates":` + e.ring(g) + `}`}, "rect:Polygon"
		case 3:
			return []string{"OBJECT", `{"type":"Feature","geometry":{"type":"Polygon","coordinates":` + e.ring(g) + `},"properties":{"name":"r"}}`}, "rect:Feature(Polygon)"
		case 4:
			return []string{"OBJECT", `{"type":"MultiPolygon","coordinates":[` + e.ring(g) + `]}`}, "rect:MultiPolygon"
		default:
			return []string{"OBJECT", `{"type":"FeatureCollection","features":[{"type":"Feature","geometry":{"type":"Polygon","coordinates":` + e.ring(g) + `},"properties":{}}]}`}, "rect:FeatureCollection(Polygon)"
		}
	case "string":
		return []string{"STRING", "just a string " + strconv.Itoa(pick%3)}, "string"
	case "empty":
		switch pick % 3 {
		case 0:
			return []string{"OBJECT", `{"type":"GeometryCollection","geometries":[]}`}, "empty:GeometryCollection"
		case 1:
			return []string{"OBJECT", `{"type":"MultiPoint","coordinates":[]}`}, "empty:MultiPoint"
		default:
			return []string{"OBJECT", `{"type":"FeatureCollection","features":[]}`}, "empty:FeatureCollection"
		}
	}
	return nil, "?"
}

func (e *Embedding) bounds(g Geo) []string {
	return []string{"BOUNDS", e.lat(g.Y1), e.lon(g.X1), e.lat(g.Y2), e.lon(g.X2)}
}

// ---------------------------------------------------------------- fillers

type fillerPlan struct {
	base   int     // population to keep
	near   float64 // fraction of near fillers
	purge  bool    // delete (almost) all fillers once in the middle, then refill
	rects  float64 // fraction of rectangle / polygon fillers
	churnP float64 // fraction replaced after every step
}

func (r *Runner) plan(b *Behaviour) fillerPlan {
	if r.o.Fillers <= 0 {
		return fillerPlan{}
	}
	p := fillerPlan{near: []float64{0, 0.3, 0.7, 1}[r.rng.Intn(4)], rects: []float64{0, 0.2, 0.5}[r.rng.Intn(3)],
		churnP: []float64{0, 0.1, 0.5, 0.95}[r.rng.Intn(4)], purge: r.rng.Intn(3) == 0}
	switch r.rng.Intn(5) {
	case 0:
		p.base = 0
	case 1:
		p.base = 40 + r.rng.Intn(60) // around one node split (64 entries per node)
		if p.base > r.o.Fillers {
			p.base = r.o.Fillers
		}
	case 2:
		p.base = r.o.Fillers / 4
	default:
		p.base = r.o.Fillers
	}
	if r.o.BigEvery > 0 && r.nrun%r.o.BigEvery == r.o.BigEvery-1 {
		p.base = r.o.BigFillers
		p.churnP = 0.1
	}
	// bound the total filler work of one behaviour (about six populations plus a constant)
	if budget, cost := float64(6*p.base+3000), p.churnP*float64(2*p.base*len(b.H)); cost > budget {
		p.churnP *= budget / cost
	}
	return p
}

// fillerCmd: a filler object outside every area of the grid.
func (r *Runner) fillerCmd(e *Embedding, key string, num int, p fillerPlan) []string {
	n := e.N
	id := "f" + strconv.Itoa(num)
	if r.rng.Float64() < p.near {
		// near: on the extended grid, at least one axis strictly outside 0..n
		// cells -Margin..-1 and n+1..n+Margin
		outside := func(a *Axis) (int, int) {
			w := r.rng.Intn(3)
			if w > a.Margin-1 {
				w = a.Margin - 1
			}
			if r.rng.Intn(2) == 0 {
				hi := -1 - r.rng.Intn(a.Margin-w)
				return hi - w, hi
			}
			lo := n + 1 + r.rng.Intn(a.Margin-w)
			return lo, lo + w
		}
		anyw := func(a *Axis) (int, int) {
			lo := -a.Margin + r.rng.Intn(n+2*a.Margin+1)
			hi := lo + r.rng.Intn(3)
			if hi > n+a.Margin {
				hi = n + a.Margin
			}
			return lo, hi
		}
		var x1, x2, y1, y2 int
		switch r.rng.Intn(3) {
		case 0:
			x1, x2 = outside(e.X)
			y1, y2 = anyw(e.Y)
		case 1:
			x1, x2 = anyw(e.X)
			y1, y2 = outside(e.Y)
		default:
			x1, x2 = outside(e.X)
			y1, y2 = outside(e.Y)
		}
		if r.rng.Float64() >= p.rects {
			return []string{"SET", key, id, "POINT", Fmt(e.Y.At(y1)), Fmt(e.X.At(x1))}
		}
		return []string{"SET", key, id, "BOUNDS", Fmt(e.Y.At(y1)), Fmt(e.X.At(x1)), Fmt(e.Y.At(y2)), Fmt(e.X.At(x2))}
	}
	// far: anywhere on the globe, away from the hull of the (extended) grid
	hx1, hx2 := e.X.At(-e.X.Margin), e.X.At(n+e.X.Margin)
	hy1, hy2 := e.Y.At(-e.Y.Margin), e.Y.At(n+e.Y.Margin)
	gap := 1.0
	for {
		lat := -89 + 178*r.rng.Float64()
		lon := -179 + 358*r.rng.Float64()
		w := r.rng.Float64() * 0.5
		h := r.rng.Float64() * 0.5
		if lon+w >= hx1-gap && lon <= hx2+gap && lat+h >= hy1-gap && lat <= hy2+gap {
			continue
		}
		if r.rng.Float64() >= p.rects {
			return []string{"SET", key, id, "POINT", Fmt(lat), Fmt(lon)}
		}
		if r.rng.Intn(2) == 0 {
			return []string{"SET", key, id, "BOUNDS", Fmt(lat), Fmt(lon), Fmt(lat + h), Fmt(lon + w)}
		}
		return []string{"SET", key, id, "OBJECT", fmt.Sprintf(`{"type":"Polygon","coordinates":[[[%s,%s],[%s,%s],[%s,%s],[%s,%s]]]}`,
			Fmt(lon), Fmt(lat), Fmt(lon+w), Fmt(lat), Fmt(lon+w/2), Fmt(lat+h), Fmt(lon), Fmt(lat))}
	}
}

func (r *Runner) must(cmds [][]string, what string) error {
	vs, err := pipeline(r.c, cmds)
	if err != nil {
		return fmt.Errorf("%s: %v", what, err)
	}
	for i, v := range vs {
		if v.Kind == '-' {
			return fmt.Errorf("%s: %q answered %s", what, strings.Join(cmds[i], " "), v.String())
		}
	}
	return nil
}

// setFillers brings the filler population of `key` to `want` alive fillers, replacing `replace` of the
// present ones.
func (r *Runner) churn(e *Embedding, key string, p fillerPlan, want int, replace float64, st *Stats) error {
	var cmds [][]string
	alive := make([]int, 0, len(r.fillers))
	for f := range r.fillers {
		alive = append(alive, f)
	}
	sort.Ints(alive)
	r.rng.Shuffle(len(alive), func(i, j int) { alive[i], alive[j] = alive[j], alive[i] })
	ndel := int(float64(len(alive)) * replace)
	if len(alive)-ndel > want {
		ndel = len(alive) - want
	}
	for _, f := range alive[:ndel] {
		cmds = append(cmds, []string{"DEL", key, "f" + strconv.Itoa(f)})
		delete(r.fillers, f)
	}
	st.FillerDels += ndel
	for len(r.fillers) < want {
		r.nextF++
		cmds = append(cmds, r.fillerCmd(e, key, r.nextF, p))
		r.fillers[r.nextF] = true
		st.FillerSets++
	}
	if len(r.fillers) > st.MaxFillers {
		st.MaxFillers = len(r.fillers)
	}
	// interleave deletions and insertions
	r.rng.Shuffle(len(cmds), func(i, j int) { cmds[i], cmds[j] = cmds[j], cmds[i] })
	// a filler must not be deleted before it was set (never happens: deleted ones were alive before)
	return r.must(cmds, "filler churn")
}

// ---------------------------------------------------------------- queries

type query struct {
	cmd    []string
	kind   string // within | intersects
	sparse bool
	want   []int
	class  string // plain | clipby | sparse | otherkey
	empty  bool   // clipby with an empty area
}

func replyIDs(v t38.Value) ([]string, error) {
	if v.Kind != '*' || len(v.Arr) != 2 || v.Arr[0].Kind != ':' || v.Arr[1].Kind != '*' {
		return nil, fmt.Errorf("unexpected reply shape %s", v.String())
	}
	if v.Arr[0].Int != 0 {
		return nil, fmt.Errorf("reply has cursor %d although the LIMIT exceeds the collection", v.Arr[0].Int)
	}
	ids := make([]string, 0, len(v.Arr[1].Arr))
	for _, a := range v.Arr[1].Arr {
		if a.Kind != '$' {
			return nil, fmt.Errorf("unexpected element %s", a.String())
		}
		ids = append(ids, a.Str)
	}
	return ids, nil
}

const bigLimit = "100000000"

func classifyOverwrite(s Step) string {
	switch {
	case s.Op != "set":
		return s.Op
	case s.Prev.K == "none":
		return "insert:" + s.O.K
	case s.Prev == s.O:
		return "overwrite-identical"
	case s.Prev.K == s.O.K && (s.O.K == "point" || s.O.K == "rect"):
		return "move:" + s.O.K
	case (s.Prev.K == "point" || s.Prev.K == "rect") && (s.O.K == "point" || s.O.K == "rect"):
		if s.Prev.X1 == s.O.X1 && s.Prev.X2 == s.O.X2 && s.Prev.Y1 == s.O.Y1 && s.Prev.Y2 == s.O.Y2 {
			return "other-kind-same-rectangle"
		}
		return "other-kind:" + s.Prev.K + "->" + s.O.K
	default:
		return "other-kind:" + s.Prev.K + "->" + s.O.K
	}
}

// Run replays one behaviour; returns the disagreements.
func (r *Runner) Run(idx int, b *Behaviour, st *Stats) ([]Mismatch, error) {
	var all []Mismatch
	embeds := []*Embedding{r.o.Embeddings[idx%len(r.o.Embeddings)]}
	if r.o.AllEmbed {
		embeds = r.o.Embeddings
	}
	for _, e := range embeds {
		r.rng = rand.New(rand.NewSource(r.o.Seed*1000003 + int64(idx)*7919 + int64(len(e.Name))))
		ms, err := r.runOne(idx, b, e, st)
		if err != nil {
			return all, fmt.Errorf("behaviour %d under %s: %v", idx, e.Name, err)
		}
		all = append(all, ms...)
		r.nrun++
	}
	st.Behaviours++
	return all, nil
}

func (r *Runner) runOne(idx int, b *Behaviour, e *Embedding, st *Stats) ([]Mismatch, error) {
	A := r.o.Areas
	var ms []Mismatch
	if len(b.Res) != 1 && len(b.Res) != len(b.H) {
		return nil, fmt.Errorf("behaviour has %d steps but %d tables", len(b.H), len(b.Res))
	}
	if err := r.must([][]string{{"FLUSHDB"}}, "reset"); err != nil {
		return nil, err
	}
	r.fillers = map[int]bool{}
	p := r.plan(b)
	at := 1
	if p.base > 0 {
		if err := r.churn(e, keyName(at), p, p.base, 0, st); err != nil {
			return nil, err
		}
	}
	purgeAt := -1
	if p.purge && p.base > 0 {
		purgeAt = r.rng.Intn(len(b.H))
	}
	for si, s := range b.H {
		key := keyName(at)
		var cmd []string
		switch s.Op {
		case "set":
			args, name := e.renderObject(s.O, r.rng.Intn(1000), r.o.Plain)
			st.Renderings[name]++
			cmd = append([]string{"SET", key, modelID(s.ID)}, args...)
		case "del":
			cmd = []string{"DEL", key, modelID(s.ID)}
		case "drop":
			cmd = []string{"DROP", key}
			r.fillers = map[int]bool{}
		case "rename":
			cmd = []string{"RENAME", key, keyName(3 - at)}
			if r.rng.Intn(2) == 0 {
				cmd[0] = "RENAMENX"
			}
		default:
			return nil, fmt.Errorf("unknown op %q", s.Op)
		}
		v, err := r.c.Do(cmd...)
		if err != nil {
			return nil, err
		}
		if v.Kind == '-' || (cmd[0] == "RENAMENX" && !(v.Kind == ':' && v.Int == 1)) {
			return nil, fmt.Errorf("step %d: %q answered %s", si, strings.Join(cmd, " "), v.String())
		}
		at = s.At
		key = keyName(at)
		st.Steps++
		st.Ops[s.Op]++
		st.Transitions[classifyOverwrite(s)]++
		// R-tree churn below the model objects
		if p.base > 0 {
			switch {
			case si == purgeAt:
				if err := r.churn(e, key, p, p.base/50, 1, st); err != nil {
					return nil, err
				}
				if err := r.churn(e, key, p, p.base, 0, st); err != nil {
					return nil, err
				}
			case len(r.fillers) == 0 && s.Op != "drop":
				if err := r.churn(e, key, p, p.base, 0, st); err != nil {
					return nil, err
				}
			case p.churnP > 0 && s.N > 0:
				if err := r.churn(e, key, p, p.base, p.churnP, st); err != nil {
					return nil, err
				}
			}
			// the collection does not exist in the model when it has no object: fillers must not
			// keep it alive across a RENAME target check; they live in the same key, so they do not
		}
		var table []Res
		if len(b.Res) == len(b.H) {
			table = b.Res[si]
		} else if si == len(b.H)-1 {
			table = b.Res[0]
		}
		if table == nil {
			continue
		}
		if len(table) != len(A.Areas) {
			return nil, fmt.Errorf("table has %d areas, the area list %d", len(table), len(A.Areas))
		}
		var corrupted bool
		table, corrupted = r.corrupt(table)
		if corrupted {
			st.CorruptedSteps++
		}
		nbefore := len(ms)
		st.CheckedSteps++
		st.ByEmbedding[e.Name]++
		qs := r.queries(e, key, keyName(3-at), table, st)
		cmds := make([][]string, len(qs))
		for i := range qs {
			cmds[i] = qs[i].cmd
		}
		vs, err := pipeline(r.c, cmds)
		if err != nil {
			return nil, err
		}
		for i, q := range qs {
			m := r.compare(q, vs[i], st)
			if m != nil {
				m.Behaviour, m.Step, m.Embedding = idx, si, e.Name
				ms = append(ms, *m)
			}
		}
		// IndexMatchesObjs on the real tree: every indexable object indexed once under its current box
		if len(r.fillers) <= 5000 {
			st.Audits++
			for _, line := range r.srv.S.VerifAudit(true) {
				if strings.Contains(line, "spatial") {
					ms = append(ms, Mismatch{Behaviour: idx, Step: si, Embedding: e.Name, Class: "audit", Cmd: strings.Join(cmd, " "), Text: line})
					st.Classes["audit"]++
				}
			}
		}
		if len(ms) > nbefore {
			st.FlaggedSteps++
			if corrupted {
				st.CorruptedFlagged++
			}
		}
	}
	return ms, nil
}

// corrupt (self-test only) damages the expected table of one rectangle so that the comparison must notice.
func (r *Runner) corrupt(table []Res) ([]Res, bool) {
	if r.o.Corrupt == "" {
		return table, false
	}
	out := make([]Res, len(table))
	copy(out, table)
	for j := range out {
		if r.o.Areas.Areas[j].K == "none" {
			continue
		}
		switch r.o.Corrupt {
		case "drop": // forget one expected id
			if len(out[j].I) > 0 {
				out[j].I = append([]int(nil), out[j].I[1:]...)
				return out, true
			}
		case "add": // expect an id that the specification does not expect
			have := map[int]bool{}
			for _, x := range out[j].W {
				have[x] = true
			}
			for x := 1; x <= r.o.Areas.NIds; x++ {
				if !have[x] {
					out[j].W = append(append([]int(nil), out[j].W...), x)
					return out, true
				}
			}
		}
	}
	return out, false
}

func (r *Runner) queries(e *Embedding, key, other string, table []Res, st *Stats) []query {
	A := r.o.Areas
	var qs []query
	add := func(kind string, sparse int, area []string, want []int, class string, empty bool) {
		cmd := []string{strings.ToUpper(kind), key}
		if sparse > 0 {
			cmd = append(cmd, "SPARSE", strconv.Itoa(sparse))
		} else {
			cmd = append(cmd, "LIMIT", bigLimit)
		}
		cmd = append(cmd, "IDS")
		cmd = append(cmd, area...)
		qs = append(qs, query{cmd: cmd, kind: kind, sparse: sparse > 0, want: want, class: class, empty: empty})
	}
	var rects []int
	for j, a := range A.Areas {
		if a.K == "none" {
			continue
		}
		rects = append(rects, j)
		area := e.bounds(a)
		name := "BOUNDS"
		if !r.o.Plain && a.X1 < a.X2 && a.Y1 < a.Y2 && r.rng.Intn(8) == 0 {
			area = []string{"OBJECT", `{"type":"Polygon","coordinates":` + e.ring(a) + `}`}
			name = "OBJECT(Polygon)"
		}
		st.AreaRenderings[name] += 2
		add("within", 0, area, table[j].W, "plain", false)
		add("intersects", 0, area, table[j].I, "plain", false)
	}
	for n := 0; n < r.o.ClipPairs && len(rects) > 0; n++ {
		q := rects[r.rng.Intn(len(rects))]
		c := rects[r.rng.Intn(len(rects))]
		t := A.Clip[q][c] - 1
		area := append(e.bounds(A.Areas[q]), "CLIPBY")
		area = append(area, e.bounds(A.Areas[c])...)
		if r.rng.Intn(4) == 0 {
			// a second CLIPBY
			c2 := rects[r.rng.Intn(len(rects))]
			t = A.Clip[t][c2] - 1
			area = append(area, "CLIPBY")
			area = append(area, e.bounds(A.Areas[c2])...)
		}
		empty := A.Areas[t].K == "none"
		if r.rng.Intn(2) == 0 {
			add("within", 0, area, table[t].W, "clipby", empty)
		} else {
			add("intersects", 0, area, table[t].I, "clipby", empty)
		}
	}
	for n := 0; n < r.o.Sparse && len(rects) > 0; n++ {
		j := rects[r.rng.Intn(len(rects))]
		sp := 1 + r.rng.Intn(4)
		if r.rng.Intn(2) == 0 {
			add("within", sp, e.bounds(A.Areas[j]), table[j].W, "sparse", false)
		} else {
			add("intersects", sp, e.bounds(A.Areas[j]), table[j].I, "sparse", false)
		}
	}
	// the key that does not exist answers with nothing
	if len(rects) > 0 {
		j := rects[len(rects)-1]
		qs = append(qs, query{cmd: append([]string{"INTERSECTS", other, "LIMIT", bigLimit, "IDS"}, e.bounds(A.Areas[j])...),
			kind: "intersects", want: nil, class: "otherkey"})
	}
	return qs
}

func (r *Runner) compare(q query, v t38.Value, st *Stats) *Mismatch {
	cmd := strings.Join(q.cmd, " ")
	ids, err := replyIDs(v)
	if err != nil {
		st.Classes["error"]++
		return &Mismatch{Class: "error", Cmd: cmd, Text: err.Error()}
	}
	want := map[string]bool{}
	for _, i := range q.want {
		want[modelID(i)] = true
	}
	seen := map[string]bool{}
	var lost, invented, dup []string
	for _, id := range ids {
		if seen[id] {
			dup = append(dup, id)
		}
		seen[id] = true
		if !want[id] {
			invented = append(invented, id)
		}
	}
	if !q.sparse {
		for id := range want {
			if !seen[id] {
				lost = append(lost, id)
			}
		}
	}
	sort.Strings(lost)
	st.Queries++
	st.QueriesByKind[q.kind+"/"+q.class]++
	switch q.class {
	case "clipby":
		st.ClipQueries++
		if q.empty {
			st.ClipEmpty++
		}
	case "sparse":
		st.SparseQueries++
		if len(ids) < len(q.want) {
			st.SparseThinned++
		}
	case "otherkey":
		st.OtherKey++
	}
	if len(q.want) > 0 {
		st.NonEmpty++
	}
	class := ""
	switch {
	case len(lost) > 0:
		class = "lost"
	case len(invented) > 0 && q.sparse:
		class = "sparse-invented"
	case len(invented) > 0:
		class = "invented"
	case len(dup) > 0:
		class = "duplicate"
	}
	if class == "" {
		st.IdsAgreed += len(ids)
		return nil
	}
	st.Classes[class]++
	wl := make([]string, 0, len(want))
	for id := range want {
		wl = append(wl, id)
	}
	sort.Strings(wl)
	if len(invented) > 6 {
		invented = append(invented[:6], "...")
	}
	return &Mismatch{Class: class, Cmd: cmd, Text: fmt.Sprintf("TLC expects %v, the server returned %d ids: lost %v invented %v duplicate %v",
		wl, len(ids), lost, invented, dup)}
}

// ParseBehaviour decodes one line of TLC output.
func ParseBehaviour(line []byte) (*Behaviour, error) {
	var b Behaviour
	if err := json.Unmarshal(line, &b); err != nil {
		return nil, err
	}
	if len(b.H) == 0 {
		return nil, fmt.Errorf("empty behaviour")
	}
	return &b, nil
}

var _ = math.Abs
