package spatial

// inpkg.go: code -> model, in-package.  internal/collection is driven directly
// (no server): big collections (10^4 - 10^5 objects of all kinds), histories
// of bulk inserts, overwrites that change the kind, moves and bulk deletes,
// and for every query area
//     res  = the ids Collection.Within / Intersects (the R-tree path) yields,
//     yes  = the ids of a FULL Collection.Scan for which the SAME predicate
//            o.Geo().Within(area) / Intersects(area) holds,
//     ntested = the number of objects that scan visited.
// The trace has the format of record.go and is judged by TLC (SpatialTrace).
// Areas are parsed with the implementation's own geojson.Parse, circles are
// geojson.NewCircle as cmdSearchArgs builds them, CLIPBY is clip.Clip.

import (
	"fmt"
	"math/rand"
	"strconv"

	"github.com/tidwall/geojson"
	"github.com/tidwall/geojson/geometry"
	"github.com/tidwall/tile38/internal/clip"
	"github.com/tidwall/tile38/internal/collection"
	"github.com/tidwall/tile38/internal/field"
	"github.com/tidwall/tile38/internal/object"
)

// InpkgOptions of one in-package run.
type InpkgOptions struct {
	Seed    int64
	Run     int
	N       int // objects
	Queries int // queries per phase
}

type inpkg struct {
	o    InpkgOptions
	rng  *rand.Rand
	g    *Gen
	col  *collection.Collection
	ev   []Event
	info []QueryInfo
	st   *RecStats
	q    *int
	n    int // number of ids ever used: ids are 1..n
	kind map[int]string
}

func (p *inpkg) object(id int) (*object.Object, string, error) {
	args, kind := p.g.Object()
	var geo geojson.Object
	switch args[0] {
	case "POINT":
		lat, _ := strconv.ParseFloat(args[1], 64)
		lon, _ := strconv.ParseFloat(args[2], 64)
		if len(args) > 3 {
			z, _ := strconv.ParseFloat(args[3], 64)
			geo = geojson.NewPointZ(geometry.Point{X: lon, Y: lat}, z)
		} else {
			geo = geojson.NewPoint(geometry.Point{X: lon, Y: lat})
		}
	case "BOUNDS":
		var f [4]float64
		for i := range f {
			f[i], _ = strconv.ParseFloat(args[1+i], 64)
		}
		geo = geojson.NewRect(geometry.Rect{Min: geometry.Point{X: f[1], Y: f[0]}, Max: geometry.Point{X: f[3], Y: f[2]}})
	case "STRING":
		geo = collection.String(args[1])
	case "HASH":
		// a geohash object is stored as the centre point of its cell; here a plain point does
		lat, lon := p.g.Coord()
		geo = geojson.NewPoint(geometry.Point{X: lon, Y: lat})
		kind = "POINT"
	case "OBJECT":
		var err error
		geo, err = geojson.Parse(args[1], nil)
		if err != nil {
			return nil, "", fmt.Errorf("generated geometry does not parse: %v: %s", err, args[1])
		}
	}
	return object.New(strconv.Itoa(id), geo, 0, field.List{}), kind, nil
}

func (p *inpkg) setRange(lo, hi int) error {
	for id := lo; id <= hi; id++ {
		o, kind, err := p.object(id)
		if err != nil {
			return err
		}
		p.col.Set(o)
		p.st.Kinds[kind]++
		p.kind[id] = kind
	}
	e := newEvent("set", p.o.Run)
	e.K, e.Lo, e.Hi = 1, lo, hi
	p.ev = append(p.ev, e)
	p.st.Ops["bulk-insert"] += hi - lo + 1
	return nil
}

func (p *inpkg) setSome(ids []int, what string) error {
	for _, id := range ids {
		o, kind, err := p.object(id)
		if err != nil {
			return err
		}
		p.col.Set(o)
		p.st.Kinds[kind]++
		p.kind[id] = kind
	}
	e := newEvent("set", p.o.Run)
	e.K, e.IDs = 1, ids
	p.ev = append(p.ev, e)
	p.st.Ops[what] += len(ids)
	return nil
}

func (p *inpkg) delSome(ids []int) {
	var gone []int
	for _, id := range ids {
		if p.col.Delete(strconv.Itoa(id)) != nil {
			gone = append(gone, id)
		}
	}
	e := newEvent("del", p.o.Run)
	e.K, e.IDs = 1, ids
	p.ev = append(p.ev, e)
	p.st.Ops["delete"] += len(gone)
}

func (p *inpkg) area() (geojson.Object, string, string, error) {
	args, kind := p.g.Area(nil)
	var a geojson.Object
	f := func(i int) float64 { v, _ := strconv.ParseFloat(args[i], 64); return v }
	switch args[0] {
	case "BOUNDS":
		a = geojson.NewRect(geometry.Rect{Min: geometry.Point{X: f(2), Y: f(1)}, Max: geometry.Point{X: f(4), Y: f(3)}})
	case "CIRCLE":
		a = geojson.NewCircle(geometry.Point{X: f(2), Y: f(1)}, f(3), 64)
	case "POINT":
		a = geojson.NewPoint(geometry.Point{X: f(2), Y: f(1)})
	case "OBJECT":
		var err error
		a, err = geojson.Parse(args[1], nil)
		if err != nil {
			return nil, "", "", fmt.Errorf("generated area does not parse: %v: %s", err, args[1])
		}
	default:
		// HASH / TILE / QUADKEY / SECTOR are server-side conversions: a rectangle stands in here
		r := p.g.Rect()
		a = geojson.NewRect(geometry.Rect{Min: geometry.Point{X: r[1], Y: r[0]}, Max: geometry.Point{X: r[3], Y: r[2]}})
		kind = "BOUNDS"
	}
	desc := a.String()
	if p.rng.Intn(4) == 0 {
		r := p.g.Rect()
		cr := geojson.NewRect(geometry.Rect{Min: geometry.Point{X: r[1], Y: r[0]}, Max: geometry.Point{X: r[3], Y: r[2]}})
		a = clip.Clip(a, cr, nil)
		kind += "+CLIPBY"
		desc = "clip.Clip(" + desc + ", " + cr.String() + ") = " + a.String()
		p.st.Clipped++
	}
	if len(desc) > 600 {
		desc = desc[:600] + "..."
	}
	return a, kind, desc, nil
}

func (p *inpkg) query() error {
	a, kind, desc, err := p.area()
	if err != nil {
		return err
	}
	cmd := []string{"within", "intersects"}[p.rng.Intn(2)]
	sparse := 0
	if p.rng.Intn(6) == 0 {
		sparse = 1 + p.rng.Intn(4)
	}
	e := newEvent("q", p.o.Run)
	e.K, e.Cmd, e.Sparse, e.NTested = 1, cmd, sparse, 0
	num := func(o *object.Object) int { n, _ := strconv.Atoi(o.ID()); return n }
	collect := func(o *object.Object) bool { e.Res = append(e.Res, num(o)); return true }
	if cmd == "within" {
		p.col.Within(a, uint8(sparse), nil, nil, collect)
	} else {
		p.col.Intersects(a, uint8(sparse), nil, nil, collect)
	}
	p.col.Scan(false, nil, nil, func(o *object.Object) bool {
		e.NTested++
		var yes bool
		if cmd == "within" {
			yes = o.Geo().Within(a)
		} else {
			yes = o.Geo().Intersects(a)
		}
		if yes {
			e.Yes = append(e.Yes, num(o))
		}
		return true
	})
	*p.q++
	e.Q = *p.q
	p.ev = append(p.ev, e)
	// kinds of the ids on which the two paths differ (for the diagnosis only; the verdict is TLC's)
	kinds := map[int]string{}
	inRes := map[int]bool{}
	for _, id := range e.Res {
		inRes[id] = true
	}
	inYes := map[int]bool{}
	for _, id := range e.Yes {
		inYes[id] = true
		if !inRes[id] && len(kinds) < 1<<30 {
			kinds[id] = p.kind[id]
		}
	}
	for _, id := range e.Res {
		if !inYes[id] && len(kinds) < 1<<30 {
			kinds[id] = p.kind[id]
		}
	}
	p.info = append(p.info, QueryInfo{Q: e.Q, Run: p.o.Run, Region: p.g.Reg.Name, Search: "Collection." + cmd + "(sparse " + strconv.Itoa(sparse) + ") " + desc,
		Test: "Collection.Scan + Geo()." + cmd, Kind: kind, N: e.NTested, Kinds: kinds})
	p.st.Queries++
	p.st.Tests += e.NTested
	p.st.ByArea[kind]++
	p.st.ByCmd[cmd]++
	p.st.ByRegion[p.g.Reg.Name]++
	if sparse > 0 {
		p.st.Sparse++
	}
	if len(e.Yes) > 0 {
		p.st.NonEmpty++
		p.st.Matches += len(e.Yes)
	}
	if e.NTested > p.st.MaxLive {
		p.st.MaxLive = e.NTested
	}
	return nil
}

func (p *inpkg) queries() error {
	for i := 0; i < p.o.Queries; i++ {
		if err := p.query(); err != nil {
			return err
		}
	}
	return nil
}

func (p *inpkg) sample(frac float64) []int {
	var ids []int
	for id := 1; id <= p.n; id++ {
		if p.rng.Float64() < frac {
			ids = append(ids, id)
		}
	}
	return ids
}

// InpkgRun builds one big collection through a history and queries it between the phases.
func InpkgRun(o InpkgOptions, qbase *int) ([]Event, []QueryInfo, *RecStats, error) {
	rng := rand.New(rand.NewSource(o.Seed*15485863 + int64(o.Run)*32452843 + 5))
	reg := Regions[(o.Run*3+1)%len(Regions)]
	p := &inpkg{o: o, rng: rng, g: &Gen{R: rng, Reg: reg, Reuse: 0.1}, col: collection.New(), st: NewRecStats(), q: qbase, kind: map[int]string{}}
	p.st.Runs = 1
	p.ev = append(p.ev, newEvent("reset", o.Run))
	// phase 1: bulk insert
	p.n = o.N
	if err := p.setRange(1, o.N); err != nil {
		return nil, nil, nil, err
	}
	if err := p.queries(); err != nil {
		return nil, nil, nil, err
	}
	// phase 2: a third of the objects is overwritten (other kind, other place)
	if err := p.setSome(p.sample(0.33), "overwrite"); err != nil {
		return nil, nil, nil, err
	}
	if err := p.queries(); err != nil {
		return nil, nil, nil, err
	}
	// phase 3: most objects are deleted (the tree condenses), in random order
	gone := p.sample(0.85)
	rng.Shuffle(len(gone), func(i, j int) { gone[i], gone[j] = gone[j], gone[i] })
	p.delSome(gone)
	if err := p.queries(); err != nil {
		return nil, nil, nil, err
	}
	// phase 4: half of them come back, new objects are added
	back := gone[:len(gone)/2]
	if err := p.setSome(back, "reinsert"); err != nil {
		return nil, nil, nil, err
	}
	if err := p.setRange(o.N+1, o.N+o.N/4); err != nil {
		return nil, nil, nil, err
	}
	p.n = o.N + o.N/4
	if err := p.queries(); err != nil {
		return nil, nil, nil, err
	}
	return p.ev, p.info, p.st, nil
}
