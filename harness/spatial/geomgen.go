package spatial

// geomgen.go: random datasets and query areas for the code -> model legs.
// Nothing here knows what a query must return: the file only produces
// syntactically valid geometries, at arbitrary coordinates including the
// neighbourhoods of the poles and of the antimeridian and regions far below
// the float32 resolution, and areas of every kind the property lists.

import (
	"fmt"
	"math"
	"math/rand"
	"strconv"
	"strings"

	"github.com/mmcloughlin/geohash"
)

// Region is where a run places its objects and areas.
type Region struct {
	Name                           string
	LatMin, LatMax, LonMin, LonMax float64
	// optional second longitude band (regions that straddle the antimeridian)
	Lon2Min, Lon2Max float64
	TwoBands         bool
	MaxMeters        float64 // largest circle radius used in this region
}

var Regions = []Region{
	{Name: "world", LatMin: -90, LatMax: 90, LonMin: -180, LonMax: 180, MaxMeters: 3e6},
	{Name: "north-pole", LatMin: 88.5, LatMax: 90, LonMin: -180, LonMax: 180, MaxMeters: 2e5},
	{Name: "south-pole", LatMin: -90, LatMax: -88.8, LonMin: -180, LonMax: 180, MaxMeters: 2e5},
	{Name: "antimeridian", LatMin: -30, LatMax: 30, LonMin: 178.5, LonMax: 180, Lon2Min: -180, Lon2Max: -178.5, TwoBands: true, MaxMeters: 3e5},
	{Name: "high-north", LatMin: 60, LatMax: 80, LonMin: -40, LonMax: 60, MaxMeters: 1.5e6},
	{Name: "city", LatMin: 33.40, LatMax: 33.52, LonMin: -112.02, LonMax: -111.88, MaxMeters: 9000},
	{Name: "equator-greenwich", LatMin: -0.02, LatMax: 0.02, LonMin: -0.02, LonMax: 0.02, MaxMeters: 3000},
	{Name: "micro", LatMin: 51.4999995, LatMax: 51.5000005, LonMin: -0.1000005, LonMax: -0.0999995, MaxMeters: 0.2},
	{Name: "antimeridian-north", LatMin: 64, LatMax: 72, LonMin: 176, LonMax: 180, Lon2Min: -180, Lon2Max: -176, TwoBands: true, MaxMeters: 6e5},
	{Name: "south", LatMin: -75, LatMax: -35, LonMin: 100, LonMax: 179.5, MaxMeters: 2e6},
}

// Gen draws geometries inside a region.
type Gen struct {
	R   *rand.Rand
	Reg Region
	// coordinates that were used before (so that areas and objects share vertices / edges now and then)
	pts   [][2]float64
	Reuse float64 // probability that Coord returns a coordinate used before
	Large bool    // extents are drawn from the upper part of the range (query areas)
}

func (g *Gen) clampLat(v float64) float64 { return math.Max(-90, math.Min(90, v)) }
func (g *Gen) clampLon(v float64) float64 { return math.Max(-180, math.Min(180, v)) }

func (g *Gen) latSpan() float64 { return g.Reg.LatMax - g.Reg.LatMin }
func (g *Gen) lonSpan() float64 { return g.Reg.LonMax - g.Reg.LonMin }

// Coord: a random position of the region, or - now and then - one used before.
func (g *Gen) Coord() (lat, lon float64) {
	if len(g.pts) > 0 && g.R.Float64() < g.Reuse {
		p := g.pts[g.R.Intn(len(g.pts))]
		return p[0], p[1]
	}
	lat = g.Reg.LatMin + g.R.Float64()*g.latSpan()
	if g.Reg.TwoBands && g.R.Intn(2) == 0 {
		lon = g.Reg.Lon2Min + g.R.Float64()*(g.Reg.Lon2Max-g.Reg.Lon2Min)
	} else {
		lon = g.Reg.LonMin + g.R.Float64()*g.lonSpan()
	}
	switch g.R.Intn(40) {
	case 0:
		lat = g.Reg.LatMax
	case 1:
		lat = g.Reg.LatMin
	case 2:
		lon = g.Reg.LonMax
	case 3:
		lon = g.Reg.LonMin
	}
	g.remember(lat, lon)
	return
}

func (g *Gen) remember(lat, lon float64) {
	if len(g.pts) < 400 {
		g.pts = append(g.pts, [2]float64{lat, lon})
	} else {
		g.pts[g.R.Intn(len(g.pts))] = [2]float64{lat, lon}
	}
}

// Extent: the size of a geometry in degrees, log-uniform from a millionth of the region to a good part of it.
func (g *Gen) Extent() float64 {
	span := math.Min(g.latSpan(), g.lonSpan())
	if g.Large {
		return span * math.Pow(10, -3+2.8*g.R.Float64())
	}
	return span * math.Pow(10, -6+5.7*g.R.Float64())
}

func pos(lat, lon float64) string { return "[" + Fmt(lon) + "," + Fmt(lat) + "]" }

func (g *Gen) near(lat, lon, ext float64) (float64, float64) {
	la := g.clampLat(lat + (g.R.Float64()*2-1)*ext)
	lo := g.clampLon(lon + (g.R.Float64()*2-1)*ext)
	g.remember(la, lo)
	return la, lo
}

func (g *Gen) pointCoords() string {
	lat, lon := g.Coord()
	if g.R.Intn(5) == 0 {
		return "[" + Fmt(lon) + "," + Fmt(lat) + "," + Fmt(float64(g.R.Intn(9000))) + "]"
	}
	return pos(lat, lon)
}

func (g *Gen) lineCoords() string {
	lat, lon := g.Coord()
	ext := g.Extent()
	n := 2 + g.R.Intn(5)
	parts := []string{pos(lat, lon)}
	for i := 1; i < n; i++ {
		lat, lon = g.near(lat, lon, ext)
		parts = append(parts, pos(lat, lon))
	}
	return "[" + strings.Join(parts, ",") + "]"
}

// ring: a star-shaped ring around (lat, lon) with the given radii factor
func ring(lat, lon float64, angles, radii []float64, extLat, extLon, scale float64, clampLat, clampLon func(float64) float64) string {
	var parts []string
	for i := range angles {
		la := clampLat(lat + math.Sin(angles[i])*radii[i]*extLat*scale)
		lo := clampLon(lon + math.Cos(angles[i])*radii[i]*extLon*scale)
		parts = append(parts, pos(la, lo))
	}
	parts = append(parts, parts[0])
	return "[" + strings.Join(parts, ",") + "]"
}

func (g *Gen) polygonCoords() string {
	lat, lon := g.Coord()
	ext := g.Extent()
	n := 3 + g.R.Intn(7)
	angles := make([]float64, n)
	radii := make([]float64, n)
	a := g.R.Float64() * 2 * math.Pi
	for i := 0; i < n; i++ {
		angles[i] = a
		a += 2 * math.Pi / float64(n) * (0.6 + 0.8*g.R.Float64())
		radii[i] = 0.35 + 0.65*g.R.Float64()
	}
	// keep the angles within one turn so that the ring does not wind twice
	if angles[n-1]-angles[0] >= 2*math.Pi {
		f := (2*math.Pi - 0.2) / (angles[n-1] - angles[0])
		for i := range angles {
			angles[i] = angles[0] + (angles[i]-angles[0])*f
		}
	}
	extLon := ext
	if g.R.Intn(3) == 0 {
		extLon = ext * (0.2 + 3*g.R.Float64())
	}
	rings := []string{ring(lat, lon, angles, radii, ext, extLon, 1, g.clampLat, g.clampLon)}
	if g.R.Intn(3) == 0 {
		// a hole: the same star, shrunk (lies inside because the polygon is star-shaped around its centre)
		rings = append(rings, ring(lat, lon, angles, radii, ext, extLon, 0.15+0.5*g.R.Float64(), g.clampLat, g.clampLon))
	}
	return "[" + strings.Join(rings, ",") + "]"
}

func (g *Gen) multi(f func() string) string {
	n := 1 + g.R.Intn(3)
	var parts []string
	for i := 0; i < n; i++ {
		parts = append(parts, f())
	}
	return "[" + strings.Join(parts, ",") + "]"
}

// Geometry returns a GeoJSON geometry (not a Feature, not a collection of collections) and its kind.
func (g *Gen) Geometry() (string, string) {
	switch g.R.Intn(12) {
	case 0, 1:
		return `{"type":"Point","coordinates":` + g.pointCoords() + `}`, "Point"
	case 2, 3:
		return `{"type":"LineString","coordinates":` + g.lineCoords() + `}`, "LineString"
	case 4, 5, 6:
		return `{"type":"Polygon","coordinates":` + g.polygonCoords() + `}`, "Polygon"
	case 7:
		return `{"type":"MultiPoint","coordinates":` + g.multi(g.pointCoords) + `}`, "MultiPoint"
	case 8:
		return `{"type":"MultiLineString","coordinates":` + g.multi(g.lineCoords) + `}`, "MultiLineString"
	case 9, 10:
		return `{"type":"MultiPolygon","coordinates":` + g.multi(g.polygonCoords) + `}`, "MultiPolygon"
	default:
		n := 1 + g.R.Intn(3)
		var parts []string
		for i := 0; i < n; i++ {
			s, _ := g.simple()
			parts = append(parts, s)
		}
		return `{"type":"GeometryCollection","geometries":[` + strings.Join(parts, ",") + `]}`, "GeometryCollection"
	}
}

func (g *Gen) simple() (string, string) {
	switch g.R.Intn(3) {
	case 0:
		return `{"type":"Point","coordinates":` + g.pointCoords() + `}`, "Point"
	case 1:
		return `{"type":"LineString","coordinates":` + g.lineCoords() + `}`, "LineString"
	default:
		return `{"type":"Polygon","coordinates":` + g.polygonCoords() + `}`, "Polygon"
	}
}

// GeoJSON returns any GeoJSON object: a geometry, a Feature or a FeatureCollection.
func (g *Gen) GeoJSON() (string, string) {
	switch g.R.Intn(10) {
	case 0, 1:
		s, k := g.Geometry()
		id := ""
		if g.R.Intn(2) == 0 {
			id = `,"id":"f` + strconv.Itoa(g.R.Intn(100)) + `"`
		}
		return `{"type":"Feature"` + id + `,"geometry":` + s + `,"properties":{"kind":"` + k + `","n":` + strconv.Itoa(g.R.Intn(10)) + `}}`, "Feature(" + k + ")"
	case 2:
		n := 1 + g.R.Intn(3)
		var parts []string
		for i := 0; i < n; i++ {
			s, _ := g.Geometry()
			parts = append(parts, `{"type":"Feature","geometry":`+s+`,"properties":{}}`)
		}
		return `{"type":"FeatureCollection","features":[` + strings.Join(parts, ",") + `]}`, "FeatureCollection"
	default:
		return g.Geometry()
	}
}

// Rect: a random rectangle minlat, minlon, maxlat, maxlon.
func (g *Gen) Rect() [4]float64 {
	lat, lon := g.Coord()
	var la2, lo2 float64
	if g.R.Intn(4) == 0 {
		la2, lo2 = g.Coord()
	} else {
		ext := g.Extent() * 3
		la2, lo2 = g.near(lat, lon, ext)
	}
	return [4]float64{math.Min(lat, la2), math.Min(lon, lo2), math.Max(lat, la2), math.Max(lon, lo2)}
}

func rectArgs(kind string, r [4]float64) []string {
	return []string{kind, Fmt(r[0]), Fmt(r[1]), Fmt(r[2]), Fmt(r[3])}
}

// ---------------------------------------------------------------- objects

// Object: SET arguments after `SET key id` and the name of the kind.
func (g *Gen) Object() ([]string, string) {
	switch g.R.Intn(16) {
	case 0, 1, 2:
		lat, lon := g.Coord()
		if g.R.Intn(4) == 0 {
			return []string{"POINT", Fmt(lat), Fmt(lon), Fmt(float64(g.R.Intn(500)))}, "POINT-z"
		}
		return []string{"POINT", Fmt(lat), Fmt(lon)}, "POINT"
	case 3, 4:
		return rectArgs("BOUNDS", g.Rect()), "BOUNDS"
	case 5:
		return []string{"STRING", "s" + strconv.Itoa(g.R.Intn(1000))}, "STRING"
	case 6:
		e := []string{`{"type":"GeometryCollection","geometries":[]}`, `{"type":"MultiPoint","coordinates":[]}`,
			`{"type":"FeatureCollection","features":[]}`, `{"type":"MultiPolygon","coordinates":[]}`}
		return []string{"OBJECT", e[g.R.Intn(len(e))]}, "empty-geometry"
	case 7:
		lat, lon := g.Coord()
		if g.R.Intn(4) == 0 {
			// tile38's circle: a Point feature with a radius
			return []string{"OBJECT", `{"type":"Feature","geometry":{"type":"Point","coordinates":` + pos(lat, lon) +
				`},"properties":{"type":"Circle","radius":` + Fmt(g.Meters()) + `,"radius_units":"m"}}`}, "Feature(Circle)"
		}
		return []string{"HASH", geohash.EncodeWithPrecision(lat, lon, uint(1+g.R.Intn(11)))}, "HASH"
	default:
		s, k := g.GeoJSON()
		return []string{"OBJECT", s}, k
	}
}

// ---------------------------------------------------------------- areas

const (
	minMercLat = -85.05112878
	maxMercLat = 85.05112878
)

// tileOf: the slippy-map tile that contains a position (standard web-mercator arithmetic).
func tileOf(lat, lon float64, z int) (x, y int) {
	lat = math.Max(minMercLat, math.Min(maxMercLat, lat))
	n := math.Exp2(float64(z))
	x = int(math.Floor((lon + 180) / 360 * n))
	phi := lat * math.Pi / 180
	y = int(math.Floor((1 - math.Log(math.Tan(phi)+1/math.Cos(phi))/math.Pi) / 2 * n))
	m := int(n) - 1
	if x < 0 {
		x = 0
	}
	if x > m {
		x = m
	}
	if y < 0 {
		y = 0
	}
	if y > m {
		y = m
	}
	return
}

// NamedRect: the rectangle a TILE / QUADKEY / HASH area denotes by the public definition of those names (web-mercator
// tile pyramid, geohash cell) - computed here, not asked from the server - as [minlat minlon maxlat maxlon].
func NamedRect(area []string) (r [4]float64, ok bool) {
	mercLat := func(t float64) float64 { return math.Atan(math.Sinh(math.Pi*(1-2*t))) * 180 / math.Pi }
	tile := func(x, y, z int) [4]float64 {
		n := math.Exp2(float64(z))
		r := [4]float64{mercLat(float64(y+1) / n), float64(x)/n*360 - 180, mercLat(float64(y) / n), float64(x+1)/n*360 - 180}
		if y == 0 {
			r[2] = maxMercLat
		}
		if y == int(n)-1 {
			r[0] = minMercLat
		}
		return r
	}
	switch area[0] {
	case "TILE":
		x, e1 := strconv.Atoi(area[1])
		y, e2 := strconv.Atoi(area[2])
		z, e3 := strconv.Atoi(area[3])
		if e1 != nil || e2 != nil || e3 != nil {
			return r, false
		}
		return tile(x, y, z), true
	case "QUADKEY":
		x, y := 0, 0
		for _, d := range area[1] {
			x, y = x<<1, y<<1
			if d == '1' || d == '3' {
				x |= 1
			}
			if d == '2' || d == '3' {
				y |= 1
			}
		}
		return tile(x, y, len(area[1])), true
	case "HASH":
		b := geohash.BoundingBox(area[1])
		return [4]float64{b.MinLat, b.MinLng, b.MaxLat, b.MaxLng}, true
	}
	return r, false
}

// Inset moves every side of a rectangle inwards (eps > 0) or outwards (eps < 0) by eps of its span, at least 1e-9
// degrees, and keeps it on the globe.
func Inset(r [4]float64, eps float64) [4]float64 {
	d := func(span float64) float64 {
		m := math.Max(math.Abs(eps)*span, 1e-9)
		if eps < 0 {
			return -m
		}
		return m
	}
	dla, dlo := d(r[2]-r[0]), d(r[3]-r[1])
	o := [4]float64{r[0] + dla, r[1] + dlo, r[2] - dla, r[3] - dlo}
	o[0], o[2] = math.Max(o[0], -90), math.Min(o[2], 90)
	o[1], o[3] = math.Max(o[1], -180), math.Min(o[3], 180)
	return o
}

func quadKey(x, y, z int) string {
	var b []byte
	for i := z; i > 0; i-- {
		d := byte('0')
		mask := 1 << (i - 1)
		if x&mask != 0 {
			d++
		}
		if y&mask != 0 {
			d += 2
		}
		b = append(b, d)
	}
	return string(b)
}

// zoomFor picks a zoom level whose tiles are comparable with the region (and sometimes much larger / smaller).
func (g *Gen) zoomFor() int {
	span := math.Max(g.latSpan(), g.lonSpan())
	z := int(math.Round(math.Log2(360 / span)))
	z += g.R.Intn(5) - 1
	if z < 0 {
		z = 0
	}
	if z > 22 {
		z = 22
	}
	return z
}

// RectArea: BOUNDS | HASH | TILE | QUADKEY - the area kinds that are rectangles (also usable after CLIPBY).
func (g *Gen) RectArea() ([]string, string) {
	switch g.R.Intn(7) {
	case 0:
		lat, lon := g.Coord()
		span := math.Max(g.latSpan(), g.lonSpan())
		// geohash cell sizes: 1 char ~ 45 deg, each further char / ~5.6
		chars := 1 + int(math.Max(0, math.Round(math.Log(45/span)/math.Log(5.66))))
		chars += g.R.Intn(3) - 1
		if chars < 1 {
			chars = 1
		}
		if chars > 12 {
			chars = 12
		}
		return []string{"HASH", geohash.EncodeWithPrecision(lat, lon, uint(chars))}, "HASH"
	case 1:
		lat, lon := g.Coord()
		z := g.zoomFor()
		x, y := tileOf(lat, lon, z)
		return []string{"TILE", strconv.Itoa(x), strconv.Itoa(y), strconv.Itoa(z)}, "TILE"
	case 2:
		lat, lon := g.Coord()
		z := g.zoomFor()
		if z < 1 {
			z = 1
		}
		x, y := tileOf(lat, lon, z)
		return []string{"QUADKEY", quadKey(x, y, z)}, "QUADKEY"
	default:
		return rectArgs("BOUNDS", g.Rect()), "BOUNDS"
	}
}

// Meters: a radius, log-uniform up to the region's maximum.
func (g *Gen) Meters() float64 {
	lo := g.Reg.MaxMeters * 1e-4
	m := lo * math.Pow(g.Reg.MaxMeters/lo, g.R.Float64())
	if g.R.Intn(3) == 0 {
		m = math.Round(m*10) / 10
	}
	return m
}

// Area: any area kind the property lists (without CLIPBY).  refs: (key, id) pairs usable for GET.
func (g *Gen) Area(refs [][2]string) ([]string, string) {
	reuse, large := g.Reuse, g.Large
	g.Reuse, g.Large = 0.6, g.R.Intn(3) > 0
	defer func() { g.Reuse, g.Large = reuse, large }()
	switch k := g.R.Intn(20); {
	case k < 4:
		return g.RectArea()
	case k < 8:
		lat, lon := g.Coord()
		return []string{"CIRCLE", Fmt(lat), Fmt(lon), Fmt(g.Meters())}, "CIRCLE"
	case k < 10:
		lat, lon := g.Coord()
		b1 := float64(g.R.Intn(360))
		b2 := b1 + 5 + float64(g.R.Intn(300))
		if g.R.Intn(2) == 0 {
			b1 += g.R.Float64()
		}
		return []string{"SECTOR", Fmt(lat), Fmt(lon), Fmt(g.Meters()), Fmt(b1), Fmt(b2)}, "SECTOR"
	case k < 13 && len(refs) > 0:
		r := refs[g.R.Intn(len(refs))]
		return []string{"GET", r[0], r[1]}, "GET"
	case k < 14:
		lat, lon := g.Coord()
		return []string{"POINT", Fmt(lat), Fmt(lon)}, "POINT"
	default:
		s, kind := g.GeoJSON()
		return []string{"OBJECT", s}, "OBJECT(" + kind + ")"
	}
}

var _ = fmt.Sprint
