package spatial

// record.go: code -> model, black box.  A run drives one real server over a
// socket through a random history (inserts, overwrites that change the kind
// of geometry, moves, deletes, DROP, RENAME, bursts of filler objects that
// make the R-tree split and condense) and, in between, issues WITHIN /
// INTERSECTS queries with areas of every kind (BOUNDS, CIRCLE, SECTOR, TILE,
// QUADKEY, HASH, GET, OBJECT, POINT; optionally CLIPBY; optionally SPARSE).
// For every query it records the ids the search returned and - the
// property's own oracle - for EVERY id of the collection the answer of
//     TEST GET key id WITHIN|INTERSECTS <the same area>
// which evaluates the same predicate on the same stored object without any
// index.  A CLIPBY'd area is obtained from the server itself:
//     TEST <area> INTERSECTS CLIP <rectangle>   returns clip.Clip(area, rectangle),
// the very function the search applies; the returned GeoJSON is the TEST area.
// The NDJSON trace is validated by TLC with spec/SpatialTrace.tla; this file
// decides nothing.

import (
	"encoding/json"
	"fmt"
	"math/rand"
	"net"
	"os"
	"sort"
	"strconv"
	"strings"
	"time"

	"github.com/tidwall/tile38/verifharness/t38"
)

// Event is one line of the trace (every field is always present: TLC reads records).
type Event struct {
	E       string `json:"e"`   // reset | set | del | drop | rename | q
	Run     int    `json:"run"` // run number
	K       int    `json:"k"`   // key number
	To      int    `json:"to"`  // rename target
	IDs     []int  `json:"ids"` // set / del
	Lo      int    `json:"lo"`  // set / del of the id range lo..hi (bulk), 0,-1 = none
	Hi      int    `json:"hi"`
	Cmd     string `json:"cmd"`     // within | intersects
	Sparse  int    `json:"sparse"`  // 0 = not sparse
	Res     []int  `json:"res"`     // ids returned by the search, in order
	Tested  []int  `json:"tested"`  // ids for which the predicate was evaluated ...
	NTested int    `json:"ntested"` // ... or, when the list is too long to log, how many (-1: the list is given)
	Yes     []int  `json:"yes"`     // ids for which the predicate holds
	Q       int    `json:"q"`       // query number within the trace (for diagnostics)
}

func newEvent(e string, run int) Event {
	return Event{E: e, Run: run, IDs: []int{}, Lo: 0, Hi: -1, Res: []int{}, Tested: []int{}, NTested: -1, Yes: []int{}}
}

// QueryInfo describes a recorded query for humans (kept outside the trace).
type QueryInfo struct {
	Q      int    `json:"q"`
	Run    int    `json:"run"`
	Region string `json:"region"`
	Search string `json:"search"`
	Test   string `json:"test"`
	Kind   string `json:"kind"`
	N      int    `json:"n"`
	// kinds of the objects the search returned or the predicate accepts (omitted when there are many)
	Kinds map[int]string `json:"kinds,omitempty"`
}

// RecStats counts what a recording did.
type RecStats struct {
	Runs         int            `json:"runs"`
	Ops          map[string]int `json:"ops"`
	Kinds        map[string]int `json:"object_kinds"`
	Queries      int            `json:"queries"`
	Tests        int            `json:"test_commands"`
	ByArea       map[string]int `json:"queries_by_area_kind"`
	ByCmd        map[string]int `json:"queries_by_command"`
	Clipped      int            `json:"clipby_queries"`
	ClipDisjoint int            `json:"clipby_skipped_area_disjoint_from_rectangle"`
	Sparse       int            `json:"sparse_queries"`
	NonEmpty     int            `json:"queries_with_matches"`
	Matches      int            `json:"matches_total"`
	Skipped      map[string]int `json:"skipped"`
	Hung         []string       `json:"commands_never_answered"`
	MaxLive      int            `json:"max_objects_alive"`
	FillerBursts int            `json:"filler_bursts"`
	FillerOps    int            `json:"filler_ops"`
	ByRegion     map[string]int `json:"queries_by_region"`
	Named        int            `json:"named_cells_compared_with_their_rectangle"`
}

func NewRecStats() *RecStats {
	return &RecStats{Ops: map[string]int{}, Kinds: map[string]int{}, ByArea: map[string]int{}, ByCmd: map[string]int{},
		Skipped: map[string]int{}, ByRegion: map[string]int{}}
}

func (s *RecStats) Add(o *RecStats) {
	s.Runs += o.Runs
	s.Queries += o.Queries
	s.Tests += o.Tests
	s.Clipped += o.Clipped
	s.ClipDisjoint += o.ClipDisjoint
	s.Sparse += o.Sparse
	s.NonEmpty += o.NonEmpty
	s.Matches += o.Matches
	s.FillerBursts += o.FillerBursts
	s.FillerOps += o.FillerOps
	s.Hung = append(s.Hung, o.Hung...)
	if o.MaxLive > s.MaxLive {
		s.MaxLive = o.MaxLive
	}
	addMap(s.Ops, o.Ops)
	addMap(s.Kinds, o.Kinds)
	addMap(s.ByArea, o.ByArea)
	addMap(s.ByCmd, o.ByCmd)
	addMap(s.Skipped, o.Skipped)
	addMap(s.ByRegion, o.ByRegion)
	s.Named += o.Named
}

// hungError: a query or TEST command that the server did not answer within queryPatience.
type hungError struct{ cmd string }

func (e *hungError) Error() string { return "no reply to " + e.cmd }

// queryPatience bounds the wait for the reply to ONE search / TEST command (they take milliseconds).
const queryPatience = 45 * time.Second

func isTimeout(err error) bool {
	ne, ok := err.(net.Error)
	return ok && ne.Timeout()
}

// RecOptions of one run.
type RecOptions struct {
	Seed    int64
	Run     int
	Ops     int // history length
	Pool    int // ids in play
	Burst   int // size of a filler burst
	Dir     string
	OnlyOps bool
}

type recorder struct {
	o     RecOptions
	c     *t38.Conn
	rng   *rand.Rand
	g     *Gen
	ev    []Event
	info  []QueryInfo
	st    *RecStats
	keys  []string       // key names, index = key number - 1
	cur   int            // key number that currently holds the main collection
	live  map[int]string // id number -> kind (main collection), as set by this recorder
	refs  map[int]string // ids in the reference collection (key number 3) -> kind
	nextQ *int
}

func idName(n int) string { return "o" + strconv.Itoa(n) }

const refKeyNum = 3

// RecordRun records one run against a fresh server.  qbase numbers the queries.
func RecordRun(o RecOptions, qbase *int) ([]Event, []QueryInfo, *RecStats, error) {
	srv, err := t38.Start(t38.Options{Dir: fmt.Sprintf("%s/rec%d", o.Dir, o.Run), NoAOF: true})
	if err != nil {
		return nil, nil, nil, err
	}
	defer srv.StopAndRemove()
	c, err := srv.Dial()
	if err != nil {
		return nil, nil, nil, err
	}
	defer c.Close()
	c.Timeout = 3 * time.Minute
	rng := rand.New(rand.NewSource(o.Seed*7919 + int64(o.Run)*104729 + 17))
	reg := Regions[o.Run%len(Regions)]
	r := &recorder{o: o, c: c, rng: rng, g: &Gen{R: rng, Reg: reg, Reuse: 0.15}, st: NewRecStats(),
		keys: []string{"c02:main", "c02:moved", "c02:ref"}, cur: 1, live: map[int]string{}, refs: map[int]string{}, nextQ: qbase}
	r.st.Runs = 1
	r.ev = append(r.ev, newEvent("reset", o.Run))
	// a few reference objects for GET areas
	for i := 0; i < 6; i++ {
		if err := r.setRef(1000 + i); err != nil {
			return nil, nil, nil, err
		}
	}
	for n := 0; n < o.Ops; n++ {
		if err := r.step(n); err != nil {
			if he, ok := err.(*hungError); ok {
				// the server computes forever on this command (it still holds its lock): the run ends here,
				// what was recorded before stands; the command is reported, it is not part of the trace
				r.st.Hung = append(r.st.Hung, fmt.Sprintf("run %d (%s) op %d: %s", o.Run, reg.Name, n, he.cmd))
				break
			}
			return nil, nil, nil, fmt.Errorf("run %d (%s) op %d: %v", o.Run, reg.Name, n, err)
		}
	}
	return r.ev, r.info, r.st, nil
}

func (r *recorder) key() string { return r.keys[r.cur-1] }

// cmdLog (debugging aid): when VERIF_C02_CMDLOG names a file, every object-changing command is appended to it.
func cmdLog(args []string) {
	if p := os.Getenv("VERIF_C02_CMDLOG"); p != "" {
		if f, err := os.OpenFile(p, os.O_APPEND|os.O_CREATE|os.O_WRONLY, 0o644); err == nil {
			f.WriteString(strings.Join(args, "|") + "\n")
			f.Close()
		}
	}
}

func (r *recorder) do(args ...string) (t38.Value, error) {
	cmdLog(args)
	v, err := r.c.Do(args...)
	if err != nil {
		return v, err
	}
	if v.Kind == '-' {
		return v, fmt.Errorf("%q answered %s", strings.Join(args, " "), v.String())
	}
	return v, nil
}

func (r *recorder) setRef(n int) error {
	args, kind := r.g.Object()
	if _, err := r.do(append([]string{"SET", r.keys[refKeyNum-1], idName(n)}, args...)...); err != nil {
		return err
	}
	e := newEvent("set", r.o.Run)
	e.K, e.IDs = refKeyNum, []int{n}
	r.ev = append(r.ev, e)
	r.refs[n] = kind
	return nil
}

func (r *recorder) set(n int) error {
	args, kind := r.g.Object()
	if _, err := r.do(append([]string{"SET", r.key(), idName(n)}, args...)...); err != nil {
		return err
	}
	e := newEvent("set", r.o.Run)
	e.K, e.IDs = r.cur, []int{n}
	r.ev = append(r.ev, e)
	prev, had := r.live[n]
	r.live[n] = kind
	switch {
	case !had:
		r.st.Ops["insert"]++
	case prev == kind:
		r.st.Ops["overwrite-same-kind"]++
	default:
		r.st.Ops["overwrite-other-kind"]++
	}
	r.st.Kinds[kind]++
	if len(r.live) > r.st.MaxLive {
		r.st.MaxLive = len(r.live)
	}
	return nil
}

func (r *recorder) liveIDs() []int {
	ids := make([]int, 0, len(r.live))
	for n := range r.live {
		ids = append(ids, n)
	}
	sort.Ints(ids)
	return ids
}

func (r *recorder) step(n int) error {
	switch k := r.rng.Intn(100); {
	case k < 34 || len(r.live) < 4:
		return r.set(1 + r.rng.Intn(r.o.Pool))
	case k < 42:
		// overwrite an existing id (mostly changes the kind, always the place)
		ids := r.liveIDs()
		return r.set(ids[r.rng.Intn(len(ids))])
	case k < 52:
		ids := r.liveIDs()
		id := ids[r.rng.Intn(len(ids))]
		if _, err := r.do("DEL", r.key(), idName(id)); err != nil {
			return err
		}
		delete(r.live, id)
		e := newEvent("del", r.o.Run)
		e.K, e.IDs = r.cur, []int{id}
		r.ev = append(r.ev, e)
		r.st.Ops["delete"]++
		return nil
	case k < 53:
		if _, err := r.do("DROP", r.key()); err != nil {
			return err
		}
		r.live = map[int]string{}
		e := newEvent("drop", r.o.Run)
		e.K = r.cur
		r.ev = append(r.ev, e)
		r.st.Ops["drop"]++
		return nil
	case k < 55:
		to := 3 - r.cur
		if _, err := r.do("RENAME", r.key(), r.keys[to-1]); err != nil {
			return err
		}
		e := newEvent("rename", r.o.Run)
		e.K, e.To = r.cur, to
		r.ev = append(r.ev, e)
		r.cur = to
		r.st.Ops["rename"]++
		return nil
	case k < 58:
		return r.burst()
	case k < 60:
		return r.setRef(1000 + r.rng.Intn(12))
	default:
		if r.o.OnlyOps {
			return nil
		}
		return r.query()
	}
}

// burst: many filler objects are inserted and most of them deleted again, in random order: node splits
// on the way up, condensing on the way down.  Every one of them is part of the logged history.
func (r *recorder) burst() error {
	n := r.o.Burst/2 + r.rng.Intn(r.o.Burst/2+1)
	base := 100000 + r.st.FillerBursts*10000
	var cmds [][]string
	ids := make([]int, n)
	for i := 0; i < n; i++ {
		ids[i] = base + i
		var args []string
		if r.rng.Intn(4) == 0 {
			args = rectArgs("BOUNDS", r.g.Rect())
		} else {
			lat, lon := r.g.Coord()
			args = []string{"POINT", Fmt(lat), Fmt(lon)}
		}
		cmds = append(cmds, append([]string{"SET", r.key(), idName(ids[i])}, args...))
	}
	keep := r.rng.Intn(8)
	r.rng.Shuffle(n, func(i, j int) { ids[i], ids[j] = ids[j], ids[i] })
	var gone []int
	for _, id := range ids[:n-keep] {
		cmds = append(cmds, []string{"DEL", r.key(), idName(id)})
		gone = append(gone, id)
	}
	if os.Getenv("VERIF_C02_CMDLOG") != "" {
		for _, c := range cmds {
			cmdLog(c)
		}
	}
	vs, err := pipeline(r.c, cmds)
	if err != nil {
		return err
	}
	for i, v := range vs {
		if v.Kind == '-' {
			return fmt.Errorf("%q answered %s", strings.Join(cmds[i], " "), v.String())
		}
	}
	e := newEvent("set", r.o.Run)
	e.K, e.Lo, e.Hi = r.cur, base, base+n-1
	r.ev = append(r.ev, e)
	d := newEvent("del", r.o.Run)
	d.K, d.IDs = r.cur, gone
	sort.Ints(d.IDs)
	r.ev = append(r.ev, d)
	for _, id := range ids[n-keep:] {
		r.live[id] = "filler"
	}
	if len(r.live) > r.st.MaxLive {
		r.st.MaxLive = len(r.live)
	}
	r.st.FillerBursts++
	r.st.FillerOps += len(cmds)
	r.st.Ops["filler-burst"]++
	return nil
}

// testArea turns the search area (possibly followed by CLIPBY rectangles) into the area TEST gets.
// ok=false: the area has no TEST equivalent (the rectangle cuts everything away).
func (r *recorder) testArea(area []string, clips [][]string) (test []string, ok bool, err error) {
	test = area
	for _, c := range clips {
		args := append([]string{"TEST"}, test...)
		args = append(args, "INTERSECTS", "CLIP")
		args = append(args, c...)
		v, err := r.c.Do(args...)
		if err != nil {
			if isTimeout(err) {
				return nil, false, &hungError{strings.Join(args, " ")}
			}
			return nil, false, err
		}
		r.st.Tests++
		switch {
		case v.Kind == ':' && v.Int == 0:
			return nil, false, nil
		case v.Kind == '*' && len(v.Arr) == 2 && v.Arr[0].Kind == ':' && v.Arr[0].Int == 1 && v.Arr[1].Kind == '$':
			test = []string{"OBJECT", v.Arr[1].Str}
		default:
			return nil, false, fmt.Errorf("%q answered %s", strings.Join(args, " "), v.String())
		}
	}
	return test, true, nil
}

func (r *recorder) refsList() [][2]string {
	var out [][2]string
	for n := range r.refs {
		out = append(out, [2]string{r.keys[refKeyNum-1], idName(n)})
	}
	for n, k := range r.live {
		if k != "filler" {
			out = append(out, [2]string{r.key(), idName(n)})
		}
	}
	sort.Slice(out, func(i, j int) bool { return out[i][0]+out[i][1] < out[j][0]+out[j][1] })
	return out
}

func (r *recorder) query() error {
	r.c.Timeout = queryPatience
	defer func() { r.c.Timeout = 3 * time.Minute }()
	area, kind := r.g.Area(r.refsList())
	if area[0] == "GET" {
		// the area is whatever the referenced object is
		n, _ := strconv.Atoi(strings.TrimPrefix(area[2], "o"))
		if area[1] == r.keys[refKeyNum-1] {
			kind = "GET(" + r.refs[n] + ")"
		} else {
			kind = "GET(" + r.live[n] + ")"
		}
	}
	// a named cell: every other time four points are first placed just inside its borders (a thousandth of its span)
	if rect, named := NamedRect(area); named && r.rng.Intn(2) == 0 {
		mla, mlo := (rect[0]+rect[2])/2, (rect[1]+rect[3])/2
		dla, dlo := (rect[2]-rect[0])/1000, (rect[3]-rect[1])/1000
		for _, p := range [][2]float64{{rect[0] + dla, mlo}, {rect[2] - dla, mlo}, {mla, rect[1] + dlo}, {mla, rect[3] - dlo}} {
			n := 1 + r.rng.Intn(r.o.Pool)
			if _, err := r.do("SET", r.key(), idName(n), "POINT", Fmt(p[0]), Fmt(p[1])); err != nil {
				return err
			}
			e := newEvent("set", r.o.Run)
			e.K, e.IDs = r.cur, []int{n}
			r.ev = append(r.ev, e)
			r.live[n] = "POINT-border"
			r.st.Kinds["POINT-border"]++
		}
		if len(r.live) > r.st.MaxLive {
			r.st.MaxLive = len(r.live)
		}
	}
	var clips [][]string
	clipName := ""
	// (a stored line is not clipped: WITHIN of a line against a partial copy of itself never returns - a loop in the
	// geometry library's line-in-line test, `TEST OBJECT line WITHIN OBJECT prefix-of-that-line`; it would stall the driver)
	selfLine := area[0] == "GET" && (strings.Contains(kind, "Line") || strings.Contains(kind, "Collection"))
	if r.rng.Intn(4) == 0 && !selfLine {
		n := 1 + r.rng.Intn(4)/3
		reuse, large := r.g.Reuse, r.g.Large
		r.g.Reuse, r.g.Large = 0.8, true
		defer func() { r.g.Reuse, r.g.Large = reuse, large }()
		for i := 0; i < n; i++ {
			c, ck := r.g.RectArea()
			clips = append(clips, c)
			clipName += "+CLIPBY-" + ck
		}
	}
	cmdName := []string{"within", "intersects"}[r.rng.Intn(2)]
	sparse := 0
	if r.rng.Intn(6) == 0 {
		sparse = 1 + r.rng.Intn(5)
	}
	search := []string{strings.ToUpper(cmdName), r.key()}
	if sparse > 0 {
		search = append(search, "SPARSE", strconv.Itoa(sparse))
	} else {
		search = append(search, "LIMIT", bigLimit)
	}
	search = append(search, "IDS")
	search = append(search, area...)
	for _, c := range clips {
		search = append(search, "CLIPBY")
		search = append(search, c...)
	}
	test, ok, err := r.testArea(area, clips)
	if err != nil {
		return err
	}
	if !ok {
		r.st.ClipDisjoint++
		return nil
	}
	v, err := r.c.Do(search...)
	if err != nil {
		if isTimeout(err) {
			return &hungError{strings.Join(search, " ")}
		}
		return err
	}
	if v.Kind == '-' {
		// the area is not acceptable to the search (e.g. a degenerate sector): not a query
		r.st.Skipped["search-error:"+firstWords(v.Str, 3)]++
		return nil
	}
	got, err := replyIDs(v)
	if err != nil {
		return fmt.Errorf("%q: %v", strings.Join(search, " "), err)
	}
	ids := r.liveIDs()
	cmds := make([][]string, len(ids))
	for i, id := range ids {
		cmds[i] = append([]string{"TEST", "GET", r.key(), idName(id), strings.ToUpper(cmdName)}, test...)
	}
	vs, err := pipeline(r.c, cmds)
	if err != nil {
		if isTimeout(err) {
			return &hungError{fmt.Sprintf("one of %d commands like %s", len(cmds), strings.Join(cmds[0], " "))}
		}
		return err
	}
	r.st.Tests += len(cmds)
	e := newEvent("q", r.o.Run)
	e.K, e.Cmd, e.Sparse, e.Tested = r.cur, cmdName, sparse, ids
	for i, tv := range vs {
		switch {
		case tv.Kind == ':' && tv.Int == 1:
			e.Yes = append(e.Yes, ids[i])
		case tv.Kind == ':' && tv.Int == 0:
		default:
			if tv.Kind == '-' && i == 0 {
				r.st.Skipped["test-error:"+firstWords(tv.Str, 3)]++
				return nil
			}
			return fmt.Errorf("%q answered %s", strings.Join(cmds[i], " "), tv.String())
		}
	}
	for _, s := range got {
		n, err := strconv.Atoi(strings.TrimPrefix(s, "o"))
		if err != nil || !strings.HasPrefix(s, "o") {
			n = -1 // an id nobody ever set
		}
		e.Res = append(e.Res, n)
	}
	*r.nextQ++
	e.Q = *r.nextQ
	r.ev = append(r.ev, e)
	kinds := map[int]string{}
	for _, l := range [][]int{e.Yes, e.Res} {
		for _, id := range l {
			if len(kinds) < 1<<30 {
				kinds[id] = r.live[id]
			}
		}
	}
	r.info = append(r.info, QueryInfo{Q: e.Q, Run: r.o.Run, Region: r.g.Reg.Name, Search: strings.Join(search, " "),
		Test: "TEST GET " + r.key() + " <id> " + strings.ToUpper(cmdName) + " " + strings.Join(test, " "), Kind: kind + clipName, N: len(ids), Kinds: kinds})
	r.st.Queries++
	if strings.HasPrefix(kind, "GET(") {
		r.st.ByArea["GET"]++
	} else {
		r.st.ByArea[kind]++
	}
	r.st.ByCmd[cmdName]++
	r.st.ByRegion[r.g.Reg.Name]++
	if len(clips) > 0 {
		r.st.Clipped++
		r.st.ByArea["CLIPBY"]++
	}
	if sparse > 0 {
		r.st.Sparse++
	}
	if len(e.Yes) > 0 {
		r.st.NonEmpty++
		r.st.Matches += len(e.Yes)
	}
	// a named cell (TILE, QUADKEY, HASH) is the rectangle its public definition says: the search with the name returns
	// at least what the search with that rectangle moved slightly inwards returns, at most what it returns moved outwards
	if rect, named := NamedRect(area); named && len(clips) == 0 && sparse == 0 {
		in, out := Inset(rect, 1e-6), Inset(rect, -1e-6)
		if in[0] < in[2] && in[1] < in[3] {
			qb := newEvent("qb", r.o.Run)
			qb.K, qb.Cmd, qb.Res = r.cur, cmdName, e.Res
			for i, rc := range [][4]float64{in, out} {
				bs := append([]string{strings.ToUpper(cmdName), r.key(), "LIMIT", bigLimit, "IDS"}, rectArgs("BOUNDS", rc)...)
				bv, err := r.c.Do(bs...)
				if err != nil {
					if isTimeout(err) {
						return &hungError{strings.Join(bs, " ")}
					}
					return err
				}
				bids, err := replyIDs(bv)
				if err != nil {
					return fmt.Errorf("%q: %v", strings.Join(bs, " "), err)
				}
				var ns []int
				for _, s := range bids {
					n, err := strconv.Atoi(strings.TrimPrefix(s, "o"))
					if err != nil || !strings.HasPrefix(s, "o") {
						n = -1
					}
					ns = append(ns, n)
				}
				if ns == nil {
					ns = []int{}
				}
				if i == 0 {
					qb.Yes = ns
				} else {
					qb.Tested = ns
				}
			}
			*r.nextQ++
			qb.Q = *r.nextQ
			r.ev = append(r.ev, qb)
			r.info = append(r.info, QueryInfo{Q: qb.Q, Run: r.o.Run, Region: r.g.Reg.Name, Search: strings.Join(search, " "),
				Test: "the same search with BOUNDS " + strings.Join(rectArgs("", in)[1:], " ") + " (inside the named cell) and BOUNDS " +
					strings.Join(rectArgs("", out)[1:], " ") + " (around it)", Kind: kind + "=rectangle", N: len(ids), Kinds: map[int]string{}})
			r.st.Named++
		}
	}
	return nil
}

func firstWords(s string, n int) string {
	f := strings.Fields(s)
	if len(f) > n {
		f = f[:n]
	}
	return strings.Join(f, " ")
}

// MarshalEvents renders events as NDJSON.
func MarshalEvents(evs []Event) ([]byte, error) {
	var out []byte
	for _, e := range evs {
		b, err := json.Marshal(e)
		if err != nil {
			return nil, err
		}
		out = append(out, b...)
		out = append(out, '\n')
	}
	return out, nil
}
