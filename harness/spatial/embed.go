// Package spatial binds spec/Spatial*.tla (C02) to the real code.
//
// embed.go: order-preserving embeddings of the integer grid of the
// specification into float64 coordinates.  This is independent mathematics
// (IEEE-754 binary32 / binary64 rounding), not tile38 semantics: for every
// axis the file computes the concrete coordinate of every cell and which
// cells a float32 can represent exactly - the CONSTANTS CoarseX / CoarseY the
// specification is checked with.
package spatial

import (
	"fmt"
	"math"
	"strconv"
)

// Axis places the cells ..., -2, -1, 0, 1, ..., N, N+1, ... of one axis.
type Axis struct {
	Name   string  `json:"name"`
	Family string  `json:"family"` // mid | alt | rep | zero | wide
	Anchor float64 `json:"anchor"`
	Step   float64 `json:"step"`   // distance between neighbouring cells
	Origin float64 `json:"origin"` // coordinate of cell 0
	Margin int     `json:"margin"` // cells -Margin..N+Margin exist (near fillers live outside 0..N)
}

// At is the coordinate of cell j (exact: Origin and Step are chosen so that no rounding occurs).
func (a *Axis) At(j int) float64 { return a.Origin + float64(j)*a.Step }

// nextUp32 is the float32 following f in numeric order.
func nextUp32(f float32) float32 { return math.Nextafter32(f, float32(math.Inf(1))) }

// below32 is the greatest float32 that is <= v.
func below32(v float64) float32 {
	f := float32(v)
	if float64(f) > v {
		f = math.Nextafter32(f, float32(math.Inf(-1)))
	}
	return f
}

// Representable tells whether a float32 holds v exactly.
func Representable(v float64) bool { return float64(float32(v)) == v }

// NewAxis builds an axis of the given family around the anchor for cells 0..n.
//
//	mid   all cells (and the margin) lie strictly inside ONE float32 gap and straddle its rounding midpoint:
//	      no cell is representable, float32(x) rounds the lower cells down and the upper cells up
//	alt   neighbouring cells are half a float32 ulp apart, cell 0 is representable: even cells are, odd are not
//	rep   every cell is representable (one ulp apart)
//	zero  cell 1 is 0.0, cell 0 is negative, the others positive, all within the smallest float32 subnormal
//	wide  ordinary coordinates, `step` degrees apart, not representable
func NewAxis(name, family string, anchor float64, n int, step float64) (*Axis, error) {
	a := &Axis{Name: name, Family: family, Anchor: anchor, Margin: 24}
	switch family {
	case "mid":
		f0 := below32(anchor)
		f1 := nextUp32(f0)
		ulp := float64(f1) - float64(f0)
		m := float64(f0) + ulp/2
		a.Step = ulp / 256
		// cells at m + (2j - n) * Step/2: straddle the midpoint symmetrically
		a.Origin = m - float64(n)*a.Step/2
	case "alt":
		f0 := below32(anchor)
		f1 := nextUp32(f0)
		a.Step = (float64(f1) - float64(f0)) / 2
		a.Origin = float64(f0)
		a.Margin = 6
	case "rep":
		f0 := below32(anchor)
		f1 := nextUp32(f0)
		a.Step = float64(f1) - float64(f0)
		a.Origin = float64(f0)
		a.Margin = 6
	case "zero":
		a.Step = math.Ldexp(1, -158) // 2^-9 of the smallest float32 subnormal (2^-149)
		a.Origin = -a.Step
	case "wide":
		a.Step = step
		a.Origin = anchor
		a.Margin = 1
	default:
		return nil, fmt.Errorf("unknown axis family %q", family)
	}
	// self-check: strictly increasing, exactly representable in float64 as origin + j*step, decimal round trip
	prev := math.Inf(-1)
	for j := -a.Margin; j <= n+a.Margin; j++ {
		v := a.At(j)
		if !(v > prev) || math.IsInf(v, 0) || math.IsNaN(v) {
			return nil, fmt.Errorf("axis %s: cell %d not above cell %d (%v, %v)", name, j, j-1, v, prev)
		}
		if family != "wide" && j > -a.Margin && v-prev != a.Step {
			return nil, fmt.Errorf("axis %s: spacing of cell %d is not exact", name, j)
		}
		back, err := strconv.ParseFloat(Fmt(v), 64)
		if err != nil || back != v {
			return nil, fmt.Errorf("axis %s: %v does not survive the decimal round trip", name, v)
		}
		prev = v
	}
	return a, nil
}

// Fmt renders a coordinate as the shortest decimal that parses back to the same float64.
func Fmt(v float64) string { return strconv.FormatFloat(v, 'g', -1, 64) }

// Coarse is the abstract image of float32 on the cells -1..n+1 of the axis: the cells that are
// representable, provided the float32 values that are NOT cells all lie outside the cells 0..n or
// can be identified with the cells -1 / n+1.  ok=false when the axis has float32 values strictly
// between two of its cells 0..n that are not cells themselves (family wide): the specification's
// grid cannot express it and the axis takes no part in the design runs.
func (a *Axis) Coarse(n int) (cells []int, ok bool, why string) {
	var rep []int
	for j := 0; j <= n; j++ {
		if Representable(a.At(j)) {
			rep = append(rep, j)
		}
	}
	// float32 values strictly between neighbouring cells?
	for j := 0; j < n; j++ {
		lo, hi := a.At(j), a.At(j+1)
		f := nextUp32(below32(lo))
		if float64(f) > lo && float64(f) < hi {
			return nil, false, fmt.Sprintf("float32 value %v lies strictly between cells %d and %d", f, j, j+1)
		}
	}
	// -1 and n+1 stand for "the nearest float32 below cell 0 / above cell n" unless the border cell is representable
	cells = append(cells, -1)
	cells = append(cells, rep...)
	cells = append(cells, n+1)
	return cells, true, ""
}

// Facts are measured properties of an axis (reported as evidence, checked by the caller).
type Facts struct {
	Representable []bool    `json:"representable"` // per cell 0..n
	Cells         []float64 `json:"cells"`
	RoundsDown    []bool    `json:"float32_rounds_down"` // float32(x) < x
	RoundsUp      []bool    `json:"float32_rounds_up"`   // float32(x) > x
	SameGap       bool      `json:"all_cells_in_one_float32_gap"`
}

func (a *Axis) Facts(n int) Facts {
	var f Facts
	f.SameGap = true
	for j := 0; j <= n; j++ {
		v := a.At(j)
		f.Cells = append(f.Cells, v)
		f.Representable = append(f.Representable, Representable(v))
		f.RoundsDown = append(f.RoundsDown, float64(float32(v)) < v)
		f.RoundsUp = append(f.RoundsUp, float64(float32(v)) > v)
		if below32(v) != below32(a.At(0)) || Representable(v) {
			f.SameGap = false
		}
	}
	return f
}

// Embedding is a pair of axes: X = longitude, Y = latitude.
type Embedding struct {
	Name    string `json:"name"`
	X       *Axis  `json:"x"`
	Y       *Axis  `json:"y"`
	N       int    `json:"n"` // cells 0..N on both axes
	CoarseX []int  `json:"coarse_x"`
	CoarseY []int  `json:"coarse_y"`
	HasGrid bool   `json:"has_coarse_grid"` // CoarseX/CoarseY are meaningful
	FactsX  Facts  `json:"facts_x"`
	FactsY  Facts  `json:"facts_y"`
}

type axisSpec struct {
	family string
	anchor float64
	step   float64
}

// embeddings: latitude axis, longitude axis
var embeddingSpecs = []struct {
	name     string
	lat, lon axisSpec
}{
	{"mid-phoenix", axisSpec{"mid", 33.4, 0}, axisSpec{"mid", -115.5, 0}},
	{"mid-northpole-antimeridian", axisSpec{"mid", 89.9, 0}, axisSpec{"mid", 179.9, 0}},
	{"mid-southpole-antimeridian", axisSpec{"mid", -89.9, 0}, axisSpec{"mid", -179.9, 0}},
	{"alt-equator", axisSpec{"alt", 0.7, 0}, axisSpec{"alt", -0.7, 0}},
	{"zero-zero", axisSpec{"zero", 0, 0}, axisSpec{"zero", 0, 0}},
	{"tiny-subnormal", axisSpec{"mid", 1e-40, 0}, axisSpec{"mid", -1e-40, 0}},
	{"tiny-subnormal-alt", axisSpec{"mid", 3e-42, 0}, axisSpec{"alt", 7e-45, 0}},
	{"rep-mid", axisSpec{"rep", 45, 0}, axisSpec{"mid", 90.000001, 0}},
	{"alt-highlat", axisSpec{"alt", -89.99999, 0}, axisSpec{"alt", 179.99999, 0}},
	{"mid-edge", axisSpec{"mid", 89.999999, 0}, axisSpec{"mid", -179.999999, 0}},
	{"wide-world", axisSpec{"wide", -60.123456789, 17.3}, axisSpec{"wide", -130.987654321, 37.7}},
	{"wide-city", axisSpec{"wide", 51.4700123, 0.0137}, axisSpec{"wide", -0.1300456, 0.0213}},
}

// Embeddings builds every embedding for a grid 0..n.
func Embeddings(n int) ([]*Embedding, error) {
	var out []*Embedding
	for _, s := range embeddingSpecs {
		if s.lat.family == "wide" && (s.lat.anchor+float64(n+2)*s.lat.step > 90 || s.lon.anchor+float64(n+2)*s.lon.step > 180) {
			return nil, fmt.Errorf("embedding %s leaves the globe for n=%d", s.name, n)
		}
		y, err := NewAxis("lat", s.lat.family, s.lat.anchor, n, s.lat.step)
		if err != nil {
			return nil, fmt.Errorf("%s: %v", s.name, err)
		}
		x, err := NewAxis("lon", s.lon.family, s.lon.anchor, n, s.lon.step)
		if err != nil {
			return nil, fmt.Errorf("%s: %v", s.name, err)
		}
		e := &Embedding{Name: s.name, X: x, Y: y, N: n, FactsX: x.Facts(n), FactsY: y.Facts(n)}
		cx, okx, _ := x.Coarse(n)
		cy, oky, _ := y.Coarse(n)
		if okx && oky {
			e.CoarseX, e.CoarseY, e.HasGrid = cx, cy, true
		}
		// family claims
		for _, ax := range []struct {
			a *Axis
			f Facts
		}{{x, e.FactsX}, {y, e.FactsY}} {
			switch ax.a.Family {
			case "mid":
				if !ax.f.SameGap {
					return nil, fmt.Errorf("%s/%s: cells are not inside one float32 gap", s.name, ax.a.Name)
				}
				if n >= 1 && !(ax.f.RoundsDown[0] && ax.f.RoundsUp[n]) {
					return nil, fmt.Errorf("%s/%s: cells do not straddle the rounding midpoint", s.name, ax.a.Name)
				}
			case "alt":
				for j := 0; j <= n; j++ {
					if ax.f.Representable[j] != (j%2 == 0) {
						return nil, fmt.Errorf("%s/%s: cell %d representable=%v", s.name, ax.a.Name, j, ax.f.Representable[j])
					}
				}
			case "rep":
				for j := 0; j <= n; j++ {
					if !ax.f.Representable[j] {
						return nil, fmt.Errorf("%s/%s: cell %d is not representable", s.name, ax.a.Name, j)
					}
				}
			case "zero":
				if ax.a.At(1) != 0 || !(ax.a.At(0) < 0) || float32(ax.a.At(0)) != 0 || (n >= 2 && float32(ax.a.At(2)) != 0) {
					return nil, fmt.Errorf("%s/%s: cells do not straddle zero below the float32 resolution", s.name, ax.a.Name)
				}
			case "wide":
				for j := 0; j <= n; j++ {
					if ax.f.Representable[j] {
						return nil, fmt.Errorf("%s/%s: cell %d is representable", s.name, ax.a.Name, j)
					}
				}
			}
		}
		out = append(out, e)
	}
	return out, nil
}
