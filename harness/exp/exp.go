// Package exp binds spec/Expire*.tla (C14: expiration) to the real code.
//
// A Program is a command program printed by TLC (ExpireGen / ExpireSim): commands with
// the tick at which each is issued, closed by a probe step that carries what the
// specification says is served at the probe instant.  Run executes one program on a
// fresh in-process server in real time while pollers issue every read, count and
// search; it records, in the order in which the server lock was held (hooks cmd.done,
// expire.del, expire.delhook) and stamped with the server's clock, the trace that
// spec/ExpireTrace.tla validates (code -> model), and compares the probe with TLC's
// expectation (model -> code).  At the end of the program it reads the log back,
// restarts a server from a copy of the data directory, samples a real follower and the
// `del` notifications a subscriber received: the specification decides whether each
// shows the expiries.  This package computes no expected value.
package exp

import (
	"bufio"
	"bytes"
	"encoding/json"
	"fmt"
	"os"
	"path/filepath"
	"sort"
	"strings"
	"sync"
	"sync/atomic"
	"time"

	"github.com/tidwall/tile38/internal/server"
	"github.com/tidwall/tile38/verifharness/t38"
)

const auxPrefix = "zz-" // keys / channels of the harness' own sentinels: never part of a trace
const patience = 90 * time.Second

// ---- programs ---------------------------------------------------------------------

type ExpObj struct {
	K string `json:"k"`
	I string `json:"i"`
	V string `json:"v"` // present | absent | unsure
}
type ExpHook struct {
	Nm string `json:"nm"`
	V  string `json:"v"`
}

// Step is one element of ExpireGen!hist (or the closing probe).
type Step struct {
	Op   string    `json:"op"`
	K    string    `json:"k"`
	I    string    `json:"i"`
	K2   string    `json:"k2"`
	Nm   string    `json:"nm"`
	TTL  int       `json:"ttl"` // ticks, -1: none
	At   int       `json:"at"`  // tick
	Exp  []ExpObj  `json:"exp"`
	HExp []ExpHook `json:"hexp"`
}

// Program is one line printed by TLC plus the driver options added by the check.
type Program struct {
	Sc      int    `json:"sc"`
	Tag     string `json:"tag"`
	Racy    bool   `json:"racy"` // the specification says the probe of this program is undetermined
	H       []Step `json:"h"`
	Attach  int    `json:"attach"`  // tick at which a follower is started, -1: none
	Jitter  int    `json:"jitter"`  // ms slept before the program starts (phase against the sweeper)
	Unit    int    `json:"unit"`    // real milliseconds per tick of this program (0: the default of the run)
	Restart bool   `json:"restart"` // restart a server from a copy of the data directory at the end
	// Hold: a side connection holds the server's shared lock (dev command SLEEP) from tick At for Ticks ticks: the sweeper
	// and every write wait for it, and whichever of them gets the lock first when it ends is the order of the run
	Hold *HoldSpec `json:"hold,omitempty"`
}

// HoldSpec is a period during which a reader keeps the server lock.
type HoldSpec struct {
	At    int `json:"at"`
	Ticks int `json:"ticks"`
}

// Options of a run.
type Options struct {
	UnitMs   int           // real milliseconds per tick
	Dir      string        // scratch for data directories
	PollGap  time.Duration // pause of a poller between two commands
	HookURL  string        // endpoint of webhooks (an HTTP sink inside the harness)
	LateMs   int           // a program step later than this makes the probe comparison void
	StallMs  int           // a stall of the harness / server longer than this makes it void too
	Spinlock bool
}

func isChan(nm string) bool { return strings.HasPrefix(nm, "c") }

// ---- recorded events ----------------------------------------------------------------

type absCmd struct {
	Op, K, I, K2, Nm string
	Ex               int64 // microseconds, -1 none
}

type rawEv struct {
	kind   string // cmd | xdel | xhook | attach | fread | end
	role   int
	abs    absCmd
	reply  []byte
	tb, te int64 // wall clock ns
	upd    bool
	clock  int64
	pres   bool
}

// Result is what one run reports besides its trace.
type Result struct {
	Sc          int      `json:"sc"`
	Tag         string   `json:"tag"`
	Lines       []string `json:"-"`
	StallMs     int64    `json:"stall_ms"`     // worst lateness of the harness' own 5 ms ticker
	MaxRttMs    int64    `json:"max_rtt_ms"`   // worst round trip of a poll
	LateMs      int64    `json:"late_ms"`      // worst lateness of a program step
	ClockJumpUs int64    `json:"clockjump_us"` // wall clock against monotonic clock over the run
	Polls       int      `json:"polls"`
	Events      int      `json:"events"`
	Sweeps      int      `json:"sweeps"`
	ProbeCmp    int      `json:"probe_compared"`
	ProbeSkip   int      `json:"probe_skipped"` // unsure in the specification
	ProbeVoid   bool     `json:"probe_void"`    // timing of this run does not allow the comparison
	ProbeBad    []string `json:"probe_mismatches"`
	Follower    bool     `json:"follower"`
	FollowerOK  bool     `json:"follower_sampled"`
	Restarted   bool     `json:"restarted"`
	RestartMs   int64    `json:"restart_ms"` // from starting the server on the copied log to the end of its sample
	Dels        int      `json:"dels_received"`
	EndRetries  int      `json:"end_retries"`
}

type runner struct {
	p      *Program
	o      Options
	base   int64 // wall ns of clock 0 of the trace
	mu     sync.Mutex
	evs    []rawEv
	begin  map[int]int64
	marks  map[string]int
	roles  map[int]int
	cur    *absCmd           // driver command in flight
	table  map[string]absCmd // poll command text -> abstract command
	nsweep int
}

func (r *runner) hook(s *server.Server, point string, args ...interface{}) {
	switch point {
	case "cmd.begin":
		id := args[0].(int)
		a := args[1].([]string)
		now := time.Now().UnixNano()
		r.mu.Lock()
		if len(a) == 2 && strings.HasPrefix(a[1], auxPrefix+"mark-") {
			r.marks[a[1]] = id
		}
		r.begin[id] = now
		r.mu.Unlock()
	case "cmd.done":
		ev := args[0].(server.VerifCmd)
		r.mu.Lock()
		role, ok := r.roles[ev.ClientID]
		if ok {
			var abs absCmd
			found := false
			if role == 0 {
				if r.cur != nil {
					abs, found = *r.cur, true
				}
			} else {
				abs, found = r.table[strings.Join(ev.Args, "\x00")]
			}
			if found {
				r.evs = append(r.evs, rawEv{kind: "cmd", role: role, abs: abs, reply: ev.Reply,
					tb: r.begin[ev.ClientID], te: time.Now().UnixNano()})
			}
		}
		r.mu.Unlock()
	case "expire.del":
		a := args[0].([]string)
		r.mu.Lock()
		r.nsweep++
		r.evs = append(r.evs, rawEv{kind: "xdel", abs: absCmd{K: a[1], I: a[2]}, upd: args[1].(bool),
			clock: args[2].(int64), te: time.Now().UnixNano()})
		r.mu.Unlock()
	case "expire.delhook":
		a := args[0].([]string)
		r.mu.Lock()
		r.nsweep++
		r.evs = append(r.evs, rawEv{kind: "xhook", abs: absCmd{Nm: a[1]}, upd: args[1].(bool), te: time.Now().UnixNano()})
		r.mu.Unlock()
	}
}

func (r *runner) register(c *t38.Conn, role int) error {
	mark := fmt.Sprintf("%smark-%d", auxPrefix, role)
	if _, err := c.Do("TYPE", mark); err != nil {
		return err
	}
	r.mu.Lock()
	defer r.mu.Unlock()
	id, ok := r.marks[mark]
	if !ok {
		return fmt.Errorf("connection mark not seen by the hook")
	}
	r.roles[id] = role
	return nil
}

var world = []string{"BOUNDS", "-90", "-180", "90", "180"}

func idPos(i string) (string, string) {
	n := 10
	if len(i) > 0 {
		n = 10 + 7*int(i[0]-'a')
	}
	return fmt.Sprint(n % 80), fmt.Sprint(n % 170)
}

// concrete renders a program step as the command sent to the server.
func (r *runner) concrete(st *Step, n int) ([]string, absCmd) {
	abs := absCmd{Op: st.Op, K: st.K, I: st.I, K2: st.K2, Nm: st.Nm, Ex: -1}
	var ex []string
	if st.TTL >= 0 {
		ms := st.TTL * r.o.UnitMs
		abs.Ex = int64(ms) * 1000
		ex = []string{"EX", fmt.Sprintf("%d.%03d", ms/1000, ms%1000)}
	}
	lat, lon := idPos(st.I)
	switch st.Op {
	case "set":
		a := []string{"SET", st.K, st.I}
		a = append(a, ex...)
		return append(a, "POINT", lat, lon), abs
	case "expire":
		return []string{"EXPIRE", st.K, st.I, ex[1]}, abs
	case "persist":
		return []string{"PERSIST", st.K, st.I}, abs
	case "fset":
		return []string{"FSET", st.K, st.I, "f", fmt.Sprint(n + 1)}, abs
	case "jset":
		return []string{"JSET", st.K, st.I, "coordinates.0", fmt.Sprintf("%d.5", n%50)}, abs
	case "del":
		return []string{"DEL", st.K, st.I}, abs
	case "rename":
		return []string{"RENAME", st.K, st.K2}, abs
	case "sethook":
		var a []string
		if isChan(st.Nm) {
			a = []string{"SETCHAN", st.Nm}
		} else {
			a = []string{"SETHOOK", st.Nm, r.o.HookURL}
		}
		a = append(a, ex...)
		a = append(a, "WITHIN", st.K, "FENCE")
		return append(a, world...), abs
	case "delhook":
		if isChan(st.Nm) {
			return []string{"DELCHAN", st.Nm}, abs
		}
		return []string{"DELHOOK", st.Nm}, abs
	}
	return nil, abs
}

type universe struct {
	keys, ids, names []string
}

func (p *Program) universe() universe {
	ks, is, ns := map[string]bool{}, map[string]bool{}, map[string]bool{}
	for _, s := range p.H {
		for _, e := range s.Exp {
			ks[e.K], is[e.I] = true, true
		}
		for _, e := range s.HExp {
			ns[e.Nm] = true
		}
		if s.Op != "probe" {
			if s.K != "" {
				ks[s.K] = true
			}
			if s.K2 != "" {
				ks[s.K2] = true
			}
			if s.I != "" {
				is[s.I] = true
			}
			if s.Nm != "" {
				ns[s.Nm] = true
			}
		}
	}
	var u universe
	for k := range ks {
		u.keys = append(u.keys, k)
	}
	for k := range is {
		u.ids = append(u.ids, k)
	}
	for k := range ns {
		u.names = append(u.names, k)
	}
	sort.Strings(u.keys)
	sort.Strings(u.ids)
	sort.Strings(u.names)
	return u
}

type pollCmd struct {
	args []string
	json bool
}

// pollTables builds the read commands of the pollers and the reverse table of the hook.
func (r *runner) pollTables(u universe) [][]pollCmd {
	add := func(list *[]pollCmd, abs absCmd, args ...string) {
		abs.Ex = -1
		r.table[strings.Join(args, "\x00")] = abs
		*list = append(*list, pollCmd{args: args})
	}
	var objs, keys, hooks []pollCmd
	for _, k := range u.keys {
		for _, i := range u.ids {
			add(&objs, absCmd{Op: "get", K: k, I: i}, "GET", k, i)
			add(&objs, absCmd{Op: "ttl", K: k, I: i}, "TTL", k, i)
			add(&objs, absCmd{Op: "exists", K: k, I: i}, "EXISTS", k, i)
			add(&objs, absCmd{Op: "fget", K: k, I: i}, "FGET", k, i, "f")
		}
		w := func(head ...string) []string { return append(head, world...) }
		add(&keys, absCmd{Op: "scancount", K: k}, "SCAN", k, "COUNT")
		add(&keys, absCmd{Op: "scanids", K: k}, "SCAN", k, "IDS")
		add(&keys, absCmd{Op: "withincount", K: k}, w("WITHIN", k, "COUNT")...)
		add(&keys, absCmd{Op: "withinids", K: k}, w("WITHIN", k, "IDS")...)
		add(&keys, absCmd{Op: "intersectscount", K: k}, w("INTERSECTS", k, "COUNT")...)
		add(&keys, absCmd{Op: "nearbyids", K: k}, "NEARBY", k, "IDS", "POINT", "10", "10")
		add(&keys, absCmd{Op: "stats", K: k}, "STATS", k)
	}
	add(&keys, absCmd{Op: "keys"}, "KEYS", "*")
	add(&hooks, absCmd{Op: "hooks"}, "HOOKS", "*")
	add(&hooks, absCmd{Op: "chans"}, "CHANS", "*")
	return [][]pollCmd{objs, keys, hooks}
}

// ---- the run ------------------------------------------------------------------------

type sample struct {
	Objs  []sampleObj `json:"objs"`
	Hooks []string    `json:"hooks"`
}
type sampleObj struct {
	K string `json:"k"`
	I string `json:"i"`
	X bool   `json:"x"`
}

// takeSample lists what a server serves: SCAN IDS per key, TTL per id, HOOKS and CHANS.
func takeSample(c *t38.Conn, u universe) (sample, error) {
	s := sample{Objs: []sampleObj{}, Hooks: []string{}}
	for _, k := range u.keys {
		v, err := c.Do("SCAN", k, "IDS")
		if err != nil {
			return s, err
		}
		if v.Kind != '*' || len(v.Arr) != 2 {
			return s, fmt.Errorf("SCAN %s IDS: %s", k, v.String())
		}
		for _, id := range v.Arr[1].Arr {
			t, err := c.Do("TTL", k, id.Str)
			if err != nil {
				return s, err
			}
			s.Objs = append(s.Objs, sampleObj{k, id.Str, t.Kind == ':' && t.Int >= 0})
		}
	}
	for _, cmd := range []string{"HOOKS", "CHANS"} {
		v, err := c.Do(cmd, "*")
		if err != nil {
			return s, err
		}
		if v.Kind != '*' {
			return s, fmt.Errorf("%s *: %s", cmd, v.String())
		}
		for _, h := range v.Arr {
			if len(h.Arr) > 0 {
				s.Hooks = append(s.Hooks, h.Arr[0].Str)
			}
		}
	}
	sort.Strings(s.Hooks)
	return s, nil
}

type delList struct {
	Nm  string   `json:"nm"`
	Ids []string `json:"ids"`
}

var stops sync.WaitGroup

// stopLater shuts a server down in the background (a shutdown takes ~0.6 s of sleeping poll loops).
func stopLater(s *t38.Srv, rm string) {
	stops.Add(1)
	go func() {
		defer stops.Done()
		s.StopAndRemove()
		if rm != "" {
			os.RemoveAll(rm)
		}
	}()
}

// WaitStops waits for the servers that are still shutting down.
func WaitStops() { stops.Wait() }

// Run executes one program.
func Run(p *Program, o Options) (*Result, error) {
	r := &runner{p: p, o: o, begin: map[int]int64{}, marks: map[string]int{}, roles: map[int]int{}, table: map[string]absCmd{}}
	res := &Result{Sc: p.Sc, Tag: p.Tag, ProbeBad: []string{}, Follower: p.Attach >= 0}
	u := p.universe()
	if p.Unit > 0 {
		o.UnitMs = p.Unit
	}
	r.o = o
	unit := time.Duration(o.UnitMs) * time.Millisecond
	dir := filepath.Join(o.Dir, fmt.Sprintf("sc%d", p.Sc))
	// the hook must be installed for the port before the server starts, so the port is chosen here; another process
	// may take it in between: try again with another one
	var port int
	var srv *t38.Srv
	var err error
	for try := 0; ; try++ {
		port = t38.FreePort()
		srv, err = t38.Start(t38.Options{Port: port, Dir: filepath.Join(dir, "leader"), Hook: r.hook, Spinlock: o.Spinlock})
		if err == nil {
			break
		}
		t38.SetHook(port, nil)
		if try >= 8 || !strings.Contains(err.Error(), "address already in use") {
			return nil, err
		}
	}
	defer stopLater(srv, dir)
	dial := func(s *t38.Srv) (*t38.Conn, error) {
		c, err := s.Dial()
		if err == nil {
			c.Timeout = patience
		}
		return c, err
	}
	drv, err := dial(srv)
	if err != nil {
		return nil, err
	}
	defer drv.Close()
	aux, err := dial(srv)
	if err != nil {
		return nil, err
	}
	defer aux.Close()
	if err := r.register(drv, 0); err != nil {
		return nil, err
	}
	tables := r.pollTables(u)

	// subscriber: every channel of the server, `del` notifications per hook name
	sub, err := dial(srv)
	if err != nil {
		return nil, err
	}
	defer sub.Close()
	if v, err := sub.Do("PSUBSCRIBE", "*"); err != nil || v.Kind != '*' {
		return nil, fmt.Errorf("PSUBSCRIBE: %v %s", err, v.String())
	}
	var subMu sync.Mutex
	delsSeen := map[string][]string{}
	tokens := map[string]bool{}
	tokenCh := make(chan string, 64)
	go func() {
		for {
			v, err := sub.Recv()
			if err != nil {
				return
			}
			if v.Kind != '*' || len(v.Arr) != 4 || v.Arr[0].Str != "pmessage" {
				continue
			}
			ch, body := v.Arr[2].Str, v.Arr[3].Str
			if strings.HasPrefix(ch, auxPrefix) {
				subMu.Lock()
				tokens[body] = true
				subMu.Unlock()
				tokenCh <- body
				continue
			}
			var m struct {
				Command string `json:"command"`
				Hook    string `json:"hook"`
				ID      string `json:"id"`
			}
			if json.Unmarshal([]byte(body), &m) == nil && m.Command == "del" {
				subMu.Lock()
				delsSeen[m.Hook] = append(delsSeen[m.Hook], m.ID)
				subMu.Unlock()
			}
		}
	}()

	// the harness' own stall detector
	stop := make(chan struct{})
	var stall, maxRtt int64
	var bg sync.WaitGroup
	bg.Add(1)
	go func() {
		defer bg.Done()
		last := time.Now()
		for {
			select {
			case <-stop:
				return
			default:
			}
			time.Sleep(5 * time.Millisecond)
			n := time.Now()
			if d := n.Sub(last) - 5*time.Millisecond; int64(d) > atomic.LoadInt64(&stall) {
				atomic.StoreInt64(&stall, int64(d))
			}
			last = n
		}
	}()

	// pollers
	stopPoll := make(chan struct{})
	var pollers sync.WaitGroup
	var npolls int64
	perr := make(chan error, 8)
	for pi, list := range tables {
		c, err := dial(srv)
		if err != nil {
			return nil, err
		}
		defer c.Close()
		if pi == 2 {
			if _, err := c.Do("OUTPUT", "json"); err != nil {
				return nil, err
			}
		}
		if err := r.register(c, pi+1); err != nil {
			return nil, err
		}
		pollers.Add(1)
		go func(c *t38.Conn, list []pollCmd, off int) {
			defer pollers.Done()
			for n := off; ; n++ {
				select {
				case <-stopPoll:
					return
				default:
				}
				t0 := time.Now()
				if _, err := c.Do(list[n%len(list)].args...); err != nil {
					perr <- err
					return
				}
				if d := int64(time.Since(t0)); d > atomic.LoadInt64(&maxRtt) {
					atomic.StoreInt64(&maxRtt, d)
				}
				atomic.AddInt64(&npolls, 1)
				time.Sleep(o.PollGap)
			}
		}(c, list, pi*3)
	}

	// the program
	time.Sleep(time.Duration(p.Jitter) * time.Millisecond)
	wall0 := time.Now()
	r.base = wall0.UnixNano()
	mono0 := wall0 // carries the monotonic reading
	var fol *t38.Srv
	var folConn *t38.Conn
	var folMu sync.Mutex
	var freads []rawEv
	var folWG sync.WaitGroup
	stopFol := make(chan struct{})
	var folErr error
	startFollower := func() {
		defer folWG.Done()
		tAttach := time.Now().UnixNano()
		f, err := t38.Start(t38.Options{Dir: filepath.Join(dir, "follower"), Spinlock: o.Spinlock})
		if err != nil {
			folErr = err
			return
		}
		c, err := dial(f)
		if err == nil {
			_, err = c.Do("FOLLOW", "127.0.0.1", fmt.Sprint(port))
		}
		if err != nil {
			folErr = err
			f.StopAndRemove()
			return
		}
		r.mu.Lock()
		r.evs = append(r.evs, rawEv{kind: "attach", te: tAttach})
		r.mu.Unlock()
		folMu.Lock()
		fol, folConn = f, c
		folMu.Unlock()
		// follower poller (client-side stamps: the follower has its own lock order)
		pc, err := dial(f)
		if err != nil {
			folErr = err
			return
		}
		defer pc.Close()
		type last struct {
			ev  rawEv
			has bool
			out bool
		}
		pend := map[[2]string]*last{}
		for {
			for _, k := range u.keys {
				for _, i := range u.ids {
					select {
					case <-stopFol:
						folMu.Lock()
						for _, l := range pend {
							if l.has && !l.out {
								freads = append(freads, l.ev)
							}
						}
						folMu.Unlock()
						return
					default:
					}
					tb := time.Now().UnixNano()
					v, err := pc.Do("GET", k, i)
					te := time.Now().UnixNano()
					if err != nil {
						folErr = err
						return
					}
					if v.Kind == '$' {
						e := rawEv{kind: "fread", abs: absCmd{K: k, I: i}, pres: !v.Null, tb: tb, te: te}
						key := [2]string{k, i}
						l := pend[key]
						if l == nil {
							l = &last{}
							pend[key] = l
						}
						folMu.Lock()
						if !l.has || l.ev.pres != e.pres {
							if l.has && !l.out {
								freads = append(freads, l.ev) // last of the previous run
							}
							freads = append(freads, e) // first of the new run
							l.ev, l.has, l.out = e, true, true
						} else {
							l.ev, l.out = e, false
						}
						folMu.Unlock()
					}
					time.Sleep(o.PollGap)
				}
			}
		}
	}

	if p.Hold != nil {
		hc, err := srv.Dial()
		if err != nil {
			return nil, err
		}
		defer hc.Close()
		go func() {
			if d := time.Until(wall0.Add(time.Duration(p.Hold.At) * unit)); d > 0 {
				time.Sleep(d)
			}
			hc.Do("SLEEP", fmt.Sprintf("%.3f", (time.Duration(p.Hold.Ticks) * unit).Seconds()))
		}()
	}
	var late int64
	nstep := 0
	var probe *Step
	attached := false
	for si := range p.H {
		st := &p.H[si]
		if p.Attach >= 0 && !attached && st.At >= p.Attach {
			if d := time.Until(wall0.Add(time.Duration(p.Attach) * unit)); d > 0 {
				time.Sleep(d)
			}
			attached = true
			folWG.Add(1)
			go startFollower()
		}
		if d := time.Until(wall0.Add(time.Duration(st.At) * unit)); d > 0 {
			time.Sleep(d)
		}
		if l := int64(time.Since(wall0.Add(time.Duration(st.At) * unit))); l > late {
			late = l
		}
		if st.Op == "probe" {
			probe = st
			break
		}
		args, abs := r.concrete(st, nstep)
		nstep++
		if args == nil {
			return nil, fmt.Errorf("scenario %d: unknown op %q", p.Sc, st.Op)
		}
		r.mu.Lock()
		r.cur = &abs
		r.mu.Unlock()
		_, err := drv.Do(args...)
		r.mu.Lock()
		r.cur = nil
		r.mu.Unlock()
		if err != nil {
			return nil, fmt.Errorf("scenario %d step %d %q: %v", p.Sc, si, args, err)
		}
	}
	select {
	case err := <-perr:
		return nil, fmt.Errorf("scenario %d: poller: %v", p.Sc, err)
	default:
	}

	// model -> code: the probe (reads on a connection that is not part of the trace)
	res.StallMs = atomic.LoadInt64(&stall) / 1e6
	res.MaxRttMs = atomic.LoadInt64(&maxRtt) / 1e6
	res.LateMs = late / 1e6
	if probe != nil {
		res.ProbeVoid = p.Racy || res.LateMs > int64(o.LateMs) || res.StallMs > int64(o.StallMs) || res.MaxRttMs > int64(o.StallMs)
		if res.ProbeVoid {
			res.ProbeSkip = len(probe.Exp) + len(probe.HExp)
			probe = &Step{}
		}
		for _, e := range probe.Exp {
			if e.V == "unsure" {
				res.ProbeSkip++
				continue
			}
			v, err := aux.Do("GET", e.K, e.I)
			if err != nil {
				return nil, err
			}
			c, err2 := aux.Do("SCAN", e.K, "MATCH", e.I, "IDS")
			if err2 != nil {
				return nil, err2
			}
			got := "absent"
			if v.Kind == '$' && !v.Null {
				got = "present"
			}
			got2 := "absent"
			if c.Kind == '*' && len(c.Arr) == 2 && len(c.Arr[1].Arr) == 1 {
				got2 = "present"
			}
			res.ProbeCmp++
			if (got != e.V || got2 != e.V) && !res.ProbeVoid {
				res.ProbeBad = append(res.ProbeBad, fmt.Sprintf("object %s/%s: the specification says %s at the probe (tick %d), GET shows it %s, SCAN %s",
					e.K, e.I, e.V, probe.At, got, got2))
			}
		}
		for _, e := range probe.HExp {
			if e.V == "unsure" {
				res.ProbeSkip++
				continue
			}
			cmd := "HOOKS"
			if isChan(e.Nm) {
				cmd = "CHANS"
			}
			v, err := aux.Do(cmd, e.Nm)
			if err != nil {
				return nil, err
			}
			got := "absent"
			if v.Kind == '*' && len(v.Arr) == 1 {
				got = "present"
			}
			res.ProbeCmp++
			if got != e.V && !res.ProbeVoid {
				res.ProbeBad = append(res.ProbeBad, fmt.Sprintf("%s %s: the specification says %s at the probe (tick %d), the listing shows it %s",
					strings.ToLower(cmd[:4]), e.Nm, e.V, probe.At, got))
			}
		}
	}

	// end of the run: quiesce the readers, then take log / copy / notifications in a window without sweeps
	close(stopPoll)
	pollers.Wait()
	select {
	case err := <-perr:
		return nil, fmt.Errorf("scenario %d: poller: %v", p.Sc, err)
	default:
	}
	var aof []byte
	var endIdx int
	var endT int64
	var token string
	copyDir := filepath.Join(dir, "copy")
	for try := 0; ; try++ {
		if try > 20 {
			return nil, fmt.Errorf("scenario %d: no sweep-free window at the end of the run", p.Sc)
		}
		r.mu.Lock()
		n1 := r.nsweep
		r.mu.Unlock()
		endT = time.Now().UnixNano()
		token = fmt.Sprintf("t%d-%d", p.Sc, try)
		if v, err := aux.Do("SET", auxPrefix+"mark", "m", "STRING", token); err != nil || v.Kind == '-' {
			return nil, fmt.Errorf("marker write: %v %s", err, v.String())
		}
		if _, err := aux.Do("PUBLISH", auxPrefix+"sentinel", token); err != nil {
			return nil, err
		}
		aof, err = os.ReadFile(srv.AOFPath())
		if err != nil {
			return nil, err
		}
		r.mu.Lock()
		n2 := r.nsweep
		endIdx = len(r.evs)
		r.mu.Unlock()
		if n1 == n2 {
			res.EndRetries = try
			break
		}
		time.Sleep(20 * time.Millisecond)
	}
	logRecs, err := ParseLog(aof)
	if err != nil {
		return nil, fmt.Errorf("scenario %d: %v", p.Sc, err)
	}
	// notifications up to the sentinel
	deadline := time.After(patience)
	for seen := false; !seen; {
		select {
		case tk := <-tokenCh:
			seen = tk == token
		case <-deadline:
			return nil, fmt.Errorf("scenario %d: sentinel not delivered to the subscriber", p.Sc)
		}
	}
	subMu.Lock()
	dels := []delList{}
	for nm, ids := range delsSeen {
		dels = append(dels, delList{nm, append([]string{}, ids...)})
		res.Dels += len(ids)
	}
	subMu.Unlock()
	sort.Slice(dels, func(a, b int) bool { return dels[a].Nm < dels[b].Nm })

	// follower: wait until it serves the marker, then sample it
	folSample := sample{Objs: []sampleObj{}, Hooks: []string{}}
	var tf int64
	if attached {
		// the follower start may still be in progress
		waitStart := time.Now()
		for {
			folMu.Lock()
			ready := folConn != nil
			folMu.Unlock()
			if ready || folErr != nil || time.Since(waitStart) > patience {
				break
			}
			time.Sleep(5 * time.Millisecond)
		}
		folMu.Lock()
		fc := folConn
		folMu.Unlock()
		if fc == nil {
			return nil, fmt.Errorf("scenario %d: follower did not start: %v", p.Sc, folErr)
		}
		t0 := time.Now()
		for {
			v, err := fc.Do("GET", auxPrefix+"mark", "m")
			if err != nil {
				return nil, err
			}
			if v.Kind == '$' && v.Str == token {
				break
			}
			if time.Since(t0) > patience {
				return nil, fmt.Errorf("scenario %d: follower never served the marker (last reply %s)", p.Sc, v.String())
			}
			time.Sleep(3 * time.Millisecond)
		}
		folSample, err = takeSample(fc, u)
		if err != nil {
			return nil, err
		}
		tf = time.Now().UnixNano()
		res.FollowerOK = true
		close(stopFol)
		folWG.Wait()
		fc.Close()
		stopLater(fol, "")
		if folErr != nil {
			return nil, fmt.Errorf("scenario %d: follower poller: %v", p.Sc, folErr)
		}
	}

	// restart from the copy of the log taken in the window
	reSample := sample{Objs: []sampleObj{}, Hooks: []string{}}
	if p.Restart {
		if err := os.MkdirAll(copyDir, 0o755); err != nil {
			return nil, err
		}
		if err := os.WriteFile(filepath.Join(copyDir, "appendonly.aof"), aof, 0o644); err != nil {
			return nil, err
		}
		tr0 := time.Now()
		rs, err := t38.Start(t38.Options{Dir: copyDir, Spinlock: o.Spinlock})
		if err != nil {
			return nil, fmt.Errorf("scenario %d: restart from the copied log: %v", p.Sc, err)
		}
		rc, err := dial(rs)
		if err == nil {
			reSample, err = takeSample(rc, u)
			rc.Close()
		}
		stopLater(rs, "")
		if err != nil {
			return nil, err
		}
		res.Restarted = true
		res.RestartMs = int64(time.Since(tr0) / time.Millisecond)
	}
	close(stop)
	bg.Wait()
	res.StallMs = atomic.LoadInt64(&stall) / 1e6
	res.MaxRttMs = atomic.LoadInt64(&maxRtt) / 1e6
	res.Polls = int(atomic.LoadInt64(&npolls))
	// wall clock against the monotonic clock: a step of the wall clock voids the run
	elapsedMono := time.Since(mono0)
	elapsedWall := time.Duration(time.Now().UnixNano() - r.base)
	d := elapsedWall - elapsedMono
	if d < 0 {
		d = -d
	}
	res.ClockJumpUs = int64(d / time.Microsecond)

	// the trace
	r.mu.Lock()
	evs := append([]rawEv(nil), r.evs[:endIdx]...)
	res.Sweeps = r.nsweep
	r.mu.Unlock()
	folMu.Lock()
	frs := append([]rawEv(nil), freads...)
	folMu.Unlock()
	sort.SliceStable(frs, func(a, b int) bool { return frs[a].te < frs[b].te })
	lines, err := r.render(evs, frs, endEvent{
		E: "end", Sc: p.Sc, T: r.us(endT), Aof: logRecs,
		HasR: p.Restart, Restart: reSample, HasF: attached, Follower: folSample, Tf: r.us(tf) + 2,
		HasD: true, Dels: dels,
	})
	if err != nil {
		return nil, err
	}
	res.Lines = lines
	res.Events = len(lines)
	return res, nil
}

func (r *runner) us(ns int64) int64 { return (ns - r.base) / 1000 }

func parseReply(b []byte) (t38.Value, error) {
	return t38.ReadValue(bufio.NewReader(bytes.NewReader(b)))
}

type cmdEvent struct {
	E    string    `json:"e"`
	Sc   int       `json:"sc"`
	Src  string    `json:"src"`
	Op   string    `json:"op"`
	K    string    `json:"k"`
	I    string    `json:"i"`
	K2   string    `json:"k2"`
	Nm   string    `json:"nm"`
	Ex   int64     `json:"ex"`
	Tb   int64     `json:"tb"`
	Te   int64     `json:"te"`
	R    Rep       `json:"r"`
	N    int       `json:"n"`
	TTLs []HookTTL `json:"ttls"`
}
type xdelEvent struct {
	E     string `json:"e"`
	Sc    int    `json:"sc"`
	K     string `json:"k"`
	I     string `json:"i"`
	Nm    string `json:"nm"`
	Upd   bool   `json:"upd"`
	Clock int64  `json:"clock"`
	T     int64  `json:"t"`
}
type attachEvent struct {
	E  string `json:"e"`
	Sc int    `json:"sc"`
	T  int64  `json:"t"`
}
type freadEvent struct {
	E       string `json:"e"`
	Sc      int    `json:"sc"`
	K       string `json:"k"`
	I       string `json:"i"`
	Present bool   `json:"present"`
	Tb      int64  `json:"tb"`
	Te      int64  `json:"te"`
}
type endEvent struct {
	E        string    `json:"e"`
	Sc       int       `json:"sc"`
	T        int64     `json:"t"`
	Aof      []LogRec  `json:"aof"`
	HasR     bool      `json:"hasr"`
	Restart  sample    `json:"restart"`
	HasF     bool      `json:"hasf"`
	Follower sample    `json:"follower"`
	Tf       int64     `json:"tf"`
	HasD     bool      `json:"hasd"`
	Dels     []delList `json:"dels"`
}

// render turns the raw events into the lines of the trace.  Polls are compacted: of a run of
// identical replies of one poller to one command between two state-changing events only the last
// one is kept (TTL: the first and the last), with the length of the run.
func (r *runner) render(evs, frs []rawEv, end endEvent) ([]string, error) {
	sc := r.p.Sc
	var out []interface{}
	type pend struct {
		ev       cmdEvent
		firstOut bool
	}
	pending := map[string]*pend{}
	var order []string
	flush := func() {
		sort.Slice(order, func(a, b int) bool { return pending[order[a]].ev.Te < pending[order[b]].ev.Te })
		for _, k := range order {
			out = append(out, pending[k].ev)
		}
		pending = map[string]*pend{}
		order = nil
	}
	fi := 0
	addFreads := func(upto int64) {
		// a follower read is placed before a leader event only when it had completed before that event began
		for fi < len(frs) && r.us(frs[fi].te)+2 < upto {
			f := frs[fi]
			out = append(out, freadEvent{"fread", sc, f.abs.K, f.abs.I, f.pres, r.us(f.tb) - 1, r.us(f.te) + 2})
			fi++
		}
	}
	for _, e := range evs {
		switch e.kind {
		case "cmd":
			v, err := parseReply(e.reply)
			if err != nil {
				return nil, fmt.Errorf("scenario %d: reply to %v is not RESP: %q", sc, e.abs, e.reply)
			}
			ce := cmdEvent{E: "cmd", Sc: sc, Op: e.abs.Op, K: e.abs.K, I: e.abs.I, K2: e.abs.K2, Nm: e.abs.Nm, Ex: e.abs.Ex,
				Tb: r.us(e.tb) - 1, Te: r.us(e.te) + 2, N: 1, TTLs: []HookTTL{}}
			if e.role == 0 {
				ce.Src = "drv"
				ce.R = NormReply(e.abs.Op, v)
				flush()
				addFreads(ce.Tb)
				out = append(out, ce)
				continue
			}
			ce.Src = "poll"
			if e.abs.Op == "hooks" || e.abs.Op == "chans" {
				ce.R, ce.TTLs = NormHookList(e.abs.Op, v)
			} else {
				ce.R = NormReply(e.abs.Op, v)
			}
			key := fmt.Sprintf("%d/%s/%s/%s", e.role, e.abs.Op, e.abs.K, e.abs.I)
			sig, _ := json.Marshal([]interface{}{ce.R, ce.TTLs})
			if p := pending[key]; p != nil {
				old, _ := json.Marshal([]interface{}{p.ev.R, p.ev.TTLs})
				if string(old) == string(sig) {
					if e.abs.Op == "ttl" && !p.firstOut {
						out = append(out, p.ev) // the first of a run of equal TTL replies is kept too
						p.firstOut = true
						ce.N = 1
					} else {
						ce.N = p.ev.N + 1
					}
					p.ev = ce
					continue
				}
				out = append(out, p.ev)
				p.ev, p.firstOut = ce, false
				continue
			}
			pending[key] = &pend{ev: ce}
			order = append(order, key)
		case "xdel":
			flush()
			addFreads(r.us(e.clock))
			out = append(out, xdelEvent{"xdel", sc, e.abs.K, e.abs.I, "", e.upd, r.us(e.clock), r.us(e.te) + 2})
		case "xhook":
			flush()
			addFreads(r.us(e.te))
			out = append(out, xdelEvent{"xhook", sc, "", "", e.abs.Nm, e.upd, r.us(e.te) + 2, r.us(e.te) + 2})
		case "attach":
			out = append(out, attachEvent{"attach", sc, r.us(e.te) - 1})
		}
	}
	flush()
	addFreads(1 << 60)
	out = append(out, end)
	lines := make([]string, 0, len(out)+1)
	lines = append(lines, fmt.Sprintf(`{"e":"reset","sc":%d}`, sc))
	for _, x := range out {
		b, err := json.Marshal(x)
		if err != nil {
			return nil, err
		}
		lines = append(lines, string(b))
	}
	return lines, nil
}
