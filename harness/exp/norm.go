package exp

// norm.go: renderings of what the real server said - replies, log entries,
// listings - in the uniformly typed shapes that spec/ExpireTrace.tla reads.
// Nothing here knows what a reply SHOULD be.

import (
	"bufio"
	"bytes"
	"encoding/json"
	"fmt"
	"sort"
	"strconv"
	"strings"

	"github.com/tidwall/tile38/verifharness/t38"
)

// Rep is a reply as the specification sees it: Rep(t, n, s) of Expire.tla.
type Rep struct {
	T string   `json:"t"` // ok | int | nil | obj | err | set | other
	N int64    `json:"n"`
	S []string `json:"s"`
}

func errClass(s string) string {
	s = strings.TrimPrefix(s, "ERR ")
	switch s {
	case "key not found":
		return "nokey"
	case "id not found":
		return "noid"
	case "key has hooks set":
		return "hashooks"
	case "key has channels set":
		return "haschans"
	}
	return s
}

func strs(vs []t38.Value) []string {
	out := make([]string, 0, len(vs))
	for _, v := range vs {
		out = append(out, v.Str)
	}
	sort.Strings(out)
	return out
}

// NormReply renders the RESP reply of the abstract operation op.
func NormReply(op string, v t38.Value) Rep {
	none := []string{}
	if v.Kind == '-' {
		return Rep{T: "err", S: []string{errClass(v.Str)}}
	}
	switch op {
	case "set", "jset", "rename":
		if v.Kind == '+' && v.Str == "OK" {
			return Rep{T: "ok", S: none}
		}
	case "expire", "persist", "fset", "del", "sethook", "delhook", "exists", "ttl":
		if v.Kind == ':' {
			return Rep{T: "int", N: v.Int, S: none}
		}
	case "get", "fget":
		if v.Kind == '$' {
			if v.Null {
				return Rep{T: "nil", S: none}
			}
			return Rep{T: "obj", S: none}
		}
	case "scancount", "withincount", "intersectscount":
		if v.Kind == ':' {
			return Rep{T: "int", N: v.Int, S: none}
		}
		if v.Kind == '*' && len(v.Arr) == 2 && v.Arr[1].Kind == ':' {
			return Rep{T: "int", N: v.Arr[1].Int, S: none}
		}
	case "scanids", "withinids", "nearbyids":
		if v.Kind == '*' && len(v.Arr) == 2 && v.Arr[1].Kind == '*' {
			ids := strs(v.Arr[1].Arr)
			return Rep{T: "set", N: int64(len(ids)), S: ids}
		}
	case "keys":
		if v.Kind == '*' {
			var ks []t38.Value
			for _, k := range v.Arr {
				if !strings.HasPrefix(k.Str, auxPrefix) {
					ks = append(ks, k)
				}
			}
			ids := strs(ks)
			return Rep{T: "set", N: int64(len(ids)), S: ids}
		}
	case "stats":
		if v.Kind == '*' && len(v.Arr) == 1 {
			e := v.Arr[0]
			if e.Kind == '*' && e.Null || e.Kind == '$' && e.Null {
				return Rep{T: "nil", S: none}
			}
			for i := 0; i+1 < len(e.Arr); i += 2 {
				if e.Arr[i].Str == "num_objects" {
					if e.Arr[i+1].Kind == ':' {
						return Rep{T: "int", N: e.Arr[i+1].Int, S: none}
					}
					if n, err := strconv.ParseInt(e.Arr[i+1].Str, 10, 64); err == nil {
						return Rep{T: "int", N: n, S: none}
					}
				}
			}
		}
	}
	return Rep{T: "other", S: []string{v.String()}}
}

// HookTTL is one entry of a HOOKS / CHANS listing in JSON mode.
type HookTTL struct {
	Nm  string `json:"nm"`
	TTL int64  `json:"ttl"`
}

// NormHookList renders `HOOKS *` / `CHANS *` as answered on a JSON-mode connection.
func NormHookList(op string, v t38.Value) (Rep, []HookTTL) {
	var doc struct {
		OK    bool `json:"ok"`
		Hooks []struct {
			Name string `json:"name"`
			TTL  int64  `json:"ttl"`
		} `json:"hooks"`
		Chans []struct {
			Name string `json:"name"`
			TTL  int64  `json:"ttl"`
		} `json:"chans"`
	}
	if v.Kind != '$' || json.Unmarshal([]byte(v.Str), &doc) != nil || !doc.OK {
		return Rep{T: "other", S: []string{v.String()}}, []HookTTL{}
	}
	list := doc.Hooks
	if op == "chans" {
		list = doc.Chans
	}
	names := []string{}
	ttls := []HookTTL{}
	for _, h := range list {
		names = append(names, h.Name)
		ttls = append(ttls, HookTTL{h.Name, h.TTL})
	}
	sort.Strings(names)
	sort.Slice(ttls, func(a, b int) bool { return ttls[a].Nm < ttls[b].Nm })
	return Rep{T: "set", N: int64(len(names)), S: names}, ttls
}

// LogRec is one command of appendonly.aof: L(op, k, i, x) of Expire.tla.
type LogRec struct {
	Op string `json:"op"`
	K  string `json:"k"`
	I  string `json:"i"`
	X  bool   `json:"x"` // the command carries EX
}

func hasEX(args []string) bool {
	for _, a := range args {
		if strings.EqualFold(a, "ex") {
			return true
		}
	}
	return false
}

// ParseLog reads a log file and renders every command (the harness' own sentinel key is left out).
func ParseLog(b []byte) ([]LogRec, error) {
	out := []LogRec{}
	rd := bufio.NewReader(bytes.NewReader(b))
	for {
		if _, err := rd.Peek(1); err != nil {
			return out, nil
		}
		v, err := t38.ReadValue(rd)
		if err != nil {
			return out, fmt.Errorf("log not parseable after %d commands: %v", len(out), err)
		}
		var a []string
		for _, x := range v.Arr {
			a = append(a, x.Str)
		}
		if len(a) == 0 {
			return out, fmt.Errorf("empty command in log")
		}
		op := strings.ToLower(a[0])
		arg := func(i int) string {
			if i < len(a) {
				return a[i]
			}
			return ""
		}
		if strings.HasPrefix(arg(1), auxPrefix) {
			continue
		}
		switch op {
		case "set":
			out = append(out, LogRec{"set", arg(1), arg(2), hasEX(a[3:])})
		case "expire":
			out = append(out, LogRec{"expire", arg(1), arg(2), true})
		case "persist", "fset", "jset", "del":
			out = append(out, LogRec{op, arg(1), arg(2), false})
		case "rename":
			out = append(out, LogRec{"rename", arg(1), arg(2), false})
		case "sethook", "setchan":
			key := ""
			for i := 2; i+1 < len(a); i++ {
				if strings.EqualFold(a[i], "within") {
					key = a[i+1]
					break
				}
			}
			// EX belongs to the hook only when it precedes the fence command
			x := false
			for i := 2; i < len(a); i++ {
				if strings.EqualFold(a[i], "within") {
					break
				}
				if strings.EqualFold(a[i], "ex") {
					x = true
				}
			}
			out = append(out, LogRec{"sethook", key, arg(1), x})
		case "delhook", "delchan":
			out = append(out, LogRec{"delhook", "", arg(1), false})
		default:
			out = append(out, LogRec{op, arg(1), arg(2), false})
		}
	}
}
