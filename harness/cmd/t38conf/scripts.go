package main

import (
	"bufio"
	"bytes"
	"encoding/json"
	"flag"
	"fmt"
	"os"
	"sort"
	"strings"
	"sync"
	"time"

	"github.com/tidwall/tile38/internal/server"
	"github.com/tidwall/tile38/verifharness/t38"
)

func init() {
	register("script-gate", scriptGate)
	register("script-sandbox", scriptSandbox)
}

// ---- forced interleavings of a script with another client ----------------------------

// sgCase is one TLC-generated schedule: a script of kind Kind with NCalls calls is parked
// before call Park (1-based); meanwhile another client issues a command of class Other
// ("read" or "write"); Expect says whether the specification lets the other command take
// effect while the script is parked ("proceeds") or only after the script ended ("blocked").
type sgCase struct {
	Kind   string `json:"kind"`
	NCalls int    `json:"ncalls"`
	Park   int    `json:"park"`
	Other  string `json:"other"`
	Expect string `json:"expect"`
	Writes bool   `json:"writes"` // the script's calls are writes (EVAL/EVALNA) or reads (EVALRO)
}

type sgResult struct {
	Case    sgCase `json:"case"`
	Outcome string `json:"outcome"` // proceeds | blocked
	OK      bool   `json:"ok"`
	Detail  string `json:"detail"`
}

func scriptGate(args []string) int {
	fs := flag.NewFlagSet("script-gate", flag.ExitOnError)
	in := fs.String("in", "", "cases (NDJSON)")
	spin := fs.Bool("spinlock", false, "")
	fs.Parse(args)
	f, err := os.Open(*in)
	if err != nil {
		fmt.Fprintln(os.Stderr, err)
		return 2
	}
	defer f.Close()
	var cases []sgCase
	sc := bufio.NewScanner(f)
	for sc.Scan() {
		if len(sc.Bytes()) == 0 {
			continue
		}
		var c sgCase
		if err := json.Unmarshal(sc.Bytes(), &c); err != nil {
			fmt.Fprintln(os.Stderr, err)
			return 2
		}
		cases = append(cases, c)
	}
	var mu sync.Mutex
	parkAt := 0
	calls := 0
	var scriptGID int64
	arrived := make(chan struct{}, 1)
	release := make(chan struct{})
	sgHook := func(s *server.Server, point string, a ...interface{}) {
		if point != "script.call" {
			return
		}
		mu.Lock()
		if parkAt == 0 {
			mu.Unlock()
			return
		}
		if scriptGID == 0 {
			scriptGID = t38.GoID()
		}
		if t38.GoID() != scriptGID {
			mu.Unlock()
			return
		}
		calls++
		hit := calls == parkAt
		rel := release
		mu.Unlock()
		if hit {
			arrived <- struct{}{}
			<-rel
		}
	}
	srv, err := t38.Start(t38.Options{Hook: sgHook, Spinlock: *spin})
	if err != nil {
		fmt.Fprintln(os.Stderr, err)
		return 2
	}
	defer srv.StopAndRemove()
	var results []sgResult
	bad := 0
	for ci, c := range cases {
		sconn, err := srv.Dial()
		if err != nil {
			fmt.Fprintln(os.Stderr, err)
			return 2
		}
		oconn, err := srv.Dial()
		if err != nil {
			fmt.Fprintln(os.Stderr, err)
			return 2
		}
		oconn.Timeout = 20 * time.Second
		sconn.Do("FLUSHDB")
		sconn.Do("SET", "sk", "seed", "POINT", "1", "1")
		// the script: NCalls calls, each a write (SET of a distinct id) or a read (GET)
		var b strings.Builder
		var argv []string
		for j := 1; j <= c.NCalls; j++ {
			if c.Writes {
				fmt.Fprintf(&b, "tile38.call('set', ARGV[1], ARGV[%d], 'point', %d, %d) ", j+1, j, j)
			} else {
				b.WriteString("tile38.call('get', ARGV[1], 'seed') ")
			}
		}
		b.WriteString("return 1")
		argv = append(argv, "sk")
		for j := 1; j <= c.NCalls; j++ {
			argv = append(argv, fmt.Sprintf("s%d-%d", ci, j))
		}
		mu.Lock()
		parkAt, calls, scriptGID = c.Park, 0, 0
		release = make(chan struct{})
		mu.Unlock()
		sdone := make(chan t38.Value, 1)
		go func() {
			v, _ := sconn.Do(append([]string{strings.ToUpper(c.Kind), b.String(), "0"}, argv...)...)
			sdone <- v
		}()
		select {
		case <-arrived:
		case <-time.After(10 * time.Second):
			fmt.Fprintf(os.Stderr, "case %d: the script never reached call %d\n", ci, c.Park)
			return 2
		}
		// the script is parked between two of its calls: the other client issues its command
		var other []string
		if c.Other == "write" {
			other = []string{"SET", "sk", fmt.Sprintf("o%d", ci), "POINT", "9", "9"}
		} else {
			other = []string{"SCAN", "sk", "IDS"}
		}
		odone := make(chan t38.Value, 1)
		go func() {
			v, _ := oconn.Do(other...)
			odone <- v
		}()
		res := sgResult{Case: c}
		var oreply t38.Value
		select {
		case oreply = <-odone:
			res.Outcome = "proceeds"
		case <-time.After(250 * time.Millisecond):
			res.Outcome = "blocked"
		}
		mu.Lock()
		parkAt = 0
		close(release)
		mu.Unlock()
		sv := <-sdone
		if res.Outcome == "blocked" {
			select {
			case oreply = <-odone:
			case <-time.After(10 * time.Second):
				fmt.Fprintf(os.Stderr, "case %d: the other client was never answered\n", ci)
				return 2
			}
		}
		// what the other client saw: how many of the script's objects existed
		seen := -1
		if c.Other == "read" && oreply.Kind == '*' && len(oreply.Arr) == 2 {
			seen = 0
			for _, e := range oreply.Arr[1].Arr {
				if strings.HasPrefix(e.Str, fmt.Sprintf("s%d-", ci)) {
					seen++
				}
			}
		}
		res.OK = true
		switch c.Expect {
		case "blocked":
			if res.Outcome != "blocked" {
				res.OK = false
				res.Detail = fmt.Sprintf("%s parked before call %d: a %s of another client was answered (%s) while the script was between its calls", c.Kind, c.Park, c.Other, oreply.String())
			} else if seen >= 0 && seen != c.NCalls && c.Writes {
				res.OK = false
				res.Detail = fmt.Sprintf("%s: the other client saw %d of the script's %d writes", c.Kind, seen, c.NCalls)
			}
		case "proceeds":
			// allowed, not required; a read that proceeds inside an EVALNA sees exactly the calls made so far
			if res.Outcome == "proceeds" && seen >= 0 && c.Writes && seen != c.Park-1 {
				res.OK = false
				res.Detail = fmt.Sprintf("%s parked before call %d: a read of another client saw %d of the script's writes, expected %d", c.Kind, c.Park, seen, c.Park-1)
			}
		}
		if sv.Kind == '-' {
			res.OK = false
			res.Detail += " script failed: " + sv.Str
		}
		if !res.OK {
			bad++
		}
		results = append(results, res)
		sconn.Close()
		oconn.Close()
	}
	emit(map[string]interface{}{"cases": len(cases), "results": results, "bad": bad})
	if bad > 0 {
		return 1
	}
	return 0
}

// ---- sandbox ---------------------------------------------------------------------------

// scriptSandbox records what is reachable from the script environment of every pooled
// interpreter before and after running adversarial scripts, and what each adversarial
// script achieved. The recorded sets are compared with the allow-list by TLC (ScriptsTrace).
func scriptSandbox(args []string) int {
	fs := flag.NewFlagSet("script-sandbox", flag.ExitOnError)
	out := fs.String("out", "", "trace output (NDJSON)")
	fs.Parse(args)
	srv, err := t38.Start(t38.Options{})
	if err != nil {
		fmt.Fprintln(os.Stderr, err)
		return 2
	}
	defer srv.StopAndRemove()
	of, err := os.Create(*out)
	if err != nil {
		fmt.Fprintln(os.Stderr, err)
		return 2
	}
	defer of.Close()
	enc := json.NewEncoder(of)
	enc.SetEscapeHTML(false)
	nrec := 0
	snapshot := func(phase string) {
		for i, names := range srv.S.VerifLuaGlobals() {
			sort.Strings(names)
			enc.Encode(map[string]interface{}{"e": "env", "phase": phase, "state": i, "names": names, "script": "", "result": "", "probe": ""})
			nrec++
		}
	}
	// use more connections than the pool keeps idle so that several interpreters exist
	var conns []*t38.Conn
	for i := 0; i < 12; i++ {
		c, err := srv.Dial()
		if err != nil {
			fmt.Fprintln(os.Stderr, err)
			return 2
		}
		conns = append(conns, c)
	}
	var wg sync.WaitGroup
	for _, c := range conns {
		wg.Add(1)
		go func(c *t38.Conn) { defer wg.Done(); c.Do("EVALNA", "return 1", "0") }(c)
	}
	wg.Wait()
	snapshot("before")
	// adversarial scripts: each tries to reach something outside the allow-list or to leave
	// something behind; "probe" is evaluated afterwards by a fresh script on every interpreter
	adversarial := []struct{ name, script, probe string }{
		{"new-global", "leak = 1 return 1", "return tostring(leak)"},
		{"new-global-rawset", "rawset(_G, 'leak2', 1) return 1", "return tostring(leak2)"},
		{"io", "return io.open('/etc/passwd')", "return tostring(io)"},
		{"os-execute", "return os.execute('id')", "return tostring(os.execute)"},
		{"os-getenv", "return os.getenv('HOME')", "return tostring(os.getenv)"},
		{"load", "return load('return 1')()", "return tostring(load)"},
		{"loadstring", "return loadstring('return 1')()", "return tostring(loadstring)"},
		{"require", "return require('os')", "return tostring(require)"},
		{"dofile", "return dofile('/etc/passwd')", "return tostring(dofile)"},
		{"package", "return package.path", "return tostring(package)"},
		{"debug", "return debug.getinfo(1)", "return tostring(debug)"},
		{"getfenv", "return getfenv(0)", "return tostring(getfenv)"},
		{"setmetatable", "setmetatable(_G, nil) return 1", "return tostring(setmetatable)"},
		{"string-dump", "return string.dump(function() end)", "return 'n/a'"},
		{"mutate-existing-global", "tonumber = nil return 1", "return tostring(tonumber ~= nil)"},
		{"stash-argv-in-library-table", "string.stash = ARGV return 1", "return tostring(string.stash and string.stash[1])"},
		{"coroutine", "return coroutine.create(function() end)", "return tostring(coroutine)"},
	}
	for _, a := range adversarial {
		c := conns[0]
		v, err := c.Do("EVAL", a.script, "1", "somekey", "somearg")
		if err != nil {
			fmt.Fprintln(os.Stderr, err)
			return 2
		}
		// probe on every interpreter: run the probe concurrently on all connections
		probes := make([]string, len(conns))
		var wg sync.WaitGroup
		for i, pc := range conns {
			wg.Add(1)
			go func(i int, pc *t38.Conn) {
				defer wg.Done()
				r, _ := pc.Do("EVALNA", a.probe, "0")
				probes[i] = r.String()
			}(i, pc)
		}
		wg.Wait()
		sort.Strings(probes)
		uniq := probes[:0]
		for i, p := range probes {
			if i == 0 || p != probes[i-1] {
				uniq = append(uniq, p)
			}
		}
		enc.Encode(map[string]interface{}{"e": "attack", "phase": "during", "state": 0, "names": []string{}, "script": a.name,
			"result": v.String(), "probe": strings.Join(uniq, " | ")})
		nrec++
	}
	// EVALRO can never modify data - also not by overwriting the global that names the variant its calls run as
	for i, src := range []string{
		"EVAL_CMD = 'eval' return tile38.call('SET', 'roattack', 'a%d', 'POINT', 1, 1)",
		"EVAL_CMD = 'evalsha' return tile38.pcall('SET', 'roattack', 'a%d', 'POINT', 1, 1)",
		"local ok = pcall(function() EVAL_CMD = 'eval' end) return tile38.call('SET', 'roattack', 'a%d', 'POINT', 1, 1)",
	} {
		c := conns[0]
		src = fmt.Sprintf(src, i)
		v, err := c.Do("EVALRO", src, "0")
		if err != nil {
			fmt.Fprintln(os.Stderr, err)
			return 2
		}
		ex, err := conns[1].Do("EXISTS", "roattack", fmt.Sprintf("a%d", i))
		if err != nil {
			fmt.Fprintln(os.Stderr, err)
			return 2
		}
		enc.Encode(map[string]interface{}{"e": "attack", "phase": "during", "state": 0, "names": []string{}, "script": fmt.Sprintf("evalro-switches-dispatch-%d", i),
			"result": v.String(), "probe": ex.String(), "source": src})
		nrec++
	}
	snapshot("after")
	for _, c := range conns {
		c.Close()
	}
	var buf bytes.Buffer
	_ = buf
	emit(map[string]interface{}{"records": nrec, "attacks": len(adversarial) + 3, "states": len(srv.S.VerifLuaGlobals())})
	return 0
}
