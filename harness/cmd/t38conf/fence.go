package main

import (
	"bufio"
	"encoding/json"
	"flag"
	"fmt"
	"os"
	"strconv"
	"strings"
	"sync"
	"sync/atomic"
	"time"

	"github.com/tidwall/tile38/verifharness/fence"
)

func init() {
	register("fence-table", fenceTable)
	register("fence-replay", fenceReplay)
}

// fenceTable turns a scene (frame, cells, areas, fences in frame coordinates) into concrete coordinates and the
// geometry tables Inside / Cross / Touch / TouchU of spec/Fence.tla (C05), computed by the harness' own geometry.
func fenceTable(args []string) int {
	fs := flag.NewFlagSet("fence-table", flag.ExitOnError)
	in := fs.String("scene", "", "scene definition (JSON)")
	fs.Parse(args)
	var sd fence.SceneDef
	b, err := os.ReadFile(*in)
	if err == nil {
		err = json.Unmarshal(b, &sd)
	}
	if err != nil {
		fmt.Fprintln(os.Stderr, "harness error:", err)
		return 2
	}
	t, err := fence.BuildTable(sd)
	if err != nil {
		fmt.Fprintln(os.Stderr, "harness error:", err)
		return 2
	}
	emit(t)
	return 0
}

// fenceReplay replays TLC-generated Fence behaviours into real servers with every fence of the scene registered as
// webhook, channel and live connection among a population of other hooks, and compares the notifications of every
// step with TLC's.
func fenceReplay(args []string) int {
	fs := flag.NewFlagSet("fence-replay", flag.ExitOnError)
	in := fs.String("in", "", "behaviours, one JSON document per line")
	tablePath := fs.String("table", "", "output of fence-table (the same tables TLC used)")
	par := fs.Int("par", 8, "parallel servers")
	transports := fs.String("transports", "hook,chan,live", "subset of hook,chan,live")
	dir := fs.String("dir", "", "scratch directory for the servers' data")
	spin := fs.Bool("spinlock", false, "use the spinlock implementation")
	others := fs.Int("others", 0, "population of other hooks per server")
	rereg := fs.Int("rereg", 0, "re-register the fences under test every N behaviours")
	only := fs.Int("only", 0, "register and compare only this fence of the scene (1-based)")
	keep := fs.Int("examples", 3, "mismatch examples kept per class and transport")
	fs.Parse(args)
	fail := func(err error) int {
		fmt.Fprintln(os.Stderr, "harness error:", err)
		return 2
	}
	var table fence.Table
	tb, err := os.ReadFile(*tablePath)
	if err == nil {
		err = json.Unmarshal(tb, &table)
	}
	if err != nil {
		return fail(err)
	}
	if *dir == "" {
		d, err := os.MkdirTemp(".", "fence-srv-")
		if err != nil {
			return fail(err)
		}
		*dir = d
	}
	defer os.RemoveAll(*dir)
	f, err := os.Open(*in)
	if err != nil {
		return fail(err)
	}
	defer f.Close()
	sink, err := fence.NewSink()
	if err != nil {
		return fail(err)
	}
	defer sink.Close()
	// scheduling watchdog: tile38 gives a webhook request 5 s and re-sends the notification after a failure; if this
	// process is ever starved that long a duplicate notification is the machine's doing, not the server's
	var maxLag int64
	stopWatch := make(chan bool)
	go func() {
		for {
			t0 := time.Now()
			select {
			case <-stopWatch:
				return
			case <-time.After(100 * time.Millisecond):
			}
			if lag := int64(time.Since(t0)/time.Millisecond) - 100; lag > atomic.LoadInt64(&maxLag) {
				atomic.StoreInt64(&maxLag, lag)
			}
		}
	}()
	defer close(stopWatch)
	seed, _ := strconv.ParseInt(os.Getenv("VERIF_SEED"), 10, 64)
	opt := fence.Options{Table: &table, Transports: strings.Split(*transports, ","), Dir: *dir, Spinlock: *spin,
		Others: *others, Rereg: *rereg, Seed: seed, Only: *only}

	type job struct {
		i    int
		line []byte
	}
	jobs := make(chan job, 1024)
	var mu sync.Mutex
	total := fence.NewStats()
	kept := map[string]int{}
	var examples []fence.Mismatch
	var nmism int64
	var firstErr error
	halted := false // a fence has gone silent: the remaining behaviours are not run (every further one would wait 3 minutes)
	var wg sync.WaitGroup
	for w := 0; w < *par; w++ {
		wg.Add(1)
		go func(w int) {
			defer wg.Done()
			setErr := func(err error) {
				mu.Lock()
				if firstErr == nil {
					firstErr = err
				}
				mu.Unlock()
			}
			var r *fence.Runner
			defer func() {
				if r != nil {
					r.Close()
				}
			}()
			st := fence.NewStats()
			for j := range jobs {
				mu.Lock()
				stop := firstErr != nil || halted
				mu.Unlock()
				if stop {
					continue
				}
				if r == nil { // a server is started only when there is work for it
					var err error
					if r, err = fence.NewRunner(w, opt, sink, st); err != nil {
						setErr(err)
						continue
					}
				}
				var b fence.Behaviour
				if err := json.Unmarshal(j.line, &b); err != nil {
					setErr(fmt.Errorf("behaviour %d: %v", j.i, err))
					continue
				}
				ms, err := r.Run(j.i, &b, st)
				if err != nil && strings.Contains(err.Error(), "sentinel") && strings.Contains(err.Error(), "not received") {
					// the sentinel is an object SET into the fence's area and taken out again: its notifications are
					// owed like any other.  After three minutes without them the fence has gone silent (the fences of a
					// runner live through all its behaviours): a disagreement, not a failure of the harness
					tr := "hook"
					if strings.HasPrefix(err.Error(), "live") {
						tr = "live"
					} else if strings.HasPrefix(err.Error(), "channel") || strings.HasPrefix(err.Error(), "chan") {
						tr = "chan"
					}
					ms = append(ms, fence.Mismatch{Behaviour: j.i, Step: 0, Fence: 0, Transport: tr, Class: "silent",
						Text: err.Error() + " within 3 minutes: a SET into the fence's area was acknowledged and never reported " +
							"(the fences of this server had served the behaviours before this one)"})
					err = nil
					r.Close()
					r = nil
					mu.Lock()
					halted = true
					mu.Unlock()
				}
				if len(ms) > 0 {
					atomic.AddInt64(&nmism, int64(len(ms)))
					mu.Lock()
					for _, m := range ms {
						k := m.Class + "/" + m.Transport
						if kept[k] < *keep {
							kept[k]++
							examples = append(examples, m)
						}
					}
					mu.Unlock()
				}
				if err != nil {
					setErr(err)
				}
			}
			mu.Lock()
			total.Add(st)
			mu.Unlock()
		}(w)
	}
	sc := bufio.NewScanner(f)
	sc.Buffer(make([]byte, 1<<20), 1<<28)
	n := 0
	var samples []string
	for sc.Scan() {
		line := append([]byte(nil), sc.Bytes()...)
		if len(line) == 0 {
			continue
		}
		if n%4999 == 0 && len(samples) < 2 {
			samples = append(samples, string(line))
		}
		jobs <- job{n, line}
		n++
	}
	close(jobs)
	wg.Wait()
	if firstErr != nil {
		return fail(firstErr)
	}
	if s := atomic.LoadInt64(&sink.Stray); s > 0 {
		return fail(fmt.Errorf("%d webhook messages for unknown hooks", s))
	}
	emit(map[string]interface{}{"stats": total, "read": n, "mismatch_count": nmism, "mismatches": examples, "samples": samples,
		"max_scheduling_lag_ms": atomic.LoadInt64(&maxLag), "slowest_webhook_ms": atomic.LoadInt64(&sink.SlowestMs)})
	if nmism > 0 {
		return 1
	}
	return 0
}
