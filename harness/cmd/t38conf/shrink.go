package main

import (
	"bufio"
	"bytes"
	"encoding/json"
	"flag"
	"fmt"
	"os"
	"path/filepath"
	"reflect"
	"sort"
	"strings"
	"sync"
	"time"

	"github.com/tidwall/tile38/internal/server"
	"github.com/tidwall/tile38/verifharness/ks"
	"github.com/tidwall/tile38/verifharness/t38"
)

func init() { register("shrink-run", shrinkRun) }

type shrinkDuring struct {
	Gate string                 `json:"gate"` // keys | ids | hooks | final
	Frac float64                `json:"frac"` // position among the occurrences of that gate (0..1)
	Occ  int                    `json:"occ"`  // or: the absolute occurrence (directed cases)
	C    map[string]interface{} `json:"c"`
	Raw  []string               `json:"raw"` // a literal command instead of an abstract one (directed cases)
}

type shrinkCase struct {
	Init   []map[string]interface{} `json:"init"`
	InitRaw [][]string              `json:"initraw"`
	During []shrinkDuring           `json:"during"`
	Crash  string                   `json:"crash"` // "" or one of the shrink.final.* points
	// the next process lifetime (crash cases): commands issued on the server restarted from the crash copy,
	// followed by a complete AOFSHRINK, one more write and another restart
	Round2 []map[string]interface{} `json:"round2"`
	Round2Raw [][]string             `json:"round2raw"`
}

type shrinkMismatch struct {
	Case   int    `json:"case"`
	What   string `json:"what"` // shrunk | crash | served | reply
	Detail string `json:"detail"`
}

// diffStates lists the differences between two dataset projections (everything that C09 names:
// objects of every kind, fields, string values, has-deadline, hooks and channels with metas).
func diffStates(want, got server.VerifState, deadlineSlackNs int64) []string {
	var d []string
	for k, wc := range want.Cols {
		gc, ok := got.Cols[k]
		if !ok {
			d = append(d, fmt.Sprintf("collection %q missing", k))
			continue
		}
		for id, wo := range wc {
			g, ok := gc[id]
			if !ok {
				d = append(d, fmt.Sprintf("object %q/%q missing", k, id))
				continue
			}
			if wo.Geo != g.Geo || wo.Spatial != g.Spatial {
				d = append(d, fmt.Sprintf("object %q/%q: value %.80q, want %.80q", k, id, g.Geo, wo.Geo))
			}
			wf, gf := wo.Fields, g.Fields
			if wf == nil {
				wf = map[string]string{}
			}
			if gf == nil {
				gf = map[string]string{}
			}
			if !reflect.DeepEqual(wf, gf) {
				d = append(d, fmt.Sprintf("object %q/%q: fields %v, want %v", k, id, gf, wf))
			}
			if wo.Ex != g.Ex {
				d = append(d, fmt.Sprintf("object %q/%q: has-deadline %v, want %v", k, id, g.Ex, wo.Ex))
			} else if wo.Ex && g.ExNano < wo.ExNano-deadlineSlackNs {
				d = append(d, fmt.Sprintf("object %q/%q: deadline shortened by %.2f s", k, id, float64(wo.ExNano-g.ExNano)/1e9))
			}
		}
		for id := range gc {
			if _, ok := wc[id]; !ok {
				d = append(d, fmt.Sprintf("unexpected object %q/%q", k, id))
			}
		}
	}
	for k := range got.Cols {
		if _, ok := want.Cols[k]; !ok {
			d = append(d, fmt.Sprintf("unexpected collection %q", k))
		}
	}
	for n, wh := range want.Hooks {
		gh, ok := got.Hooks[n]
		if !ok {
			d = append(d, fmt.Sprintf("hook %q missing", n))
			continue
		}
		wh2, gh2 := wh, gh
		// the rewritten SETHOOK carries the remaining EX; compare everything else literally
		strip := func(a []string) []string { return a }
		if wh2.Key != gh2.Key || wh2.Channel != gh2.Channel || !reflect.DeepEqual(wh2.Endpoints, gh2.Endpoints) ||
			!reflect.DeepEqual(wh2.Metas, gh2.Metas) || wh2.Ex != gh2.Ex || !reflect.DeepEqual(strip(wh2.Args), strip(gh2.Args)) {
			d = append(d, fmt.Sprintf("hook %q: %+v, want %+v", n, gh, wh))
		}
	}
	for n := range got.Hooks {
		if _, ok := want.Hooks[n]; !ok {
			d = append(d, fmt.Sprintf("unexpected hook %q", n))
		}
	}
	sort.Strings(d)
	if len(d) > 6 {
		d = append(d[:6], fmt.Sprintf("... %d more", len(d)-6))
	}
	return d
}

func copyDataDir(src string) (string, error) {
	dst, err := os.MkdirTemp("", "t38v-shrinkcp-")
	if err != nil {
		return "", err
	}
	ents, err := os.ReadDir(src)
	if err != nil {
		return "", err
	}
	for _, e := range ents {
		if strings.HasPrefix(e.Name(), "appendonly.aof") {
			if err := copyFile(filepath.Join(src, e.Name()), filepath.Join(dst, e.Name())); err != nil {
				return "", err
			}
		}
	}
	return dst, nil
}

type shrinkGates struct {
	mu      sync.Mutex
	active  bool
	arrived chan string
	release chan struct{}
	crashAt string
	crashDo func(s *server.Server)
}

func (g *shrinkGates) hook(s *server.Server, point string, args ...interface{}) {
	if !strings.HasPrefix(point, "shrink.") {
		return
	}
	g.mu.Lock()
	active := g.active
	crashAt, crashDo := g.crashAt, g.crashDo
	g.mu.Unlock()
	if !active {
		return
	}
	switch point {
	case "shrink.keys", "shrink.ids", "shrink.hooks", "shrink.final", "shrink.end":
		g.arrived <- point
		<-g.release
	default:
		// the steps of the swap: under the server lock; a crash point
		if point == crashAt && crashDo != nil {
			crashDo(s)
		}
	}
}

func runShrinkOnce(c *t38.Conn, g *shrinkGates, at func(gate string, occurrence int)) (map[string]int, error) {
	counts := map[string]int{}
	g.mu.Lock()
	g.active = true
	g.mu.Unlock()
	if r, err := c.Do("AOFSHRINK"); err != nil || r.Kind != '+' {
		return nil, fmt.Errorf("AOFSHRINK: %v %v", r, err)
	}
	for {
		select {
		case p := <-g.arrived:
			name := strings.TrimPrefix(p, "shrink.")
			counts[name]++
			if p != "shrink.end" && at != nil {
				at(name, counts[name])
			}
			if p == "shrink.end" {
				g.mu.Lock()
				g.active = false
				g.mu.Unlock()
				g.release <- struct{}{}
				return counts, nil
			}
			g.release <- struct{}{}
		case <-time.After(30 * time.Second):
			return nil, fmt.Errorf("the rewrite did not reach its next gate within 30 s (%v so far)", counts)
		}
	}
}

func shrinkOne(ci int, sc *shrinkCase) ([]shrinkMismatch, map[string]int, error) {
	var out []shrinkMismatch
	g := &shrinkGates{arrived: make(chan string), release: make(chan struct{})}
	srv, err := t38.Start(t38.Options{Hook: g.hook})
	if err != nil {
		return nil, nil, err
	}
	defer srv.StopAndRemove()
	c, err := srv.Dial()
	if err != nil {
		return nil, nil, err
	}
	defer c.Close()
	// filler collections between the model's keys, so that every model key is in a different key batch
	for _, base := range []string{ks.Keys[0], ks.Keys[1], ks.Keys[2]} {
		for i := 1; i <= 8; i++ {
			for j := 1; j <= 3; j++ {
				c.Do("SET", fmt.Sprintf("%s-f-%02d", base, i), fmt.Sprintf("x%d", j), "FIELD", "n", fmt.Sprint(i*j), "POINT", fmt.Sprint(i), fmt.Sprint(j))
			}
		}
	}
	for _, ac := range sc.Init {
		if _, err := c.Do(ks.Concrete(ac)...); err != nil {
			return nil, nil, err
		}
	}
	for _, raw := range sc.InitRaw {
		if _, err := c.Do(raw...); err != nil {
			return nil, nil, err
		}
	}
	// filler objects between the model's ids inside the model's collections (more than one id batch),
	// of every kind the rewrite has to render
	st0 := srv.S.VerifDump(true)
	for _, k := range []string{ks.Keys[0], ks.Keys[1], ks.Keys[2]} {
		if _, ok := st0.Cols[k]; !ok {
			continue
		}
		for _, base := range []string{ks.Ids[0], ks.Ids[1]} {
			for i := 1; i <= 36; i++ {
				id := fmt.Sprintf("%s-f-%03d", base, i)
				switch i % 4 {
				case 0:
					c.Do("SET", k, id, "FIELD", "a.x", "abc", "FIELD", "speed", "1.5", "POINT", "1", fmt.Sprint(i))
				case 1:
					c.Do("SET", k, id, "EX", "100000", "STRING", fmt.Sprintf("value \"%d\"", i))
				case 2:
					c.Do("SET", k, id, "FIELD", "temp", `{"a":[1,2]}`, "OBJECT", `{"type":"LineString","coordinates":[[1,1],[2,2]]}`)
				case 3:
					c.Do("SET", k, id, "BOUNDS", "1", "2", "3", "4")
				}
			}
		}
	}
	// dry run: how many gates does this dataset produce? (and a first shrink must already be equivalent)
	counts, err := runShrinkOnce(c, g, nil)
	if err != nil {
		return nil, nil, err
	}
	// the real run: commands issued while the rewrite is parked at chosen gates
	plan := map[string][]shrinkDuring{} // "gate#occurrence" -> commands
	for _, d := range sc.During {
		n := counts[d.Gate]
		if n == 0 {
			continue
		}
		occ := 1 + int(d.Frac*float64(n))
		if d.Occ > 0 {
			occ = d.Occ
		}
		if occ > n {
			occ = n
		}
		key := fmt.Sprintf("%s#%d", d.Gate, occ)
		plan[key] = append(plan[key], d)
	}
	issued := 0
	var crashDir string
	var crashState server.VerifState
	var crashErr error
	if sc.Crash != "" {
		g.mu.Lock()
		g.crashAt = sc.Crash
		g.crashDo = func(s *server.Server) {
			crashState = s.VerifDump(false)
			crashDir, crashErr = copyDataDir(srv.Dir)
		}
		g.mu.Unlock()
	}
	// the interleaved commands go over a connection of their own.  A command may have to wait for the rewrite (an
	// implementation is free to hold the server lock across the point where the harness has parked it): after 2 s the
	// rewrite is let go on and the reply is collected afterwards - waiting is not a disagreement, only a wrong reply is
	c2, err := srv.Dial()
	if err != nil {
		return nil, nil, err
	}
	defer c2.Close()
	c2.Timeout = 60 * time.Second
	type shrinkReply struct {
		args []string
		r    t38.Value
		err  error
	}
	judge := func(x shrinkReply) {
		if x.err != nil {
			out = append(out, shrinkMismatch{ci, "served", fmt.Sprintf("%q during the rewrite: %v", x.args, x.err)})
		} else if x.r.Kind == '-' && strings.Contains(x.r.Str, "LOADING") {
			out = append(out, shrinkMismatch{ci, "served", fmt.Sprintf("%q during the rewrite: %s", x.args, x.r.Str)})
		}
	}
	var waiting chan shrinkReply
	blocked := 0
	_, err = runShrinkOnce(c, g, func(gate string, occ int) {
		for _, d := range plan[fmt.Sprintf("%s#%d", gate, occ)] {
			if waiting != nil {
				select {
				case x := <-waiting:
					judge(x)
					waiting = nil
				default:
					continue // the connection is still waiting for the rewrite: this command is not issued
				}
			}
			args := d.Raw
			if len(args) == 0 {
				args = ks.Concrete(d.C)
			}
			issued++
			done := make(chan shrinkReply, 1)
			go func(args []string) {
				r, err := c2.Do(args...)
				done <- shrinkReply{args, r, err}
			}(args)
			select {
			case x := <-done:
				judge(x)
			case <-time.After(2 * time.Second):
				waiting = done
				blocked++
			}
		}
	})
	if err != nil {
		return nil, nil, err
	}
	if waiting != nil {
		select {
		case x := <-waiting:
			judge(x)
		case <-time.After(60 * time.Second):
			out = append(out, shrinkMismatch{ci, "served", "a command issued during the rewrite was not answered within 60 s after the rewrite had ended"})
		}
	}
	if crashErr != nil {
		return nil, nil, crashErr
	}
	stats := map[string]int{"issued": issued, "gates_keys": counts["keys"], "gates_ids": counts["ids"], "waited_for_the_rewrite": blocked}
	// (a)+(b)+(c): restart on the shrunk file = the live dataset, including the writes made meanwhile
	live := srv.S.VerifDump(true)
	dir, err := copyDataDir(srv.Dir)
	if err != nil {
		return nil, nil, err
	}
	s2, err := t38.Start(t38.Options{Dir: dir})
	if err != nil {
		out = append(out, shrinkMismatch{ci, "shrunk", "server does not start on the rewritten log: " + err.Error()})
		os.RemoveAll(dir)
	} else {
		if d := diffStates(live, s2.S.VerifDump(true), 2e9); len(d) > 0 {
			out = append(out, shrinkMismatch{ci, "shrunk", "restart on the rewritten log differs from the dataset served: " + strings.Join(d, "; ")})
		}
		s2.StopAndRemove()
		stats["restarts"]++
	}
	// (d) crash at a step of the swap
	if sc.Crash != "" {
		if crashDir == "" {
			return nil, nil, fmt.Errorf("crash point %s was never reached", sc.Crash)
		}
		g3 := &shrinkGates{arrived: make(chan string), release: make(chan struct{})}
		s3, err := t38.Start(t38.Options{Dir: crashDir, Hook: g3.hook})
		if err != nil {
			out = append(out, shrinkMismatch{ci, "crash", fmt.Sprintf("killed at %s: server does not start: %v", sc.Crash, err)})
			os.RemoveAll(crashDir)
		} else {
			if d := diffStates(crashState, s3.S.VerifDump(true), 2e9); len(d) > 0 {
				out = append(out, shrinkMismatch{ci, "crash", fmt.Sprintf("killed at %s: the restart does not recover the acknowledged dataset: %s", sc.Crash, strings.Join(d, "; "))})
			} else if len(sc.Round2)+len(sc.Round2Raw) > 0 {
				// the next process lifetime on whatever the kill left in the directory: writes, a complete
				// rewrite, one more acknowledged write, restart
				ms, err := shrinkRound2(ci, sc, s3, g3)
				if err != nil {
					s3.StopAndRemove()
					return nil, nil, err
				}
				out = append(out, ms...)
				stats["round2"]++
			}
			s3.StopAndRemove()
			stats["crash_restarts"]++
		}
	}
	return out, stats, nil
}

// shrinkRound2: second process lifetime after a kill during the swap (Shrink.tla: Restart, Write*, Start ... Reopen).
func shrinkRound2(ci int, sc *shrinkCase, s3 *t38.Srv, g3 *shrinkGates) ([]shrinkMismatch, error) {
	var out []shrinkMismatch
	c, err := s3.Dial()
	if err != nil {
		return nil, err
	}
	defer c.Close()
	for _, ac := range sc.Round2 {
		if _, err := c.Do(ks.Concrete(ac)...); err != nil {
			return nil, err
		}
	}
	for _, raw := range sc.Round2Raw {
		if _, err := c.Do(raw...); err != nil {
			return nil, err
		}
	}
	if _, err := runShrinkOnce(c, g3, nil); err != nil {
		return nil, err
	}
	if r, err := c.Do("SET", ks.Keys[0], "after-second-shrink", "FIELD", "n", "7", "POINT", "5", "6"); err != nil || r.Kind == '-' {
		return nil, fmt.Errorf("write after the second rewrite: %v %v", r, err)
	}
	live := s3.S.VerifDump(true)
	dir, err := copyDataDir(s3.Dir)
	if err != nil {
		return nil, err
	}
	s4, err := t38.Start(t38.Options{Dir: dir})
	if err != nil {
		out = append(out, shrinkMismatch{ci, "round2", fmt.Sprintf("killed at %s, restarted, shrunk again: the server does not start on the rewritten log: %v", sc.Crash, err)})
		os.RemoveAll(dir)
		return out, nil
	}
	if d := diffStates(live, s4.S.VerifDump(true), 2e9); len(d) > 0 {
		out = append(out, shrinkMismatch{ci, "round2", fmt.Sprintf("killed at %s, restarted, shrunk again: a restart on the rewritten log differs from the dataset served: %s", sc.Crash, strings.Join(d, "; "))})
	}
	s4.StopAndRemove()
	return out, nil
}

func shrinkRun(args []string) int {
	fs := flag.NewFlagSet("shrink-run", flag.ExitOnError)
	in := fs.String("in", "", "cases (NDJSON)")
	par := fs.Int("par", 6, "parallel cases")
	fs.Parse(args)
	f, err := os.Open(*in)
	if err != nil {
		fmt.Fprintln(os.Stderr, err)
		return 2
	}
	defer f.Close()
	var cases []shrinkCase
	sc := bufio.NewScanner(f)
	sc.Buffer(make([]byte, 1<<20), 1<<28)
	for sc.Scan() {
		if len(sc.Bytes()) == 0 {
			continue
		}
		var c shrinkCase
		d := json.NewDecoder(bytes.NewReader(sc.Bytes()))
		d.UseNumber()
		if err := d.Decode(&c); err != nil {
			fmt.Fprintln(os.Stderr, err)
			return 2
		}
		cases = append(cases, c)
	}
	var mu sync.Mutex
	var mism []shrinkMismatch
	tot := map[string]int{}
	var firstErr error
	var wg sync.WaitGroup
	sem := make(chan struct{}, *par)
	for i := range cases {
		wg.Add(1)
		sem <- struct{}{}
		go func(i int) {
			defer wg.Done()
			defer func() { <-sem }()
			ms, st, err := shrinkOne(i, &cases[i])
			mu.Lock()
			defer mu.Unlock()
			if err != nil {
				if firstErr == nil {
					firstErr = fmt.Errorf("case %d: %v", i, err)
				}
				return
			}
			mism = append(mism, ms...)
			for k, v := range st {
				tot[k] += v
			}
			tot["cases"]++
		}(i)
	}
	wg.Wait()
	if firstErr != nil {
		fmt.Fprintln(os.Stderr, "harness error:", firstErr)
		return 2
	}
	emit(map[string]interface{}{"stats": tot, "mismatches": mism})
	if len(mism) > 0 {
		return 1
	}
	return 0
}
