package main

import (
	"bufio"
	"encoding/json"
	"flag"
	"fmt"
	"os"
	"strings"
	"sync"
	"sync/atomic"

	"github.com/tidwall/tile38/verifharness/roam"
)

func init() {
	register("roam-table", roamTable)
	register("roam-replay", roamReplay)
}

// roamTable prints the grid of concrete positions with the harness' own
// haversine distance table (millimetres) and bounding-rectangle table: the
// CONSTANTS Dist / Rect / Radius of spec/Roam.tla (C20).
func roamTable(args []string) int {
	fs := flag.NewFlagSet("roam-table", flag.ExitOnError)
	lat0 := fs.Float64("lat0", 33.4, "latitude of the south-west cell")
	lon0 := fs.Float64("lon0", -111.9, "longitude of the south-west cell")
	rows := fs.Int("rows", 3, "rows")
	cols := fs.Int("cols", 3, "columns")
	ns := fs.Float64("side-ns", 800, "cell side north-south in metres")
	ew := fs.Float64("side-ew", 800, "cell side east-west in metres")
	radius := fs.String("radius", "1000", "fence radius in metres (verbatim ROAM argument)")
	fs.Parse(args)
	t, err := roam.BuildTable(*lat0, *lon0, *rows, *cols, *ns, *ew, *radius)
	if err != nil {
		fmt.Fprintln(os.Stderr, err)
		return 2
	}
	emit(t)
	return 0
}

// roamReplay replays TLC-generated Roam behaviours into real servers with the
// ROAM fence on a channel, a webhook and a live connection, and compares the
// nearby / faraway entries after every SET with TLC's.
func roamReplay(args []string) int {
	fs := flag.NewFlagSet("roam-replay", flag.ExitOnError)
	in := fs.String("in", "", "behaviours, one JSON document per line")
	tablePath := fs.String("table", "", "output of roam-table (the same tables TLC used)")
	par := fs.Int("par", 8, "parallel servers")
	transports := fs.String("transports", "chan,hook,live", "subset of chan,hook,live")
	tol := fs.Float64("tol", 0.005, "relative tolerance on metres")
	dir := fs.String("dir", "", "scratch directory for the servers' data")
	spin := fs.Bool("spinlock", false, "use the spinlock implementation")
	keep := fs.Int("examples", 3, "mismatch examples kept per class and transport")
	fs.Parse(args)
	fail := func(err error) int {
		fmt.Fprintln(os.Stderr, "harness error:", err)
		return 2
	}
	var table roam.Table
	tb, err := os.ReadFile(*tablePath)
	if err == nil {
		err = json.Unmarshal(tb, &table)
	}
	if err != nil {
		return fail(err)
	}
	if *dir == "" {
		d, err := os.MkdirTemp(".", "roam-srv-")
		if err != nil {
			return fail(err)
		}
		*dir = d
	}
	defer os.RemoveAll(*dir)
	f, err := os.Open(*in)
	if err != nil {
		return fail(err)
	}
	defer f.Close()
	sink, err := roam.NewSink()
	if err != nil {
		return fail(err)
	}
	defer sink.Close()
	opt := roam.Options{Table: &table, Transports: strings.Split(*transports, ","), Tol: *tol, Dir: *dir, Spinlock: *spin}

	type job struct {
		i    int
		line []byte
	}
	jobs := make(chan job, 1024)
	var mu sync.Mutex
	total := roam.NewStats()
	kept := map[string]int{}
	var examples []roam.Mismatch
	var nmism int64
	var firstErr error
	var wg sync.WaitGroup
	for w := 0; w < *par; w++ {
		wg.Add(1)
		go func(w int) {
			defer wg.Done()
			setErr := func(err error) {
				mu.Lock()
				if firstErr == nil {
					firstErr = err
				}
				mu.Unlock()
			}
			r, err := roam.NewRunner(w, opt, sink)
			if err != nil {
				setErr(err)
				for range jobs {
				}
				return
			}
			defer r.Close()
			st := roam.NewStats()
			for j := range jobs {
				mu.Lock()
				stop := firstErr != nil
				mu.Unlock()
				if stop {
					continue
				}
				var b roam.Behaviour
				if err := json.Unmarshal(j.line, &b); err != nil {
					setErr(fmt.Errorf("behaviour %d: %v", j.i, err))
					continue
				}
				ms, err := r.Run(j.i, &b, st)
				if len(ms) > 0 {
					atomic.AddInt64(&nmism, int64(len(ms)))
					mu.Lock()
					for _, m := range ms {
						k := m.Class + "/" + m.Transport
						if kept[k] < *keep {
							kept[k]++
							examples = append(examples, m)
						}
					}
					mu.Unlock()
				}
				if err != nil {
					setErr(err)
				}
			}
			mu.Lock()
			total.Add(st)
			mu.Unlock()
		}(w)
	}
	sc := bufio.NewScanner(f)
	sc.Buffer(make([]byte, 1<<20), 1<<28)
	n := 0
	var samples []string
	for sc.Scan() {
		line := append([]byte(nil), sc.Bytes()...)
		if len(line) == 0 {
			continue
		}
		if n%4999 == 0 && len(samples) < 3 {
			samples = append(samples, string(line))
		}
		jobs <- job{n, line}
		n++
	}
	close(jobs)
	wg.Wait()
	if firstErr != nil {
		return fail(firstErr)
	}
	if s := atomic.LoadInt64(&sink.Stray); s > 0 {
		return fail(fmt.Errorf("%d webhook messages for unknown hooks", s))
	}
	emit(map[string]interface{}{"stats": total, "read": n, "mismatch_count": nmism, "mismatches": examples, "samples": samples})
	if nmism > 0 {
		return 1
	}
	return 0
}
