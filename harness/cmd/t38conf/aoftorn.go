package main

import (
	"bufio"
	"bytes"
	"encoding/json"
	"flag"
	"fmt"
	"math/rand"
	"os"
	"path/filepath"
	"strings"
	"sync"

	"github.com/tidwall/tile38/verifharness/ks"
	"github.com/tidwall/tile38/verifharness/t38"
)

func init() { register("aof-torn", aofTorn) }

type tornBehaviour struct {
	H []struct {
		C     map[string]interface{} `json:"c"`
		RR    interface{}            `json:"rr"`
		Upd   bool                   `json:"upd"`
		Post  interface{}            `json:"post"`
		Postx interface{}            `json:"postx"`
	} `json:"h"`
	Empty  interface{}            `json:"empty"`
	Emptyx interface{}            `json:"emptyx"`
	Extra  map[string]interface{} `json:"extra"`
}

type tornMismatch struct {
	Behaviour int    `json:"behaviour"`
	Offset    int    `json:"offset"`
	Pad       int    `json:"pad"`
	What      string `json:"what"` // log | start | recovered | size | second
	Detail    string `json:"detail"`
}

// parseLog returns the end offset of every complete command of a log and the commands.
func parseLog(b []byte) (ends []int, cmds [][]string, err error) {
	rd := bufio.NewReader(bytes.NewReader(b))
	pos := 0
	for pos < len(b) {
		sub := bufio.NewReader(bytes.NewReader(b[pos:]))
		v, err := t38.ReadValue(sub)
		if err != nil {
			return ends, cmds, fmt.Errorf("log not parseable at %d: %v", pos, err)
		}
		// length consumed: re-encode (canonical RESP, which is what the server writes)
		var args []string
		for _, a := range v.Arr {
			args = append(args, a.Str)
		}
		n := len(t38.AppendCommand(nil, args...))
		pos += n
		ends = append(ends, pos)
		cmds = append(cmds, args)
	}
	_ = rd
	return ends, cmds, nil
}

// padded builds the first o bytes of the log with a run of `pad` NUL bytes inserted at
// every command boundary (including offset 0) that lies at or before o. It returns the
// bytes and the expected size of the file after recovery (end of the last complete command
// plus the padding that follows it inside the kept part).
func padded(log []byte, ends []int, o, pad int) (file []byte, keep int) {
	isBoundary := map[int]bool{0: true}
	for _, e := range ends {
		isBoundary[e] = true
	}
	lastWhole := 0
	for _, e := range ends {
		if e <= o {
			lastWhole = e
		}
	}
	for i := 0; i <= o; i++ {
		if isBoundary[i] && pad > 0 {
			file = append(file, make([]byte, pad)...)
		}
		if i == lastWhole {
			keep = len(file)
		}
		if i < o {
			file = append(file, log[i])
		}
	}
	if o == lastWhole {
		keep = len(file)
	}
	return file, keep
}

// loadChunk is the size of the reads of loadAOF (internal/server/aof.go: packet := make([]byte, 0xFFFF)).
const loadChunk = 0xFFFF

type bigVariant struct {
	log    []byte
	ends   []int
	posts  []interface{}
	postxs []interface{}
	minOff int
}

// bigPrefixed puts `SET zz-fill f STRING <pad>` and `DROP zz-fill` (canonical RESP, as the server writes them) in front of a
// log; the pad is sized so that the first read-chunk boundary of the loader falls into the middle of a randomly chosen
// command of the log.  Tears are taken only behind the prefix, where the dataset is the model's again.
func bigPrefixed(log []byte, ends []int, posts, postxs []interface{}, rng *rand.Rand) (bigVariant, bool) {
	j := rng.Intn(len(ends))
	start := 0
	if j > 0 {
		start = ends[j-1]
	}
	mid := (start + ends[j]) / 2
	want := loadChunk - mid // length of the prefix
	drop := t38.AppendCommand(nil, "DROP", "zz-fill")
	n := want - len(drop) - 60
	for iter := 0; iter < 8 && n > 0; iter++ {
		set := t38.AppendCommand(nil, "SET", "zz-fill", "f", "STRING", strings.Repeat("x", n))
		d := want - len(set) - len(drop)
		if d == 0 {
			pre := append(set, drop...)
			v := bigVariant{log: append(append([]byte{}, pre...), log...), minOff: len(pre)}
			v.ends = []int{len(set), len(pre)}
			for _, e := range ends {
				v.ends = append(v.ends, e+len(pre))
			}
			// complete commands -> expected state: 0 none, 1 (the filler alone: never used), 2.. the model's states
			v.posts = append([]interface{}{posts[0], posts[0]}, posts...)
			v.postxs = append([]interface{}{postxs[0], postxs[0]}, postxs...)
			return v, true
		}
		n += d
	}
	return bigVariant{}, false
}

func aofTorn(args []string) int {
	fs := flag.NewFlagSet("aof-torn", flag.ExitOnError)
	in := fs.String("in", "", "behaviours (NDJSON)")
	par := fs.Int("par", 24, "parallel recoveries")
	all := fs.Bool("all", false, "every byte offset (default: every offset near a boundary plus a stride sample)")
	stride := fs.Int("stride", 5, "stride of the sample when -all is not given")
	seed := fs.Int64("seed", 1, "seed")
	maxm := fs.Int("max-mismatch", 20, "")
	bigEvery := fs.Int("big-every", 4, "every n-th log is also torn behind a prefix that puts a command across the loader's 64 KiB read-chunk boundary (0: never)")
	fs.Parse(args)
	f, err := os.Open(*in)
	if err != nil {
		fmt.Fprintln(os.Stderr, err)
		return 2
	}
	defer f.Close()
	sc := bufio.NewScanner(f)
	sc.Buffer(make([]byte, 1<<20), 1<<28)
	var mu sync.Mutex
	var mism []tornMismatch
	var firstErr error
	offsets, recoveries, logs, cmdsTotal, bytesTotal, bigLogs := 0, 0, 0, 0, 0, 0
	var stopWG sync.WaitGroup
	rng := rand.New(rand.NewSource(*seed))
	bi := -1
	for sc.Scan() {
		if len(sc.Bytes()) == 0 {
			continue
		}
		bi++
		var b tornBehaviour
		d := json.NewDecoder(bytes.NewReader(sc.Bytes()))
		d.UseNumber()
		if err := d.Decode(&b); err != nil {
			fmt.Fprintln(os.Stderr, err)
			return 2
		}
		// 1. produce the log with the real server
		srv, err := t38.Start(t38.Options{})
		if err != nil {
			fmt.Fprintln(os.Stderr, err)
			return 2
		}
		conn, err := srv.Dial()
		if err != nil {
			fmt.Fprintln(os.Stderr, err)
			return 2
		}
		var posts, postxs []interface{}
		var logged [][]string
		posts = append(posts, b.Empty)
		postxs = append(postxs, b.Emptyx)
		bad := false
		for si, s := range b.H {
			a := ks.Concrete(s.C)
			r, err := conn.Do(a...)
			if err != nil {
				fmt.Fprintln(os.Stderr, err)
				return 2
			}
			if m := ks.MatchRESP(s.RR, r, s.C["op"].(string)); m != "" {
				mism = append(mism, tornMismatch{bi, -1, 0, "log", fmt.Sprintf("step %d %q: %s", si, a, m)})
				bad = true
				break
			}
			if s.Upd {
				posts = append(posts, s.Post)
				postxs = append(postxs, s.Postx)
				logged = append(logged, a)
			}
		}
		conn.Close()
		srv.Stop()
		logBytes, err := os.ReadFile(srv.AOFPath())
		os.RemoveAll(srv.Dir)
		if bad {
			continue
		}
		if err != nil {
			fmt.Fprintln(os.Stderr, err)
			return 2
		}
		ends, cmds, err := parseLog(logBytes)
		if err != nil {
			mism = append(mism, tornMismatch{bi, -1, 0, "log", err.Error()})
			continue
		}
		// the log is the subsequence of commands that report an update (same command, key and id; the spelling of an
		// entry is the server's business)
		sameLog := len(cmds) == len(logged)
		for i := 0; sameLog && i < len(cmds); i++ {
			sameLog = sameLogged(logged[i], cmds[i])
		}
		if !sameLog {
			mism = append(mism, tornMismatch{bi, -1, 0, "log", fmt.Sprintf("log holds %d commands %q, the model logs %d commands %q", len(cmds), cmds, len(logged), logged)})
			continue
		}
		logs++
		cmdsTotal += len(cmds)
		bytesTotal += len(logBytes)
		// the log as written, and (every n-th log) the same log behind a prefix of two commands that cancel each other
		// (SET of a large string, DROP) sized so that the loader's read-chunk boundary falls inside one of the commands
		type variant struct {
			log    []byte
			ends   []int
			posts  []interface{}
			postxs []interface{}
			minOff int
			big    bool
		}
		variants := []variant{{logBytes, ends, posts, postxs, 0, false}}
		if *bigEvery > 0 && bi%*bigEvery == 0 && len(ends) > 0 {
			if v, ok := bigPrefixed(logBytes, ends, posts, postxs, rng); ok {
				variants = append(variants, variant{v.log, v.ends, v.posts, v.postxs, v.minOff, true})
				bigLogs++
			}
		}
		for _, v := range variants {
			logBytes, ends, posts, postxs, minOff, big := v.log, v.ends, v.posts, v.postxs, v.minOff, v.big
			_ = postxs
			// 2. choose offsets
			near := map[int]bool{}
			if big {
				// every offset around the read-chunk boundaries of loadAOF
				for m := loadChunk; m < len(logBytes)+8; m += loadChunk {
					for d := -24; d <= 24; d++ {
						if m+d >= minOff && m+d <= len(logBytes) {
							near[m+d] = true
						}
					}
				}
			}
			for _, e := range append([]int{0}, ends...) {
				if e < minOff {
					continue
				}
				for d := -3; d <= 3; d++ {
					if e+d >= 0 && e+d <= len(logBytes) {
						near[e+d] = true
					}
				}
			}
			var offs []int
			phase := rng.Intn(*stride)
			for o := minOff; o <= len(logBytes); o++ {
				if (*all && !big) || near[o] || (!big && o%*stride == phase) {
					offs = append(offs, o)
				}
			}
			extra := ks.Concrete(b.Extra)
			type job struct{ o, pad int }
			jobs := make(chan job, 256)
			var wg sync.WaitGroup
			for w := 0; w < *par; w++ {
				wg.Add(1)
				go func() {
					defer wg.Done()
					for j := range jobs {
						mu.Lock()
						stop := len(mism) >= *maxm || firstErr != nil
						mu.Unlock()
						if stop {
							continue
						}
						file, keep := padded(logBytes, ends, j.o, j.pad)
						whole := 0
						for _, e := range ends {
							if e <= j.o {
								whole++
							}
						}
						add := func(what, detail string) {
							mu.Lock()
							mism = append(mism, tornMismatch{bi, j.o, j.pad, what, detail})
							mu.Unlock()
						}
						dir, _ := os.MkdirTemp("", "t38v-torn-")
						path := filepath.Join(dir, "appendonly.aof")
						os.WriteFile(path, file, 0600)
						s1, err := t38.Start(t38.Options{Dir: dir})
						if err != nil {
							add("start", "server does not start on the torn log: "+err.Error())
							os.RemoveAll(dir)
							continue
						}
						mu.Lock()
						recoveries++
						mu.Unlock()
						if d := ks.MatchState(posts[whole], s1.S.VerifDump(true)); len(d) > 0 {
							add("recovered", fmt.Sprintf("%d complete commands before the tear: %s", whole, strings.Join(d, "; ")))
						} else if fi, err := os.Stat(path); err != nil || int(fi.Size()) != keep {
							add("size", fmt.Sprintf("file is %d bytes after recovery, the last complete command (with its padding) ends at %d", fi.Size(), keep))
						} else {
							// keeps appending: one more acknowledged write must survive a further restart
							c, err := s1.Dial()
							if err != nil {
								mu.Lock()
								firstErr = fmt.Errorf("cannot connect to the recovered server: %v", err)
								mu.Unlock()
								s1.StopAndRemove()
								continue
							}
							r, err := c.Do(extra...)
							c.Close()
							if err != nil || r.Kind != '+' {
								add("second", fmt.Sprintf("write after recovery not acknowledged: %v %v", r, err))
							} else {
								dir2, _ := os.MkdirTemp("", "t38v-torn2-")
								if err := copyFile(path, filepath.Join(dir2, "appendonly.aof")); err != nil {
									mu.Lock()
									firstErr = err
									mu.Unlock()
								}
								s2, err := t38.Start(t38.Options{Dir: dir2})
								if err != nil {
									add("second", "server does not start after recovery + one write: "+err.Error())
									os.RemoveAll(dir2)
								} else {
									mu.Lock()
									recoveries++
									mu.Unlock()
									if d := ks.MatchState(postxs[whole], s2.S.VerifDump(true)); len(d) > 0 {
										add("second", fmt.Sprintf("after recovery, one acknowledged write and a kill: %s", strings.Join(d, "; ")))
									}
									stopWG.Add(1)
									go func() { defer stopWG.Done(); s2.StopAndRemove() }()
								}
							}
						}
						stopWG.Add(1)
						go func() { defer stopWG.Done(); s1.StopAndRemove() }()
					}
				}()
			}
			for _, o := range offs {
				offsets++
				jobs <- job{o, 0}
				if near[o] && o%2 == 0 {
					offsets++
					jobs <- job{o, 1 + rng.Intn(3)}
				}
			}
			close(jobs)
			wg.Wait()
		}
		if len(mism) >= *maxm {
			break
		}
	}
	stopWG.Wait()
	if firstErr != nil {
		fmt.Fprintln(os.Stderr, "harness error:", firstErr)
		return 2
	}
	emit(map[string]interface{}{"logs": logs, "commands": cmdsTotal, "bytes": bytesTotal, "offsets": offsets, "logs_across_chunk_boundary": bigLogs,
		"recoveries": recoveries, "mismatches": mism})
	if len(mism) > 0 {
		return 1
	}
	return 0
}
