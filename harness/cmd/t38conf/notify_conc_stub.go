package main

func notifyConc(args []string) int { return 2 }
