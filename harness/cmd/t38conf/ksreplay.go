package main

import (
	"bufio"
	"flag"
	"fmt"
	"os"
	"sync"

	"github.com/tidwall/tile38/verifharness/ks"
)

func init() { register("ks-replay", ksReplay) }

// ksReplay replays TLC-generated Keyspace behaviours (one JSON document per
// line) into twin real servers (RESP / JSON) and compares every reply and
// the final dataset with the specification's.
func ksReplay(args []string) int {
	fs := flag.NewFlagSet("ks-replay", flag.ExitOnError)
	in := fs.String("in", "", "file with behaviours, one JSON document per line")
	par := fs.Int("par", 8, "parallel server pairs")
	spin := fs.Bool("spinlock", false, "use the spinlock implementation")
	audit := fs.Bool("audit", true, "run the bookkeeping audit after each behaviour")
	maxm := fs.Int("max-mismatch", 50, "stop after this many mismatches")
	c19 := fs.Bool("c19", false, "after every step: bookkeeping audit and black-box recomputation of counters and access paths")
	fs.Parse(args)
	f, err := os.Open(*in)
	if err != nil {
		fmt.Fprintln(os.Stderr, err)
		return 2
	}
	defer f.Close()
	type job struct {
		i    int
		line []byte
	}
	jobs := make(chan job, 1024)
	var mu sync.Mutex
	total := ks.Stats{Ops: map[string]int{}}
	var mism []ks.Mismatch
	var samples []string
	var firstErr error
	var wg sync.WaitGroup
	for w := 0; w < *par; w++ {
		wg.Add(1)
		go func() {
			defer wg.Done()
			p, err := ks.NewPair(*spin)
			if err != nil {
				mu.Lock()
				if firstErr == nil {
					firstErr = err
				}
				mu.Unlock()
				for range jobs {
				}
				return
			}
			defer p.Close()
			if *c19 {
				cal, err := ks.Calibrate(p.A)
				if err != nil {
					mu.Lock()
					if firstErr == nil {
						firstErr = err
					}
					mu.Unlock()
					for range jobs {
					}
					return
				}
				p.Cal = cal
			}
			st := ks.Stats{Ops: map[string]int{}}
			for j := range jobs {
				mu.Lock()
				stop := firstErr != nil || len(mism) >= *maxm
				mu.Unlock()
				if stop {
					continue
				}
				b, err := ks.DecodeBehaviour(j.line)
				if err == nil {
					var ms []ks.Mismatch
					ms, err = p.Run(j.i, b, &st, *audit)
					if len(ms) > 0 {
						mu.Lock()
						mism = append(mism, ms...)
						mu.Unlock()
					}
				}
				if err != nil {
					mu.Lock()
					if firstErr == nil {
						firstErr = err
					}
					mu.Unlock()
				}
			}
			mu.Lock()
			total.Behaviours += st.Behaviours
			total.Steps += st.Steps
			total.Compared += st.Compared
			for k, v := range st.Ops {
				total.Ops[k] += v
			}
			mu.Unlock()
		}()
	}
	sc := bufio.NewScanner(f)
	sc.Buffer(make([]byte, 1<<20), 1<<28)
	n := 0
	for sc.Scan() {
		line := append([]byte(nil), sc.Bytes()...)
		if len(line) == 0 {
			continue
		}
		if n%997 == 0 && len(samples) < 5 {
			samples = append(samples, string(line))
		}
		jobs <- job{n, line}
		n++
	}
	close(jobs)
	wg.Wait()
	if firstErr != nil {
		fmt.Fprintln(os.Stderr, "harness error:", firstErr)
		return 2
	}
	emit(map[string]interface{}{"stats": total, "read": n, "mismatches": mism, "samples": samples})
	if len(mism) > 0 {
		return 1
	}
	return 0
}
