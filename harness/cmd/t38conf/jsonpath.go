package main

import (
	"bufio"
	"encoding/json"
	"flag"
	"fmt"
	"os"
	"reflect"
	"sync"

	"github.com/tidwall/tile38/verifharness/t38"
)

// json-replay: behaviours of spec/JsonPath.tla (JSET / JDEL / JGET with structured paths on one document) executed on
// real servers; after every step the reply and the document read back (GET, parsed) are compared with the
// specification's.  Every behaviour works on a key of its own.
func init() { register("json-replay", jsonReplay) }

type jpDoc struct {
	Ex   bool     `json:"ex"`
	A    string   `json:"a"`
	HasL bool     `json:"hasl"`
	L    []string `json:"l"`
	HasO bool     `json:"haso"`
	OX   string   `json:"ox"`
	OY   string   `json:"oy"`
}

type jpStep struct {
	Op   string `json:"op"`
	P    string `json:"p"`
	V    string `json:"v"`
	R    string `json:"r"`
	Post jpDoc  `json:"post"`
}

type jpBehaviour struct {
	Steps []jpStep `json:"steps"`
}

type jpMismatch struct {
	Behaviour int    `json:"behaviour"`
	Step      int    `json:"step"`
	What      string `json:"what"` // reply | doc
	Detail    string `json:"detail"`
}

func jpVal(tok string) interface{} {
	switch tok {
	case "n1":
		return float64(1)
	case "sx":
		return "x"
	case "null":
		return nil
	}
	return tok
}

// the document the specification expects, as encoding/json would parse it
func (d jpDoc) value() interface{} {
	if !d.Ex {
		return nil
	}
	m := map[string]interface{}{}
	if d.A != "none" {
		m["a"] = jpVal(d.A)
	}
	if d.HasL {
		l := []interface{}{}
		for _, e := range d.L {
			l = append(l, jpVal(e))
		}
		m["l"] = l
	}
	if d.HasO {
		o := map[string]interface{}{}
		if d.OX != "none" {
			o["x"] = jpVal(d.OX)
		}
		if d.OY != "none" {
			o["y"] = jpVal(d.OY)
		}
		m["o"] = o
	}
	return m
}

func jpArg(tok string) string {
	if tok == "n1" {
		return "1"
	}
	return "x"
}

func jpRun(c *t38.Conn, bi int, b *jpBehaviour) (out []jpMismatch, err error) {
	key := fmt.Sprintf("jp%d", bi)
	for si, s := range b.Steps {
		var args []string
		switch s.Op {
		case "jset":
			args = []string{"JSET", key, "d", s.P, jpArg(s.V)}
		case "jdel":
			args = []string{"JDEL", key, "d", s.P}
		case "jget":
			args = []string{"JGET", key, "d", s.P}
		}
		r, err := c.Do(args...)
		if err != nil {
			return nil, err
		}
		bad := ""
		switch s.R {
		case "ok":
			if r.Kind != '+' {
				bad = "OK"
			}
		case "one", "zero":
			want := int64(0)
			if s.R == "one" {
				want = 1
			}
			if r.Kind != ':' || r.Int != want {
				bad = fmt.Sprintf(":%d", want)
			}
		case "nil":
			if !(r.Kind == '$' && r.Null) {
				bad = "nil"
			}
		case "null":
			if r.Kind != '$' || r.Null || r.Str != "" {
				bad = `"" (a null element)`
			}
		case "n1", "sx":
			if r.Kind != '$' || r.Null || r.Str != jpArg(s.R) {
				bad = fmt.Sprintf("%q", jpArg(s.R))
			}
		case "json":
			var got interface{}
			want := s.Post.value().(map[string]interface{})[s.P]
			if r.Kind != '$' || r.Null || json.Unmarshal([]byte(r.Str), &got) != nil || !reflect.DeepEqual(got, want) {
				wj, _ := json.Marshal(want)
				bad = string(wj)
			}
		}
		if bad != "" {
			out = append(out, jpMismatch{bi, si, "reply", fmt.Sprintf("%v answered %.100s, specification: %s", args, r.String(), bad)})
		}
		g, err := c.Do("GET", key, "d")
		if err != nil {
			return nil, err
		}
		var got interface{}
		if !(g.Kind == '$' && g.Null) && g.Kind != '-' {
			if g.Kind != '$' || json.Unmarshal([]byte(g.Str), &got) != nil {
				got = "unparsable: " + g.String()
			}
		}
		if want := s.Post.value(); !reflect.DeepEqual(got, want) {
			wj, _ := json.Marshal(want)
			out = append(out, jpMismatch{bi, si, "doc", fmt.Sprintf("after %v (answered %.60s) the document reads %.200s, specification: %s", args, r.String(), g.String(), wj)})
		}
		if len(out) > 0 {
			return out, nil
		}
	}
	return out, nil
}

func jsonReplay(args []string) int {
	fs := flag.NewFlagSet("json-replay", flag.ExitOnError)
	in := fs.String("in", "", "behaviours (NDJSON)")
	par := fs.Int("par", 8, "parallel connections")
	fs.Parse(args)
	f, err := os.Open(*in)
	if err != nil {
		fmt.Fprintln(os.Stderr, err)
		return 2
	}
	defer f.Close()
	var bs []jpBehaviour
	sc := bufio.NewScanner(f)
	sc.Buffer(make([]byte, 1<<20), 1<<26)
	for sc.Scan() {
		if len(sc.Bytes()) == 0 {
			continue
		}
		var b jpBehaviour
		if err := json.Unmarshal(sc.Bytes(), &b); err != nil {
			fmt.Fprintln(os.Stderr, err)
			return 2
		}
		bs = append(bs, b)
	}
	srv, err := t38.Start(t38.Options{})
	if err != nil {
		fmt.Fprintln(os.Stderr, "harness error:", err)
		return 2
	}
	defer srv.StopAndRemove()
	var mu sync.Mutex
	var mism []jpMismatch
	var firstErr error
	steps := 0
	ops := map[string]int{}
	var wg sync.WaitGroup
	for w := 0; w < *par; w++ {
		wg.Add(1)
		go func(w int) {
			defer wg.Done()
			c, err := srv.Dial()
			if err != nil {
				mu.Lock()
				firstErr = err
				mu.Unlock()
				return
			}
			defer c.Close()
			for i := w; i < len(bs); i += *par {
				ms, err := jpRun(c, i, &bs[i])
				mu.Lock()
				if err != nil && firstErr == nil {
					firstErr = err
				}
				mism = append(mism, ms...)
				steps += len(bs[i].Steps)
				for _, s := range bs[i].Steps {
					ops[s.Op+" "+s.P]++
				}
				mu.Unlock()
				if err != nil {
					return
				}
				c.Do("DROP", fmt.Sprintf("jp%d", i))
			}
		}(w)
	}
	wg.Wait()
	if firstErr != nil {
		fmt.Fprintln(os.Stderr, "harness error:", firstErr)
		return 2
	}
	emit(map[string]interface{}{"stats": map[string]interface{}{"behaviours": len(bs), "steps": steps, "kinds": len(ops)}, "mismatches": mism})
	if len(mism) > 0 {
		return 1
	}
	return 0
}
