package main

import (
	"bufio"
	"encoding/json"
	"flag"
	"fmt"
	"os"
	"runtime/pprof"
	"sync"
	"sync/atomic"
	"time"

	"github.com/tidwall/tile38/verifharness/notify"
)

func init() {
	register("notify-replay", notifyReplay)
	register("notify-conc", notifyConc)
	register("notify-liverace", notifyLiveRace)
}

// notifyReplay replays TLC-generated failure scripts of the webhook path (spec/NotifySim.tla)
// into real servers whose hooks point to scripted endpoints inside the harness (C10).
func notifyReplay(args []string) int {
	fs := flag.NewFlagSet("notify-replay", flag.ExitOnError)
	in := fs.String("in", "", "behaviours, one JSON document per line")
	par := fs.Int("par", 8, "parallel servers")
	dir := fs.String("dir", "", "scratch directory for the servers' data")
	tick := fs.Duration("tick", 12*time.Second, "real duration of one model tick")
	stepWait := fs.Duration("step-wait", 20*time.Second, "patience for a scripted attempt")
	settle := fs.Duration("settle", 20*time.Second, "patience for the outstanding messages after recovery")
	maxStall := fs.Duration("max-stall", 1500*time.Millisecond, "scenarios during which the process stalled longer are not judged")
	corrupt := fs.Bool("corrupt", false, "self-test: drop one observed message per behaviour before comparing")
	keep := fs.Int("examples", 4, "mismatch examples kept per class")
	fs.Parse(args)
	fail := func(err error) int {
		fmt.Fprintln(os.Stderr, "harness error:", err)
		return 2
	}
	if *dir == "" {
		d, err := os.MkdirTemp(".", "notify-srv-")
		if err != nil {
			return fail(err)
		}
		*dir = d
	}
	defer os.RemoveAll(*dir)
	f, err := os.Open(*in)
	if err != nil {
		return fail(err)
	}
	defer f.Close()
	opt := notify.Options{Dir: *dir, TickDur: *tick, StepWait: *stepWait, Settle: *settle, MaxStall: *maxStall, Corrupt: *corrupt}

	type job struct {
		i    int
		line []byte
	}
	jobs := make(chan job, 4096)
	var mu sync.Mutex
	total := notify.NewStats()
	kept := map[string]int{}
	var examples []notify.Mismatch
	var nmism int64
	badBehaviours := map[int]bool{}
	var firstErr error
	var wg sync.WaitGroup
	for w := 0; w < *par; w++ {
		wg.Add(1)
		go func(w int) {
			defer wg.Done()
			setErr := func(err error) {
				mu.Lock()
				if firstErr == nil {
					firstErr = err
				}
				mu.Unlock()
			}
			var r *notify.Runner
			st := notify.NewStats()
			for j := range jobs {
				mu.Lock()
				stop := firstErr != nil
				mu.Unlock()
				if stop {
					continue
				}
				if r == nil {
					var err error
					if r, err = notify.NewRunner(w, opt); err != nil {
						setErr(err)
						continue
					}
					defer r.Close()
				}
				var sc notify.Script
				if err := json.Unmarshal(j.line, &sc); err != nil {
					setErr(fmt.Errorf("behaviour %d: %v", j.i, err))
					continue
				}
				ms, err := r.Run(j.i, &sc, st)
				if len(ms) > 0 {
					atomic.AddInt64(&nmism, int64(len(ms)))
					mu.Lock()
					badBehaviours[j.i] = true
					for _, m := range ms {
						if kept[m.Class] < *keep {
							kept[m.Class]++
							examples = append(examples, m)
						}
					}
					mu.Unlock()
				}
				if err != nil {
					setErr(err)
				}
			}
			mu.Lock()
			total.Add(st)
			mu.Unlock()
		}(w)
	}
	sc := bufio.NewScanner(f)
	sc.Buffer(make([]byte, 1<<20), 1<<28)
	n := 0
	for sc.Scan() {
		line := append([]byte(nil), sc.Bytes()...)
		if len(line) == 0 {
			continue
		}
		jobs <- job{n, line}
		n++
	}
	close(jobs)
	wg.Wait()
	if firstErr != nil {
		return fail(firstErr)
	}
	var bad []int
	for b := range badBehaviours {
		bad = append(bad, b)
	}
	emit(map[string]interface{}{"stats": total, "read": n, "mismatch_count": nmism, "mismatches": examples, "bad_behaviours": bad})
	if nmism > 0 {
		return 1
	}
	return 0
}

// notifyConc records concurrent runs (writers, publishers, subscribers, live fences, webhooks with a
// failing endpoint) for spec/NotifyTrace.tla; it judges nothing.
func notifyConc(args []string) int {
	fs := flag.NewFlagSet("notify-conc", flag.ExitOnError)
	out := fs.String("out", "trace.ndjson", "output, one run per line")
	runs := fs.Int("runs", 8, "number of runs")
	par := fs.Int("par", 4, "parallel runs")
	seed := fs.Int64("seed", 1, "seed")
	writers := fs.Int("writers", 4, "writer connections per run")
	ops := fs.Int("ops", 30, "operations per writer connection")
	subs := fs.Int("subs", 4, "subscriber connections per run")
	pace := fs.Duration("pace", 8*time.Millisecond, "mean pause between two operations of a writer connection")
	faults := fs.Bool("faults", true, "the endpoint of one webhook fails in random windows")
	dir := fs.String("dir", "", "scratch directory for the servers' data")
	patience := fs.Duration("patience", 90*time.Second, "patience for replies and end sentinels")
	fs.Parse(args)
	fail := func(err error) int {
		fmt.Fprintln(os.Stderr, "harness error:", err)
		return 2
	}
	if pf := os.Getenv("NOTIFY_PROF"); pf != "" {
		f, _ := os.Create(pf)
		pprof.StartCPUProfile(f)
		defer pprof.StopCPUProfile()
	}
	if *dir == "" {
		d, err := os.MkdirTemp(".", "notify-conc-")
		if err != nil {
			return fail(err)
		}
		*dir = d
	}
	defer os.RemoveAll(*dir)
	of, err := os.Create(*out)
	if err != nil {
		return fail(err)
	}
	defer of.Close()
	w := bufio.NewWriter(of)
	defer w.Flush()
	enc := json.NewEncoder(w)
	enc.SetEscapeHTML(false)
	var mu sync.Mutex
	var firstErr error
	info := map[string]int{}
	written, slow := 0, 0
	jobs := make(chan int, *runs)
	for i := 0; i < *runs; i++ {
		jobs <- i
	}
	close(jobs)
	var wg sync.WaitGroup
	for p := 0; p < *par; p++ {
		wg.Add(1)
		go func() {
			defer wg.Done()
			for i := range jobs {
				mu.Lock()
				stop := firstErr != nil
				mu.Unlock()
				if stop {
					continue
				}
				tr, err := notify.RunConc(i, notify.ConcOptions{Dir: *dir, Seed: *seed*100003 + int64(i), Writers: *writers, Ops: *ops,
					Subs: *subs, Faults: *faults, Patience: *patience, Pace: *pace})
				mu.Lock()
				if err != nil {
					if _, ok := err.(notify.ErrSlow); ok {
						slow++
						fmt.Fprintln(os.Stderr, "run", i, "not recorded:", err)
					} else if firstErr == nil {
						firstErr = err
					}
				} else {
					enc.Encode(tr)
					written++
					for k, v := range tr.Info {
						if k == "max_stall_ms" {
							if v > info[k] {
								info[k] = v
							}
						} else {
							info[k] += v
						}
					}
				}
				mu.Unlock()
			}
		}()
	}
	wg.Wait()
	if firstErr != nil {
		return fail(firstErr)
	}
	emit(map[string]interface{}{"runs": written, "not_recorded_slow": slow, "info": info})
	return 0
}

// notifyLiveRace is the minimal reproduction of the race on the group trees: several live fences on one key
// evaluate the same burst of writes at once (under the shared lock) and each connects the object to its group.
// Without the repair the process dies now and then (concurrent mutation of a non-concurrent B-tree).
func notifyLiveRace(args []string) int {
	fs := flag.NewFlagSet("notify-liverace", flag.ExitOnError)
	lives := fs.Int("lives", 4, "live fence connections on one key")
	n := fs.Int("n", 20000, "SETs of fresh objects, pipelined")
	fs.Parse(args)
	got, err := notify.LiveRace(*lives, *n)
	if err != nil {
		fmt.Fprintln(os.Stderr, "harness error:", err)
		return 2
	}
	emit(map[string]interface{}{"lives": *lives, "writes": *n, "events_received": got})
	return 0
}
