package main

import (
	"flag"
	"fmt"
	"os"
	"time"

	"github.com/tidwall/tile38/verifharness/proto"
)

func init() {
	register("proto-split", protoSplit)
	register("proto-mal", protoMal)
	register("proto-long", protoLong)
}

// protoSplit: TLC-generated streams (literal bytes) under TLC-generated segmentations,
// byte-at-a-time and random k-way cuts, against in-process servers.
func protoSplit(args []string) int {
	fs := flag.NewFlagSet("proto-split", flag.ExitOnError)
	in := fs.String("in", "", "NDJSON from TLC (ProtoGen!Emit)")
	tokf := fs.String("tok", "", "token table (JSON)")
	par := fs.Int("par", 8, "parallel servers")
	pause := fs.Int("pause-us", 300, "pause after every segment (microseconds)")
	rnd := fs.Int("random", 2, "random k-way segmentations per stream")
	bat := fs.Bool("byte-at-a-time", true, "also deliver every stream one byte per segment")
	probe := fs.Int("probe-every", 50, "probe the server-side receive queue on every n-th run")
	maxm := fs.Int("max-mismatch", 20, "stop after this many mismatches")
	nosent := fs.Bool("no-sentinel", false, "delimit replies by count and silence, not by a trailing ECHO")
	tmo := fs.Int("timeout-ms", 5000, "wait this long for an expected reply")
	dev := fs.String("dev-name", "", "name of the as-coded deviation whose expectation the cases carry")
	fs.Parse(args)
	tok, err := proto.LoadTokens(*tokf)
	if err != nil {
		fmt.Fprintln(os.Stderr, "tokens:", err)
		return 2
	}
	groups, err := proto.LoadGroups(*in)
	if err != nil {
		fmt.Fprintln(os.Stderr, "cases:", err)
		return 2
	}
	st, mism, err := proto.RunSplit(groups, tok, proto.SplitConfig{Par: *par, Pause: time.Duration(*pause) * time.Microsecond,
		Seed: seedFromEnv(), RandomCuts: *rnd, ByteAtATime: *bat, MaxMismatch: *maxm, ProbeEvery: *probe,
		NoSentinel: *nosent, Timeout: time.Duration(*tmo) * time.Millisecond, DevName: *dev})
	if err != nil {
		fmt.Fprintln(os.Stderr, "harness error:", err)
		return 2
	}
	var samples []interface{}
	for i := 0; i < len(groups) && len(samples) < 3; i += 1 + len(groups)/3 {
		g := groups[i]
		c := g.Cuts
		if len(c) > 3 {
			c = c[:3]
		}
		samples = append(samples, map[string]interface{}{"stream": fmt.Sprintf("%q", string(toB(g.S))), "frames": g.F, "exp": g.Exp, "cuts": c})
	}
	emit(map[string]interface{}{"stats": st, "mismatches": mism, "samples": samples})
	if len(mism) > 0 {
		return 1
	}
	return 0
}

func toB(s []int) []byte {
	b := make([]byte, len(s))
	for i, x := range s {
		b[i] = byte(x)
	}
	return b
}

// protoMal: TLC-generated malformed inputs against tile38-server subprocesses, with a bystander connection.
func protoMal(args []string) int {
	fs := flag.NewFlagSet("proto-mal", flag.ExitOnError)
	in := fs.String("in", "", "NDJSON from TLC (ProtoMal)")
	bin := fs.String("server", "", "tile38-server binary")
	par := fs.Int("par", 8, "parallel server processes")
	maxm := fs.Int("max-mismatch", 20, "stop after this many mismatches")
	fs.Parse(args)
	cases, err := proto.LoadMalCases(*in)
	if err != nil {
		fmt.Fprintln(os.Stderr, "cases:", err)
		return 2
	}
	base, err := os.MkdirTemp(".", "mal-")
	if err != nil {
		fmt.Fprintln(os.Stderr, err)
		return 2
	}
	defer os.RemoveAll(base)
	st, mism, err := proto.RunMal(cases, *bin, base, *par, *maxm)
	if err != nil {
		fmt.Fprintln(os.Stderr, "harness error:", err)
		return 2
	}
	var samples []interface{}
	for i := 0; i < len(cases) && len(samples) < 4; i += 1 + len(cases)/4 {
		c := cases[i]
		samples = append(samples, map[string]interface{}{"kind": c.K, "op": c.Op, "bytes": fmt.Sprintf("%q", string(toB(c.S))), "exp": c.Exp})
	}
	emit(map[string]interface{}{"stats": st, "mismatches": mism, "samples": samples})
	if len(mism) > 0 {
		return 1
	}
	return 0
}

// protoLong: long TLC-generated streams (pipelines of thousands of frames, values larger than the read
// buffer), encoded by the harness, under structural 2-way cuts, fixed-size, random k-way and byte-at-a-time delivery.
func protoLong(args []string) int {
	fs := flag.NewFlagSet("proto-long", flag.ExitOnError)
	in := fs.String("in", "", "NDJSON from TLC (ProtoSim)")
	tokf := fs.String("tok", "", "token table (JSON)")
	par := fs.Int("par", 8, "parallel servers")
	rnd := fs.Int("random", 6, "random k-way segmentations per stream")
	two := fs.Int("twoway", 40, "random 2-way cuts per stream in addition to the structural ones")
	bmax := fs.Int("byte-max", 20000, "byte-at-a-time for streams up to this many bytes")
	maxm := fs.Int("max-mismatch", 20, "stop after this many mismatches")
	burst := fs.Bool("burst", false, "deliver each stream in one write while the connection is busy")
	fs.Parse(args)
	tok, err := proto.LoadTokens(*tokf)
	if err != nil {
		fmt.Fprintln(os.Stderr, "tokens:", err)
		return 2
	}
	cases, err := proto.LoadLong(*in)
	if err != nil {
		fmt.Fprintln(os.Stderr, "cases:", err)
		return 2
	}
	st, mism, err := proto.RunLong(cases, tok, proto.LongConfig{Par: *par, Seed: seedFromEnv(), RandomCuts: *rnd, TwoWay: *two,
		ByteMax: *bmax, MaxMismatch: *maxm, Burst: *burst})
	if err != nil {
		fmt.Fprintln(os.Stderr, "harness error:", err)
		return 2
	}
	var samples []interface{}
	for i := 0; i < len(cases) && len(samples) < 2; i++ {
		n := len(cases[i].F)
		if n > 6 {
			n = 6
		}
		samples = append(samples, map[string]interface{}{"frames": len(cases[i].F), "first": cases[i].F[:n], "first_replies": cases[i].Exp.Replies[:n]})
	}
	emit(map[string]interface{}{"stats": st, "mismatches": mism, "samples": samples})
	if len(mism) > 0 {
		return 1
	}
	return 0
}
