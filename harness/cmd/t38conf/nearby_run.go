package main

func nearbyRun(args []string) int { return 2 }
