// Command t38conf is the conformance harness that binds the TLA+
// specifications under /verif/spec to the real tile38 code in /repo.
package main

import (
	"encoding/json"
	"fmt"
	"os"
	"sort"
)

type subcmd func(args []string) int

var subcmds = map[string]subcmd{}

func register(name string, fn subcmd) { subcmds[name] = fn }

func emit(v interface{}) {
	enc := json.NewEncoder(os.Stdout)
	enc.SetEscapeHTML(false)
	enc.Encode(v)
}

func main() {
	if len(os.Args) < 2 || subcmds[os.Args[1]] == nil {
		var names []string
		for n := range subcmds {
			names = append(names, n)
		}
		sort.Strings(names)
		fmt.Fprintf(os.Stderr, "usage: t38conf <%v> [flags]\n", names)
		os.Exit(2)
	}
	os.Exit(subcmds[os.Args[1]](os.Args[2:]))
}
