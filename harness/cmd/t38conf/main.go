// Command t38conf is the conformance harness that binds the TLA+
// specifications under /verif/spec to the real tile38 code in /repo.
package main

import (
	"encoding/json"
	"fmt"
	"os"
	"runtime/pprof"
	"sort"
	"syscall"
	"time"
)

// raiseFdLimit: an in-process tile38 server never closes its append-only file and its hook queue when it shuts down
// (two descriptors per server lifetime - harmless for a real process, which exits); drivers that start tens of thousands
// of servers in one process need a descriptor limit to match.
func raiseFdLimit() {
	var lim syscall.Rlimit
	if syscall.Getrlimit(syscall.RLIMIT_NOFILE, &lim) != nil {
		return
	}
	for _, want := range []uint64{1 << 20, 1 << 18, 1 << 16} {
		if lim.Cur >= want {
			return
		}
		n := syscall.Rlimit{Cur: want, Max: want}
		if lim.Max > want {
			n.Max = lim.Max
		}
		if syscall.Setrlimit(syscall.RLIMIT_NOFILE, &n) == nil {
			return
		}
	}
	lim.Cur = lim.Max
	syscall.Setrlimit(syscall.RLIMIT_NOFILE, &lim)
}

type subcmd func(args []string) int

var subcmds = map[string]subcmd{}

func register(name string, fn subcmd) { subcmds[name] = fn }

func emit(v interface{}) {
	enc := json.NewEncoder(os.Stdout)
	enc.SetEscapeHTML(false)
	enc.Encode(v)
}

// heapProfiles: VERIF_HEAPPROF=<path> makes a driver write a heap profile every 20 s (diagnosis of the drivers themselves)
func heapProfiles() {
	path := os.Getenv("VERIF_HEAPPROF")
	if path == "" {
		return
	}
	go func() {
		for {
			time.Sleep(20 * time.Second)
			if f, err := os.Create(path); err == nil {
				pprof.WriteHeapProfile(f)
				f.Close()
			}
			if f, err := os.Create(path + ".goroutines"); err == nil {
				pprof.Lookup("goroutine").WriteTo(f, 1)
				f.Close()
			}
		}
	}()
}

func main() {
	raiseFdLimit()
	heapProfiles()
	if len(os.Args) < 2 || subcmds[os.Args[1]] == nil {
		var names []string
		for n := range subcmds {
			names = append(names, n)
		}
		sort.Strings(names)
		fmt.Fprintf(os.Stderr, "usage: t38conf <%v> [flags]\n", names)
		os.Exit(2)
	}
	os.Exit(subcmds[os.Args[1]](os.Args[2:]))
}
