package main

import (
	"bufio"
	"encoding/json"
	"flag"
	"fmt"
	"io"
	"math/rand"
	"os"
	"path/filepath"
	"strings"
	"sync"
	"time"

	"github.com/tidwall/tile38/verifharness/ks"
	"github.com/tidwall/tile38/verifharness/t38"
)

func init() { register("aof-replay", aofReplay) }

type aofEvent struct {
	E    string                 `json:"e"` // cmd | snap | restart
	C    map[string]interface{} `json:"c"`
	Via  string                 `json:"via"`
	RR   interface{}            `json:"rr"`
	Upd  bool                   `json:"upd"`
	Post interface{}            `json:"post"`
}

type aofBehaviour struct {
	H    []aofEvent  `json:"h"`
	Post interface{} `json:"post"`
}

type aofMismatch struct {
	Behaviour int      `json:"behaviour"`
	Step      int      `json:"step"`
	What      string   `json:"what"` // reply | snapshot | restart | burst | expiry
	Cmd       []string `json:"cmd,omitempty"`
	Detail    string   `json:"detail"`
}

type aofStats struct {
	Behaviours, Cmds, Snapshots, Restarts, Bursts, ScriptWrites, Expiries int
}

func wrapScript(via string, args []string) []string {
	var b strings.Builder
	b.WriteString("return tile38.call(")
	for i := range args {
		if i > 0 {
			b.WriteByte(',')
		}
		fmt.Fprintf(&b, "ARGV[%d]", i+1)
	}
	b.WriteString(")")
	cmd := "EVAL"
	if via == "evalna" {
		cmd = "EVALNA"
	}
	return append([]string{cmd, b.String(), "0"}, args...)
}

func copyFile(src, dst string) error {
	in, err := os.Open(src)
	if err != nil {
		return err
	}
	defer in.Close()
	out, err := os.Create(dst)
	if err != nil {
		return err
	}
	defer out.Close()
	_, err = io.Copy(out, in)
	return err
}

// recover boots a fresh server on a copy of the log and returns the mismatch
// of its dataset with every candidate model state ("" if one of them matches).
func recoverAndCompare(aofPath string, candidates []interface{}, stopWG *sync.WaitGroup) (string, error) {
	dir, err := os.MkdirTemp("", "t38v-snap-")
	if err != nil {
		return "", err
	}
	if err := copyFile(aofPath, filepath.Join(dir, "appendonly.aof")); err != nil {
		return "", err
	}
	srv, err := t38.Start(t38.Options{Dir: dir})
	if err != nil {
		os.RemoveAll(dir)
		return "server does not start on the recovered log: " + err.Error(), nil
	}
	st := srv.S.VerifDump(true)
	stopWG.Add(1)
	go func() { defer stopWG.Done(); srv.StopAndRemove() }()
	var first string
	for i, c := range candidates {
		d := ks.MatchState(c, st)
		if len(d) == 0 {
			return "", nil
		}
		if i == 0 {
			first = strings.Join(d, "; ")
		}
	}
	return first, nil
}

func aofRunOne(bi int, b *aofBehaviour, rng *rand.Rand, st *aofStats, stopWG *sync.WaitGroup) ([]aofMismatch, error) {
	var out []aofMismatch
	srv, err := t38.Start(t38.Options{})
	if err != nil {
		return nil, err
	}
	defer func() { srv.StopAndRemove() }()
	conn, err := srv.Dial()
	if err != nil {
		return nil, err
	}
	defer func() { conn.Close() }()
	i := 0
	for i < len(b.H) {
		ev := b.H[i]
		switch ev.E {
		case "cmd":
			// a run of commands up to the next snapshot; sometimes sent as one pipelined burst that is
			// "killed" (log copied) while replies are still outstanding
			j := i
			for j < len(b.H) && b.H[j].E == "cmd" {
				j++
			}
			run := b.H[i:j]
			burst := len(run) >= 3 && rng.Intn(3) == 0
			for _, e := range run {
				if ks.Concrete(e.C)[0] == "EXPIRE" && e.C["op"] == "expirenow" {
					burst = false
				}
			}
			if burst {
				st.Bursts++
				var prev interface{}
				if i > 0 {
					prev = b.H[i-1].Post
				}
				var buf []byte
				for _, e := range run {
					args := ks.Concrete(e.C)
					if e.Via != "direct" {
						args = wrapScript(e.Via, args)
					}
					buf = t38.AppendCommand(buf, args...)
				}
				if _, err := conn.C.Write(buf); err != nil {
					return out, err
				}
				// kill instant: somewhere while the burst is being processed
				time.Sleep(time.Duration(rng.Intn(300)) * time.Microsecond)
				cands := []interface{}{}
				if prev == nil {
					cands = append(cands, map[string]interface{}{"cols": map[string]interface{}{}, "hooks": map[string]interface{}{}})
				} else {
					cands = append(cands, prev)
				}
				for _, e := range run {
					cands = append(cands, e.Post)
				}
				snapDir, _ := os.MkdirTemp("", "t38v-cp-")
				cp := filepath.Join(snapDir, "copy.aof")
				if err := copyFile(srv.AOFPath(), cp); err != nil {
					return out, err
				}
				for range run {
					if _, err := conn.Recv(); err != nil {
						return out, fmt.Errorf("behaviour %d: reading burst replies: %v", bi, err)
					}
				}
				st.Cmds += len(run)
				m, err := recoverAndCompare(cp, cands, stopWG)
				os.RemoveAll(snapDir)
				if err != nil {
					return out, err
				}
				if m != "" {
					out = append(out, aofMismatch{bi, i, "burst", nil, "state recovered from a log copied during a pipelined burst equals no prefix of the burst; against the state before the burst: " + m})
					return out, nil
				}
				i = j
				continue
			}
			for _, e := range run {
				args := ks.Concrete(e.C)
				op, _ := e.C["op"].(string)
				st.Cmds++
				send := args
				if e.Via != "direct" {
					send = wrapScript(e.Via, args)
					if e.Upd {
						st.ScriptWrites++
					}
				}
				r, err := conn.Do(send...)
				if err != nil {
					return out, fmt.Errorf("behaviour %d step %d %q: %v", bi, i, send, err)
				}
				if e.Via == "direct" {
					if m := ks.MatchRESP(e.RR, r, op); m != "" {
						out = append(out, aofMismatch{bi, i, "reply", args, m})
						return out, nil
					}
				}
				if op == "expirenow" && e.Upd {
					st.Expiries++
					deadline := time.Now().Add(5 * time.Second)
					for {
						v, err := conn.Do("EXISTS", args[1], args[2])
						if err != nil {
							return out, err
						}
						if v.Kind == '-' || (v.Kind == ':' && v.Int == 0) {
							break
						}
						if time.Now().After(deadline) {
							out = append(out, aofMismatch{bi, i, "expiry", args, "object with a deadline in the past still served after 5 s"})
							return out, nil
						}
						time.Sleep(10 * time.Millisecond)
					}
				}
				i++
			}
		case "snap":
			st.Snapshots++
			// the process is killed right after the last acknowledgement: the file as it is now
			snapDir, _ := os.MkdirTemp("", "t38v-cp-")
			cp := filepath.Join(snapDir, "copy.aof")
			if err := copyFile(srv.AOFPath(), cp); err != nil {
				return out, err
			}
			m, err := recoverAndCompare(cp, []interface{}{ev.Post}, stopWG)
			os.RemoveAll(snapDir)
			if err != nil {
				return out, err
			}
			if m != "" {
				out = append(out, aofMismatch{bi, i, "snapshot", nil, "restart on the log as it was right after the last acknowledgement: " + m})
				return out, nil
			}
			i++
		case "restart":
			st.Restarts++
			conn.Close()
			dir := srv.Dir
			if err := srv.Stop(); err != nil {
				return out, err
			}
			srv, err = t38.Start(t38.Options{Dir: dir})
			if err != nil {
				out = append(out, aofMismatch{bi, i, "restart", nil, "server does not start after a clean stop: " + err.Error()})
				return out, nil
			}
			conn, err = srv.Dial()
			if err != nil {
				return out, err
			}
			if d := ks.MatchState(ev.Post, srv.S.VerifDump(true)); len(d) > 0 {
				out = append(out, aofMismatch{bi, i, "restart", nil, "after clean stop and start: " + strings.Join(d, "; ")})
				return out, nil
			}
			i++
		default:
			return out, fmt.Errorf("unknown event %q", ev.E)
		}
	}
	// the live server itself must also still agree with the model
	if d := ks.MatchState(b.Post, srv.S.VerifDump(true)); len(d) > 0 {
		out = append(out, aofMismatch{bi, len(b.H), "reply", nil, "live state at the end: " + strings.Join(d, "; ")})
	}
	st.Behaviours++
	return out, nil
}

// aofReplay replays AOF behaviours (commands, kill snapshots, clean restarts).
func aofReplay(args []string) int {
	fs := flag.NewFlagSet("aof-replay", flag.ExitOnError)
	in := fs.String("in", "", "behaviours (NDJSON)")
	par := fs.Int("par", 8, "parallel workers")
	seed := fs.Int64("seed", 1, "seed for burst / kill instants")
	maxm := fs.Int("max-mismatch", 20, "stop after this many mismatches")
	fs.Parse(args)
	f, err := os.Open(*in)
	if err != nil {
		fmt.Fprintln(os.Stderr, err)
		return 2
	}
	defer f.Close()
	var lines [][]byte
	sc := bufio.NewScanner(f)
	sc.Buffer(make([]byte, 1<<20), 1<<28)
	for sc.Scan() {
		if len(sc.Bytes()) > 0 {
			lines = append(lines, append([]byte(nil), sc.Bytes()...))
		}
	}
	var mu sync.Mutex
	var mism []aofMismatch
	var total aofStats
	var firstErr error
	var wg, stopWG sync.WaitGroup
	for w := 0; w < *par; w++ {
		wg.Add(1)
		go func(w int) {
			defer wg.Done()
			rng := rand.New(rand.NewSource(*seed*1000 + int64(w)))
			var st aofStats
			for bi := w; bi < len(lines); bi += *par {
				mu.Lock()
				stop := firstErr != nil || len(mism) >= *maxm
				mu.Unlock()
				if stop {
					break
				}
				var b aofBehaviour
				d := json.NewDecoder(strings.NewReader(string(lines[bi])))
				d.UseNumber()
				if err := d.Decode(&b); err != nil {
					mu.Lock()
					firstErr = err
					mu.Unlock()
					break
				}
				ms, err := aofRunOne(bi, &b, rng, &st, &stopWG)
				mu.Lock()
				mism = append(mism, ms...)
				if err != nil && firstErr == nil {
					firstErr = err
				}
				mu.Unlock()
			}
			mu.Lock()
			total.Behaviours += st.Behaviours
			total.Cmds += st.Cmds
			total.Snapshots += st.Snapshots
			total.Restarts += st.Restarts
			total.Bursts += st.Bursts
			total.ScriptWrites += st.ScriptWrites
			total.Expiries += st.Expiries
			mu.Unlock()
		}(w)
	}
	wg.Wait()
	stopWG.Wait()
	if firstErr != nil {
		fmt.Fprintln(os.Stderr, "harness error:", firstErr)
		return 2
	}
	emit(map[string]interface{}{"stats": total, "read": len(lines), "mismatches": mism})
	if len(mism) > 0 {
		return 1
	}
	return 0
}
