package main

import (
	"bufio"
	"encoding/json"
	"flag"
	"fmt"
	"os"
	"path/filepath"
	"sort"
	"strings"
	"sync"
	"time"

	"github.com/tidwall/tile38/internal/server"
	"github.com/tidwall/tile38/verifharness/t38"
)

// aof-limbo: behaviours of spec/Limbo.tla on real servers.  An object is brought between its deadline and the sweep
// deterministically: the commands of one segment run inside ONE EVAL script (the sweeper needs the lock the script
// holds) that sets the object with EX 0.05 and waits 60 ms where the specification lets the deadline pass.  Judged is
// the statement itself: once both sides are quiet (every overdue object swept) the dataset a fresh server recovers
// from the log equals the dataset the running server serves.  Replies and final states that differ from the
// specification's are recorded, not judged (another existence rule for overdue objects is legitimate as long as the
// log follows it).
func init() { register("aof-limbo", aofLimbo) }

type limboStep struct {
	Op string `json:"op"`
	V  int    `json:"v"`
	R  string `json:"r"`
}

type limboObj struct {
	V  int    `json:"v"`
	Ex string `json:"ex"`
	F  int    `json:"f"`
}

type limboBehaviour struct {
	Steps []limboStep `json:"steps"`
	Fin   limboObj    `json:"fin"`
}

type limboMismatch struct {
	Behaviour int    `json:"behaviour"`
	What      string `json:"what"` // restart | expiry
	Detail    string `json:"detail"`
}

const limboKey = "limbo"

// one segment (no sweep inside) as a script returning the reply class of every command
func limboScript(id string, seg []limboStep) string {
	var b strings.Builder
	// (the script environment has no `type`)
	b.WriteString("local out = {} local function cls(r) if r == nil or r == false then return 'nil' end " +
		"if r == 1 then return 'one' end if r == 0 then return 'zero' end local s = tostring(r) " +
		"if string.sub(s, 1, 6) == 'table:' then if r.err then return 'err' end if r.ok then return 'ok' end return 'tbl' end " +
		"return s end ")
	call := func(args ...string) {
		b.WriteString("out[#out+1] = cls(tile38.pcall(")
		for i, a := range args {
			if i > 0 {
				b.WriteByte(',')
			}
			b.WriteString("'" + a + "'")
		}
		b.WriteString(")) ")
	}
	pt := func(v int) []string { return []string{"POINT", fmt.Sprint(v), fmt.Sprint(v)} }
	for _, s := range seg {
		switch s.Op {
		case "setex":
			call(append([]string{"SET", limboKey, id, "EX", "0.05"}, pt(s.V)...)...)
		case "set":
			call(append([]string{"SET", limboKey, id}, pt(s.V)...)...)
		case "setnx":
			call(append([]string{"SET", limboKey, id, "NX"}, pt(s.V)...)...)
		case "setxx":
			call(append([]string{"SET", limboKey, id, "XX"}, pt(s.V)...)...)
		case "fset":
			call("FSET", limboKey, id, "fld", fmt.Sprint(s.V))
		case "far":
			call("EXPIRE", limboKey, id, "1000")
		case "persist":
			call("PERSIST", limboKey, id)
		case "del":
			call("DEL", limboKey, id)
		case "pass":
			b.WriteString("do local t = os.clock() while os.clock() - t < 0.06 do end end out[#out+1] = '' ")
		}
	}
	b.WriteString("return out")
	return b.String()
}

// quiet: no object with a deadline within the next second is left (the sweeper has taken every overdue one)
func limboQuiet(srv *t38.Srv) (server.VerifState, bool) {
	deadline := time.Now().Add(5 * time.Second)
	for {
		st := srv.S.VerifDump(true)
		soon := time.Now().Add(time.Second).UnixNano()
		pending := false
		for _, o := range st.Cols[limboKey] {
			if o.Ex && o.ExNano < soon {
				pending = true
			}
		}
		if !pending {
			return st, true
		}
		if time.Now().After(deadline) {
			return st, false
		}
		time.Sleep(20 * time.Millisecond)
	}
}

func limboShow(o server.VerifObj, ok bool) string {
	if !ok {
		return "absent"
	}
	var fs []string
	for k, v := range o.Fields {
		fs = append(fs, k+"="+v)
	}
	sort.Strings(fs)
	return fmt.Sprintf("%s fields[%s] deadline=%v", o.Geo, strings.Join(fs, ","), o.Ex)
}

func limboBatch(base int, bs []limboBehaviour) (out []limboMismatch, diffs int, err error) {
	srv, err := t38.Start(t38.Options{})
	if err != nil {
		return nil, 0, err
	}
	defer srv.StopAndRemove()
	c, err := srv.Dial()
	if err != nil {
		return nil, 0, err
	}
	defer c.Close()
	// an anchor keeps the collection alive
	c.Do("SET", limboKey, "anchor", "POINT", "9", "9")
	for i, b := range bs {
		id := fmt.Sprintf("o%d", base+i)
		var seg []limboStep
		flush := func() error {
			if len(seg) == 0 {
				return nil
			}
			r, err := c.Do("EVAL", limboScript(id, seg), "0")
			if err != nil {
				return err
			}
			if r.Kind != '*' || len(r.Arr) != len(seg) {
				return fmt.Errorf("behaviour %d: script answered %.200s", base+i, r.String())
			}
			for j, s := range seg {
				if r.Arr[j].Str != s.R {
					diffs++
				}
			}
			seg = nil
			return nil
		}
		for _, s := range b.Steps {
			if s.Op != "sweep" {
				seg = append(seg, s)
				continue
			}
			if err := flush(); err != nil {
				return nil, 0, err
			}
			deadline := time.Now().Add(5 * time.Second)
			for {
				v, err := c.Do("EXISTS", limboKey, id)
				if err != nil {
					return nil, 0, err
				}
				if v.Kind == ':' && v.Int == 0 {
					break
				}
				if time.Now().After(deadline) {
					out = append(out, limboMismatch{base + i, "expiry", "an object whose deadline has passed is still served after 5 s"})
					break
				}
				time.Sleep(10 * time.Millisecond)
			}
		}
		if err := flush(); err != nil {
			return nil, 0, err
		}
	}
	live, ok := limboQuiet(srv)
	if !ok {
		out = append(out, limboMismatch{base, "expiry", "objects whose deadline has passed are still served after 5 s"})
		return out, diffs, nil
	}
	// the process is killed now: what a fresh server recovers from the log
	dir, err := os.MkdirTemp("", "t38v-limbo-")
	if err != nil {
		return nil, 0, err
	}
	if err := copyFile(srv.AOFPath(), filepath.Join(dir, "appendonly.aof")); err != nil {
		return nil, 0, err
	}
	rec, err := t38.Start(t38.Options{Dir: dir})
	if err != nil {
		os.RemoveAll(dir)
		return append(out, limboMismatch{base, "restart", "server does not start on the log: " + err.Error()}), diffs, nil
	}
	defer rec.StopAndRemove()
	got, ok := limboQuiet(rec)
	if !ok {
		out = append(out, limboMismatch{base, "expiry", "recovered server: objects whose deadline has passed are still served after 5 s"})
		return out, diffs, nil
	}
	for i, b := range bs {
		id := fmt.Sprintf("o%d", base+i)
		lo, lok := live.Cols[limboKey][id]
		ro, rok := got.Cols[limboKey][id]
		if limboShow(lo, lok) != limboShow(ro, rok) {
			var ops []string
			for _, s := range b.Steps {
				ops = append(ops, s.Op)
			}
			out = append(out, limboMismatch{base + i, "restart", fmt.Sprintf("after [%s] (pass: the deadline of the object passes inside the script, "+
				"before the sweeper can run) the server serves %s; a restart on its log recovers %s",
				strings.Join(ops, " ; "), limboShow(lo, lok), limboShow(ro, rok))})
		}
		// against the specification (recorded only)
		want := "absent"
		if b.Fin.V != 0 {
			want = fmt.Sprintf("v%d f%d ex=%v", b.Fin.V, b.Fin.F, b.Fin.Ex != "none")
		}
		have := "absent"
		if lok {
			f := lo.Fields["fld"]
			if f == "" {
				f = "0"
			}
			v := lo.Geo
			if i := strings.Index(v, "["); i >= 0 {
				v = v[i+1:]
			}
			if i := strings.IndexAny(v, ",]"); i >= 0 {
				v = v[:i]
			}
			have = fmt.Sprintf("v%s f%s ex=%v", v, f, lo.Ex)
		}
		if want != have {
			diffs++
		}
	}
	return out, diffs, nil
}

func aofLimbo(args []string) int {
	fs := flag.NewFlagSet("aof-limbo", flag.ExitOnError)
	in := fs.String("in", "", "behaviours (NDJSON)")
	par := fs.Int("par", 8, "parallel servers")
	per := fs.Int("per", 40, "behaviours per server")
	fs.Parse(args)
	f, err := os.Open(*in)
	if err != nil {
		fmt.Fprintln(os.Stderr, err)
		return 2
	}
	defer f.Close()
	var bs []limboBehaviour
	sc := bufio.NewScanner(f)
	sc.Buffer(make([]byte, 1<<20), 1<<26)
	for sc.Scan() {
		if len(sc.Bytes()) == 0 {
			continue
		}
		var b limboBehaviour
		if err := json.Unmarshal(sc.Bytes(), &b); err != nil {
			fmt.Fprintln(os.Stderr, err)
			return 2
		}
		bs = append(bs, b)
	}
	var mu sync.Mutex
	var mism []limboMismatch
	var firstErr error
	diffs, passes, steps := 0, 0, 0
	var wg sync.WaitGroup
	sem := make(chan struct{}, *par)
	for lo := 0; lo < len(bs); lo += *per {
		hi := lo + *per
		if hi > len(bs) {
			hi = len(bs)
		}
		wg.Add(1)
		sem <- struct{}{}
		go func(lo, hi int) {
			defer wg.Done()
			defer func() { <-sem }()
			ms, d, err := limboBatch(lo, bs[lo:hi])
			mu.Lock()
			defer mu.Unlock()
			if err != nil {
				if firstErr == nil {
					firstErr = err
				}
				return
			}
			mism = append(mism, ms...)
			diffs += d
			for _, b := range bs[lo:hi] {
				steps += len(b.Steps)
				for _, s := range b.Steps {
					if s.Op == "pass" {
						passes++
					}
				}
			}
		}(lo, hi)
	}
	wg.Wait()
	if firstErr != nil {
		fmt.Fprintln(os.Stderr, "harness error:", firstErr)
		return 2
	}
	emit(map[string]interface{}{"stats": map[string]interface{}{"behaviours": len(bs), "steps": steps, "passes": passes, "model_diffs": diffs}, "mismatches": mism})
	if len(mism) > 0 {
		return 1
	}
	return 0
}
