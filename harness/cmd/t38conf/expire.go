package main

import (
	"bufio"
	"encoding/json"
	"flag"
	"fmt"
	"io"
	"net"
	"net/http"
	"os"
	"sync"
	"time"

	"github.com/tidwall/tile38/verifharness/exp"
)

func init() { register("expire-run", expireRun) }

// expireRun executes TLC-generated command programs of spec/ExpireGen.tla / ExpireSim.tla in real
// time on real servers (C14) and writes the recorded traces for spec/ExpireTrace.tla.
func expireRun(args []string) int {
	fs := flag.NewFlagSet("expire-run", flag.ExitOnError)
	in := fs.String("in", "", "programs, one JSON document per line")
	out := fs.String("out", "", "trace (NDJSON) for ExpireTrace")
	par := fs.Int("par", 8, "programs run at the same time")
	unit := fs.Int("unit", 100, "milliseconds per tick")
	gap := fs.Int("gap", 2000, "pause of a poller between two commands, microseconds")
	dir := fs.String("dir", "", "scratch directory for the servers' data")
	lateMs := fs.Int("late", 60, "a program step later than this (ms) voids the probe comparison of its run")
	stallMs := fs.Int("stall", 150, "a harness / server stall longer than this (ms) voids the probe comparison of its run")
	spin := fs.Bool("spinlock", false, "use the spinlock implementation")
	fs.Parse(args)
	fail := func(err error) int {
		fmt.Fprintln(os.Stderr, "harness error:", err)
		return 2
	}
	if *dir == "" {
		d, err := os.MkdirTemp(".", "exp-srv-")
		if err != nil {
			return fail(err)
		}
		*dir = d
	}
	defer os.RemoveAll(*dir)
	f, err := os.Open(*in)
	if err != nil {
		return fail(err)
	}
	defer f.Close()
	var progs []*exp.Program
	sc := bufio.NewScanner(f)
	sc.Buffer(make([]byte, 1<<20), 1<<28)
	for sc.Scan() {
		if len(sc.Bytes()) == 0 {
			continue
		}
		p := &exp.Program{Attach: -1}
		if err := json.Unmarshal(sc.Bytes(), p); err != nil {
			return fail(fmt.Errorf("program %d: %v", len(progs), err))
		}
		progs = append(progs, p)
	}
	// the endpoint of webhooks: accepts everything
	ln, err := net.Listen("tcp", "127.0.0.1:0")
	if err != nil {
		return fail(err)
	}
	hs := &http.Server{Handler: http.HandlerFunc(func(w http.ResponseWriter, r *http.Request) {
		io.Copy(io.Discard, r.Body)
		w.WriteHeader(200)
	})}
	go hs.Serve(ln)
	defer hs.Close()
	opt := exp.Options{UnitMs: *unit, Dir: *dir, PollGap: time.Duration(*gap) * time.Microsecond,
		HookURL: "http://" + ln.Addr().String() + "/h", LateMs: *lateMs, StallMs: *stallMs, Spinlock: *spin}

	of, err := os.Create(*out)
	if err != nil {
		return fail(err)
	}
	bw := bufio.NewWriterSize(of, 1<<20)
	var mu sync.Mutex
	var results []*exp.Result
	var firstErr error
	jobs := make(chan *exp.Program)
	var wg sync.WaitGroup
	for w := 0; w < *par; w++ {
		wg.Add(1)
		go func() {
			defer wg.Done()
			for p := range jobs {
				mu.Lock()
				stop := firstErr != nil
				mu.Unlock()
				if stop {
					continue
				}
				res, err := exp.Run(p, opt)
				mu.Lock()
				if err != nil {
					if firstErr == nil {
						firstErr = err
					}
				} else {
					for _, l := range res.Lines {
						bw.WriteString(l)
						bw.WriteByte('\n')
					}
					results = append(results, res)
				}
				mu.Unlock()
			}
		}()
	}
	for _, p := range progs {
		jobs <- p
	}
	close(jobs)
	wg.Wait()
	exp.WaitStops()
	bw.Flush()
	of.Close()
	if firstErr != nil {
		return fail(firstErr)
	}
	nbad := 0
	for _, r := range results {
		nbad += len(r.ProbeBad)
	}
	emit(map[string]interface{}{"runs": results, "probe_mismatches": nbad})
	if nbad > 0 {
		return 1
	}
	return 0
}
