package main

import (
	"bufio"
	"bytes"
	"encoding/json"
	"flag"
	"fmt"
	"os"
	"sort"
	"strings"
	"sync"
	"sync/atomic"
	"time"

	"github.com/tidwall/resp"
	"github.com/tidwall/tile38/internal/server"
	"github.com/tidwall/tile38/verifharness/ks"
	"github.com/tidwall/tile38/verifharness/t38"
)

func init() {
	register("conc-record", concRecord)
	register("conc-verify", concVerify)
}

// ---- programs ---------------------------------------------------------------

type concItem struct {
	C      map[string]interface{} `json:"c,omitempty"`
	Script *struct {
		Kind  string                   `json:"kind"` // eval | evalro | evalna
		Calls []map[string]interface{} `json:"calls"`
	} `json:"script,omitempty"`
}

type concRun struct {
	Clients [][]concItem `json:"clients"`
}

// ---- recorded events --------------------------------------------------------

type concEvent struct {
	Run    int                    `json:"run"`
	Ord    int64                  `json:"ord"`    // order under the server lock
	Kind   string                 `json:"kind"`   // cmd | scall | script (the EVAL command itself)
	Client int                    `json:"client"` // index of the client in the run
	Item   int                    `json:"item"`   // index in the client's program
	Call   int                    `json:"call"`   // scall: index in the script
	SKind  string                 `json:"skind"`  // script kind for scall / script
	C      map[string]interface{} `json:"c"`      // abstract command (nil for kind script)
	Args   []string               `json:"args"`
	Reply  string                 `json:"reply"` // raw RESP bytes
	Mode   string                 `json:"mode"`
	Write  bool                   `json:"write"`
	Send   int64                  `json:"send"` // ticket when the client sent the command (cmd / script)
	Recv   int64                  `json:"recv"` // ticket when the client had the reply
}

type concRunOut struct {
	Run    int                `json:"run"`
	Events []concEvent        `json:"events"`
	Dump   server.VerifState  `json:"dump"`
	AOF    [][]string         `json:"aof"`
	AOFErr string             `json:"aof_err,omitempty"` // the log is not a sequence of whole commands
	Stats  map[string]int     `json:"stats"`
}

func scriptText(calls [][]string) (string, []string) {
	var b strings.Builder
	var argv []string
	n := 0
	for _, a := range calls {
		b.WriteString("tile38.call(")
		for i := range a {
			if i > 0 {
				b.WriteByte(',')
			}
			n++
			fmt.Fprintf(&b, "ARGV[%d]", n)
		}
		b.WriteString(") ")
		argv = append(argv, a...)
	}
	b.WriteString("return 1")
	return b.String(), argv
}

func concRunOne(ri int, run *concRun, spin bool) (*concRunOut, error) {
	server.VerifTrackLocks.Store(true)
	var mu sync.Mutex
	var ord int64
	var events []concEvent
	byGID := map[int64]int{}      // goroutine -> client id
	clientIdx := map[int]int{}    // server client id -> client index
	cur := map[int]*concEvent{}   // client index -> template of the item in flight (Item, SKind)
	callNo := map[int]int{}       // client index -> next call number of the script in flight
	marks := map[string]int{}
	hook := func(s *server.Server, point string, args ...interface{}) {
		switch point {
		case "cmd.begin":
			id := args[0].(int)
			a := args[1].([]string)
			mu.Lock()
			byGID[t38.GoID()] = id
			if len(a) == 2 && strings.HasPrefix(a[1], "ccmark-") {
				marks[a[1]] = id
			}
			mu.Unlock()
		case "cmd.done":
			ev := args[0].(server.VerifCmd)
			mu.Lock()
			ci, ok := clientIdx[ev.ClientID]
			if ok && cur[ci] != nil {
				ord++
				t := *cur[ci]
				t.Ord = ord
				t.Args = ev.Args
				t.Reply = string(ev.Reply)
				t.Mode = ev.Mode
				t.Write = ev.Write
				events = append(events, t)
			}
			mu.Unlock()
		case "script.done":
			a := args[0].([]string)
			res := args[1].(resp.Value)
			w := args[2].(bool)
			raw, _ := res.MarshalRESP()
			mode := s.VerifLockMode()
			mu.Lock()
			ci, ok := clientIdx[byGID[t38.GoID()]]
			if ok && cur[ci] != nil {
				ord++
				t := *cur[ci]
				t.Kind = "scall"
				t.Ord = ord
				t.Call = callNo[ci]
				callNo[ci]++
				t.Args = append([]string(nil), a...)
				t.Reply = string(raw)
				t.Mode = mode
				t.Write = w
				t.C = nil
				events = append(events, t)
			}
			mu.Unlock()
		}
	}
	srv, err := t38.Start(t38.Options{Hook: hook, Spinlock: spin})
	if err != nil {
		return nil, err
	}
	defer srv.StopAndRemove()
	var ticket atomic.Int64
	type rec struct{ send, recv int64 }
	recs := make([][]rec, len(run.Clients))
	var wg sync.WaitGroup
	errs := make(chan error, len(run.Clients))
	start := make(chan struct{})
	for ci := range run.Clients {
		c, err := srv.Dial()
		if err != nil {
			return nil, err
		}
		mark := fmt.Sprintf("ccmark-%d-%d", ri, ci)
		if _, err := c.Do("TYPE", mark); err != nil {
			return nil, err
		}
		mu.Lock()
		id, ok := marks[mark]
		if ok {
			clientIdx[id] = ci
		}
		mu.Unlock()
		if !ok {
			return nil, fmt.Errorf("client mark not seen by the hook")
		}
		recs[ci] = make([]rec, len(run.Clients[ci]))
		wg.Add(1)
		go func(ci int, c *t38.Conn) {
			defer wg.Done()
			defer c.Close()
			<-start
			for ii, it := range run.Clients[ci] {
				var send []string
				t := &concEvent{Run: ri, Kind: "cmd", Client: ci, Item: ii}
				if it.Script != nil {
					var calls [][]string
					for _, cc := range it.Script.Calls {
						a := ks.Concrete(cc)
						a[0] = strings.ToLower(a[0])
						calls = append(calls, a)
					}
					text, argv := scriptText(calls)
					send = append([]string{strings.ToUpper(it.Script.Kind), text, "0"}, argv...)
					t.Kind = "script"
					t.SKind = it.Script.Kind
				} else {
					send = ks.Concrete(it.C)
					t.C = it.C
				}
				mu.Lock()
				cur[ci] = t
				callNo[ci] = 0
				mu.Unlock()
				recs[ci][ii].send = ticket.Add(1)
				if _, err := c.Do(send...); err != nil {
					errs <- fmt.Errorf("run %d client %d item %d %q: %v", ri, ci, ii, send, err)
					return
				}
				recs[ci][ii].recv = ticket.Add(1)
			}
			mu.Lock()
			cur[ci] = nil
			mu.Unlock()
		}(ci, c)
	}
	close(start)
	wg.Wait()
	select {
	case err := <-errs:
		return nil, err
	default:
	}
	mu.Lock()
	defer mu.Unlock()
	stats := map[string]int{}
	for i := range events {
		e := &events[i]
		r := recs[e.Client][e.Item]
		e.Send, e.Recv = r.send, r.recv
		if e.Kind == "scall" {
			calls := run.Clients[e.Client][e.Item].Script.Calls
			if e.Call < len(calls) {
				e.C = calls[e.Call]
			}
		}
		stats[e.Kind]++
	}
	out := &concRunOut{Run: ri, Events: events, Dump: srv.S.VerifDump(true), Stats: stats}
	// the log, as written so far (everything acknowledged is flushed)
	b, _ := os.ReadFile(srv.AOFPath())
	_, cmds, err := parseLog(b)
	if err != nil {
		// all clients have their replies and nothing is in flight: read once more (a background writer may have
		// been in the middle of an append); a log that still does not parse is what the server wrote
		time.Sleep(300 * time.Millisecond)
		b, _ = os.ReadFile(srv.AOFPath())
		if _, cmds, err = parseLog(b); err != nil {
			out.AOFErr = fmt.Sprintf("%v (file of %d bytes, %d whole commands before it)", err, len(b), len(cmds))
		}
	}
	out.AOF = cmds
	return out, nil
}

// sameLogged: a log entry and an executed command denote the same write (command name, key, and the id / second name).
func sameLogged(cmd, entry []string) bool {
	if len(cmd) == 0 || len(entry) == 0 || !strings.EqualFold(cmd[0], entry[0]) {
		return false
	}
	n := 3
	switch strings.ToLower(cmd[0]) {
	case "drop", "flushdb", "delhook", "delchan", "pdelhook", "pdelchan":
		n = 2
	}
	for j := 1; j < n; j++ {
		if j >= len(cmd) || j >= len(entry) {
			return len(cmd) == len(entry)
		}
		if cmd[j] != entry[j] {
			return false
		}
	}
	return true
}

// concRecord runs concurrent client programs against real servers and records, in the
// order in which the server lock was held, every command and script call.
func concRecord(args []string) int {
	fs := flag.NewFlagSet("conc-record", flag.ExitOnError)
	in := fs.String("in", "", "runs (NDJSON): {clients: [[item...]...]}")
	out := fs.String("out", "", "recorded runs (NDJSON)")
	par := fs.Int("par", 6, "parallel runs")
	spin := fs.Bool("spinlock", false, "")
	fs.Parse(args)
	f, err := os.Open(*in)
	if err != nil {
		fmt.Fprintln(os.Stderr, err)
		return 2
	}
	defer f.Close()
	var runs []concRun
	sc := bufio.NewScanner(f)
	sc.Buffer(make([]byte, 1<<20), 1<<28)
	for sc.Scan() {
		if len(sc.Bytes()) == 0 {
			continue
		}
		var r concRun
		d := json.NewDecoder(bytes.NewReader(sc.Bytes()))
		d.UseNumber()
		if err := d.Decode(&r); err != nil {
			fmt.Fprintln(os.Stderr, err)
			return 2
		}
		runs = append(runs, r)
	}
	outs := make([]*concRunOut, len(runs))
	var wg sync.WaitGroup
	var firstErr error
	var emu sync.Mutex
	starved := 0
	sem := make(chan struct{}, *par)
	for i := range runs {
		wg.Add(1)
		sem <- struct{}{}
		go func(i int) {
			defer wg.Done()
			defer func() { <-sem }()
			o, err := concRunOne(i, &runs[i], *spin)
			if err != nil && *spin && strings.Contains(err.Error(), "i/o timeout") {
				// the optional spinlock does not queue: under continuous readers a writer can starve for longer than a
				// client waits (a property of that lock, see DESIGN C14); such a run is left out, a few of them are tolerated
				emu.Lock()
				starved++
				emu.Unlock()
				return
			}
			if err != nil {
				emu.Lock()
				if firstErr == nil {
					firstErr = err
				}
				emu.Unlock()
				return
			}
			outs[i] = o
		}(i)
	}
	wg.Wait()
	if firstErr == nil && starved > 2+len(runs)/200 {
		firstErr = fmt.Errorf("%d of %d runs timed out under the spinlock", starved, len(runs))
	}
	if firstErr != nil {
		fmt.Fprintln(os.Stderr, "harness error:", firstErr)
		return 2
	}
	of, err := os.Create(*out)
	if err != nil {
		fmt.Fprintln(os.Stderr, err)
		return 2
	}
	bw := bufio.NewWriter(of)
	enc := json.NewEncoder(bw)
	enc.SetEscapeHTML(false)
	tot := map[string]int{}
	for _, o := range outs {
		if o == nil {
			continue
		}
		sort.Slice(o.Events, func(a, b int) bool { return o.Events[a].Ord < o.Events[b].Ord })
		enc.Encode(o)
		for k, v := range o.Stats {
			tot[k] += v
		}
	}
	bw.Flush()
	of.Close()
	emit(map[string]interface{}{"runs": len(outs) - starved, "events": tot, "runs_left_out_starved_under_the_spinlock": starved})
	return 0
}

// ---- verification against TLC's expectations --------------------------------

type concExpect struct {
	L       int         `json:"l"`
	RR      interface{} `json:"rr"`
	Upd     bool        `json:"upd"`
	Changed bool        `json:"changed"`
	Post    interface{} `json:"post"` // only on "end" lines
}

type concMismatch struct {
	Run    int    `json:"run"`
	Ord    int64  `json:"ord"`
	What   string `json:"what"` // reply | state | lockmode | realtime | logorder | atomic
	Detail string `json:"detail"`
}

func parseRESP(raw string) (t38.Value, error) {
	return t38.ReadValue(bufio.NewReader(strings.NewReader(raw)))
}

// concVerify compares the recorded runs with what TLC computed for the recorded order.
func concVerify(args []string) int {
	fs := flag.NewFlagSet("conc-verify", flag.ExitOnError)
	rec := fs.String("rec", "", "recorded runs")
	exp := fs.String("exp", "", "expectations from TLC (NDJSON, one per line of the order file)")
	fs.Parse(args)
	expect := map[int]concExpect{}
	ef, err := os.Open(*exp)
	if err != nil {
		fmt.Fprintln(os.Stderr, err)
		return 2
	}
	sc := bufio.NewScanner(ef)
	sc.Buffer(make([]byte, 1<<20), 1<<28)
	for sc.Scan() {
		var e concExpect
		d := json.NewDecoder(bytes.NewReader(sc.Bytes()))
		d.UseNumber()
		if err := d.Decode(&e); err != nil {
			fmt.Fprintln(os.Stderr, "bad expectation:", err)
			return 2
		}
		expect[e.L] = e
	}
	ef.Close()
	rf, err := os.Open(*rec)
	if err != nil {
		fmt.Fprintln(os.Stderr, err)
		return 2
	}
	defer rf.Close()
	sc = bufio.NewScanner(rf)
	sc.Buffer(make([]byte, 1<<20), 1<<30)
	var mism []concMismatch
	line := 0 // line number in the order file (1-based), in step with checks/c07.py
	stats := map[string]int{}
	for sc.Scan() {
		var o concRunOut
		d := json.NewDecoder(bytes.NewReader(sc.Bytes()))
		d.UseNumber()
		if err := d.Decode(&o); err != nil {
			fmt.Fprintln(os.Stderr, err)
			return 2
		}
		add := func(ord int64, what, detail string) {
			mism = append(mism, concMismatch{o.Run, ord, what, detail})
		}
		line++ // reset line
		var logged [][]string
		for i := range o.Events {
			e := &o.Events[i]
			if e.C == nil {
				continue // the EVAL command itself: no model step
			}
			op, _ := e.C["op"].(string)
			line++
			x, ok := expect[line]
			if !ok {
				fmt.Fprintf(os.Stderr, "no expectation for order line %d\n", line)
				return 2
			}
			stats["modelled"]++
			v, err := parseRESP(e.Reply)
			if err != nil {
				add(e.Ord, "reply", fmt.Sprintf("%q: reply is not valid RESP: %q", e.Args, e.Reply))
				continue
			}
			if e.Kind == "cmd" {
				if m := ks.MatchRESP(x.RR, v, op); m != "" {
					add(e.Ord, "reply", fmt.Sprintf("client %d %q at lock order %d: %s", e.Client, e.Args, e.Ord, m))
				}
			} else if xr, ok := x.RR.(map[string]interface{}); ok && xr["t"] != "err" && xr["t"] != "nil" {
				// a script call that completed: same reply as the direct command, except that the
				// sequential model's negative answers that surface as Lua errors never get here
				if m := ks.MatchRESP(x.RR, v, op); m != "" {
					add(e.Ord, "reply", fmt.Sprintf("client %d script call %q at lock order %d: %s", e.Client, e.Args, e.Ord, m))
				}
			}
			// lock discipline
			if (x.Changed || x.Upd) && e.Mode != "W" {
				add(e.Ord, "lockmode", fmt.Sprintf("%q changes the dataset (or is logged) but ran with the server lock in mode %q", e.Args, e.Mode))
			} else if e.Mode != "W" && e.Mode != "R" {
				add(e.Ord, "lockmode", fmt.Sprintf("%q reads the dataset without holding the server lock (mode %q)", e.Args, e.Mode))
			}
			if x.Upd {
				logged = append(logged, e.Args)
				stats["logged"]++
			}
		}
		line++ // end line
		if x, ok := expect[line]; ok && x.Post != nil {
			if dd := ks.MatchState(x.Post, o.Dump); len(dd) > 0 {
				add(0, "state", "final dataset differs from the sequential model run in lock order: "+strings.Join(dd, "; "))
			}
		} else {
			fmt.Fprintf(os.Stderr, "no end-of-run expectation at order line %d\n", line)
			return 2
		}
		// the log is the serial order
		if o.AOFErr != "" {
			add(0, "logorder", "the append-only file written during the run is not a sequence of whole commands: "+o.AOFErr)
		} else if len(logged) != len(o.AOF) {
			add(0, "logorder", fmt.Sprintf("log holds %d commands, the serial order has %d logged commands", len(o.AOF), len(logged)))
		} else {
			for i := range logged {
				a, b := logged[i], o.AOF[i]
				// the ORDER of the log is the property; an entry may spell its command differently from what the client
				// sent (name in another case, an option that does not change the effect dropped): same command name, same
				// key and id.  What the entries DO when replayed is C03's subject (restart equivalence).
				same := sameLogged(a, b)
				if !same {
					add(0, "logorder", fmt.Sprintf("log entry %d is %q, the %d-th logged command in lock order is %q", i, b, i, a))
					break
				}
			}
		}
		// real-time order: a command that completed before another was sent precedes it in lock order
		type iv struct {
			send, recv, first, last int64
			client                  int
		}
		items := map[[2]int]*iv{}
		for _, e := range o.Events {
			k := [2]int{e.Client, e.Item}
			it := items[k]
			if it == nil {
				it = &iv{send: e.Send, recv: e.Recv, first: e.Ord, last: e.Ord, client: e.Client}
				items[k] = it
			}
			if e.Ord < it.first {
				it.first = e.Ord
			}
			if e.Ord > it.last {
				it.last = e.Ord
			}
		}
		var ivs []*iv
		for _, it := range items {
			ivs = append(ivs, it)
		}
		for _, a := range ivs {
			for _, b := range ivs {
				if a.recv < b.send && a.last > b.first {
					add(a.last, "realtime", fmt.Sprintf("a command of client %d completed (ticket %d) before a command of client %d was sent (ticket %d) but took effect after it", a.client, a.recv, b.client, b.send))
				}
			}
		}
		stats["items"] += len(ivs)
		// script atomicity
		for k, it := range items {
			var skind string
			for _, e := range o.Events {
				if e.Client == k[0] && e.Item == k[1] && e.Kind == "script" {
					skind = e.SKind
				}
			}
			if skind == "" {
				continue
			}
			stats["scripts_"+skind]++
			for _, e := range o.Events {
				if e.Client == k[0] || e.Ord <= it.first || e.Ord >= it.last {
					continue
				}
				if e.Mode != "W" && e.Mode != "R" {
					continue // an event that did not hold the server lock (e.g. the end of an EVALNA command) has no effect
				}
				switch skind {
				case "eval":
					add(e.Ord, "atomic", fmt.Sprintf("command %q of client %d took effect between the calls of an EVAL script of client %d", e.Args, e.Client, k[0]))
				case "evalro":
					if e.Mode == "W" {
						add(e.Ord, "atomic", fmt.Sprintf("write %q of client %d took effect between the calls of an EVALRO script of client %d", e.Args, e.Client, k[0]))
					}
				case "evalna":
					stats["evalna_interleaved"]++
				}
			}
		}
		stats["runs"]++
	}
	if len(mism) > 40 {
		mism = mism[:40]
	}
	emit(map[string]interface{}{"stats": stats, "mismatches": mism})
	if len(mism) > 0 {
		return 1
	}
	return 0
}
