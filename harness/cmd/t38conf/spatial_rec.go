package main

import (
	"encoding/json"
	"flag"
	"fmt"
	"os"
	"sync"

	"github.com/tidwall/tile38/verifharness/spatial"
)

type recResult struct {
	ev   []spatial.Event
	info []spatial.QueryInfo
	st   *spatial.RecStats
	err  error
}

// recordMany runs `runs` recordings (par at a time), concatenates their traces in run order and
// renumbers the queries so that the output does not depend on scheduling.
func recordMany(runs, first, par int, one func(run int, q *int) ([]spatial.Event, []spatial.QueryInfo, *spatial.RecStats, error),
	out, infoPath string) int {
	fail := func(err error) int {
		fmt.Fprintln(os.Stderr, "harness error:", err)
		return 2
	}
	res := make([]recResult, runs)
	sem := make(chan bool, par)
	var wg sync.WaitGroup
	for i := 0; i < runs; i++ {
		wg.Add(1)
		sem <- true
		go func(i int) {
			defer wg.Done()
			defer func() { <-sem }()
			q := 0
			ev, info, st, err := one(first+i, &q)
			res[i] = recResult{ev, info, st, err}
		}(i)
	}
	wg.Wait()
	total := spatial.NewRecStats()
	var evs []spatial.Event
	var infos []spatial.QueryInfo
	qbase := 0
	for i := range res {
		if res[i].err != nil {
			return fail(res[i].err)
		}
		for j := range res[i].ev {
			if res[i].ev[j].E == "q" {
				res[i].ev[j].Q += qbase
			}
		}
		for j := range res[i].info {
			res[i].info[j].Q += qbase
		}
		qbase += len(res[i].info)
		evs = append(evs, res[i].ev...)
		infos = append(infos, res[i].info...)
		total.Add(res[i].st)
	}
	b, err := spatial.MarshalEvents(evs)
	if err != nil {
		return fail(err)
	}
	if err := os.WriteFile(out, b, 0o644); err != nil {
		return fail(err)
	}
	ib, _ := json.Marshal(infos)
	if err := os.WriteFile(infoPath, ib, 0o644); err != nil {
		return fail(err)
	}
	var samples []spatial.QueryInfo
	for i := 0; i < len(infos) && len(samples) < 4; i += 1 + len(infos)/4 {
		s := infos[i]
		if len(s.Search) > 500 {
			s.Search = s.Search[:500] + "..."
		}
		if len(s.Test) > 500 {
			s.Test = s.Test[:500] + "..."
		}
		samples = append(samples, s)
	}
	emit(map[string]interface{}{"stats": total, "events": len(evs), "trace": out, "info": infoPath, "samples": samples})
	return 0
}

// spatialRecord: black-box recordings (random histories and areas over the socket, TEST as oracle).
func spatialRecord(args []string) int {
	fs := flag.NewFlagSet("spatial-record", flag.ExitOnError)
	runs := fs.Int("runs", 10, "number of runs (one fresh server each)")
	first := fs.Int("first", 0, "number of the first run")
	ops := fs.Int("ops", 300, "operations per run")
	pool := fs.Int("pool", 40, "ids in play")
	burst := fs.Int("burst", 400, "size of a filler burst")
	par := fs.Int("par", 8, "parallel runs")
	out := fs.String("out", "trace.ndjson", "trace file")
	info := fs.String("info", "queries.json", "query descriptions")
	dir := fs.String("dir", "", "scratch directory for the servers' data")
	fs.Parse(args)
	if *dir == "" {
		d, err := os.MkdirTemp(".", "spatial-rec-")
		if err != nil {
			fmt.Fprintln(os.Stderr, "harness error:", err)
			return 2
		}
		*dir = d
	}
	defer os.RemoveAll(*dir)
	seed := seedFromEnv()
	return recordMany(*runs, *first, *par, func(run int, q *int) ([]spatial.Event, []spatial.QueryInfo, *spatial.RecStats, error) {
		return spatial.RecordRun(spatial.RecOptions{Seed: seed, Run: run, Ops: *ops, Pool: *pool, Burst: *burst, Dir: *dir}, q)
	}, *out, *info)
}

// spatialInpkg: in-package recordings (internal/collection driven directly, full scan as oracle).
func spatialInpkg(args []string) int {
	fs := flag.NewFlagSet("spatial-inpkg", flag.ExitOnError)
	runs := fs.Int("runs", 4, "number of collections")
	first := fs.Int("first", 0, "number of the first run")
	n := fs.Int("n", 20000, "objects per collection")
	queries := fs.Int("queries", 25, "queries per phase (4 phases)")
	par := fs.Int("par", 4, "parallel runs")
	out := fs.String("out", "trace.ndjson", "trace file")
	info := fs.String("info", "queries.json", "query descriptions")
	fs.Parse(args)
	seed := seedFromEnv()
	return recordMany(*runs, *first, *par, func(run int, q *int) ([]spatial.Event, []spatial.QueryInfo, *spatial.RecStats, error) {
		return spatial.InpkgRun(spatial.InpkgOptions{Seed: seed, Run: run, N: *n, Queries: *queries}, q)
	}, *out, *info)
}
