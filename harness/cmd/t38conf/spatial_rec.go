package main

func spatialRecord(args []string) int { return 2 }
func spatialInpkg(args []string) int  { return 2 }
