package main

import (
	"flag"
	"fmt"
	"strings"
	"sync"
	"time"

	"github.com/tidwall/tile38/internal/server"
	"github.com/tidwall/tile38/verifharness/t38"
)

// gates-race: spec/GateRace.tla on a real server.  A script keeps the exclusive lock for a while; `READONLY yes` and
// then writes (a direct SET, a script-issued SET, a DEL) are sent on connections of their own and queue for the lock.
// The order in which the commands went through their critical sections is recorded by the cmd.done hook (taken under
// the lock).  Judged: a command that ran after READONLY yes in that order changed nothing and was refused.
func init() { register("gates-race", gatesRace) }

type raceEvent struct {
	Args  []string
	Reply string
	Aof   int
}

func gatesRace(args []string) int {
	fs := flag.NewFlagSet("gates-race", flag.ExitOnError)
	rounds := fs.Int("rounds", 12, "rounds (fresh server each)")
	fs.Parse(args)
	type mismatch struct {
		Round  int    `json:"round"`
		Detail string `json:"detail"`
	}
	var out []mismatch
	after, before := 0, 0
	for round := 0; round < *rounds; round++ {
		var mu sync.Mutex
		var events []raceEvent
		hook := func(s *server.Server, point string, a ...interface{}) {
			if point != "cmd.done" {
				return
			}
			ev := a[0].(server.VerifCmd)
			mu.Lock()
			events = append(events, raceEvent{append([]string(nil), ev.Args...), string(ev.Reply), ev.AofSize})
			mu.Unlock()
		}
		srv, err := t38.Start(t38.Options{Hook: hook, Spinlock: round%4 == 3})
		if err != nil {
			fmt.Println("harness error:", err)
			return 2
		}
		dial := func() *t38.Conn {
			c, err := srv.Dial()
			if err != nil {
				panic(err)
			}
			return c
		}
		h, sw, w1, w2, w3, obs := dial(), dial(), dial(), dial(), dial(), dial()
		obs.Do("SET", "race", "old", "POINT", "1", "1")
		// the holder: the exclusive lock for 400 ms
		h.Send("EVAL", "local t = os.clock() while os.clock() - t < 0.4 do end return 1", "0")
		time.Sleep(time.Duration(60+20*(round%3)) * time.Millisecond)
		sw.Send("READONLY", "yes")
		time.Sleep(time.Duration(20+15*(round%4)) * time.Millisecond)
		w1.Send("SET", "race", "late1", "POINT", "2", "2")
		w2.Send("EVAL", "return tile38.call('SET', 'race', 'late2', 'POINT', 3, 3)", "0")
		w3.Send("DEL", "race", "old")
		for _, c := range []*t38.Conn{h, sw, w1, w2, w3} {
			c.Timeout = 20 * time.Second
			v, err := c.Recv()
			if err != nil {
				fmt.Println("harness error: reply:", err)
				return 2
			}
			// (a refused command leaves no cmd.done record: it was turned away inside its critical section, after the switch)
			if c != h && c != sw && v.Kind == '-' && strings.Contains(v.Str, "read only") {
				after++
			}
		}
		st := srv.S.VerifDump(true)
		mu.Lock()
		evs := append([]raceEvent(nil), events...)
		mu.Unlock()
		ro := -1
		for i, e := range evs {
			if len(e.Args) == 2 && strings.EqualFold(e.Args[0], "readonly") && strings.EqualFold(e.Args[1], "yes") && !strings.HasPrefix(e.Reply, "-") {
				ro = i
			}
		}
		if ro < 0 {
			fmt.Println("harness error: READONLY yes was not recorded")
			return 2
		}
		for i, e := range evs {
			name := strings.ToLower(e.Args[0])
			if name != "set" && name != "del" && name != "eval" || (name == "eval" && !strings.Contains(strings.Join(e.Args, " "), "late2")) ||
				(name == "set" && e.Args[2] == "old") {
				continue
			}
			if i < ro {
				before++
				continue
			}
			after++
			refused := strings.HasPrefix(e.Reply, "-")
			grew := e.Aof > evs[ro].Aof
			if !refused || grew {
				out = append(out, mismatch{round, fmt.Sprintf("%v went through its critical section after `READONLY yes` had been applied and answered, "+
					"and was answered %.60q (log size %d -> %d)", e.Args, e.Reply, evs[ro].Aof, e.Aof)})
			}
		}
		col := st.Cols["race"]
		_, l1 := col["late1"]
		_, l2 := col["late2"]
		_, old := col["old"]
		_ = old
		// (objects of commands ordered before the switch are legitimately there)
		for _, e := range evs[ro+1:] {
			joined := strings.Join(e.Args, " ")
			if strings.Contains(joined, "late1") && l1 || strings.Contains(joined, "late2") && l2 {
				out = append(out, mismatch{round, fmt.Sprintf("the read-only server holds the object written by %v, which ran after `READONLY yes`", e.Args)})
			}
		}
		for _, c := range []*t38.Conn{h, sw, w1, w2, w3, obs} {
			c.Close()
		}
		srv.StopAndRemove()
	}
	emit(map[string]interface{}{"stats": map[string]int{"rounds": *rounds, "writes_ordered_after_the_switch": after, "writes_ordered_before_the_switch": before}, "mismatches": out})
	if len(out) > 0 {
		return 1
	}
	return 0
}
