package main

import (
	"bufio"
	"encoding/json"
	"flag"
	"fmt"
	"os"
	"strings"
	"sync"
	"sync/atomic"

	"github.com/tidwall/tile38/verifharness/spatial"
)

func init() {
	register("spatial-embed", spatialEmbed)
	register("spatial-replay", spatialReplay)
	register("spatial-record", spatialRecord)
	register("spatial-inpkg", spatialInpkg)
}

// spatialEmbed prints the embeddings of the grid 0..n into float64 coordinates with their float32
// structure (which cells a float32 represents exactly): the CONSTANTS CoarseX / CoarseY of
// spec/Spatial.tla (C02).
func spatialEmbed(args []string) int {
	fs := flag.NewFlagSet("spatial-embed", flag.ExitOnError)
	n := fs.Int("n", 3, "cells 0..n on both axes")
	fs.Parse(args)
	es, err := spatial.Embeddings(*n)
	if err != nil {
		fmt.Fprintln(os.Stderr, "harness error:", err)
		return 2
	}
	emit(map[string]interface{}{"n": *n, "embeddings": es})
	return 0
}

// spatialReplay replays TLC-generated Spatial behaviours into real servers and compares the reply of
// every WITHIN / INTERSECTS query with TLC's set.
func spatialReplay(args []string) int {
	fs := flag.NewFlagSet("spatial-replay", flag.ExitOnError)
	in := fs.String("in", "", "behaviours, one JSON document per line")
	areasPath := fs.String("areas", "", "the AREAS document TLC printed (areas and CLIPBY table)")
	par := fs.Int("par", 8, "parallel servers")
	dir := fs.String("dir", "", "scratch directory for the servers' data")
	fillers := fs.Int("fillers", 300, "filler population bound per behaviour (0: none)")
	bigEvery := fs.Int("big-every", 0, "every n-th behaviour of a server gets -big fillers")
	big := fs.Int("big", 20000, "size of a big filler population")
	allEmbed := fs.Bool("all-embeddings", false, "replay every behaviour under every embedding")
	only := fs.String("embeddings", "", "comma separated embedding names (default: all)")
	clips := fs.Int("clip-pairs", 24, "CLIPBY pairs per checked step")
	sparse := fs.Int("sparse", 8, "SPARSE queries per checked step")
	corrupt := fs.String("corrupt", "", "self-test: corrupt TLC's expected tables (drop | add)")
	plain := fs.Bool("plain", false, "only POINT / BOUNDS renderings")
	keep := fs.Int("examples", 4, "mismatch examples kept per class and embedding")
	fs.Parse(args)
	fail := func(err error) int {
		fmt.Fprintln(os.Stderr, "harness error:", err)
		return 2
	}
	var areas spatial.Areas
	ab, err := os.ReadFile(*areasPath)
	if err == nil {
		err = json.Unmarshal(ab, &areas)
	}
	if err != nil {
		return fail(err)
	}
	ncell := areas.NX
	if areas.NY > ncell {
		ncell = areas.NY
	}
	embeds, err := spatial.Embeddings(ncell)
	if err != nil {
		return fail(err)
	}
	if *only != "" {
		var sel []*spatial.Embedding
		for _, name := range strings.Split(*only, ",") {
			for _, e := range embeds {
				if e.Name == name {
					sel = append(sel, e)
				}
			}
		}
		if len(sel) == 0 {
			return fail(fmt.Errorf("no embedding named %q", *only))
		}
		embeds = sel
	}
	if *dir == "" {
		d, err := os.MkdirTemp(".", "spatial-srv-")
		if err != nil {
			return fail(err)
		}
		*dir = d
	}
	defer os.RemoveAll(*dir)
	f, err := os.Open(*in)
	if err != nil {
		return fail(err)
	}
	defer f.Close()
	opt := spatial.Options{Areas: &areas, Embeddings: embeds, Seed: seedFromEnv(), Dir: *dir, Fillers: *fillers, BigEvery: *bigEvery,
		BigFillers: *big, AllEmbed: *allEmbed, ClipPairs: *clips, Sparse: *sparse, Corrupt: *corrupt, Plain: *plain}

	type job struct {
		i    int
		line []byte
	}
	jobs := make(chan job, 256)
	var mu sync.Mutex
	total := spatial.NewStats()
	kept := map[string]int{}
	var examples []spatial.Mismatch
	var nmism int64
	flagged := map[int]bool{}
	var firstErr error
	var wg sync.WaitGroup
	for w := 0; w < *par; w++ {
		wg.Add(1)
		go func(w int) {
			defer wg.Done()
			setErr := func(err error) {
				mu.Lock()
				if firstErr == nil {
					firstErr = err
				}
				mu.Unlock()
			}
			r, err := spatial.NewRunner(w, opt)
			if err != nil {
				setErr(err)
				for range jobs {
				}
				return
			}
			defer r.Close()
			st := spatial.NewStats()
			for j := range jobs {
				mu.Lock()
				stop := firstErr != nil
				mu.Unlock()
				if stop {
					continue
				}
				b, err := spatial.ParseBehaviour(j.line)
				if err != nil {
					setErr(fmt.Errorf("behaviour %d: %v", j.i, err))
					continue
				}
				ms, err := r.Run(j.i, b, st)
				if len(ms) > 0 {
					atomic.AddInt64(&nmism, int64(len(ms)))
					mu.Lock()
					flagged[j.i] = true
					for _, m := range ms {
						k := m.Class + "/" + m.Embedding
						if kept[k] < *keep {
							kept[k]++
							examples = append(examples, m)
						}
					}
					mu.Unlock()
				}
				if err != nil {
					setErr(err)
				}
			}
			mu.Lock()
			total.Add(st)
			mu.Unlock()
		}(w)
	}
	sc := bufio.NewScanner(f)
	sc.Buffer(make([]byte, 1<<20), 1<<28)
	n := 0
	var samples []string
	for sc.Scan() {
		line := append([]byte(nil), sc.Bytes()...)
		if len(line) == 0 {
			continue
		}
		if n%1999 == 0 && len(samples) < 2 {
			s := string(line)
			if len(s) > 1200 {
				s = s[:1200] + "..."
			}
			samples = append(samples, s)
		}
		jobs <- job{n, line}
		n++
	}
	close(jobs)
	wg.Wait()
	if firstErr != nil {
		return fail(firstErr)
	}
	var names []string
	for _, e := range embeds {
		names = append(names, e.Name)
	}
	emit(map[string]interface{}{"stats": total, "read": n, "mismatch_count": nmism, "behaviours_flagged": len(flagged),
		"mismatches": examples, "samples": samples, "embeddings": names})
	if nmism > 0 {
		return 1
	}
	return 0
}
