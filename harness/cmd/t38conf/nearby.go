package main

import (
	"encoding/json"
	"flag"
	"fmt"
	"os"

	"github.com/tidwall/tile38/verifharness/nearby"
)

func init() {
	register("nearby-world", nearbyWorld)
	register("nearby-run", nearbyRun)
}

// nearbyWorld prints a world of spec/Nearby.tla (C13): concrete shapes and query
// points with the harness' own distance tables (the CONSTANTS Dist / FarLB).
func nearbyWorld(args []string) int {
	fs := flag.NewFlagSet("nearby-world", flag.ExitOnError)
	var p nearby.Params
	fs.StringVar(&p.Name, "name", "w", "name")
	fs.Float64Var(&p.Lat0, "lat0", 33.4, "latitude of the south-west cell / of the centre")
	fs.Float64Var(&p.Lon0, "lon0", -111.9, "longitude of the south-west cell / of the centre")
	fs.Float64Var(&p.DLat, "dlat", 0.01, "grid step (or half-extent of a random world) in degrees of latitude")
	fs.Float64Var(&p.DLon, "dlon", 0.01, "grid step (or half-extent) in degrees of longitude")
	fs.IntVar(&p.Rows, "rows", 2, "grid rows (0: random world)")
	fs.IntVar(&p.Cols, "cols", 2, "grid columns")
	fs.IntVar(&p.NExt, "ext", 3, "extended shapes")
	fs.IntVar(&p.NPool, "pool", 0, "random point shapes (random world)")
	fs.IntVar(&p.NMov, "mov", 3, "movers")
	fs.IntVar(&p.NNear, "near", 0, "near fillers")
	fs.IntVar(&p.NFar, "far", 0, "far objects")
	fs.IntVar(&p.NExtra, "extraq", 2, "random query points")
	fs.IntVar(&p.NRing, "nring", 0, "near-tie fillers per ring")
	fs.Int64Var(&p.Seed, "seed", 1, "seed")
	out := fs.String("out", "", "write the world to this file (and print a summary without the tables)")
	fs.Parse(args)
	w, err := nearby.Build(p)
	if err != nil {
		fmt.Fprintln(os.Stderr, err)
		return 2
	}
	if *out == "" {
		emit(w)
		return 0
	}
	b, _ := json.Marshal(w)
	if err := os.WriteFile(*out, b, 0o644); err != nil {
		fmt.Fprintln(os.Stderr, err)
		return 2
	}
	emit(w)
	return 0
}
