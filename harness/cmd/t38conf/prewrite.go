package main

import (
	"bufio"
	"encoding/json"
	"flag"
	"fmt"
	"os"
	"strings"
	"sync"
	"sync/atomic"
	"time"

	"github.com/tidwall/tile38/internal/server"
	"github.com/tidwall/tile38/verifharness/t38"
)

func init() { register("prewrite", prewriteCmd) }

// pwEvent is one line of the recorded trace (all fields always present so
// that the trace specification can read them without case analysis).
type pwEvent struct {
	E     string `json:"e"`     // reset | append | flush | test | write
	S     int    `json:"s"`     // schedule index
	C     int    `json:"c"`     // connection index (1..), 0 = not one of the scheduled connections
	N     int64  `json:"n"`     // append: its number; flush/reset: number of commands appended so far
	End   int64  `json:"end"`   // append: aof size after it; write: end offset of this connection's last command
	Bytes int64  `json:"bytes"` // flush: aof size claimed written
	Fsize int64  `json:"fsize"` // write: size of the file on disk at the moment of the socket write
	Dirty bool   `json:"dirty"` // test: branch taken
	Last  int64  `json:"last"`  // write: append number of this connection's last command
}

type pwStep struct {
	C int    `json:"c"`
	A string `json:"a"`
}

type pwGate struct {
	point string
	rel   chan struct{}
}

// pwWorker owns one server and forces schedules on it, one after the other.
type pwWorker struct {
	bigLoaded bool // the collection of the batch stage exists
	srv *t38.Srv

	mu         sync.Mutex
	events     []pwEvent
	sched      int
	appendSeq  int64
	flushBytes int64
	byGID      map[int64]int   // goroutine -> client id
	connOf     map[int]int     // client id -> connection index of the current schedule
	lastSeq    map[int64]int64 // goroutine -> number of its last append
	lastEnd    map[int64]int64 // goroutine -> end offset of its last append
	tested     map[int]bool    // connection index: passed prewrite.test, branch not yet known
	marks      map[string]int  // mark -> client id
	ungated    map[int]bool    // connection index that went live: further writes are not gated
	logAll   map[int]bool // connections whose socket writes are recorded although they are never parked

	arrived chan int // connection index that reached a gate
	parked  map[int]*pwGate
	gating  atomic.Bool
}

func (w *pwWorker) log(ev pwEvent) {
	ev.S = w.sched
	w.events = append(w.events, ev)
}

func (w *pwWorker) hook(s *server.Server, point string, args ...interface{}) {
	switch point {
	case "cmd.begin":
		id := args[0].(int)
		a := args[1].([]string)
		w.mu.Lock()
		w.byGID[t38.GoID()] = id
		if len(a) == 2 && strings.HasPrefix(a[1], "pwmark-") {
			w.marks[a[1]] = id
		}
		w.mu.Unlock()
	case "aof.append":
		gid := t38.GoID()
		w.mu.Lock()
		w.appendSeq++
		end := int64(args[1].(int))
		w.lastSeq[gid] = w.appendSeq
		w.lastEnd[gid] = end
		w.log(pwEvent{E: "append", C: w.connOf[w.byGID[gid]], N: w.appendSeq, End: end})
		w.mu.Unlock()
	case "aof.flush":
		gid := t38.GoID()
		w.mu.Lock()
		w.flushBytes = int64(args[0].(int))
		w.log(pwEvent{E: "flush", C: w.connOf[w.byGID[gid]], N: w.appendSeq, Bytes: w.flushBytes})
		w.mu.Unlock()
	case "prewrite.test", "prewrite.dirty", "prewrite.flushed", "sock.write":
		id := args[0].(int)
		w.mu.Lock()
		ci := w.connOf[id]
		if ci != 0 {
			switch point {
			case "prewrite.test":
				w.tested[ci] = true
			case "prewrite.dirty":
				if w.tested[ci] {
					w.tested[ci] = false
					w.log(pwEvent{E: "test", C: ci, Dirty: true})
				}
			case "sock.write":
				if w.tested[ci] {
					w.tested[ci] = false
					w.log(pwEvent{E: "test", C: ci, Dirty: false})
				}
			}
		}
		gated := ci != 0 && w.gating.Load() && !w.ungated[ci]
		var g *pwGate
		if gated {
			g = &pwGate{point: point, rel: make(chan struct{})}
			w.parked[ci] = g
		}
		w.mu.Unlock()
		if gated {
			w.arrived <- ci
			<-g.rel
		}
		w.mu.Lock()
		logit := gated || (ci != 0 && w.logAll[ci])
		w.mu.Unlock()
		if point == "sock.write" && logit {
			// the moment of the socket write: what is in the file now?
			// (the file is measured and the event recorded in one step of the trace: a flush of another connection
			// - background flusher, an ungated connection - may run at any time and records under the same mutex)
			gid := t38.GoID()
			var fsize int64
			w.mu.Lock()
			if fi, err := os.Stat(w.srv.AOFPath()); err == nil {
				fsize = fi.Size()
			}
			w.log(pwEvent{E: "write", C: ci, Last: w.lastSeq[gid], End: w.lastEnd[gid], Fsize: fsize})
			w.mu.Unlock()
		}
	}
}

func newPwWorker(spin bool) (*pwWorker, error) {
	w := &pwWorker{byGID: map[int64]int{}, connOf: map[int]int{}, lastSeq: map[int64]int64{},
		lastEnd: map[int64]int64{}, tested: map[int]bool{}, marks: map[string]int{}, ungated: map[int]bool{}, logAll: map[int]bool{},
		arrived: make(chan int, 64), parked: map[int]*pwGate{}}
	srv, err := t38.Start(t38.Options{Hook: w.hook, Spinlock: spin})
	if err != nil {
		return nil, err
	}
	w.srv = srv
	w.log(pwEvent{E: "reset"}) // a new server: numbering and file start from zero
	return w, nil
}

type pwConn struct {
	c    *t38.Conn
	id   int
	live bool
	sent int // replies still to be read
}

var pwMark atomic.Int64
var nbatch atomic.Int64

// schedule numbers of the batch stage (reported by the trace specification like any other schedule)
const batchBase = 1000000

// waitArrive waits until connection ci reaches a gate.
func (w *pwWorker) waitArrive(ci int, d time.Duration) bool {
	t := time.NewTimer(d)
	defer t.Stop()
	for {
		select {
		case got := <-w.arrived:
			if got == ci {
				return true
			}
			// arrival of another connection: cannot happen while we move one at a time,
			// except for writes of a live connection; remember nothing, it stays parked.
		case <-t.C:
			return false
		}
	}
}

func (w *pwWorker) parkedAt(ci int) *pwGate {
	w.mu.Lock()
	defer w.mu.Unlock()
	return w.parked[ci]
}

func (w *pwWorker) release(ci int) *pwGate {
	w.mu.Lock()
	g := w.parked[ci]
	delete(w.parked, ci)
	w.mu.Unlock()
	if g != nil {
		close(g.rel)
	}
	return g
}

// runSchedule forces one schedule. It returns an error for harness trouble only.
func (w *pwWorker) runSchedule(si int, steps []pwStep, nconn int) error {
	ctl, err := w.srv.Dial()
	if err != nil {
		return err
	}
	defer ctl.Close()
	// normalise: everything flushed, flag cleared by the control connection's own pre-write
	if _, err := ctl.Do("SET", "pw", "ctl", "POINT", "0", "0"); err != nil {
		return err
	}
	w.mu.Lock()
	w.sched = si
	w.connOf = map[int]int{}
	w.tested = map[int]bool{}
	w.ungated = map[int]bool{}
	w.log(pwEvent{E: "reset", N: w.appendSeq, Bytes: w.flushBytes})
	w.mu.Unlock()
	conns := map[int]*pwConn{}
	defer func() {
		for _, c := range conns {
			c.c.Close()
		}
	}()
	for ci := 1; ci <= nconn; ci++ {
		c, err := w.srv.Dial()
		if err != nil {
			return err
		}
		c.Timeout = 10 * time.Second
		mark := fmt.Sprintf("pwmark-%d", pwMark.Add(1))
		if _, err := c.Do("TYPE", mark); err != nil {
			return err
		}
		w.mu.Lock()
		id, ok := w.marks[mark]
		delete(w.marks, mark)
		if ok {
			w.connOf[id] = ci
		}
		w.mu.Unlock()
		if !ok {
			return fmt.Errorf("connection mark not seen by the cmd.begin hook")
		}
		conns[ci] = &pwConn{c: c, id: id}
	}
	w.gating.Store(true)
	defer w.gating.Store(false)
	ncmd := 0
	advance := func(ci int) error {
		pc := conns[ci]
		g := w.parkedAt(ci)
		if g == nil {
			return nil // nothing to do: the real code needed fewer steps than the model
		}
		wasWrite := g.point == "sock.write"
		if wasWrite && pc.live {
			w.mu.Lock()
			w.ungated[ci] = true
			w.mu.Unlock()
		}
		w.release(ci)
		if wasWrite {
			// the reply is on its way: read it; the connection goroutine then waits for input
			for pc.sent > 0 {
				if _, err := pc.c.Recv(); err != nil {
					return fmt.Errorf("schedule %d: reading reply of connection %d: %v", si, ci, err)
				}
				pc.sent--
			}
			return nil
		}
		if !w.waitArrive(ci, 10*time.Second) {
			return fmt.Errorf("schedule %d: connection %d did not reach the next gate after %s", si, ci, g.point)
		}
		return nil
	}
	for _, st := range steps {
		if st.C < 1 || st.C > nconn {
			continue // background flusher steps cannot be forced; the real one runs on its own clock
		}
		pc := conns[st.C]
		switch st.A {
		case "exec", "execlive":
			if w.parkedAt(st.C) != nil || pc.live {
				continue
			}
			ncmd++
			// the command kinds rotate: plain write, write issued by a script, field write, delete
			id := fmt.Sprintf("o%d-%d", st.C, ncmd)
			var buf []byte
			switch (ncmd + si) % 4 {
			case 0:
				buf = t38.AppendCommand(nil, "SET", "pw", id, "POINT", "1", "2")
			case 1:
				buf = t38.AppendCommand(nil, "EVAL", "return tile38.call('set', KEYS[1], ARGV[1], 'point', 3, 4)", "1", "pw", id)
			case 2:
				buf = t38.AppendCommand(nil, "FSET", "pw", "ctl", "f", fmt.Sprintf("%d", pwMark.Add(1)))
			case 3:
				buf = t38.AppendCommand(nil, "EVALNA", "return tile38.call('set', KEYS[1], ARGV[1], 'string', 'x')", "1", "pw", id)
			}
			pc.sent++
			if st.A == "execlive" {
				buf = t38.AppendCommand(buf, "SUBSCRIBE", fmt.Sprintf("ch%d", st.C))
				pc.live = true
			}
			if _, err := pc.c.C.Write(buf); err != nil {
				return err
			}
			if !w.waitArrive(st.C, 10*time.Second) {
				return fmt.Errorf("schedule %d: connection %d did not reach a gate after its command", si, st.C)
			}
		case "step":
			if err := advance(st.C); err != nil {
				return err
			}
		}
	}
	// drain: let every connection finish
	for ci := 1; ci <= nconn; ci++ {
		for w.parkedAt(ci) != nil {
			if err := advance(ci); err != nil {
				return err
			}
		}
	}
	return nil
}

// runBatch: one connection sends, in ONE segment, a write followed by searches whose replies add up to several MB.  The
// connection is never parked; every socket write it makes is recorded with the size of the file at that instant, so that
// the trace specification judges each of them (a reply path that writes part of the batch's output early must have
// flushed the write's bytes first).
func (w *pwWorker) runBatch(si int, nscans int) error {
	ctl, err := w.srv.Dial()
	if err != nil {
		return err
	}
	defer ctl.Close()
	if !w.bigLoaded {
		pad := strings.Repeat("v", 700)
		for i := 0; i < 1500; i++ {
			if _, err := ctl.Do("SET", "pwbig", fmt.Sprintf("s%04d", i), "STRING", pad); err != nil {
				return err
			}
		}
		w.bigLoaded = true
	}
	if _, err := ctl.Do("SET", "pw", "ctl", "POINT", "0", "0"); err != nil {
		return err
	}
	w.mu.Lock()
	w.sched = si
	w.connOf = map[int]int{}
	w.tested = map[int]bool{}
	w.ungated = map[int]bool{1: true}
	w.logAll = map[int]bool{1: true}
	w.log(pwEvent{E: "reset", N: w.appendSeq, Bytes: w.flushBytes})
	w.mu.Unlock()
	defer func() {
		w.mu.Lock()
		w.logAll = map[int]bool{}
		w.mu.Unlock()
	}()
	c, err := w.srv.Dial()
	if err != nil {
		return err
	}
	defer c.Close()
	c.Timeout = 30 * time.Second
	mark := fmt.Sprintf("pwmark-%d", pwMark.Add(1))
	if _, err := c.Do("TYPE", mark); err != nil {
		return err
	}
	w.mu.Lock()
	id, ok := w.marks[mark]
	delete(w.marks, mark)
	if ok {
		w.connOf[id] = 1
	}
	w.mu.Unlock()
	if !ok {
		return fmt.Errorf("connection mark not seen by the cmd.begin hook")
	}
	w.gating.Store(true)
	defer w.gating.Store(false)
	buf := t38.AppendCommand(nil, "SET", "pw", fmt.Sprintf("batch-%d", si), "POINT", "5", "6")
	for i := 0; i < nscans; i++ {
		buf = t38.AppendCommand(buf, "SCAN", "pwbig", "LIMIT", "100000")
	}
	if _, err := c.C.Write(buf); err != nil {
		return err
	}
	for i := 0; i < nscans+1; i++ {
		if _, err := c.Recv(); err != nil {
			return fmt.Errorf("batch %d: reply %d: %v", si, i, err)
		}
	}
	return nil
}

// prewriteCmd forces TLC-generated schedules of the pre-write protocol on
// real servers and records the trace that PrewriteTrace.tla validates.
func prewriteCmd(args []string) int {
	fs := flag.NewFlagSet("prewrite", flag.ExitOnError)
	in := fs.String("in", "", "schedules, one JSON array of {c,a} per line")
	out := fs.String("out", "", "trace output (NDJSON)")
	nconn := fs.Int("conns", 2, "connections per schedule")
	par := fs.Int("par", 8, "parallel servers")
	spin := fs.Bool("spinlock", false, "spinlock implementation")
	batches := fs.Int("batches", 0, "servers that also run pipelined batches with multi-megabyte replies")
	fs.Parse(args)
	f, err := os.Open(*in)
	if err != nil {
		fmt.Fprintln(os.Stderr, err)
		return 2
	}
	defer f.Close()
	var scheds [][]pwStep
	sc := bufio.NewScanner(f)
	sc.Buffer(make([]byte, 1<<20), 1<<26)
	for sc.Scan() {
		if len(sc.Bytes()) == 0 {
			continue
		}
		var st []pwStep
		if err := json.Unmarshal(sc.Bytes(), &st); err != nil {
			fmt.Fprintln(os.Stderr, "bad schedule:", err)
			return 2
		}
		scheds = append(scheds, st)
	}
	type res struct {
		events []pwEvent
		err    error
	}
	results := make([]res, *par)
	var wg sync.WaitGroup
	for wi := 0; wi < *par; wi++ {
		wg.Add(1)
		go func(wi int) {
			defer wg.Done()
			w, err := newPwWorker(*spin)
			if err != nil {
				results[wi].err = err
				return
			}
			defer w.srv.StopAndRemove()
			for si := wi; si < len(scheds); si += *par {
				if err := w.runSchedule(si, scheds[si], *nconn); err != nil {
					results[wi].err = err
					return
				}
			}
			if wi < *batches {
				for r := 0; r < 2; r++ {
					if err := w.runBatch(batchBase+wi*10+r, 2+r); err != nil {
						results[wi].err = err
						return
					}
					nbatch.Add(1)
				}
			}
			w.mu.Lock()
			results[wi].events = w.events
			w.mu.Unlock()
		}(wi)
	}
	wg.Wait()
	of, err := os.Create(*out)
	if err != nil {
		fmt.Fprintln(os.Stderr, err)
		return 2
	}
	bw := bufio.NewWriter(of)
	enc := json.NewEncoder(bw)
	total, writes, tests, appends := 0, 0, 0, 0
	for _, r := range results {
		if r.err != nil {
			fmt.Fprintln(os.Stderr, "harness error:", r.err)
			return 2
		}
		for _, ev := range r.events {
			enc.Encode(ev)
			total++
			switch ev.E {
			case "write":
				writes++
			case "test":
				tests++
			case "append":
				appends++
			}
		}
	}
	bw.Flush()
	of.Close()
	emit(map[string]interface{}{"schedules": len(scheds), "events": total, "writes": writes, "tests": tests, "appends": appends,
		"batches": nbatch.Load()})
	return 0
}
