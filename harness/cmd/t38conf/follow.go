package main

import (
	"bufio"
	"encoding/json"
	"flag"
	"fmt"
	"io"
	"net"
	"os"
	"strings"
	"sync"
	"sync/atomic"
	"time"

	"github.com/tidwall/tile38/internal/server"
	"github.com/tidwall/tile38/verifharness/t38"
)

func init() { register("follow-run", followRun) }

// folScenario is one TLC behaviour of Follow.tla at the grain the harness can drive.
type folScenario struct {
	LeaderInit int      `json:"linit"`   // batches the leader holds before anything else
	Prefix     int      `json:"prefix"`  // how many of them the follower already has (true prefix of the leader's log)
	Foreign    int      `json:"foreign"` // batches of unrelated data the follower wrote on its own afterwards
	Steps      []string `json:"steps"`   // lwrite | drop | frestart | lshrink | refollow | owrite | sync
	Small      bool     `json:"small"`   // batches without padding (logs stay below the checksum window)
}

type folMismatch struct {
	Scenario int    `json:"scenario"`
	Step     int    `json:"step"`
	What     string `json:"what"` // copy | early | never
	Detail   string `json:"detail"`
}

// cutProxy forwards TCP connections to the leader and can cut them all.
type cutProxy struct {
	ln     net.Listener
	target string
	mu     sync.Mutex
	conns  map[net.Conn]bool
	down   atomic.Int64 // bytes forwarded from the leader towards the follower
	live   atomic.Int64 // connections being forwarded
}

// countWriter counts what io.Copy hands to it.
type countWriter struct {
	w io.Writer
	n *atomic.Int64
}

func (c countWriter) Write(b []byte) (int, error) {
	n, err := c.w.Write(b)
	c.n.Add(int64(n))
	return n, err
}

func newCutProxy(target string) (*cutProxy, error) {
	ln, err := net.Listen("tcp", "127.0.0.1:0")
	if err != nil {
		return nil, err
	}
	p := &cutProxy{ln: ln, target: target, conns: map[net.Conn]bool{}}
	go func() {
		for {
			c, err := ln.Accept()
			if err != nil {
				return
			}
			u, err := net.Dial("tcp", target)
			if err != nil {
				c.Close()
				continue
			}
			p.mu.Lock()
			p.conns[c] = true
			p.conns[u] = true
			p.mu.Unlock()
			go func() { io.Copy(u, c); u.Close(); c.Close() }()
			p.live.Add(1)
			go func() { io.Copy(countWriter{c, &p.down}, u); u.Close(); c.Close(); p.live.Add(-1) }()
		}
	}()
	return p, nil
}

func (p *cutProxy) port() int { return p.ln.Addr().(*net.TCPAddr).Port }
func (p *cutProxy) cut() {
	p.mu.Lock()
	for c := range p.conns {
		c.Close()
	}
	p.conns = map[net.Conn]bool{}
	p.mu.Unlock()
}
func (p *cutProxy) close() { p.ln.Close(); p.cut() }

func serverInfo(c *t38.Conn) map[string]string {
	m := map[string]string{}
	r, err := c.Do("SERVER")
	if err != nil || r.Kind != '*' {
		return m
	}
	for i := 0; i+1 < len(r.Arr); i += 2 {
		v := r.Arr[i+1]
		if v.Kind == ':' {
			m[r.Arr[i].Str] = fmt.Sprint(v.Int)
		} else {
			m[r.Arr[i].Str] = v.Str
		}
	}
	return m
}

var folPad = strings.Repeat("0123456789abcdef", 340*64) // 340 KiB: the checksum window (512 KiB) is 1.5 batches

// batch executes the n-th batch of writes of a log (who = "L" leader history, "F" foreign data).
func folBatch(c *t38.Conn, who string, n int, small bool) error {
	tag := fmt.Sprintf("%s%03d", who, n)
	pad := folPad
	if small {
		pad = "small"
	}
	cmds := [][]string{
		{"SET", "data", "obj-" + tag, "FIELD", "n", fmt.Sprint(n), "POINT", fmt.Sprint(n % 80), fmt.Sprint(n % 170)},
		{"SET", "pads", "pad-" + tag, "STRING", pad},
		{"JSET", "docs", "doc", "list.-1", tag},                          // not idempotent
		{"SET", "data", "nx-" + who, "NX", "STRING", tag},                // only the first one wins
		{"RENAMENX", "pads", "pads-" + who},                              // depends on history
		{"FSET", "data", "obj-" + tag, "speed", fmt.Sprint(n + 1)},
		{"SETCHAN", "chan-" + tag, "WITHIN", "data", "FENCE", "DETECT", "enter", "BOUNDS", "80", "100", "81", "101"},
	}
	if n%3 == 2 {
		cmds = append(cmds, []string{"DEL", "data", fmt.Sprintf("obj-%s%03d", who, n-1)}, []string{"DELCHAN", fmt.Sprintf("chan-%s%03d", who, n-1)})
	}
	for _, a := range cmds {
		if _, err := c.Do(a...); err != nil {
			return err
		}
	}
	return nil
}

func folRunOne(si int, sc *folScenario) ([]folMismatch, map[string]int, error) {
	var out []folMismatch
	stats := map[string]int{}
	leader, err := t38.Start(t38.Options{})
	if err != nil {
		return nil, nil, err
	}
	defer leader.StopAndRemove()
	lc, err := leader.Dial()
	if err != nil {
		return nil, nil, err
	}
	defer lc.Close()
	proxy, err := newCutProxy(leader.Addr)
	if err != nil {
		return nil, nil, err
	}
	defer proxy.close()
	// a second leader for scenarios that re-point the follower (FOLLOW to another host without a restart)
	type folLeader struct {
		srv    *t38.Srv
		conn   *t38.Conn
		proxy  *cutProxy
		who    string
		writes int
	}
	ldr := [2]*folLeader{{srv: leader, conn: lc, proxy: proxy, who: "L"}, nil}
	cur := 0 // index of the leader the follower is configured to follow (guarded by hmu)
	needSecond := false
	for _, st := range sc.Steps {
		if st == "refollow" {
			needSecond = true
		}
	}
	if needSecond {
		l2, err := t38.Start(t38.Options{})
		if err != nil {
			return nil, nil, err
		}
		defer l2.StopAndRemove()
		c2, err := l2.Dial()
		if err != nil {
			return nil, nil, err
		}
		defer c2.Close()
		p2, err := newCutProxy(l2.Addr)
		if err != nil {
			return nil, nil, err
		}
		defer p2.close()
		ldr[1] = &folLeader{srv: l2, conn: c2, proxy: p2, who: "M"}
		// what the other leader holds initially (OLog of the specification: one batch)
		ldr[1].writes++
		if err := folBatch(c2, "M", 1, sc.Small); err != nil {
			return nil, nil, err
		}
	}
	// the follower, with a hook on its caught-up transitions
	fport := t38.FreePort()
	var hmu sync.Mutex
	var early []string
	checkEarly := true
	cuEvents := 0
	// gate: parks the follower inside its second applied command of a session (under its server lock), i.e. in the
	// middle of the backlog copy, until released
	var gateArmed bool
	gateAppends := 0
	gateReached := make(chan struct{}, 1)
	gateRelease := make(chan struct{})
	fhook := func(s *server.Server, point string, a ...interface{}) {
		if point == "aof.append" {
			hmu.Lock()
			park := false
			if gateArmed {
				gateAppends++
				if gateAppends == 2 {
					park = true
				}
			}
			rel := gateRelease
			hmu.Unlock()
			if park {
				select {
				case gateReached <- struct{}{}:
				default:
				}
				select {
				case <-rel:
				case <-time.After(40 * time.Second):
				}
			}
			return
		}
		if point != "follow.caughtup" {
			return
		}
		hmu.Lock()
		on := checkEarly
		cuEvents++
		curLeader := ldr[cur].srv
		hmu.Unlock()
		if !on {
			return
		}
		// the instant before the follower reports caught-up: it must already hold everything the
		// (quiescent) leader holds
		if d := diffStates(curLeader.S.VerifDump(true), s.VerifDump(true), 1<<62); len(d) > 0 {
			hmu.Lock()
			early = append(early, strings.Join(d, "; "))
			hmu.Unlock()
		}
	}
	follower, err := t38.Start(t38.Options{Port: fport, Hook: fhook})
	if err != nil {
		return nil, nil, err
	}
	// a follower that was started with a follow configuration waits, on shutdown, for its replication
	// goroutine, which sits in a read on the idle leader connection: cut the connection while stopping
	stopFollower := func(remove bool) error {
		done := make(chan struct{})
		go func() {
			for {
				select {
				case <-done:
					return
				case <-time.After(200 * time.Millisecond):
					proxy.cut()
					if ldr[1] != nil {
						ldr[1].proxy.cut()
					}
				}
			}
		}()
		if follower == nil {
			close(done)
			return nil
		}
		err := follower.Stop()
		close(done)
		if remove {
			os.RemoveAll(follower.Dir)
		}
		return err
	}
	defer func() { stopFollower(true) }()
	fc, err := follower.Dial()
	if err != nil {
		return nil, nil, err
	}
	defer func() { fc.Close() }()
	writeOn := func(l *folLeader) error {
		l.writes++
		return folBatch(l.conn, l.who, l.writes, sc.Small)
	}
	lwrite := func() error { return writeOn(ldr[cur]) }
	waitCaughtUp := func(d time.Duration) bool {
		deadline := time.Now().Add(d)
		for time.Now().Before(deadline) {
			m := serverInfo(fc)
			if m["caught_up"] == "true" || m["caught_up"] == "1" {
				return true
			}
			time.Sleep(20 * time.Millisecond)
		}
		return false
	}
	follow := func() error {
		r, err := fc.Do("FOLLOW", "127.0.0.1", fmt.Sprint(ldr[cur].proxy.port()))
		if err != nil || r.Kind == '-' {
			return fmt.Errorf("FOLLOW: %v %v", r, err)
		}
		return nil
	}
	// a backlog larger than the socket buffers between leader and follower (the dataset stays small: one id overwritten)
	bulk := func() error {
		pad := strings.Repeat("0123456789abcdef", 340*64)
		for i := 0; i < 56; i++ {
			if _, err := ldr[cur].conn.Do("SET", "bulk", "pad", "STRING", pad); err != nil {
				return err
			}
		}
		return nil
	}
	armGate := func() {
		hmu.Lock()
		gateArmed, gateAppends = true, 0
		gateRelease = make(chan struct{})
		hmu.Unlock()
		select {
		case <-gateReached:
		default:
		}
	}
	releaseGate := func() {
		hmu.Lock()
		if gateArmed {
			gateArmed = false
			close(gateRelease)
		}
		hmu.Unlock()
	}
	defer releaseGate()
	nextIs := func(i int, what string) bool { return i+1 < len(sc.Steps) && sc.Steps[i+1] == what }
	// ---- initial states
	for i := 0; i < sc.Prefix; i++ {
		if err := lwrite(); err != nil {
			return nil, nil, err
		}
	}
	hmu.Lock()
	checkEarly = false // building the initial state is not under test
	hmu.Unlock()
	if sc.Prefix > 0 {
		if err := follow(); err != nil {
			return nil, nil, err
		}
		if !waitCaughtUp(20 * time.Second) {
			return nil, nil, fmt.Errorf("scenario %d: follower did not catch up while building the prefix state", si)
		}
		time.Sleep(300 * time.Millisecond)
		if r, err := fc.Do("FOLLOW", "no", "one"); err != nil || r.Kind == '-' {
			return nil, nil, fmt.Errorf("FOLLOW no one: %v %v", r, err)
		}
	}
	for i := 1; i <= sc.Foreign; i++ {
		if err := folBatch(fc, "F", i, sc.Small); err != nil {
			return nil, nil, err
		}
	}
	for i := sc.Prefix; i < sc.LeaderInit; i++ {
		if err := lwrite(); err != nil {
			return nil, nil, err
		}
	}
	hmu.Lock()
	checkEarly = true
	early = nil
	cuEvents = 0
	hmu.Unlock()
	if len(sc.Steps) > 0 && sc.Steps[0] == "lshrinkmid" {
		if err := bulk(); err != nil {
			return nil, nil, err
		}
		armGate()
	}
	if err := follow(); err != nil {
		return nil, nil, err
	}
	// ---- steps
	// after FOLLOW or a fault the leader stays quiescent until the follower has gone through a new
	// connect cycle and reported caught-up (needEvents), so that the caught-up instant can be judged
	needEvents := 1
	pending := true
	t00 := time.Now()
	dbg := func(f string, a ...interface{}) {
		if os.Getenv("FOLDEBUG") != "" {
			fmt.Fprintf(os.Stderr, "%6.2fs "+f+"\n", append([]interface{}{time.Since(t00).Seconds()}, a...)...)
		}
	}
	// sampler: from a fault of the present session (AOFSHRINK on the leader, a cut connection) until the follower has
	// been judged again the leader is quiescent; every SERVER reply of the follower is one consistent observation (taken
	// under its lock): one that says caught_up must show the leader's counts
	var sampStop, sampDone chan struct{}
	sampBad, sampN := "", 0
	startSampler := func() {
		lc, err1 := ldr[cur].srv.Dial()
		sc2, err2 := follower.Dial()
		if err1 != nil || err2 != nil {
			return
		}
		lm := serverInfo(lc)
		lc.Close()
		stop, done := make(chan struct{}), make(chan struct{})
		sampStop, sampDone = stop, done
		go func() {
			defer close(done)
			defer sc2.Close()
			for {
				select {
				case <-stop:
					return
				default:
				}
				m := serverInfo(sc2)
				if len(m) > 0 {
					sampN++
					if (m["caught_up"] == "true" || m["caught_up"] == "1") && sampBad == "" &&
						(m["num_objects"] != lm["num_objects"] || m["num_strings"] != lm["num_strings"] || m["num_points"] != lm["num_points"]) {
						sampBad = fmt.Sprintf("objects %s strings %s points %s aof_size %s; the quiescent leader holds objects %s strings %s points %s",
							m["num_objects"], m["num_strings"], m["num_points"], m["aof_size"], lm["num_objects"], lm["num_strings"], lm["num_points"])
					}
				}
				time.Sleep(300 * time.Microsecond)
			}
		}()
	}
	stopSampler := func(step int) {
		if sampStop == nil {
			return
		}
		close(sampStop)
		<-sampDone
		sampStop = nil
		stats["caughtup_samples"] += sampN
		sampN = 0
		if sampBad != "" {
			out = append(out, folMismatch{si, step, "stale", "after a fault, with the leader quiescent, the follower answered SERVER with caught_up = true while it held " + sampBad})
			sampBad = ""
		}
	}
	defer func() {
		if sampStop != nil {
			close(sampStop)
			<-sampDone
		}
	}()
	sync := func(step int) {
		defer stopSampler(step)
		stats["syncs"]++
		dbg("sync step %d pending=%v need=%d", step, pending, needEvents)
		if pending {
			deadline := time.Now().Add(30 * time.Second)
			for {
				hmu.Lock()
				n := cuEvents
				hmu.Unlock()
				if n >= needEvents || time.Now().After(deadline) {
					break
				}
				time.Sleep(20 * time.Millisecond)
			}
			pending = false
		}
		dbg("events reached, waiting caught_up")
		if !waitCaughtUp(30 * time.Second) {
			out = append(out, folMismatch{si, step, "never", "the follower did not report caught-up within 30 s although the leader is quiescent and reachable"})
			return
		}
		dbg("caught_up reported")
		// drained: the follower's log has reached the leader's size, or has stopped growing
		deadline := time.Now().Add(20 * time.Second)
		last, stable := "", 0
		for time.Now().Before(deadline) && stable < 15 {
			fs := serverInfo(fc)["aof_size"]
			if fs == serverInfo(ldr[cur].conn)["aof_size"] {
				break
			}
			if fs == last {
				stable++
			} else {
				stable = 0
			}
			last = fs
			time.Sleep(20 * time.Millisecond)
		}
		dbg("drained")
		hmu.Lock()
		e := early
		early = nil
		hmu.Unlock()
		for _, d := range e {
			out = append(out, folMismatch{si, step, "early", "the follower was about to report caught-up while its dataset still differed from the quiescent leader's: " + d})
		}
		if d := diffStates(ldr[cur].srv.S.VerifDump(true), follower.S.VerifDump(true), 1<<62); len(d) > 0 {
			out = append(out, folMismatch{si, step, "copy", fmt.Sprintf("follower reports caught-up (aof_size leader %s follower %s) but its dataset is not the leader's: %s",
				serverInfo(ldr[cur].conn)["aof_size"], serverInfo(fc)["aof_size"], strings.Join(d, "; "))})
		}
	}
	ballasted := false
	steps := append(append([]string{}, sc.Steps...), "sync")
	for i, st := range steps {
		if len(out) > 0 {
			break
		}
		switch st {
		case "lwrite":
			if pending {
				sync(i)
			}
			if err := lwrite(); err != nil {
				return nil, nil, err
			}
			stats["lwrites"]++
		case "sync":
			sync(i)
		case "drop":
			sync(i) // faults hit a follower that is streaming
			hmu.Lock()
			needEvents = cuEvents + 1
			hmu.Unlock()
			pending = true
			startSampler()
			proxy.cut()
			stats["drops"]++
		case "frestart":
			sync(i)
			hmu.Lock()
			needEvents = cuEvents + 1
			hmu.Unlock()
			pending = true
			fc.Close()
			dir := follower.Dir
			if err := stopFollower(false); err != nil {
				return nil, nil, err
			}
			if nextIs(i, "lshrinkmid") {
				if err := bulk(); err != nil {
					return nil, nil, err
				}
				armGate()
			}
			// (the port of the stopped process may take a moment to be free again)
			for try := 0; ; try++ {
				follower, err = t38.Start(t38.Options{Dir: dir, Port: fport, Hook: fhook})
				if err == nil || try >= 20 {
					break
				}
				time.Sleep(250 * time.Millisecond)
			}
			if err != nil {
				os.RemoveAll(dir)
				return nil, nil, fmt.Errorf("follower restart: %v", err)
			}
			fc, err = follower.Dial()
			if err != nil {
				return nil, nil, err
			}
			stats["frestarts"]++
		case "lshrink":
			if si%2 == 0 && !ballasted {
				// a dataset whose copy takes a while: the window in which a follower that re-copies can be observed
				ballasted = true
				if pending {
					sync(i)
				}
				// (the leader is not quiescent while the ballast is written: the caught-up instant is not judged)
				hmu.Lock()
				checkEarly = false
				hmu.Unlock()
				const nb = 20000
				for j := 0; j < nb; j += 500 {
					for q := j; q < j+500; q++ {
						if err := ldr[cur].conn.Send("SET", "ballast", fmt.Sprintf("b%05d", q), "POINT", "1", fmt.Sprint(q%90)); err != nil {
							return nil, nil, err
						}
					}
					for q := j; q < j+500; q++ {
						if _, err := ldr[cur].conn.Recv(); err != nil {
							return nil, nil, err
						}
					}
				}
				sync(i)
				hmu.Lock()
				checkEarly = true
				early = nil
				hmu.Unlock()
			}
			sync(i)
			hmu.Lock()
			needEvents = cuEvents + 1
			hmu.Unlock()
			pending = true
			startSampler()
			if r, err := ldr[cur].conn.Do("AOFSHRINK"); err != nil || r.Kind != '+' {
				return nil, nil, fmt.Errorf("AOFSHRINK: %v %v", r, err)
			}
			time.Sleep(400 * time.Millisecond)
			stats["lshrinks"]++
		case "lshrinkmid":
			// AOFSHRINK on the leader while the follower is in the middle of its backlog copy (parked by the gate)
			parked := false
			hmu.Lock()
			armed := gateArmed
			hmu.Unlock()
			if armed {
				select {
				case <-gateReached:
					parked = true
				case <-time.After(10 * time.Second):
				}
			}
			if !parked {
				// not reachable from here (the copy was already over): an ordinary shrink
				releaseGate()
				sync(i)
			}
			hmu.Lock()
			needEvents = cuEvents + 1
			hmu.Unlock()
			pending = true
			if r, err := ldr[cur].conn.Do("AOFSHRINK"); err != nil || r.Kind != '+' {
				return nil, nil, fmt.Errorf("AOFSHRINK: %v %v", r, err)
			}
			time.Sleep(700 * time.Millisecond)
			if parked {
				stats["lshrinks_midcopy"]++
				releaseGate()
			}
			stats["lshrinks"]++
		case "refollow":
			// FOLLOW <other leader> on a follower whose session with the present leader is idle in its read
			sync(i)
			hmu.Lock()
			needEvents = cuEvents + 1
			cur = 1 - cur
			hmu.Unlock()
			pending = true
			if err := follow(); err != nil {
				return nil, nil, err
			}
			stats["refollows"]++
		case "owrite":
			// the leader that is no longer followed logs another batch; wait until its replication
			// connection (if one is still open) has carried it towards the follower
			if pending {
				sync(i)
			}
			old := ldr[1-cur]
			before := old.proxy.down.Load()
			sz0 := serverInfo(old.conn)["aof_size"]
			if err := writeOn(old); err != nil {
				return nil, nil, err
			}
			var a, b int64
			fmt.Sscan(sz0, &a)
			fmt.Sscan(serverInfo(old.conn)["aof_size"], &b)
			deadline := time.Now().Add(2 * time.Second)
			for time.Now().Before(deadline) && old.proxy.down.Load()-before < b-a && old.proxy.live.Load() > 0 {
				time.Sleep(10 * time.Millisecond)
			}
			time.Sleep(100 * time.Millisecond)
			stats["owrites"]++
		}
	}
	stats["scenarios"]++
	return out, stats, nil
}

func followRun(args []string) int {
	fs := flag.NewFlagSet("follow-run", flag.ExitOnError)
	in := fs.String("in", "", "scenarios (NDJSON)")
	par := fs.Int("par", 4, "parallel scenarios")
	fs.Parse(args)
	f, err := os.Open(*in)
	if err != nil {
		fmt.Fprintln(os.Stderr, err)
		return 2
	}
	defer f.Close()
	var scs []folScenario
	sc := bufio.NewScanner(f)
	for sc.Scan() {
		if len(sc.Bytes()) == 0 {
			continue
		}
		var s folScenario
		if err := json.Unmarshal(sc.Bytes(), &s); err != nil {
			fmt.Fprintln(os.Stderr, err)
			return 2
		}
		scs = append(scs, s)
	}
	var mu sync.Mutex
	var mism []folMismatch
	tot := map[string]int{}
	var firstErr error
	var wg sync.WaitGroup
	sem := make(chan struct{}, *par)
	for i := range scs {
		wg.Add(1)
		sem <- struct{}{}
		go func(i int) {
			defer wg.Done()
			defer func() { <-sem }()
			ms, st, err := folRunOne(i, &scs[i])
			mu.Lock()
			defer mu.Unlock()
			if err != nil {
				if firstErr == nil {
					firstErr = fmt.Errorf("scenario %d: %v", i, err)
				}
				return
			}
			mism = append(mism, ms...)
			for k, v := range st {
				tot[k] += v
			}
		}(i)
	}
	wg.Wait()
	if firstErr != nil {
		fmt.Fprintln(os.Stderr, "harness error:", firstErr)
		return 2
	}
	emit(map[string]interface{}{"stats": tot, "mismatches": mism})
	if len(mism) > 0 {
		return 1
	}
	return 0
}
