package main

import (
	"flag"
	"fmt"
	"strings"
	"sync"
	"time"

	"github.com/tidwall/tile38/verifharness/t38"
)

// conc-bulk: the multi-object operations (PDEL, DROP, FLUSHDB, RENAME) on collections of tens of thousands of objects
// while other connections read and write.  Locking.tla / KeyspaceOrder make each of them ONE step: a reader sees the
// collection before or after it (SCAN key COUNT answers n or 0, never a number in between), and a SET acknowledged
// while the operation runs is ordered before it (and deleted) or after it (and survives, in the server AND in what a
// restart recovers from the log).
func init() { register("conc-bulk", concBulk) }

func concBulk(args []string) int {
	fs := flag.NewFlagSet("conc-bulk", flag.ExitOnError)
	n := fs.Int("n", 20000, "objects per collection")
	rounds := fs.Int("rounds", 2, "rounds per operation")
	fs.Parse(args)
	type mismatch struct {
		Op     string `json:"op"`
		Detail string `json:"detail"`
	}
	var out []mismatch
	reads, writes := 0, 0
	ops := []struct {
		name string
		cmd  []string
	}{
		{"pdel", []string{"PDEL", "bulk", "o*"}},
		{"drop", []string{"DROP", "bulk"}},
		{"flushdb", []string{"FLUSHDB"}},
		{"rename", []string{"RENAME", "bulk", "bulk2"}},
	}
	for _, op := range ops {
		for round := 0; round < *rounds; round++ {
			srv, err := t38.Start(t38.Options{Spinlock: round%2 == 1})
			if err != nil {
				fmt.Println("harness error:", err)
				return 2
			}
			c, err := srv.Dial()
			if err != nil {
				fmt.Println("harness error:", err)
				return 2
			}
			for j := 0; j < *n; j += 500 {
				for q := j; q < j+500 && q < *n; q++ {
					c.Send("SET", "bulk", fmt.Sprintf("o%06d", q), "POINT", "1", fmt.Sprint(q%90))
				}
				for q := j; q < j+500 && q < *n; q++ {
					if _, err := c.Recv(); err != nil {
						fmt.Println("harness error:", err)
						return 2
					}
				}
			}
			stop := make(chan struct{})
			var mu sync.Mutex
			var wg sync.WaitGroup
			bad := map[string]bool{}
			for r := 0; r < 4; r++ {
				wg.Add(1)
				go func() {
					defer wg.Done()
					rc, err := srv.Dial()
					if err != nil {
						return
					}
					defer rc.Close()
					for {
						select {
						case <-stop:
							return
						default:
						}
						v, err := rc.Do("SCAN", "bulk", "COUNT")
						if err != nil {
							return
						}
						mu.Lock()
						reads++
						// (a concurrent writer may have added its few objects)
						if v.Kind == ':' && v.Int > 64 && v.Int < int64(*n) {
							bad[fmt.Sprintf("SCAN bulk COUNT answered %d while %v ran on %d objects: the operation was seen half applied", v.Int, op.cmd, *n)] = true
						}
						mu.Unlock()
					}
				}()
			}
			// a writer: ids that the operation would delete
			wg.Add(1)
			go func() {
				defer wg.Done()
				wc, err := srv.Dial()
				if err != nil {
					return
				}
				defer wc.Close()
				for i := 0; ; i++ {
					select {
					case <-stop:
						return
					default:
					}
					id := fmt.Sprintf("o%06d-w", i%32) // at most 32 extra objects
					v, err := wc.Do("SET", "bulk", id, "POINT", "2", "2")
					if err != nil {
						return
					}
					if v.Kind == '+' {
						mu.Lock()
						writes++
						mu.Unlock()
					}
					time.Sleep(200 * time.Microsecond)
				}
			}()
			time.Sleep(30 * time.Millisecond)
			if v, err := c.Do(op.cmd...); err != nil || v.Kind == '-' {
				fmt.Println("harness error:", op.cmd, v.String(), err)
				return 2
			}
			time.Sleep(30 * time.Millisecond)
			close(stop)
			wg.Wait()
			for b := range bad {
				out = append(out, mismatch{op.name, b})
			}
			// what the server serves = what a restart recovers (the order in the log is the order of application)
			live := srv.S.VerifDump(true)
			c.Close()
			dir, err := copyDataDir(srv.Dir)
			srv.StopAndRemove()
			if err != nil {
				fmt.Println("harness error:", err)
				return 2
			}
			s2, err := t38.Start(t38.Options{Dir: dir})
			if err != nil {
				out = append(out, mismatch{op.name, "server does not start on the log: " + err.Error()})
				continue
			}
			if d := diffStates(live, s2.S.VerifDump(true), 1<<62); len(d) > 0 {
				out = append(out, mismatch{op.name, fmt.Sprintf("after %v with a concurrent writer the dataset served differs from what a restart recovers "+
					"(the log order is not the order of application): %s", op.cmd, strings.Join(d, "; "))})
			}
			s2.StopAndRemove()
		}
	}
	emit(map[string]interface{}{"stats": map[string]int{"operations": len(ops) * *rounds, "objects": *n, "concurrent_reads": reads, "concurrent_writes": writes}, "mismatches": out})
	if len(out) > 0 {
		return 1
	}
	return 0
}
