package main

import (
	"bufio"
	"encoding/json"
	"flag"
	"fmt"
	"os"

	"github.com/tidwall/tile38/verifharness/filt"
	"github.com/tidwall/tile38/verifharness/t38"
)

func init() {
	register("filt-glob", filtGlob)
	register("filt-query", filtQuery)
	register("filt-probe", filtProbe)
}

func writeNDJSON(path string, n int, item func(i int) interface{}) error {
	f, err := os.Create(path)
	if err != nil {
		return err
	}
	w := bufio.NewWriter(f)
	enc := json.NewEncoder(w)
	enc.SetEscapeHTML(false)
	for i := 0; i < n; i++ {
		if err := enc.Encode(item(i)); err != nil {
			f.Close()
			return err
		}
	}
	if err := w.Flush(); err != nil {
		f.Close()
		return err
	}
	return f.Close()
}

// filtGlob runs TLC-generated glob cases (spec/GlobGen.tla: a pattern with its
// complete match set over the universe of strings) against the real code:
// in-package glob.Match on every (pattern, string) pair, glob.Parse recorded
// for validation by spec/GlobTrace.tla, and every user of the range shortcut
// (KEYS, SCAN MATCH asc/desc, SEARCH MATCH, PDEL, HOOKS, CHANS, PDELHOOK,
// PDELCHAN) on real servers that hold the whole universe.
func filtGlob(args []string) int {
	fs := flag.NewFlagSet("filt-glob", flag.ExitOnError)
	in := fs.String("in", "", "cases (NDJSON: universe record, then one case per line)")
	limits := fs.String("limits", "", "write the recorded glob.Parse limits here (NDJSON)")
	out := fs.String("out", "", "write the mismatches here (NDJSON)")
	par := fs.Int("par", 8, "parallel server sets")
	noServer := fs.Bool("no-server", false, "in-package part only")
	noPackage := fs.Bool("no-package", false, "server part only")
	fs.Parse(args)
	u, cases, err := filt.ReadGlobCases(*in)
	if err != nil {
		fmt.Fprintln(os.Stderr, "filt-glob:", err)
		return 2
	}
	st := filt.GlobStats{ServerChecks: map[string]int{}}
	var mism []filt.Mismatch
	if !*noPackage {
		m, err := filt.InPackage(u, cases, *limits, &st)
		if err != nil {
			fmt.Fprintln(os.Stderr, "filt-glob (in-package):", err)
			return 2
		}
		mism = append(mism, m...)
	}
	if !*noServer {
		m, err := filt.Servers(u, cases, *par, &st)
		if err != nil {
			fmt.Fprintln(os.Stderr, "filt-glob (servers):", err)
			return 2
		}
		mism = append(mism, m...)
	}
	if *out != "" {
		if err := writeNDJSON(*out, len(mism), func(i int) interface{} { return mism[i] }); err != nil {
			fmt.Fprintln(os.Stderr, "filt-glob:", err)
			return 2
		}
	}
	emit(map[string]interface{}{"stats": st, "universe": len(u.Strs), "mismatches": len(mism)})
	if len(mism) > 0 {
		return 1
	}
	return 0
}

// filtQuery runs TLC-generated query cases (spec/FiltersGen.tla: datasets with
// the expected IDS result and COUNT of every query) against real servers.
func filtQuery(args []string) int {
	fs := flag.NewFlagSet("filt-query", flag.ExitOnError)
	in := fs.String("in", "", "cases (NDJSON: header record, then one dataset per line)")
	out := fs.String("out", "", "write the mismatches here (NDJSON)")
	par := fs.Int("par", 8, "parallel servers")
	fs.Parse(args)
	h, ds, err := filt.ReadQueryCases(*in)
	if err != nil {
		fmt.Fprintln(os.Stderr, "filt-query:", err)
		return 2
	}
	st := filt.QStats{ByFam: map[string]int{}, ByFilter: map[string]int{}}
	mism, err := filt.RunQueries(h, ds, *par, &st)
	if err != nil {
		fmt.Fprintln(os.Stderr, "filt-query:", err)
		return 2
	}
	if *out != "" {
		if err := writeNDJSON(*out, len(mism), func(i int) interface{} { return mism[i] }); err != nil {
			fmt.Fprintln(os.Stderr, "filt-query:", err)
			return 2
		}
	}
	emit(map[string]interface{}{"stats": st, "nqueries": len(h.Queries), "mismatches": len(mism)})
	if len(mism) > 0 {
		return 1
	}
	return 0
}

// filtProbe sends the commands of a file (one JSON array of arguments per
// line) to a fresh server and prints every reply (used for the minimal
// reproductions of findings).
func filtProbe(args []string) int {
	fs := flag.NewFlagSet("filt-probe", flag.ExitOnError)
	in := fs.String("in", "", "file with one JSON array of command arguments per line")
	latin1 := fs.Bool("latin1", false, "every code point < 256 of an argument stands for that byte (\\u00ff = byte 0xff)")
	fs.Parse(args)
	f, err := os.Open(*in)
	if err != nil {
		fmt.Fprintln(os.Stderr, err)
		return 2
	}
	defer f.Close()
	srv, err := t38.Start(t38.Options{NoAOF: true})
	if err != nil {
		fmt.Fprintln(os.Stderr, err)
		return 2
	}
	defer srv.StopAndRemove()
	c, err := srv.Dial()
	if err != nil {
		fmt.Fprintln(os.Stderr, err)
		return 2
	}
	sc := bufio.NewScanner(f)
	sc.Buffer(make([]byte, 1<<20), 1<<26)
	var out []string
	for sc.Scan() {
		var a []string
		if err := json.Unmarshal(sc.Bytes(), &a); err != nil || len(a) == 0 {
			continue
		}
		if *latin1 {
			for i, x := range a {
				var b []byte
				for _, r := range x {
					if r < 256 {
						b = append(b, byte(r))
					} else {
						b = append(b, string(r)...)
					}
				}
				a[i] = string(b)
			}
		}
		v, err := c.Do(a...)
		if err != nil {
			fmt.Fprintln(os.Stderr, "transport:", err)
			return 2
		}
		fmt.Printf("%q -> %s\n", a, v.String())
		out = append(out, v.String())
	}
	emit(map[string]interface{}{"replies": out})
	return 0
}
