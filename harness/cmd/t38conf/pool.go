package main

import (
	"bufio"
	"encoding/json"
	"flag"
	"fmt"
	"os"
	"strings"
	"sync"

	"github.com/tidwall/tile38/verifharness/t38"
)

// pool-replay: behaviours of spec/ScriptPool.tla (sequences of commands that take script interpreters from the
// pool: EVAL variants, searches with WHEREEVAL clauses that succeed or are rejected while parsing, scripts whose
// calls are such searches) replayed on real servers.  After every step the real pool is audited through the
// verif accessor (interpreters accounted for, idle, distinct idle) and compared with the specification's pool;
// scripts report their ARGV before and after their calls.
func init() { register("pool-replay", poolReplay) }

type poolStep struct {
	Kind string `json:"kind"`
	// expectation of the specification after the step
	Idle     int  `json:"idle"`     // interpreters in the pool
	Total    int  `json:"total"`    // interpreters accounted for
	Distinct bool `json:"distinct"` // no interpreter is in the pool twice
	OK       bool `json:"ok"`       // the command is answered without error
	ArgvKept bool `json:"argvkept"` // (scripts) ARGV after the calls is the ARGV of this call
}

type poolBehaviour struct {
	Steps []poolStep `json:"steps"`
}

type poolMismatch struct {
	Behaviour int    `json:"behaviour"`
	Step      int    `json:"step"`
	What      string `json:"what"` // pool | reply | argv
	Detail    string `json:"detail"`
}

const poolTrue = "return true"

// one nested search with n WHEREEVAL clauses, optionally rejected while parsing (LIMIT 0 after the clauses)
func poolNestedScript(n int, bad bool) string {
	var a []string
	a = append(a, "'scan'", "'pk'")
	for i := 0; i < n; i++ {
		a = append(a, "'WHEREEVAL'", "'return ARGV[1] ~= nil'", "'1'", fmt.Sprintf("'inner%d'", i))
	}
	if bad {
		a = append(a, "'LIMIT'", "'0'")
	}
	a = append(a, "'COUNT'")
	// (a rejected call raises a Lua error: the script ends there and is answered with the error)
	call := "tile38.call(" + strings.Join(a, ",") + ")"
	return "local before = tostring(ARGV[1]) local r = " + call + " local after = tostring(ARGV and ARGV[1]) return {before, after}"
}

func poolArgs(kind string, tag string) ([]string, bool, error) {
	we := func(n int) []string {
		var a []string
		for i := 0; i < n; i++ {
			a = append(a, "WHEREEVAL", poolTrue, "0")
		}
		return a
	}
	cat := func(parts ...[]string) []string {
		var a []string
		for _, p := range parts {
			a = append(a, p...)
		}
		return a
	}
	script := false
	var args []string
	switch kind {
	case "eval", "evalro", "evalna":
		args = []string{strings.ToUpper(kind), "return ARGV[1]", "0", tag}
	case "evalerr":
		args = []string{"EVAL", "error('boom')", "0", tag}
	case "scan1", "scan2", "scan3":
		args = cat([]string{"SCAN", "pk"}, we(int(kind[4]-'0')), []string{"COUNT"})
	case "scan1bad", "scan2bad", "scan3bad":
		// a token error after the clauses have taken their interpreters
		args = cat([]string{"SCAN", "pk"}, we(int(kind[4]-'0')), []string{"LIMIT", "0"})
	case "scan2syn":
		// the second clause does not compile
		args = []string{"SCAN", "pk", "WHEREEVAL", poolTrue, "0", "WHEREEVAL", "return return", "0", "COUNT"}
	case "within1", "within2":
		args = cat([]string{"WITHIN", "pk"}, we(int(kind[6]-'0')), []string{"COUNT", "BOUNDS", "-90", "-180", "90", "180"})
	case "within1badarea", "within2badarea":
		args = cat([]string{"WITHIN", "pk"}, we(int(kind[6]-'0')), []string{"COUNT", "BOUNDS", "x"})
	case "nearby2bad":
		args = cat([]string{"NEARBY", "pk"}, we(2), []string{"DESC", "POINT", "1", "1"})
	case "nested1", "nested2":
		args, script = []string{"EVAL", poolNestedScript(int(kind[6]-'0'), false), "0", tag}, true
	case "nested2bad":
		args, script = []string{"EVAL", poolNestedScript(2, true), "0", tag}, true
	case "nestedro2":
		args, script = []string{"EVALRO", poolNestedScript(2, false), "0", tag}, true
	default:
		return nil, false, fmt.Errorf("unknown step kind %q", kind)
	}
	return args, script, nil
}

var (
	poolAbandoned     sync.Mutex
	poolAbandonedDirs []string
)

func poolOne(bi int, b *poolBehaviour, probe bool) (out []poolMismatch, seen []string, err error) {
	srv, err := t38.Start(t38.Options{})
	if err != nil {
		return nil, nil, err
	}
	// a server whose pool disagrees with the specification is not shut down in this process: closing an interpreter
	// that is in the pool twice panics inside the Lua library and would take the harness (and its verdict) with it
	defer func() {
		if len(out) == 0 {
			srv.StopAndRemove()
		} else {
			poolAbandoned.Lock()
			poolAbandonedDirs = append(poolAbandonedDirs, srv.Dir)
			poolAbandoned.Unlock()
		}
	}()
	c, err := srv.Dial()
	if err != nil {
		return nil, nil, err
	}
	defer c.Close()
	for i := 1; i <= 3; i++ {
		c.Do("SET", "pk", fmt.Sprintf("id%d", i), "FIELD", "n", fmt.Sprint(i), "POINT", fmt.Sprint(i), fmt.Sprint(i))
	}
	for si, st := range b.Steps {
		tag := fmt.Sprintf("tag-%d-%d", bi, si)
		args, script, err := poolArgs(st.Kind, tag)
		if err != nil {
			return nil, nil, err
		}
		r, err := c.Do(args...)
		if err != nil {
			return nil, nil, fmt.Errorf("behaviour %d step %d %v: %v", bi, si, st.Kind, err)
		}
		total, idle, distinct := srv.S.VerifLuaPool()
		if probe {
			seen = append(seen, fmt.Sprintf("%s ok=%v total=%d idle=%d distinct=%d reply=%.80s", st.Kind, r.Kind != '-', total, idle, distinct, r.String()))
			continue
		}
		if (r.Kind != '-') != st.OK {
			out = append(out, poolMismatch{bi, si, "reply", fmt.Sprintf("%s answered %.120s, specification: ok=%v", st.Kind, r.String(), st.OK)})
		}
		if idle != st.Idle || total != st.Total || (distinct == idle) != st.Distinct {
			out = append(out, poolMismatch{bi, si, "pool", fmt.Sprintf("after %s the interpreter pool holds %d idle interpreters (%d distinct), %d accounted for; "+
				"specification: %d idle, all distinct=%v, %d accounted for", st.Kind, idle, distinct, total, st.Idle, st.Distinct, st.Total)})
		}
		if script && r.Kind == '*' && len(r.Arr) == 2 {
			kept := r.Arr[0].Str == tag && r.Arr[1].Str == tag
			if kept != st.ArgvKept {
				out = append(out, poolMismatch{bi, si, "argv", fmt.Sprintf("%s: ARGV[1] before the calls %q, after %q, this call's argument %q; specification: kept=%v",
					st.Kind, r.Arr[0].Str, r.Arr[1].Str, tag, st.ArgvKept)})
			}
		} else if script && st.OK {
			out = append(out, poolMismatch{bi, si, "reply", fmt.Sprintf("%s: unexpected script reply %.120s", st.Kind, r.String())})
		}
		if len(out) > 0 {
			break
		}
	}
	return out, seen, nil
}

func poolReplay(args []string) int {
	fs := flag.NewFlagSet("pool-replay", flag.ExitOnError)
	in := fs.String("in", "", "behaviours (NDJSON)")
	par := fs.Int("par", 8, "parallel servers")
	probe := fs.Bool("probe", false, "print what the real server does instead of comparing")
	fs.Parse(args)
	f, err := os.Open(*in)
	if err != nil {
		fmt.Fprintln(os.Stderr, err)
		return 2
	}
	defer f.Close()
	var bs []poolBehaviour
	sc := bufio.NewScanner(f)
	sc.Buffer(make([]byte, 1<<20), 1<<26)
	for sc.Scan() {
		if len(sc.Bytes()) == 0 {
			continue
		}
		var b poolBehaviour
		if err := json.Unmarshal(sc.Bytes(), &b); err != nil {
			fmt.Fprintln(os.Stderr, err)
			return 2
		}
		bs = append(bs, b)
	}
	var mu sync.Mutex
	var mism []poolMismatch
	var firstErr error
	var probes [][]string
	steps := 0
	kinds := map[string]int{}
	var wg sync.WaitGroup
	sem := make(chan struct{}, *par)
	for i := range bs {
		wg.Add(1)
		sem <- struct{}{}
		go func(i int) {
			defer wg.Done()
			defer func() { <-sem }()
			ms, seen, err := poolOne(i, &bs[i], *probe)
			mu.Lock()
			defer mu.Unlock()
			if err != nil {
				if firstErr == nil {
					firstErr = err
				}
				return
			}
			mism = append(mism, ms...)
			steps += len(bs[i].Steps)
			for _, s := range bs[i].Steps {
				kinds[s.Kind]++
			}
			if *probe {
				probes = append(probes, seen)
			}
		}(i)
	}
	wg.Wait()
	if firstErr != nil {
		fmt.Fprintln(os.Stderr, "harness error:", firstErr)
		return 2
	}
	for _, d := range poolAbandonedDirs {
		os.RemoveAll(d)
	}
	emit(map[string]interface{}{"stats": map[string]interface{}{"behaviours": len(bs), "steps": steps, "by_kind": kinds}, "mismatches": mism, "probes": probes})
	if len(mism) > 0 {
		return 1
	}
	return 0
}
