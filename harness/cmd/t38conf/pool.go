package main

import (
	"bufio"
	"encoding/json"
	"flag"
	"fmt"
	"os"
	"strings"
	"sync"

	"github.com/tidwall/tile38/verifharness/t38"
)

// pool-replay: behaviours of spec/ScriptPool.tla (sequences of commands that take script interpreters from the
// pool: EVAL variants, searches with WHEREEVAL clauses that succeed or are rejected while parsing, scripts whose
// calls are such searches) replayed on real servers.  After every step the real pool is audited through the
// verif accessor (interpreters accounted for, idle, distinct idle) and compared with the specification's pool;
// scripts report their ARGV before and after their calls.
func init() { register("pool-replay", poolReplay) }

type poolStep struct {
	Kind string `json:"kind"`
	// expectation of the specification after the step
	Idle     int  `json:"idle"`     // interpreters in the pool
	Total    int  `json:"total"`    // interpreters accounted for
	Distinct bool `json:"distinct"` // no interpreter is in the pool twice
	OK       bool `json:"ok"`       // the command is answered without error
	ArgvKept bool `json:"argvkept"` // (scripts) ARGV after the calls is the ARGV of this call
	// (fire steps) what the fence's WHEREEVAL clause sees as ARGV: "" (no fence), "own", "none", "other"
	Sees    string `json:"sees"`
	SeesTag int    `json:"seestag"` // "other": tag (step number) of the call whose ARGV it is
	// [idle, total] after the step under each pool discipline the specification was checked for (first: as coded)
	Alts [][2]int `json:"alts"`
}

type poolBehaviour struct {
	Steps []poolStep `json:"steps"`
}

type poolMismatch struct {
	Behaviour int    `json:"behaviour"`
	Step      int    `json:"step"`
	What      string `json:"what"` // pool | reply | argv | fence (model disagrees) | fence-argv (the clause did not see its own ARGV)
	Detail    string `json:"detail"`
}

const poolTrue = "return true"

// the fence's clause: passes exactly when the moving object's field `probe` names what the clause sees as ARGV
const (
	poolChan       = "poolchan"
	poolHookOwn    = "hook-own-argv"
	poolHookFilter = "if ARGV == nil then return FIELDS.probe == 'none' end return ARGV[1] == FIELDS.probe"
)

func poolFireScript() string {
	set := func(probe string) string {
		return "tile38.call('SET','pk','mov','FIELD','probe'," + probe + ",'POINT','10','10') "
	}
	// (a neutral SET before every probe: the fence also reports the SET after a matching one - the object leaves the filter)
	return "local before = tostring(ARGV[1]) " + set("'reset'") + set("'"+poolHookOwn+"'") + set("'reset'") + set("'none'") + set("'reset'") + set("ARGV[1]") + set("'reset'") + set("ARGV[2]") +
		"local after = tostring(ARGV and ARGV[1]) return {before, after}"
}

// one nested search with n WHEREEVAL clauses, optionally rejected while parsing (LIMIT 0 after the clauses)
func poolNestedScript(n int, bad bool) string {
	var a []string
	a = append(a, "'scan'", "'pk'")
	for i := 0; i < n; i++ {
		a = append(a, "'WHEREEVAL'", "'return ARGV[1] ~= nil'", "'1'", "ARGV[1]..'-inner'")
	}
	if bad {
		a = append(a, "'LIMIT'", "'0'")
	}
	a = append(a, "'COUNT'")
	// (a rejected call raises a Lua error: the script ends there and is answered with the error)
	call := "tile38.call(" + strings.Join(a, ",") + ")"
	return "local before = tostring(ARGV[1]) local r = " + call + " local after = tostring(ARGV and ARGV[1]) return {before, after}"
}

func poolArgs(kind string, tag string) ([]string, bool, error) {
	we := func(n int) []string {
		var a []string
		for i := 0; i < n; i++ {
			a = append(a, "WHEREEVAL", poolTrue, "1", tag)
		}
		return a
	}
	cat := func(parts ...[]string) []string {
		var a []string
		for _, p := range parts {
			a = append(a, p...)
		}
		return a
	}
	script := false
	var args []string
	switch kind {
	case "eval", "evalro", "evalna":
		args = []string{strings.ToUpper(kind), "return ARGV[1]", "0", tag}
	case "evalerr":
		args = []string{"EVAL", "error('boom')", "0", tag}
	case "scan1", "scan2", "scan3":
		args = cat([]string{"SCAN", "pk"}, we(int(kind[4]-'0')), []string{"COUNT"})
	case "scan1bad", "scan2bad", "scan3bad":
		// a token error after the clauses have taken their interpreters
		args = cat([]string{"SCAN", "pk"}, we(int(kind[4]-'0')), []string{"LIMIT", "0"})
	case "scan2syn":
		// the second clause does not compile
		args = []string{"SCAN", "pk", "WHEREEVAL", poolTrue, "1", tag, "WHEREEVAL", "return return", "1", tag, "COUNT"}
	case "within1", "within2":
		args = cat([]string{"WITHIN", "pk"}, we(int(kind[6]-'0')), []string{"COUNT", "BOUNDS", "-90", "-180", "90", "180"})
	case "within1badarea", "within2badarea":
		args = cat([]string{"WITHIN", "pk"}, we(int(kind[6]-'0')), []string{"COUNT", "BOUNDS", "x"})
	case "nearby2bad":
		args = cat([]string{"NEARBY", "pk"}, we(2), []string{"DESC", "POINT", "1", "1"})
	case "evalshamiss":
		args = []string{"EVALSHA", "0123456789012345678901234567890123456789", "1", "key-" + tag, tag}
	case "evalsyntax":
		args = []string{"EVAL", "return return " + fmt.Sprint(len(tag)), "1", "key-" + tag, tag}
	case "setchan":
		args = []string{"SETCHAN", poolChan, "NEARBY", "pk", "WHEREEVAL", poolHookFilter, "1", poolHookOwn, "FENCE", "POINT", "10", "10", "1000"}
	case "delchan":
		args = []string{"DELCHAN", poolChan}
	case "fire":
		args = nil // three SETs, see poolFire
	case "evalfire":
		args, script = []string{"EVAL", poolFireScript(), "0", tag, "nobody"}, true
	case "nested1", "nested2":
		args, script = []string{"EVAL", poolNestedScript(int(kind[6]-'0'), false), "0", tag}, true
	case "nested2bad":
		args, script = []string{"EVAL", poolNestedScript(2, true), "0", tag}, true
	case "nestedro2":
		args, script = []string{"EVALRO", poolNestedScript(2, false), "0", tag}, true
	default:
		return nil, false, fmt.Errorf("unknown step kind %q", kind)
	}
	return args, script, nil
}

var (
	poolAbandoned     sync.Mutex
	poolAbandonedDirs []string
)

// poolOne replays one behaviour.  Judged directly on what the real server does (whatever pool discipline it follows):
// the reply class, no interpreter in the pool twice, a script's ARGV is its own before and after its calls, a fence's
// clause sees its own ARGV.  The pool accounting (idle / accounted for) must follow, over the whole behaviour, at least
// one of the disciplines the specification was checked for (Alts: one [idle,total] per discipline).
func poolOne(bi int, b *poolBehaviour, probe bool) (out []poolMismatch, seen []string, err error) {
	srv, err := t38.Start(t38.Options{})
	if err != nil {
		return nil, nil, err
	}
	// a server whose pool holds an interpreter twice is not shut down in this process: closing it panics inside the
	// Lua library and would take the harness (and its verdict) with it
	unsound := false
	defer func() {
		if !unsound {
			srv.StopAndRemove()
		} else {
			poolAbandoned.Lock()
			poolAbandonedDirs = append(poolAbandonedDirs, srv.Dir)
			poolAbandoned.Unlock()
		}
	}()
	c, err := srv.Dial()
	if err != nil {
		return nil, nil, err
	}
	defer c.Close()
	sub, err := srv.Dial()
	if err != nil {
		return nil, nil, err
	}
	defer sub.Close()
	if _, err := sub.Do("SUBSCRIBE", poolChan); err != nil {
		return nil, nil, err
	}
	for i := 1; i <= 3; i++ {
		c.Do("SET", "pk", fmt.Sprintf("id%d", i), "FIELD", "n", fmt.Sprint(i), "POINT", fmt.Sprint(i), fmt.Sprint(i))
	}
	tagOf := func(n int) string { // the specification's tag of a call -> the argument the harness gave that call
		if n > 1000 {
			return fmt.Sprintf("tag-%d-%d-inner", bi, n-1001)
		}
		return fmt.Sprintf("tag-%d-%d", bi, n-1)
	}
	// which probes the fence published since the last marker
	collect := func(si int, probes []string) (map[string]bool, error) {
		marker := fmt.Sprintf("marker-%d-%d", bi, si)
		if _, err := c.Do("PUBLISH", poolChan, marker); err != nil {
			return nil, err
		}
		got := map[string]bool{}
		for {
			v, err := sub.Recv()
			if err != nil {
				return nil, fmt.Errorf("subscriber: %v", err)
			}
			if len(v.Arr) != 3 {
				continue
			}
			if v.Arr[2].Str == marker {
				return got, nil
			}
			for _, p := range probes {
				if strings.Contains(v.Arr[2].Str, `"probe":"`+p+`"`) {
					got[p] = true
				}
			}
		}
	}
	hooked := false
	alive := make([]bool, 0)
	for si, st := range b.Steps {
		tag := fmt.Sprintf("tag-%d-%d", bi, si)
		args, script, err := poolArgs(st.Kind, tag)
		if err != nil {
			return nil, nil, err
		}
		var r t38.Value
		third, fourth := tag, "nobody"
		if st.Kind == "evalfire" && st.Sees == "other" && tagOf(st.SeesTag) != tag {
			fourth = tagOf(st.SeesTag)
			args[len(args)-1] = fourth
		}
		if st.Kind == "fire" {
			third = "nobody"
			if st.Sees == "other" {
				third = tagOf(st.SeesTag)
			}
			for _, p := range []string{"reset", poolHookOwn, "reset", "none", "reset", third} {
				if r, err = c.Do("SET", "pk", "mov", "FIELD", "probe", p, "POINT", "10", "10"); err != nil {
					return nil, nil, fmt.Errorf("behaviour %d step %d fire: %v", bi, si, err)
				}
			}
		} else if r, err = c.Do(args...); err != nil {
			return nil, nil, fmt.Errorf("behaviour %d step %d %v: %v", bi, si, st.Kind, err)
		}
		total, idle, distinct := srv.S.VerifLuaPool()
		sees := ""
		if st.Kind == "fire" || st.Kind == "evalfire" {
			got, err := collect(si, []string{poolHookOwn, "none", third, fourth})
			if err != nil {
				return nil, nil, fmt.Errorf("behaviour %d step %d %v: %v", bi, si, st.Kind, err)
			}
			switch {
			case len(got) == 0 && !hooked:
			case len(got) == 1 && got[poolHookOwn]:
				sees = "own"
			case len(got) == 1 && got["none"]:
				sees = "none"
			case len(got) == 1 && (got[third] || got[fourth]):
				sees = "other"
				if got[fourth] {
					third = fourth
				}
			default:
				sees = fmt.Sprintf("?%v", got)
			}
		}
		if st.Kind == "setchan" && r.Kind != '-' {
			hooked = true
		}
		if st.Kind == "delchan" && r.Kind != '-' {
			hooked = false
		}
		if probe {
			seen = append(seen, fmt.Sprintf("%s ok=%v total=%d idle=%d distinct=%d sees=%s reply=%.80s", st.Kind, r.Kind != '-', total, idle, distinct, sees, r.String()))
			continue
		}
		if (r.Kind != '-') != st.OK {
			out = append(out, poolMismatch{bi, si, "reply", fmt.Sprintf("%s answered %.120s, specification: ok=%v", st.Kind, r.String(), st.OK)})
		}
		if distinct != idle {
			unsound = true
			out = append(out, poolMismatch{bi, si, "pool", fmt.Sprintf("after %s the interpreter pool holds %d idle interpreters but only %d distinct ones "+
				"(%d accounted for): an interpreter is in the pool twice", st.Kind, idle, distinct, total)})
		}
		// an idle interpreter holds no call's globals
		dirty := false
		for _, names := range srv.S.VerifLuaGlobals() {
			for _, nm := range names {
				if dirty {
					break
				}
				for _, g := range []string{"KEYS", "ARGV", "DEADLINE", "EVAL_CMD"} {
					if strings.HasPrefix(nm, g+":") {
						out = append(out, poolMismatch{bi, si, "globals", fmt.Sprintf("after %s an interpreter in the pool still has the global %s of a call "+
							"(the next user of the interpreter reads it)", st.Kind, nm)})
						dirty = true
						break
					}
				}
			}
		}
		if script && r.Kind == '*' && len(r.Arr) == 2 {
			if r.Arr[0].Str != tag || r.Arr[1].Str != tag {
				out = append(out, poolMismatch{bi, si, "argv", fmt.Sprintf("%s: ARGV[1] before the calls %q, after %q, this call's argument %q",
					st.Kind, r.Arr[0].Str, r.Arr[1].Str, tag)})
			}
		} else if script && st.OK {
			out = append(out, poolMismatch{bi, si, "reply", fmt.Sprintf("%s: unexpected script reply %.120s", st.Kind, r.String())})
		}
		if sees != "" && sees != "own" {
			what := sees
			if strings.HasPrefix(what, "?") {
				what = "unknown"
			}
			saw := sees
			switch sees {
			case "none":
				saw = "nil"
			case "other":
				saw = "the ARGV of the call given " + third
			}
			out = append(out, poolMismatch{bi, si, "fence-argv-" + what, fmt.Sprintf("%s: the fence's WHEREEVAL clause (own ARGV[1] %q) was evaluated with ARGV = %s "+
				"(specification as coded: %s)", st.Kind, poolHookOwn, saw, st.Sees)})
		}
		// accounting: drop the disciplines that disagree
		if len(st.Alts) == 0 {
			st.Alts = [][2]int{{st.Idle, st.Total}}
		}
		if si == 0 {
			alive = make([]bool, len(st.Alts))
			for i := range alive {
				alive[i] = true
			}
		}
		any := false
		for i, a := range st.Alts {
			if i < len(alive) && alive[i] && a[0] == idle && a[1] == total {
				any = true
			} else if i < len(alive) {
				alive[i] = false
			}
		}
		if !any && !unsound {
			out = append(out, poolMismatch{bi, si, "accounting", fmt.Sprintf("after %s: %d idle, %d accounted for - no checked pool discipline "+
				"explains the counts of this behaviour (as coded: %d idle, %d accounted for)", st.Kind, idle, total, st.Idle, st.Total)})
		}
		if unsound || !any || dirty {
			break
		}
	}
	return out, seen, nil
}

func poolReplay(args []string) int {
	fs := flag.NewFlagSet("pool-replay", flag.ExitOnError)
	in := fs.String("in", "", "behaviours (NDJSON)")
	par := fs.Int("par", 8, "parallel servers")
	probe := fs.Bool("probe", false, "print what the real server does instead of comparing")
	ini := fs.Bool("ini", false, "report the number of interpreters a fresh server's pool holds")
	fs.Parse(args)
	if *ini {
		srv, err := t38.Start(t38.Options{})
		if err != nil {
			fmt.Fprintln(os.Stderr, "harness error:", err)
			return 2
		}
		total, idle, distinct := srv.S.VerifLuaPool()
		srv.StopAndRemove()
		if total != idle || distinct != idle {
			fmt.Fprintf(os.Stderr, "harness error: a fresh pool has %d interpreters, %d idle, %d distinct\n", total, idle, distinct)
			return 2
		}
		emit(map[string]interface{}{"ini": idle})
		return 0
	}
	f, err := os.Open(*in)
	if err != nil {
		fmt.Fprintln(os.Stderr, err)
		return 2
	}
	defer f.Close()
	var bs []poolBehaviour
	sc := bufio.NewScanner(f)
	sc.Buffer(make([]byte, 1<<20), 1<<26)
	for sc.Scan() {
		if len(sc.Bytes()) == 0 {
			continue
		}
		var b poolBehaviour
		if err := json.Unmarshal(sc.Bytes(), &b); err != nil {
			fmt.Fprintln(os.Stderr, err)
			return 2
		}
		bs = append(bs, b)
	}
	var mu sync.Mutex
	var mism []poolMismatch
	var firstErr error
	var probes [][]string
	steps := 0
	kinds := map[string]int{}
	var wg sync.WaitGroup
	sem := make(chan struct{}, *par)
	for i := range bs {
		wg.Add(1)
		sem <- struct{}{}
		go func(i int) {
			defer wg.Done()
			defer func() { <-sem }()
			ms, seen, err := poolOne(i, &bs[i], *probe)
			mu.Lock()
			defer mu.Unlock()
			if err != nil {
				if firstErr == nil {
					firstErr = err
				}
				return
			}
			mism = append(mism, ms...)
			steps += len(bs[i].Steps)
			for _, s := range bs[i].Steps {
				kinds[s.Kind]++
			}
			if *probe {
				probes = append(probes, seen)
			}
		}(i)
	}
	wg.Wait()
	if firstErr != nil {
		fmt.Fprintln(os.Stderr, "harness error:", firstErr)
		return 2
	}
	for _, d := range poolAbandonedDirs {
		os.RemoveAll(d)
	}
	emit(map[string]interface{}{"stats": map[string]interface{}{"behaviours": len(bs), "steps": steps, "by_kind": kinds}, "mismatches": mism, "probes": probes})
	if len(mism) > 0 {
		return 1
	}
	return 0
}
