// Package filt binds the Glob / FieldOrder / Filters specifications (C12) to
// the real code.  It contains no glob matcher, no value order and no filter
// semantics of its own: every expected result is read from TLC's output.
package filt

import (
	"bufio"
	"encoding/json"
	"fmt"
	"os"
	"sort"
	"strconv"
	"sync"

	"github.com/tidwall/tile38/internal/glob"
	"github.com/tidwall/tile38/verifharness/t38"
)

// Universe is the first record TLC prints: every string of the bound, in byte order.
type Universe struct {
	Kind   string  `json:"kind"`
	Alpha  []int   `json:"alpha"`
	MaxStr int     `json:"maxstr"`
	Strs   [][]int `json:"strs"`
}

// GlobCase is one pattern with its complete match set as computed by TLC
// (1-based indices into the universe).
type GlobCase struct {
	Kind string `json:"kind"`
	P    []int  `json:"p"`
	Bad  bool   `json:"bad"`
	Cls  string `json:"cls"`
	M    []int  `json:"m"` // ascending
	D    []int  `json:"d"` // descending
	N    int    `json:"n"` // count
}

// Mismatch is one disagreement between the real code and TLC's expectation.
type Mismatch struct {
	Case    int      `json:"case"`    // line number of the case in the input
	User    string   `json:"user"`    // glob.Match | KEYS | SCAN-ASC | ...
	Pattern string   `json:"pattern"` // Go-quoted
	Cls     string   `json:"cls"`
	NLost   int      `json:"nlost"`  // expected but not returned
	NExtra  int      `json:"nextra"` // returned but not expected
	Lost    []string `json:"lost"`   // first few, Go-quoted
	Extra   []string `json:"extra"`
	Order   bool     `json:"order"` // same set, different order
	Got     string   `json:"got"`   // scalar replies (counts, cursors)
	Want    string   `json:"want"`
}

// LimitRec is one line of the recorded trace of glob.Parse.
type LimitRec struct {
	I   int   `json:"i"`
	P   []int `json:"p"`
	ALo []int `json:"alo"`
	AHi []int `json:"ahi"`
	DLo []int `json:"dlo"`
	DHi []int `json:"dhi"`
}

// GlobStats counts what was compared.
type GlobStats struct {
	Cases        int            `json:"cases"`
	MatchPairs   int            `json:"match_pairs"`    // glob.Match(p, s) compared with TLC, in-package
	ParseRecords int            `json:"parse_records"`  // glob.Parse limits recorded for TLC
	ServerCmds   int            `json:"server_cmds"`    // commands sent to real servers
	ServerChecks map[string]int `json:"server_checks"`  // replies compared with TLC, per user
	Returned     int            `json:"returned_items"` // ids / names / values inside those replies
}

func b2s(v []int) string {
	b := make([]byte, len(v))
	for i, x := range v {
		b[i] = byte(x)
	}
	return string(b)
}

func s2ints(s string) []int {
	v := make([]int, len(s))
	for i := 0; i < len(s); i++ {
		v[i] = int(s[i])
	}
	return v
}

// ReadGlobCases reads the universe record and the cases.
func ReadGlobCases(path string) (*Universe, []GlobCase, error) {
	f, err := os.Open(path)
	if err != nil {
		return nil, nil, err
	}
	defer f.Close()
	sc := bufio.NewScanner(f)
	sc.Buffer(make([]byte, 1<<20), 1<<28)
	var u *Universe
	var cases []GlobCase
	for sc.Scan() {
		if len(sc.Bytes()) == 0 {
			continue
		}
		var k struct {
			Kind string `json:"kind"`
		}
		if err := json.Unmarshal(sc.Bytes(), &k); err != nil {
			return nil, nil, err
		}
		switch k.Kind {
		case "universe":
			u = &Universe{}
			if err := json.Unmarshal(sc.Bytes(), u); err != nil {
				return nil, nil, err
			}
		case "glob":
			var c GlobCase
			if err := json.Unmarshal(sc.Bytes(), &c); err != nil {
				return nil, nil, err
			}
			cases = append(cases, c)
		}
	}
	if u == nil {
		return nil, nil, fmt.Errorf("%s: no universe record", path)
	}
	return u, cases, sc.Err()
}

func quoteAll(v []string, max int) []string {
	out := []string{}
	for i, s := range v {
		if i >= max {
			break
		}
		out = append(out, strconv.Quote(s))
	}
	return out
}

// diffLists compares a returned list with the expected one.
func diffLists(got, want []string) (lost, extra []string, order bool) {
	if len(got) == len(want) {
		same := true
		for i := range got {
			if got[i] != want[i] {
				same = false
				break
			}
		}
		if same {
			return nil, nil, false
		}
	}
	g := map[string]int{}
	for _, s := range got {
		g[s]++
	}
	w := map[string]int{}
	for _, s := range want {
		w[s]++
	}
	for _, s := range want {
		if g[s] < w[s] {
			lost = append(lost, s)
			g[s]++ // report once per missing occurrence
		}
	}
	g = map[string]int{}
	for _, s := range got {
		g[s]++
	}
	for _, s := range got {
		if w[s] < g[s] {
			extra = append(extra, s)
			w[s]++
		}
	}
	if len(lost) == 0 && len(extra) == 0 {
		order = true
	}
	return
}

// InPackage runs every case against glob.Match (compared with TLC's match
// set over the whole universe) and records glob.Parse's limits for TLC.
func InPackage(u *Universe, cases []GlobCase, limitsOut string, st *GlobStats) ([]Mismatch, error) {
	strs := make([]string, len(u.Strs))
	for i, s := range u.Strs {
		strs[i] = b2s(s)
	}
	var lf *bufio.Writer
	if limitsOut != "" {
		f, err := os.Create(limitsOut)
		if err != nil {
			return nil, err
		}
		defer f.Close()
		lf = bufio.NewWriter(f)
		defer lf.Flush()
	}
	var mism []Mismatch
	in := make([]bool, len(strs)+1)
	for ci, c := range cases {
		p := b2s(c.P)
		for i := range in {
			in[i] = false
		}
		for _, i := range c.M {
			if i < 1 || i > len(strs) {
				return nil, fmt.Errorf("case %d: index %d outside the universe", ci, i)
			}
			in[i] = true
		}
		if len(c.M) != c.N || len(c.D) != c.N {
			return nil, fmt.Errorf("case %d: inconsistent case record", ci)
		}
		var lost, extra []string
		for i, s := range strs {
			got, _ := glob.Match(p, s)
			st.MatchPairs++
			if got != in[i+1] {
				if got {
					extra = append(extra, s)
				} else {
					lost = append(lost, s)
				}
			}
		}
		if len(lost)+len(extra) > 0 {
			mism = append(mism, Mismatch{Case: ci, User: "glob.Match", Pattern: strconv.Quote(p), Cls: c.Cls,
				NLost: len(lost), NExtra: len(extra), Lost: quoteAll(lost, 3), Extra: quoteAll(extra, 3)})
		}
		if lf != nil {
			ga := glob.Parse(p, false)
			gd := glob.Parse(p, true)
			if len(ga.Limits) != 2 || len(gd.Limits) != 2 {
				return nil, fmt.Errorf("glob.Parse(%q) returned %d limits", p, len(ga.Limits))
			}
			b, _ := json.Marshal(LimitRec{I: ci, P: c.P, ALo: s2ints(ga.Limits[0]), AHi: s2ints(ga.Limits[1]),
				DLo: s2ints(gd.Limits[0]), DHi: s2ints(gd.Limits[1])})
			lf.Write(b)
			lf.WriteByte('\n')
			st.ParseRecords++
		}
		st.Cases++
	}
	return mism, nil
}

// ---------------------------------------------------------------- servers

const (
	hookURL   = "http://127.0.0.1:9/verif"
	bigLimit  = "10000000"
	idsKey    = "ids"
	valsKey   = "vals"
	keysObjID = "x"
)

var fenceTail = []string{"WITHIN", "fencekey", "FENCE", "DETECT", "enter", "BOUNDS", "80", "100", "81", "101"}

// globServers is one set of real servers holding the whole universe:
// A: every string is a key; B: every string is an id of collection "ids", the
// value of a string object of "vals", and a hook name; C: every string is a
// channel name (hooks and channels cannot share names).
type globServers struct {
	srv  [3]*t38.Srv
	c    [3]*t38.Conn
	u    []string // non-empty universe strings, ascending
	cmds int
}

func (g *globServers) close() {
	for i := range g.srv {
		if g.c[i] != nil {
			g.c[i].Close()
		}
		if g.srv[i] != nil {
			g.srv[i].StopAndRemove()
		}
	}
}

// pipeline sends the commands in batches and returns all replies.
func (g *globServers) pipeline(which int, cmds [][]string) ([]t38.Value, error) {
	out := make([]t38.Value, 0, len(cmds))
	c := g.c[which]
	for i := 0; i < len(cmds); i += 128 {
		j := i + 128
		if j > len(cmds) {
			j = len(cmds)
		}
		var buf []byte
		for _, a := range cmds[i:j] {
			buf = t38.AppendCommand(buf, a...)
		}
		if _, err := c.C.Write(buf); err != nil {
			return nil, err
		}
		for k := i; k < j; k++ {
			v, err := c.Recv()
			if err != nil {
				return nil, err
			}
			out = append(out, v)
		}
	}
	g.cmds += len(cmds)
	return out, nil
}

func (g *globServers) do(which int, args ...string) (t38.Value, error) {
	g.cmds++
	return g.c[which].Do(args...)
}

func setHookCmd(name string, channel bool) []string {
	if channel {
		return append([]string{"SETCHAN", name}, fenceTail...)
	}
	return append([]string{"SETHOOK", name, hookURL}, fenceTail...)
}

func newGlobServers(u []string) (*globServers, error) {
	g := &globServers{u: u}
	for i := range g.srv {
		s, err := t38.Start(t38.Options{NoAOF: true})
		if err != nil {
			g.close()
			return nil, err
		}
		g.srv[i] = s
		c, err := s.Dial()
		if err != nil {
			g.close()
			return nil, err
		}
		g.c[i] = c
	}
	var a, b, c [][]string
	for i, s := range u {
		a = append(a, []string{"SET", s, keysObjID, "POINT", "1", "1"})
		b = append(b, []string{"SET", idsKey, s, "POINT", "1", "1"})
		b = append(b, []string{"SET", valsKey, fmt.Sprintf("v%06d", i), "STRING", s})
		b = append(b, setHookCmd(s, false))
		c = append(c, setHookCmd(s, true))
	}
	for which, cmds := range [][][]string{a, b, c} {
		rs, err := g.pipeline(which, cmds)
		if err != nil {
			g.close()
			return nil, err
		}
		for i, r := range rs {
			if !(r.Kind == '+' && r.Str == "OK") && !(r.Kind == ':' && r.Int == 1) {
				g.close()
				return nil, fmt.Errorf("populating server %d: %q -> %s", which, cmds[i], r.String())
			}
		}
	}
	// the unfiltered listings must be exactly the universe (otherwise nothing below means anything)
	checks := []struct {
		which int
		cmd   []string
		ex    func(t38.Value) ([]string, error)
	}{
		{0, []string{"KEYS", "*"}, bulkList},
		{1, []string{"SCAN", idsKey, "LIMIT", bigLimit, "IDS"}, cursorList},
		{1, []string{"SEARCH", valsKey, "LIMIT", bigLimit}, cursorValues},
		{1, []string{"HOOKS", "*"}, hookNames},
		{2, []string{"CHANS", "*"}, hookNames},
	}
	for _, ck := range checks {
		v, err := g.do(ck.which, ck.cmd...)
		if err != nil {
			g.close()
			return nil, err
		}
		got, err := ck.ex(v)
		if err != nil {
			g.close()
			return nil, fmt.Errorf("%q: %v", ck.cmd, err)
		}
		if l, e, o := diffLists(got, u); l != nil || e != nil || o {
			g.close()
			return nil, fmt.Errorf("%q does not list the universe (%d lost, %d extra, order %v)", ck.cmd, len(l), len(e), o)
		}
	}
	return g, nil
}

func bulkList(v t38.Value) ([]string, error) {
	if v.Kind != '*' {
		return nil, fmt.Errorf("not an array: %s", v.String())
	}
	out := make([]string, 0, len(v.Arr))
	for _, e := range v.Arr {
		if e.Kind != '$' || e.Null {
			return nil, fmt.Errorf("not a bulk string: %s", e.String())
		}
		out = append(out, e.Str)
	}
	return out, nil
}

// cursorList decodes [cursor, [id, id ...]] and insists on cursor 0.
func cursorList(v t38.Value) ([]string, error) {
	if v.Kind != '*' || len(v.Arr) != 2 || v.Arr[0].Kind != ':' {
		return nil, fmt.Errorf("not a [cursor, items] reply: %s", trunc(v.String()))
	}
	if v.Arr[0].Int != 0 {
		return nil, fmt.Errorf("cursor %d, the reply is not complete", v.Arr[0].Int)
	}
	return bulkList(v.Arr[1])
}

// cursorValues decodes [cursor, [[id, value ...] ...]] to the values.
func cursorValues(v t38.Value) ([]string, error) {
	if v.Kind != '*' || len(v.Arr) != 2 || v.Arr[0].Kind != ':' || v.Arr[1].Kind != '*' {
		return nil, fmt.Errorf("not a [cursor, items] reply: %s", trunc(v.String()))
	}
	if v.Arr[0].Int != 0 {
		return nil, fmt.Errorf("cursor %d, the reply is not complete", v.Arr[0].Int)
	}
	out := make([]string, 0, len(v.Arr[1].Arr))
	for _, e := range v.Arr[1].Arr {
		if e.Kind != '*' || len(e.Arr) < 2 || e.Arr[1].Kind != '$' {
			return nil, fmt.Errorf("not an [id, value] item: %s", trunc(e.String()))
		}
		out = append(out, e.Arr[1].Str)
	}
	return out, nil
}

func hookNames(v t38.Value) ([]string, error) {
	if v.Kind != '*' {
		return nil, fmt.Errorf("not an array: %s", trunc(v.String()))
	}
	out := make([]string, 0, len(v.Arr))
	for _, e := range v.Arr {
		if e.Kind != '*' || len(e.Arr) < 1 || e.Arr[0].Kind != '$' {
			return nil, fmt.Errorf("not a hook entry: %s", trunc(e.String()))
		}
		out = append(out, e.Arr[0].Str)
	}
	return out, nil
}

func trunc(s string) string {
	if len(s) > 300 {
		return s[:300] + "..."
	}
	return s
}

type caseRun struct {
	ci   int
	c    *GlobCase
	p    string
	asc  []string
	desc []string
	n    int
	mism []Mismatch
	st   *GlobStats
}

func (r *caseRun) list(user string, got []string, want []string) {
	r.st.ServerChecks[user]++
	r.st.Returned += len(got)
	lost, extra, order := diffLists(got, want)
	if lost == nil && extra == nil && !order {
		return
	}
	r.mism = append(r.mism, Mismatch{Case: r.ci, User: user, Pattern: strconv.Quote(r.p), Cls: r.c.Cls,
		NLost: len(lost), NExtra: len(extra), Lost: quoteAll(lost, 3), Extra: quoteAll(extra, 3), Order: order,
		Got: strconv.Itoa(len(got)), Want: strconv.Itoa(len(want))})
}

func (r *caseRun) scalar(user string, got t38.Value, want int) {
	r.st.ServerChecks[user]++
	if got.Kind == ':' && int(got.Int) == want {
		return
	}
	m := Mismatch{Case: r.ci, User: user, Pattern: strconv.Quote(r.p), Cls: r.c.Cls, Got: trunc(got.String()), Want: ":" + strconv.Itoa(want)}
	if got.Kind == ':' {
		if int(got.Int) < want {
			m.NLost = want - int(got.Int)
		} else {
			m.NExtra = int(got.Int) - want
		}
	}
	r.mism = append(r.mism, m)
}

// complement returns the universe without the given (sorted ascending) strings.
func complement(u, del []string) []string {
	d := map[string]bool{}
	for _, s := range del {
		d[s] = true
	}
	out := make([]string, 0, len(u))
	for _, s := range u {
		if !d[s] {
			out = append(out, s)
		}
	}
	return out
}

// runCase sends one pattern through every user of the range shortcut.
func (g *globServers) runCase(r *caseRun) error {
	p := r.p
	type step struct {
		user  string
		which int
		cmd   []string
		ex    func(t38.Value) ([]string, error)
		want  []string
		count bool
	}
	steps := []step{
		{"KEYS", 0, []string{"KEYS", p}, bulkList, r.asc, false},
		{"SCAN-MATCH-ASC", 1, []string{"SCAN", idsKey, "MATCH", p, "ASC", "LIMIT", bigLimit, "IDS"}, cursorList, r.asc, false},
		{"SCAN-MATCH-DESC", 1, []string{"SCAN", idsKey, "MATCH", p, "DESC", "LIMIT", bigLimit, "IDS"}, cursorList, r.desc, false},
		{"SCAN-MATCH-COUNT", 1, []string{"SCAN", idsKey, "MATCH", p, "COUNT"}, nil, nil, true},
		{"SCAN-MATCH-DESC-COUNT", 1, []string{"SCAN", idsKey, "MATCH", p, "DESC", "COUNT"}, nil, nil, true},
		{"SEARCH-MATCH-ASC", 1, []string{"SEARCH", valsKey, "MATCH", p, "ASC", "LIMIT", bigLimit}, cursorValues, r.asc, false},
		{"SEARCH-MATCH-DESC", 1, []string{"SEARCH", valsKey, "MATCH", p, "DESC", "LIMIT", bigLimit}, cursorValues, r.desc, false},
		{"SEARCH-MATCH-COUNT", 1, []string{"SEARCH", valsKey, "MATCH", p, "COUNT"}, nil, nil, true},
		{"SEARCH-MATCH-DESC-COUNT", 1, []string{"SEARCH", valsKey, "MATCH", p, "DESC", "COUNT"}, nil, nil, true},
		{"HOOKS", 1, []string{"HOOKS", p}, hookNames, r.asc, false},
		{"CHANS", 2, []string{"CHANS", p}, hookNames, r.asc, false},
	}
	for _, s := range steps {
		v, err := g.do(s.which, s.cmd...)
		if err != nil {
			return err
		}
		if s.count {
			r.scalar(s.user, v, r.n)
			continue
		}
		got, err := s.ex(v)
		if err != nil {
			// an error reply or an unexpected shape is a disagreement, not harness trouble
			r.st.ServerChecks[s.user]++
			r.mism = append(r.mism, Mismatch{Case: r.ci, User: s.user, Pattern: strconv.Quote(p), Cls: r.c.Cls,
				Got: trunc(v.String()), Want: fmt.Sprintf("%d items", len(s.want))})
			continue
		}
		r.list(s.user, got, s.want)
	}
	// PDEL / PDELHOOK / PDELCHAN: the reply is the number deleted.  Re-creating an id with NX
	// (a hook: SETHOOK) answers OK (1) iff it was missing, so re-creating exactly the expected
	// victims tells whether each of them was deleted, and restores them; if the count is right and
	// every expected victim was gone, nothing else can have been deleted.  Otherwise the whole
	// registry is listed to find what was deleted without matching, and that is restored too.
	for _, hc := range []struct {
		which int
		user  string
		pdel  []string
		list  []string
		ex    func(t38.Value) ([]string, error)
		mk    func(name string) []string
	}{
		{1, "PDEL", []string{"PDEL", idsKey, p}, []string{"SCAN", idsKey, "LIMIT", bigLimit, "IDS"}, cursorList,
			func(s string) []string { return []string{"SET", idsKey, s, "NX", "POINT", "1", "1"} }},
		{1, "PDELHOOK", []string{"PDELHOOK", p}, []string{"HOOKS", "*"}, hookNames,
			func(s string) []string { return setHookCmd(s, false) }},
		{2, "PDELCHAN", []string{"PDELCHAN", p}, []string{"CHANS", "*"}, hookNames,
			func(s string) []string { return setHookCmd(s, true) }},
	} {
		v, err := g.do(hc.which, hc.pdel...)
		if err != nil {
			return err
		}
		r.scalar(hc.user+"-count", v, r.n)
		var re [][]string
		for _, s := range r.asc {
			re = append(re, hc.mk(s))
		}
		rs, err := g.pipeline(hc.which, re)
		if err != nil {
			return err
		}
		var notDeleted []string
		for i, x := range rs {
			created := (x.Kind == ':' && x.Int == 1) || (x.Kind == '+' && x.Str == "OK")
			existed := (x.Kind == ':' && x.Int == 0) || (x.Kind == '$' && x.Null)
			if !created && !existed {
				return fmt.Errorf("%q -> %s", re[i], x.String())
			}
			if existed {
				notDeleted = append(notDeleted, r.asc[i])
			}
		}
		r.st.ServerChecks[hc.user+"-victims"]++
		r.st.Returned += len(rs)
		if v.Kind == ':' && int(v.Int) == r.n && len(notDeleted) == 0 {
			continue
		}
		lv, err := g.do(hc.which, hc.list...)
		if err != nil {
			return err
		}
		names, err := hc.ex(lv)
		if err != nil {
			return fmt.Errorf("%q: %v", hc.list, err)
		}
		wrongly := complement(g.u, names)
		r.mism = append(r.mism, Mismatch{Case: r.ci, User: hc.user + "-victims", Pattern: strconv.Quote(p), Cls: r.c.Cls,
			NLost: len(notDeleted), NExtra: len(wrongly), Lost: quoteAll(notDeleted, 3), Extra: quoteAll(wrongly, 3),
			Got: trunc(v.String()), Want: ":" + strconv.Itoa(r.n)})
		var fix [][]string
		for _, s := range wrongly {
			fix = append(fix, hc.mk(s))
		}
		if _, err := g.pipeline(hc.which, fix); err != nil {
			return err
		}
	}
	return nil
}

// Servers runs every case through every user of the shortcut on real
// servers, par server sets in parallel.
func Servers(u *Universe, cases []GlobCase, par int, st *GlobStats) ([]Mismatch, error) {
	var strs []string // universe index (1-based) -> string
	for _, s := range u.Strs {
		strs = append(strs, b2s(s))
	}
	var nonEmpty []string
	for _, s := range strs {
		if s != "" {
			nonEmpty = append(nonEmpty, s)
		}
	}
	if !sort.StringsAreSorted(nonEmpty) {
		return nil, fmt.Errorf("universe is not in byte order")
	}
	if par < 1 {
		par = 1
	}
	if par > len(cases) {
		par = len(cases)
	}
	type res struct {
		mism []Mismatch
		st   GlobStats
		err  error
	}
	out := make([]res, par)
	jobs := make(chan int, len(cases))
	for i := range cases {
		jobs <- i
	}
	close(jobs)
	var wg sync.WaitGroup
	for w := 0; w < par; w++ {
		wg.Add(1)
		go func(w int) {
			defer wg.Done()
			o := &out[w]
			o.st.ServerChecks = map[string]int{}
			g, err := newGlobServers(nonEmpty)
			if err != nil {
				o.err = err
				for range jobs {
				}
				return
			}
			defer g.close()
			for ci := range jobs {
				if o.err != nil {
					continue
				}
				c := &cases[ci]
				p := b2s(c.P)
				if p == "" {
					continue // the server refuses an empty pattern; in-package only
				}
				r := &caseRun{ci: ci, c: c, p: p, st: &o.st}
				for _, i := range c.M {
					if strs[i-1] != "" { // the server cannot hold an empty name
						r.asc = append(r.asc, strs[i-1])
					}
				}
				for _, i := range c.D {
					if strs[i-1] != "" {
						r.desc = append(r.desc, strs[i-1])
					}
				}
				r.n = len(r.asc)
				if err := g.runCase(r); err != nil {
					o.err = fmt.Errorf("case %d pattern %q: %v", ci, p, err)
					continue
				}
				// two MATCH clauses: an item is kept iff it matches one of them (as coded; the statement is
				// silent), so the result must be the union of the two match sets TLC computed - whatever
				// range shortcut the pair of patterns triggers, in either order
				if cj := (ci*7 + 3) % len(cases); cj != ci && b2s(cases[cj].P) != "" {
					c2 := &cases[cj]
					p2 := b2s(c2.P)
					in := map[string]bool{}
					for _, i := range c.M {
						in[strs[i-1]] = true
					}
					for _, i := range c2.M {
						in[strs[i-1]] = true
					}
					var asc []string
					for _, s := range nonEmpty {
						if in[s] {
							asc = append(asc, s)
						}
					}
					desc := make([]string, len(asc))
					for i := range asc {
						desc[len(asc)-1-i] = asc[i]
					}
					cc := *c
					if c2.Cls == "ff-carry" || (c2.Cls != "plain" && c.Cls == "plain") {
						cc.Cls = c2.Cls // the pair inherits the more special class of its two patterns
					}
					if c.Cls == "ff-carry" {
						cc.Cls = "ff-carry"
					}
					r2 := &caseRun{ci: ci, c: &cc, p: p + " + " + p2, st: &o.st}
					cmds := [][]string{
						{"SCAN", idsKey, "MATCH", p, "MATCH", p2, "ASC", "LIMIT", bigLimit, "IDS"},
						{"SCAN", idsKey, "MATCH", p2, "MATCH", p, "DESC", "LIMIT", bigLimit, "IDS"},
						{"SCAN", idsKey, "MATCH", p, "MATCH", p2, "COUNT"},
						{"SEARCH", valsKey, "MATCH", p, "MATCH", p2, "ASC", "LIMIT", bigLimit},
					}
					vals, err := g.pipeline(1, cmds)
					if err != nil {
						o.err = fmt.Errorf("case %d patterns %q %q: %v", ci, p, p2, err)
						continue
					}
					o.st.ServerCmds += len(cmds)
					if l, err := cursorList(vals[0]); err == nil {
						r2.list("SCAN-2MATCH-ASC", l, asc)
					} else {
						r2.scalar("SCAN-2MATCH-ASC", vals[0], -1)
					}
					if l, err := cursorList(vals[1]); err == nil {
						r2.list("SCAN-2MATCH-DESC", l, desc)
					} else {
						r2.scalar("SCAN-2MATCH-DESC", vals[1], -1)
					}
					r2.scalar("SCAN-2MATCH-COUNT", vals[2], len(asc))
					if l, err := cursorValues(vals[3]); err == nil {
						r2.list("SEARCH-2MATCH-ASC", l, asc)
					} else {
						r2.scalar("SEARCH-2MATCH-ASC", vals[3], -1)
					}
					r.mism = append(r.mism, r2.mism...)
				}
				o.mism = append(o.mism, r.mism...)
			}
			o.st.ServerCmds = g.cmds
		}(w)
	}
	wg.Wait()
	var mism []Mismatch
	for _, o := range out {
		if o.err != nil {
			return nil, o.err
		}
		mism = append(mism, o.mism...)
		st.ServerCmds += o.st.ServerCmds
		st.Returned += o.st.Returned
		for k, v := range o.st.ServerChecks {
			st.ServerChecks[k] += v
		}
	}
	sort.SliceStable(mism, func(i, j int) bool { return mism[i].Case < mism[j].Case })
	return mism, nil
}
