package filt

import (
	"bufio"
	"encoding/json"
	"fmt"
	"os"
	"sort"
	"strconv"
	"strings"
	"sync"

	"github.com/tidwall/tile38/verifharness/t38"
)

// Query is the uniform query record of spec/Filters.tla.
type Query struct {
	Fam   string   `json:"fam"`
	Match []int    `json:"match"`
	Wk    string   `json:"wk"`
	Wmin  string   `json:"wmin"`
	Wminx bool     `json:"wminx"`
	Wmax  string   `json:"wmax"`
	Wmaxx bool     `json:"wmaxx"`
	Wop   string   `json:"wop"`
	Win   []string `json:"win"`
	Weval string   `json:"weval"`
	Desc  bool     `json:"desc"`
}

// QHeader is the first record printed by FiltersGen.
type QHeader struct {
	Kind  string `json:"kind"`
	Mode  string `json:"mode"`
	Slots []struct {
		ID  []int `json:"id"`
		Val []int `json:"val"`
	} `json:"slots"`
	Values []struct {
		Tok string `json:"tok"`
		Txt string `json:"txt"`
	} `json:"values"`
	Queries []struct {
		Q       Query `json:"q"`
		Ordered bool  `json:"ordered"`
	} `json:"queries"`
}

// QDataset is one dataset with the expected result of every query.
type QDataset struct {
	Kind string `json:"kind"`
	Objs []struct {
		Geo string `json:"geo"`
		F   string `json:"f"`
	} `json:"objs"`
	NAll int `json:"nall"`
	R    []struct {
		IDs []int `json:"ids"`
		N   int   `json:"n"`
	} `json:"r"`
}

// QMismatch is one disagreement of a query reply with TLC's expectation.
type QMismatch struct {
	Dataset int      `json:"dataset"`
	Query   int      `json:"query"`
	Out     string   `json:"out"` // IDS | COUNT
	Cmd     []string `json:"cmd"` // Go-quoted arguments
	Fam     string   `json:"fam"`
	Desc    bool     `json:"desc"`
	Match   string   `json:"match"`   // none | star | glob
	Where   string   `json:"where"`   // none | range | op | expr
	WhereIn int      `json:"wherein"` // number of WHEREIN values
	Weval   string   `json:"whereeval"`
	NAll    int      `json:"nall"` // objects in the collection
	Got     string   `json:"got"`
	Want    string   `json:"want"`
	NLost   int      `json:"nlost"`
	NExtra  int      `json:"nextra"`
	Order   bool     `json:"order"`
}

// QStats counts what was compared.
type QStats struct {
	Datasets    int            `json:"datasets"`
	Queries     int            `json:"queries"`
	Cmds        int            `json:"server_cmds"`
	IDSCompared int            `json:"ids_replies_compared"`
	CountComp   int            `json:"count_replies_compared"`
	Returned    int            `json:"returned_items"`
	ByFam       map[string]int `json:"by_family"`
	ByFilter    map[string]int `json:"by_filter"`
}

// ReadQueryCases reads the header and the datasets.
func ReadQueryCases(path string) (*QHeader, []QDataset, error) {
	f, err := os.Open(path)
	if err != nil {
		return nil, nil, err
	}
	defer f.Close()
	sc := bufio.NewScanner(f)
	sc.Buffer(make([]byte, 1<<20), 1<<30)
	var h *QHeader
	var ds []QDataset
	for sc.Scan() {
		if len(sc.Bytes()) == 0 {
			continue
		}
		var k struct {
			Kind string `json:"kind"`
		}
		if err := json.Unmarshal(sc.Bytes(), &k); err != nil {
			return nil, nil, err
		}
		switch k.Kind {
		case "header":
			h = &QHeader{}
			if err := json.Unmarshal(sc.Bytes(), h); err != nil {
				return nil, nil, err
			}
		case "dataset":
			var d QDataset
			if err := json.Unmarshal(sc.Bytes(), &d); err != nil {
				return nil, nil, err
			}
			ds = append(ds, d)
		}
	}
	if h == nil {
		return nil, nil, fmt.Errorf("%s: no header record", path)
	}
	for i, d := range ds {
		if len(d.R) != len(h.Queries) || len(d.Objs) != len(h.Slots) {
			return nil, nil, fmt.Errorf("dataset %d does not fit the header", i)
		}
	}
	return h, ds, sc.Err()
}

const qKey = "qcol"
const fieldName = "f"

type qRunner struct {
	h    *QHeader
	txt  map[string]string // value token -> text to write
	ids  []string
	slot map[string]int // id -> 1-based slot
}

func (qr *qRunner) text(tok string) (string, error) {
	t, ok := qr.txt[tok]
	if !ok {
		return "", fmt.Errorf("value token %q is not in the header's table", tok)
	}
	return t, nil
}

// command renders a query (rendering only: tokens to text, clauses to their keywords).
func (qr *qRunner) command(q *Query, out string) ([]string, error) {
	a := []string{strings.ToUpper(q.Fam), qKey}
	if len(q.Match) > 0 {
		a = append(a, "MATCH", b2s(q.Match))
	}
	switch q.Wk {
	case "none":
	case "range":
		lo, err := qr.text(q.Wmin)
		if err != nil {
			return nil, err
		}
		hi, err := qr.text(q.Wmax)
		if err != nil {
			return nil, err
		}
		if q.Wminx {
			lo = "(" + lo
		}
		if q.Wmaxx {
			hi = "(" + hi
		}
		a = append(a, "WHERE", fieldName, lo, hi)
	case "op":
		x, err := qr.text(q.Wmax)
		if err != nil {
			return nil, err
		}
		a = append(a, "WHERE", fieldName, q.Wop, x)
	case "expr":
		x, err := qr.text(q.Wmax)
		if err != nil {
			return nil, err
		}
		a = append(a, "WHERE", fieldName+" "+q.Wop+" "+x)
	default:
		return nil, fmt.Errorf("unknown where kind %q", q.Wk)
	}
	if len(q.Win) > 0 {
		a = append(a, "WHEREIN", fieldName, strconv.Itoa(len(q.Win)))
		for _, t := range q.Win {
			x, err := qr.text(t)
			if err != nil {
				return nil, err
			}
			a = append(a, x)
		}
	}
	switch q.Weval {
	case "none":
	case "true", "false":
		a = append(a, "WHEREEVAL", "return "+q.Weval, "0")
	default:
		return nil, fmt.Errorf("unknown whereeval %q", q.Weval)
	}
	if q.Desc {
		a = append(a, "DESC")
	}
	if out == "IDS" {
		a = append(a, "LIMIT", bigLimit, "IDS") // "without LIMIT" for IDS means: not cut by the default of 100
	} else {
		a = append(a, "COUNT") // COUNT without LIMIT
	}
	switch q.Fam {
	case "scan", "search":
	case "within", "intersects":
		a = append(a, "BOUNDS", "-90", "-180", "90", "180")
	case "nearby":
		a = append(a, "POINT", "10", "20")
	default:
		return nil, fmt.Errorf("unknown family %q", q.Fam)
	}
	return a, nil
}

func quoteArgs(a []string) []string {
	out := make([]string, len(a))
	for i, s := range a {
		out[i] = strconv.Quote(s)
	}
	return out
}

func matchKind(q *Query) string {
	if len(q.Match) == 0 {
		return "none"
	}
	if len(q.Match) == 1 && q.Match[0] == '*' {
		return "star"
	}
	return "glob"
}

func (qr *qRunner) runDataset(c *t38.Conn, di int, d *QDataset, st *QStats) ([]QMismatch, error) {
	do := func(args ...string) (t38.Value, error) {
		st.Cmds++
		return c.Do(args...)
	}
	if _, err := do("DROP", qKey); err != nil {
		return nil, err
	}
	for s, o := range d.Objs {
		if o.Geo == "none" {
			continue
		}
		a := []string{"SET", qKey, qr.ids[s]}
		ft, err := qr.text(o.F)
		if err != nil {
			return nil, err
		}
		// the zero is written explicitly on points and left out on strings: both must read as 0
		if o.F != "0" || o.Geo == "point" {
			a = append(a, "FIELD", fieldName, ft)
		}
		switch o.Geo {
		case "point":
			a = append(a, "POINT", "10", strconv.FormatFloat(20+float64(s)*0.0001, 'f', -1, 64))
		case "string":
			a = append(a, "STRING", b2s(qr.h.Slots[s].Val))
		default:
			return nil, fmt.Errorf("unknown object kind %q", o.Geo)
		}
		v, err := do(a...)
		if err != nil {
			return nil, err
		}
		if !(v.Kind == '+' && v.Str == "OK") {
			return nil, fmt.Errorf("%q -> %s", a, v.String())
		}
	}
	var mism []QMismatch
	for j := range qr.h.Queries {
		q := &qr.h.Queries[j].Q
		exp := d.R[j]
		st.Queries++
		st.ByFam[q.Fam]++
		st.ByFilter["match-"+matchKind(q)]++
		st.ByFilter["where-"+q.Wk]++
		if len(q.Win) > 0 {
			st.ByFilter["wherein"]++
		}
		if q.Weval != "none" {
			st.ByFilter["whereeval"]++
		}
		if q.Desc {
			st.ByFilter["desc"]++
		}
		mk := func(out string, cmd []string) QMismatch {
			return QMismatch{Dataset: di, Query: j, Out: out, Cmd: quoteArgs(cmd), Fam: q.Fam, Desc: q.Desc,
				Match: matchKind(q), Where: q.Wk, WhereIn: len(q.Win), Weval: q.Weval, NAll: d.NAll}
		}
		// IDS
		cmd, err := qr.command(q, "IDS")
		if err != nil {
			return nil, err
		}
		v, err := do(cmd...)
		if err != nil {
			return nil, err
		}
		want := make([]string, len(exp.IDs))
		for i, s := range exp.IDs {
			if s < 1 || s > len(qr.ids) {
				return nil, fmt.Errorf("slot %d out of range", s)
			}
			want[i] = qr.ids[s-1]
		}
		st.IDSCompared++
		got, err := cursorList(v)
		if err != nil {
			m := mk("IDS", cmd)
			m.Got, m.Want = trunc(v.String()), fmt.Sprintf("%d ids", len(want))
			mism = append(mism, m)
		} else {
			st.Returned += len(got)
			g, w := got, want
			if !qr.h.Queries[j].Ordered {
				g = append([]string(nil), got...)
				w = append([]string(nil), want...)
				sort.Strings(g)
				sort.Strings(w)
			}
			if lost, extra, order := diffLists(g, w); lost != nil || extra != nil || order {
				m := mk("IDS", cmd)
				m.Got, m.Want = fmt.Sprintf("%q", got), fmt.Sprintf("%q", want)
				m.NLost, m.NExtra, m.Order = len(lost), len(extra), order
				mism = append(mism, m)
			}
		}
		// COUNT
		cmd, err = qr.command(q, "COUNT")
		if err != nil {
			return nil, err
		}
		v, err = do(cmd...)
		if err != nil {
			return nil, err
		}
		st.CountComp++
		if !(v.Kind == ':' && int(v.Int) == exp.N) {
			m := mk("COUNT", cmd)
			m.Got, m.Want = trunc(v.String()), ":"+strconv.Itoa(exp.N)
			mism = append(mism, m)
		}
	}
	st.Datasets++
	return mism, nil
}

// RunQueries replays every dataset and query of the case file on real servers.
func RunQueries(h *QHeader, ds []QDataset, par int, st *QStats) ([]QMismatch, error) {
	qr := &qRunner{h: h, txt: map[string]string{}, slot: map[string]int{}}
	for _, v := range h.Values {
		qr.txt[v.Tok] = v.Txt
	}
	for i, s := range h.Slots {
		id := b2s(s.ID)
		qr.ids = append(qr.ids, id)
		qr.slot[id] = i + 1
	}
	if par < 1 {
		par = 1
	}
	if par > len(ds) {
		par = len(ds)
	}
	type res struct {
		mism []QMismatch
		st   QStats
		err  error
	}
	out := make([]res, par)
	jobs := make(chan int, len(ds))
	for i := range ds {
		jobs <- i
	}
	close(jobs)
	var wg sync.WaitGroup
	for w := 0; w < par; w++ {
		wg.Add(1)
		go func(w int) {
			defer wg.Done()
			o := &out[w]
			o.st.ByFam = map[string]int{}
			o.st.ByFilter = map[string]int{}
			srv, err := t38.Start(t38.Options{NoAOF: true})
			if err != nil {
				o.err = err
				return
			}
			defer srv.StopAndRemove()
			c, err := srv.Dial()
			if err != nil {
				o.err = err
				return
			}
			defer c.Close()
			for di := range jobs {
				if o.err != nil {
					continue
				}
				m, err := qr.runDataset(c, di, &ds[di], &o.st)
				if err != nil {
					o.err = fmt.Errorf("dataset %d: %v", di, err)
					continue
				}
				o.mism = append(o.mism, m...)
			}
		}(w)
	}
	wg.Wait()
	var mism []QMismatch
	for _, o := range out {
		if o.err != nil {
			return nil, o.err
		}
		mism = append(mism, o.mism...)
		st.Datasets += o.st.Datasets
		st.Queries += o.st.Queries
		st.Cmds += o.st.Cmds
		st.IDSCompared += o.st.IDSCompared
		st.CountComp += o.st.CountComp
		st.Returned += o.st.Returned
		for k, v := range o.st.ByFam {
			st.ByFam[k] += v
		}
		for k, v := range o.st.ByFilter {
			st.ByFilter[k] += v
		}
	}
	sort.SliceStable(mism, func(i, j int) bool {
		if mism[i].Dataset != mism[j].Dataset {
			return mism[i].Dataset < mism[j].Dataset
		}
		return mism[i].Query < mism[j].Query
	})
	return mism, nil
}
