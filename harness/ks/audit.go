package ks

import (
	"fmt"
	"math"
	"sort"
	"strconv"

	"github.com/tidwall/tile38/verifharness/t38"
)

// Cal is what one stored geometry contributes to the counters, measured on a
// server that holds nothing else (history-free reference).
type Cal struct {
	Points  int64
	Rect    [4]float64 // BOUNDS of the singleton collection
	Indexed bool       // found by a spatial search over the whole world
}

// Calibrate measures every geometry token on an otherwise empty server.
func Calibrate(srv *t38.Srv) (map[string]Cal, error) {
	c, err := srv.Dial()
	if err != nil {
		return nil, err
	}
	defer c.Close()
	out := map[string]Cal{}
	for tok, g := range Geos {
		if _, err := c.Do("FLUSHDB"); err != nil {
			return nil, err
		}
		if r, err := c.Do(append([]string{"SET", "cal", "x"}, g.Args...)...); err != nil || r.Kind != '+' {
			return nil, fmt.Errorf("calibration SET %s: %v %v", tok, r, err)
		}
		st := srv.S.VerifDump(true)
		geo := st.Cols["cal"]["x"].Geo
		var cal Cal
		r, _ := c.Do("STATS", "cal")
		m := respMap(r.Arr[0])
		cal.Points = m["num_points"]
		cal.Rect = boundsOf(c, "cal")
		w, _ := c.Do("WITHIN", "cal", "IDS", "BOUNDS", "-90", "-180", "90", "180")
		cal.Indexed = len(w.Arr) == 2 && len(w.Arr[1].Arr) == 1
		out[geo] = cal
	}
	c.Do("FLUSHDB")
	return out, nil
}

func respMap(v t38.Value) map[string]int64 {
	m := map[string]int64{}
	for i := 0; i+1 < len(v.Arr); i += 2 {
		n := v.Arr[i+1].Int
		if v.Arr[i+1].Kind == '$' {
			n, _ = strconv.ParseInt(v.Arr[i+1].Str, 10, 64)
		}
		m[v.Arr[i].Str] = n
	}
	return m
}

func boundsOf(c *t38.Conn, key string) [4]float64 {
	var out [4]float64
	r, err := c.Do("BOUNDS", key)
	if err != nil || r.Kind != '*' || len(r.Arr) != 2 {
		return [4]float64{math.NaN(), math.NaN(), math.NaN(), math.NaN()}
	}
	for i := 0; i < 2; i++ {
		for j := 0; j < 2; j++ {
			out[i*2+j], _ = strconv.ParseFloat(r.Arr[i].Arr[j].Str, 64)
		}
	}
	return out
}

func idsOf(v t38.Value) []string {
	var ids []string
	if v.Kind == '*' && len(v.Arr) == 2 {
		for _, e := range v.Arr[1].Arr {
			ids = append(ids, e.Str)
		}
	}
	return ids
}

func sameSet(a, b []string) bool {
	a = append([]string(nil), a...)
	b = append([]string(nil), b...)
	sort.Strings(a)
	sort.Strings(b)
	if len(a) != len(b) {
		return false
	}
	for i := range a {
		if a[i] != b[i] {
			return false
		}
	}
	return true
}

// BlackBox recomputes every counter and access path from the objects that are
// actually retrievable and compares them with what the server reports (C19).
func BlackBox(srv *t38.Srv, c *t38.Conn, cal map[string]Cal) []string {
	var errs []string
	bad := func(f string, a ...interface{}) { errs = append(errs, fmt.Sprintf(f, a...)) }
	st := srv.S.VerifDump(true)
	var keys []string
	for k := range st.Cols {
		keys = append(keys, k)
	}
	sort.Strings(keys)
	// KEYS
	r, _ := c.Do("KEYS", "*")
	var got []string
	for _, e := range r.Arr {
		got = append(got, e.Str)
	}
	if !sameSet(got, keys) || !sort.StringsAreSorted(got) {
		bad("KEYS * = %q, retrievable collections %q", got, keys)
	}
	var totObj, totStr, totPts int64
	for _, k := range keys {
		var ids, strIDs, idxIDs []string
		var pts int64
		rect := [4]float64{math.Inf(1), math.Inf(1), math.Inf(-1), math.Inf(-1)}
		hasRect := false
		for id, o := range st.Cols[k] {
			ids = append(ids, id)
			// the object must be retrievable by GET
			if g, _ := c.Do("GET", k, id); g.Kind != '$' || g.Null {
				bad("object %q/%q is in the id index but GET does not return it", k, id)
			}
			if !o.Spatial {
				strIDs = append(strIDs, id)
				continue
			}
			cl, ok := cal[o.Geo]
			if !ok {
				bad("no calibration for geometry %s", o.Geo)
				continue
			}
			pts += cl.Points
			if cl.Indexed {
				idxIDs = append(idxIDs, id)
				hasRect = true
				rect[0] = math.Min(rect[0], cl.Rect[0])
				rect[1] = math.Min(rect[1], cl.Rect[1])
				rect[2] = math.Max(rect[2], cl.Rect[2])
				rect[3] = math.Max(rect[3], cl.Rect[3])
			}
		}
		sort.Strings(ids)
		totObj += int64(len(ids))
		totStr += int64(len(strIDs))
		totPts += pts
		r, _ := c.Do("STATS", k)
		if r.Kind != '*' || len(r.Arr) != 1 || r.Arr[0].Null {
			bad("STATS %q: %s", k, r.String())
			continue
		}
		m := respMap(r.Arr[0])
		if m["num_objects"] != int64(len(ids)) || m["num_strings"] != int64(len(strIDs)) || m["num_points"] != pts {
			bad("STATS %q: num_objects=%d num_strings=%d num_points=%d, recomputed from the retrievable objects: %d %d %d",
				k, m["num_objects"], m["num_strings"], m["num_points"], len(ids), len(strIDs), pts)
		}
		if r, _ := c.Do("SCAN", k, "COUNT"); r.Kind != ':' || r.Int != int64(len(ids)) {
			bad("SCAN %q COUNT = %s, retrievable objects %d", k, r.String(), len(ids))
		}
		if r, _ := c.Do("SCAN", k, "LIMIT", "100000", "IDS"); !sameSet(idsOf(r), ids) || !sort.StringsAreSorted(idsOf(r)) {
			bad("SCAN %q IDS = %q, retrievable ids %q", k, idsOf(r), ids)
		}
		if r, _ := c.Do("SEARCH", k, "COUNT"); r.Kind != ':' || r.Int != int64(len(strIDs)) {
			bad("SEARCH %q COUNT = %s, retrievable string objects %d", k, r.String(), len(strIDs))
		}
		if r, _ := c.Do("SEARCH", k, "LIMIT", "100000", "IDS"); !sameSet(idsOf(r), strIDs) {
			bad("SEARCH %q IDS = %q, retrievable string objects %q", k, idsOf(r), strIDs)
		}
		if r, _ := c.Do("WITHIN", k, "LIMIT", "100000", "IDS", "BOUNDS", "-90", "-180", "90", "180"); !sameSet(idsOf(r), idxIDs) {
			bad("WITHIN %q world = %q, retrievable non-empty geometries %q", k, idsOf(r), idxIDs)
		}
		if r, _ := c.Do("INTERSECTS", k, "LIMIT", "100000", "IDS", "BOUNDS", "-90", "-180", "90", "180"); !sameSet(idsOf(r), idxIDs) {
			bad("INTERSECTS %q world = %q, retrievable non-empty geometries %q", k, idsOf(r), idxIDs)
		}
		if r, _ := c.Do("NEARBY", k, "LIMIT", "100000", "IDS", "POINT", "0", "0"); !sameSet(idsOf(r), idxIDs) {
			bad("NEARBY %q = %q, retrievable non-empty geometries %q", k, idsOf(r), idxIDs)
		}
		b := boundsOf(c, k)
		if !hasRect {
			rect = [4]float64{}
		}
		if b != rect {
			bad("BOUNDS %q = %v, union of the retrievable geometries %v", k, b, rect)
		}
	}
	r, _ = c.Do("SERVER")
	m := respMap(r)
	if m["num_collections"] != int64(len(keys)) || m["num_objects"] != totObj || m["num_strings"] != totStr ||
		m["num_points"] != totPts || m["num_hooks"] != int64(len(st.Hooks)) {
		bad("SERVER: collections=%d objects=%d strings=%d points=%d hooks=%d, recomputed %d %d %d %d %d",
			m["num_collections"], m["num_objects"], m["num_strings"], m["num_points"], m["num_hooks"],
			len(keys), totObj, totStr, totPts, len(st.Hooks))
	}
	return errs
}
