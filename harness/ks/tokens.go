// Package ks binds the Keyspace specification to the real server: the table
// from abstract tokens to concrete arguments, the rendering of expected
// replies, and the comparison of real replies / real state with them.
package ks

import (
	"encoding/json"
	"fmt"
	"sort"
	"strings"
)

// Concrete strings for the ordered token domains. Order in these slices is
// byte order (checked at start-up), as the specification assumes.
var (
	Keys   = []string{"alpha", "bravo key", "charlie\"q", "deltaé", "echo", "foxtrot", "golf", "hotel"}
	Ids    = []string{"id-a", "id-b \"q\"", "id-cé", "id-d{}", "id-e", "id-f", "id-g", "id-h", "id-i", "id-j", "id-k", "id-l"}
	FNames = []string{"a.x", "a.y", "speed", "temp"} // dotted names are literal names while no field "a" holds JSON
	Hooks  = []string{"hook-a", "hook-b", "hook-c"}
)

// Geo is one geometry token.
type Geo struct {
	Args    []string // SET arguments
	JSON    string   // canonical GeoJSON the server must read back ("" for strings)
	Str     string   // the string value for string objects
	Spatial bool
}

// Geos is the table of geometry tokens.
var Geos = map[string]Geo{
	"g:P1": {Args: []string{"POINT", "33.5", "-115.5"}, JSON: `{"type":"Point","coordinates":[-115.5,33.5]}`, Spatial: true},
	"g:P2": {Args: []string{"POINT", "-12.25", "170.125"}, JSON: `{"type":"Point","coordinates":[170.125,-12.25]}`, Spatial: true},
	"g:PZ": {Args: []string{"POINT", "33", "-115", "10.5"}, JSON: `{"type":"Point","coordinates":[-115,33,10.5]}`, Spatial: true},
	"g:B1": {Args: []string{"BOUNDS", "30", "-120", "40", "-110"}, JSON: `{"type":"Polygon","coordinates":[[[-120,30],[-110,30],[-110,40],[-120,40],[-120,30]]]}`, Spatial: true},
	"g:H1": {Args: []string{"HASH", "9my5xp7"}, JSON: `{"type":"Point","coordinates":[-115,32.999]}`, Spatial: true},
	"g:G1": {Args: []string{"OBJECT", `{"type":"Polygon","coordinates":[[[0,0],[10,0],[10,10],[0,10],[0,0]],[[2,2],[4,2],[4,4],[2,4],[2,2]]]}`}, JSON: `{"type":"Polygon","coordinates":[[[0,0],[10,0],[10,10],[0,10],[0,0]],[[2,2],[4,2],[4,4],[2,4],[2,2]]]}`, Spatial: true},
	"g:GL": {Args: []string{"OBJECT", `{"type":"LineString","coordinates":[[1,1],[2,2],[3,1]]}`}, JSON: `{"type":"LineString","coordinates":[[1,1],[2,2],[3,1]]}`, Spatial: true},
	"g:GF": {Args: []string{"OBJECT", `{"type":"Feature","geometry":{"type":"Point","coordinates":[5,6]},"properties":{"name":"a \"b\"","n":7}}`}, JSON: `{"type":"Feature","geometry":{"type":"Point","coordinates":[5,6]},"properties":{"name":"a \"b\"","n":7}}`, Spatial: true},
	"g:GM": {Args: []string{"OBJECT", `{"type":"MultiPoint","coordinates":[[1,2],[3,4]]}`}, JSON: `{"type":"MultiPoint","coordinates":[[1,2],[3,4]]}`, Spatial: true},
	"g:GE": {Args: []string{"OBJECT", `{"type":"GeometryCollection","geometries":[]}`}, JSON: `{"type":"GeometryCollection","geometries":[]}`, Spatial: true},
	"g:S1": {Args: []string{"STRING", "hello world"}, Str: "hello world"},
	"g:S2": {Args: []string{"STRING", "tab\tquote\" é \\ end"}, Str: "tab\tquote\" é \\ end"},
	"g:SJ": {Args: []string{"STRING", `{"a":1,"b":"x"}`}, Str: `{"a":1,"b":"x"}`},
}

// FVal is one field value token: the text written, the text stored (Data())
// and its JSON rendering.
type FVal struct {
	In, Stored, JSON string
}

// FVals is the table of field value tokens.
var FVals = map[string]FVal{
	"v:0":     {"0", "0", "0"},
	"v:0.0":   {"0.0", "0.0", "0.0"},
	"v:1":     {"1", "1", "1"},
	"v:1.0":   {"1.0", "1.0", "1.0"},
	"v:2":     {"2", "2", "2"},
	"v:-3":    {"-3", "-3", "-3"},
	"v: 5 ":   {" 5 ", "5", "5"},
	"v:5":     {"5", "5", "5"},
	"v:nan":   {"NaN", "NaN", `"NaN"`},
	"v:inf":   {"+Inf", "+Inf", `"+Inf"`},
	"v:abc":   {"abc", "abc", `"abc"`},
	"v:ABC":   {"ABC", "ABC", `"ABC"`},
	"v:abd":   {"abd", "abd", `"abd"`},
	"v:true":  {"true", "true", "true"},
	"v:false": {"false", "false", "false"},
	"v:null":  {"null", "null", "null"},
	"v:json":  {`{"a":[1,2]}`, `{"a":[1,2]}`, `{"a":[1,2]}`},
	"v:007":   {"007", "007", `"007"`},
}

func init() {
	for _, s := range [][]string{Keys, Ids, FNames, Hooks} {
		if !sort.StringsAreSorted(s) {
			panic(fmt.Sprintf("token table not in byte order: %q", s))
		}
	}
}

func idx(tok, prefix string) int {
	var n int
	if _, err := fmt.Sscanf(strings.TrimPrefix(tok, prefix), "%d", &n); err != nil || n < 1 {
		panic("bad token " + tok)
	}
	return n - 1
}

// Key returns the concrete key of a "k:<n>" token.
func Key(tok string) string { return Keys[idx(tok, "k:")] }

// ID returns the concrete id of an "i:<n>" token.
func ID(tok string) string { return Ids[idx(tok, "i:")] }

// FName returns the concrete field name of an "n:<n>" token.
func FName(tok string) string { return FNames[idx(tok, "n:")] }

// Hook returns the concrete hook name of an "h:<n>" token.
func Hook(tok string) string { return Hooks[idx(tok, "h:")] }

// Pattern returns the concrete glob of a pattern token for the given domain.
func Pattern(tok string, domain []string) string {
	switch tok {
	case "p:*":
		return "*"
	case "p:1*":
		// a prefix that only the first element of the domain has
		return domain[0][:len(domain[0])] + "*"
	case "p:=1":
		return domain[0]
	case "p:=2":
		return domain[1]
	case "p:none":
		return "zzz-no-such"
	}
	panic("bad pattern token " + tok)
}

// JMember returns the concrete member name of an "m:" token.
func JMember(tok string) string { return strings.TrimPrefix(tok, "m:") }

// JVal returns the concrete JSET value of a "j:" token ("j:1" is the raw number 1, "j:x" the string x).
func JVal(tok string) string { return strings.TrimPrefix(tok, "j:") }

// DocText renders a document (sequence of <<member, value>> pairs in insertion order) as the
// text sjson produces.
func DocText(d interface{}) string {
	pairs, _ := d.([]interface{})
	var b strings.Builder
	b.WriteByte('{')
	for i, p := range pairs {
		pp := p.([]interface{})
		if i > 0 {
			b.WriteByte(',')
		}
		b.WriteString(`"` + JMember(pp[0].(string)) + `":`)
		if v := pp[1].(string); v == "j:1" {
			b.WriteString("1")
		} else {
			b.WriteString(`"` + JVal(v) + `"`)
		}
	}
	b.WriteByte('}')
	return b.String()
}

// Tok resolves any category-prefixed token to its concrete RESP string.
func Tok(tok string) (string, bool) {
	switch {
	case strings.HasPrefix(tok, "k:"):
		return Key(tok), true
	case strings.HasPrefix(tok, "i:"):
		return ID(tok), true
	case strings.HasPrefix(tok, "n:"):
		return FName(tok), true
	case strings.HasPrefix(tok, "h:"):
		return Hook(tok), true
	case strings.HasPrefix(tok, "j:"):
		return JVal(tok), true
	case strings.HasPrefix(tok, "v:"):
		if v, ok := FVals[tok]; ok {
			return v.Stored, true
		}
	case strings.HasPrefix(tok, "g:"):
		if g, ok := Geos[tok]; ok {
			if g.Spatial {
				return g.JSON, true
			}
			return g.Str, true
		}
	}
	return "", false
}

// TokJSON resolves a token to the JSON value the JSON output mode must show.
func TokJSON(tok string) (interface{}, bool) {
	switch {
	case strings.HasPrefix(tok, "v:"):
		if v, ok := FVals[tok]; ok {
			return mustJSON(v.JSON), true
		}
	case strings.HasPrefix(tok, "g:"):
		if g, ok := Geos[tok]; ok {
			if g.Spatial {
				return mustJSON(g.JSON), true
			}
			return g.Str, true
		}
	}
	if s, ok := Tok(tok); ok {
		return s, true
	}
	return nil, false
}

func mustJSON(s string) interface{} {
	var v interface{}
	d := json.NewDecoder(strings.NewReader(s))
	d.UseNumber()
	if err := d.Decode(&v); err != nil {
		panic(fmt.Sprintf("bad JSON in token table: %s: %v", s, err))
	}
	return v
}
