package proto

import (
	"bytes"
	"sync"
	"bufio"
	"errors"
	"fmt"
	"io"
	"net"
	"strings"
	"time"

	"github.com/tidwall/tile38/verifharness/t38"
)

// ExpReply is one expected reply as computed by TLC (Proto!Replies).
type ExpReply struct {
	X   string `json:"x"` // cmd | bad500 | errtail
	T   string `json:"t"`
	Enc string `json:"enc"`
	C   string `json:"c"`
	V   string `json:"v"` // token
}

// Expected is Proto!Expected(stream).
type Expected struct {
	Replies []ExpReply `json:"replies"`
	Closed  bool       `json:"closed"`
	Carry   int        `json:"carry"`
	Crashed bool       `json:"crashed"`
}

// Opts of one exchange.
type Opts struct {
	Pause    time.Duration // after every segment
	Timeout  time.Duration // waiting for an expected frame / the close
	Quiet    time.Duration // silence that counts as "nothing more comes"
	Sentinel string        // marker of the trailing ECHO that delimits the replies of the stream
	Probe    bool          // measure whether the server had consumed each segment before the next write
	// BusyFirst > 0: first occupy the connection's goroutine with SLEEP <BusyFirst> (a scheduling device, its reply is
	// dropped), then write the stream: everything is queued in the socket when the server reads again
	BusyFirst time.Duration
}

// Outcome of one exchange.
type Outcome struct {
	Frames   []Frame
	Closed   bool   // the server closed the connection
	TimedOut bool   // an expected frame / close / sentinel did not arrive
	Syntax   string // reply stream not well formed
	Segments int
	Probed   int // segments probed
	Drained  int // ... of which the server-side receive queue was empty before the next write
	// Late: the replies to the complete stream had not all arrived when the writer gave up waiting and sent the
	// sentinel; LateHad of them were there before it (they arrived only once further input came in)
	Late    bool
	LateHad int
}

// Mode says how the end of the reply stream is recognised.
type Mode int

const (
	UntilClose    Mode = iota // read until the server closes
	UntilSentinel             // send ECHO <sentinel> after the stream and read up to its reply
	CountQuiet                // read n frames, then require silence (the carry-over buffer holds a fragment)
)

// Exchange opens a connection, sends stream cut into segments of the given
// lengths (the rest, if any, as one last segment), and collects the replies.
func Exchange(addr string, stream []byte, segs []int, mode Mode, want int, o Opts) (Outcome, error) {
	var out Outcome
	c, err := net.DialTimeout("tcp", addr, 5*time.Second)
	if err != nil {
		return out, err
	}
	tc := c.(*net.TCPConn)
	tc.SetNoDelay(true)
	defer func() {
		tc.SetLinger(0)
		tc.Close()
	}()
	laddr := tc.LocalAddr().(*net.TCPAddr)
	raddr := tc.RemoteAddr().(*net.TCPAddr)

	var lateMu sync.Mutex
	late := false
	// an HTTP request as first frame gets the connection closed after its reply: nothing to keep busy
	busy := o.BusyFirst > 0 && len(stream) > 0 && !bytes.HasPrefix(stream, []byte("GET ")) && !bytes.HasPrefix(stream, []byte("POST "))
	wdone := make(chan [3]int, 1)
	gotWant := make(chan struct{}) // closed by the reader when the expected number of replies has arrived
	go func() {
		nseg, probed, drained := 0, 0, 0
		rest := stream
		send := func(b []byte) {
			if len(b) == 0 {
				return
			}
			tc.SetWriteDeadline(time.Now().Add(30 * time.Second))
			tc.Write(b) // a failing write means the server closed; the reader sees that
			nseg++
			if o.Pause > 0 {
				time.Sleep(o.Pause)
			}
			if o.Probe {
				if q, err := rxQueueDiag(raddr, laddr); err == nil {
					probed++
					if q == 0 {
						drained++
					}
				}
			}
		}
		if busy {
			// in the syntax family of the stream's first frame, so that the connection's sticky output type is
			// the one the stream itself would have set
			tc.SetWriteDeadline(time.Now().Add(30 * time.Second))
			arg := fmt.Sprintf("%.3f", o.BusyFirst.Seconds())
			if stream[0] == '$' {
				line := "SLEEP " + arg
				tc.Write([]byte(fmt.Sprintf("$%d %s\r\n", len(line), line)))
			} else {
				tc.Write(t38.AppendCommand(nil, "SLEEP", arg))
			}
			time.Sleep(o.BusyFirst / 3)
		}
		for _, n := range segs {
			if n > len(rest) {
				n = len(rest)
			}
			send(rest[:n])
			rest = rest[n:]
		}
		send(rest)
		if mode == UntilSentinel {
			// the sentinel must not share a segment with the stream: it is sent when the replies
			// to the stream are here (or, failing that, when the reader is about to give up)
			select {
			case <-gotWant:
			case <-time.After(o.Timeout - o.Timeout/5):
				lateMu.Lock()
				late = true
				lateMu.Unlock()
			}
			tc.SetWriteDeadline(time.Now().Add(30 * time.Second))
			tc.Write(t38.AppendCommand(nil, "ECHO", o.Sentinel))
		}
		wdone <- [3]int{nseg, probed, drained}
	}()

	rd := bufio.NewReaderSize(tc, 1<<16)
	// status: 0 frame, 1 read timeout, 2 connection ended (closed / syntax error: reply stream unusable)
	readOne := func(dl time.Duration) (Frame, int, error) {
		tc.SetReadDeadline(time.Now().Add(dl))
		f, err := ReadFrame(rd)
		if err == nil {
			return f, 0, nil
		}
		var ne net.Error
		switch {
		case errors.Is(err, ErrSyntax):
			out.Syntax = err.Error()
			return f, 2, nil
		case errors.As(err, &ne) && ne.Timeout():
			return f, 1, nil
		case errors.Is(err, io.ErrUnexpectedEOF):
			out.Closed = true
			out.Syntax = "reply stream ends inside a frame"
			return f, 2, nil
		case errors.Is(err, io.EOF), isReset(err):
			out.Closed = true
			return f, 2, nil
		}
		return f, 2, err
	}
	waitWriter := func() error {
		if wdone == nil {
			return nil
		}
		select {
		case r := <-wdone:
			out.Segments, out.Probed, out.Drained = r[0], r[1], r[2]
			wdone = nil
			return nil
		case <-time.After(40 * time.Second):
			return fmt.Errorf("writer stuck")
		}
	}
	ended := false
	signalled := false
	signal := func() {
		if !signalled && len(out.Frames) >= want {
			signalled = true
			close(gotWant)
		}
	}
	signal()
	if busy {
		// the reply of the SLEEP that kept the connection busy
		if f, st, err := readOne(o.Timeout); err != nil || st != 0 || f.C != "ok" {
			return out, fmt.Errorf("busy-first: SLEEP was not answered with OK (%v %v %v)", f.Short(), st, err)
		}
	}
	for !ended && !(mode == CountQuiet && len(out.Frames) >= want) {
		f, st, err := readOne(o.Timeout)
		if err != nil {
			return out, err
		}
		switch st {
		case 0:
			if mode == UntilSentinel && f.C == "bulk" && f.V == o.Sentinel {
				ended = true
			} else {
				lateMu.Lock()
				if !late {
					out.LateHad = len(out.Frames) + 1
				}
				lateMu.Unlock()
				out.Frames = append(out.Frames, f)
				signal()
			}
		case 1:
			// the clock for a missing reply starts when the last byte has been written
			if wdone != nil {
				select {
				case r := <-wdone:
					out.Segments, out.Probed, out.Drained = r[0], r[1], r[2]
					wdone = nil
				default:
				}
				continue
			}
			out.TimedOut = true
			ended = true
		case 2:
			ended = true
		}
	}
	if err := waitWriter(); err != nil {
		return out, err
	}
	lateMu.Lock()
	out.Late = late && mode == UntilSentinel && len(out.Frames) > out.LateHad
	lateMu.Unlock()
	if mode == CountQuiet && !ended {
		// everything was sent and the expected replies are here: now nothing more may come
		for {
			f, st, err := readOne(o.Quiet)
			if err != nil {
				return out, err
			}
			if st != 0 {
				break
			}
			out.Frames = append(out.Frames, f)
		}
	}
	return out, nil
}

func isReset(err error) bool {
	return err != nil && (strings.Contains(err.Error(), "connection reset") || strings.Contains(err.Error(), "broken pipe"))
}

// ModeFor chooses how to delimit the replies of a stream from what TLC expects of the connection.
func ModeFor(e Expected) Mode {
	switch {
	case e.Closed || e.Crashed:
		return UntilClose
	case e.Carry == 0:
		return UntilSentinel
	}
	return CountQuiet
}

// CompareSpec compares what the server did with what TLC computed.  With
// content=false only number, order, kind, transport and encoding of the
// replies are compared (argument bytes outside the token table).
func CompareSpec(got Outcome, e Expected, tok Tokens, content bool) []string {
	var d []string
	if got.Syntax != "" {
		d = append(d, "reply stream not well formed: "+got.Syntax)
	}
	if got.Late {
		d = append(d, fmt.Sprintf("only %d of %d replies arrived while the client was waiting; the rest came after further input was sent "+
			"(bytes of complete commands were held back in a buffer)", got.LateHad, len(got.Frames)))
	}
	if got.TimedOut {
		if e.Closed {
			d = append(d, "connection not closed by the server (specification: closed)")
		} else {
			d = append(d, fmt.Sprintf("timeout: %d replies received, specification: %d and the connection stays usable", len(got.Frames), len(e.Replies)))
		}
	}
	if got.Closed != e.Closed && !got.TimedOut {
		d = append(d, fmt.Sprintf("connection closed=%v, specification: closed=%v", got.Closed, e.Closed))
	}
	if len(got.Frames) != len(e.Replies) {
		d = append(d, fmt.Sprintf("%d replies, specification: %d", len(got.Frames), len(e.Replies)))
	}
	for i := 0; i < len(got.Frames) && i < len(e.Replies); i++ {
		g, x := got.Frames[i], e.Replies[i]
		switch x.X {
		case "bad500":
			if g.T != "raw" {
				d = append(d, fmt.Sprintf("reply %d is %s, specification: bare 500 status", i+1, g.Short()))
			}
			continue
		case "errtail":
			if g.C != "err" || g.T != x.T {
				d = append(d, fmt.Sprintf("reply %d is %s, specification: protocol error over %s", i+1, g.Short(), x.T))
			}
			continue
		}
		if g.T != x.T || g.Enc != x.Enc {
			d = append(d, fmt.Sprintf("reply %d arrives as %s/%s, specification: %s/%s", i+1, g.T, g.Enc, x.T, x.Enc))
		}
		if !content {
			continue
		}
		if g.C != x.C {
			d = append(d, fmt.Sprintf("reply %d is %s (%s), specification: %s %s", i+1, g.C, g.Short(), x.C, x.V))
		} else if x.C == "bulk" && g.V != tok[x.V] {
			d = append(d, fmt.Sprintf("reply %d carries %q, specification: %q (token %s) - replies out of order?", i+1, trunc(g.V, 60), trunc(tok[x.V], 60), x.V))
		}
	}
	return d
}

// CompareRuns compares the parsed reply sequence of a segmented run with the unsplit run.
func CompareRuns(ref, got Outcome) []string {
	var d []string
	if got.Syntax != ref.Syntax {
		d = append(d, fmt.Sprintf("reply stream syntax: %q vs unsplit %q", got.Syntax, ref.Syntax))
	}
	if got.Closed != ref.Closed || got.TimedOut != ref.TimedOut {
		d = append(d, fmt.Sprintf("closed=%v timeout=%v vs unsplit closed=%v timeout=%v", got.Closed, got.TimedOut, ref.Closed, ref.TimedOut))
	}
	if len(got.Frames) != len(ref.Frames) {
		d = append(d, fmt.Sprintf("%d replies vs %d in the unsplit run", len(got.Frames), len(ref.Frames)))
	}
	for i := 0; i < len(got.Frames) && i < len(ref.Frames); i++ {
		g, r := got.Frames[i], ref.Frames[i]
		if g.T != r.T || g.Enc != r.Enc || g.Norm != r.Norm {
			d = append(d, fmt.Sprintf("reply %d is %s vs %s in the unsplit run", i+1, g.Short(), r.Short()))
			break
		}
	}
	return d
}

// ShortFrames renders a reply sequence for messages.
func ShortFrames(fs []Frame) []string {
	var s []string
	for i, f := range fs {
		if i >= 8 {
			s = append(s, fmt.Sprintf("...(%d frames)", len(fs)))
			break
		}
		s = append(s, f.Short())
	}
	return s
}
