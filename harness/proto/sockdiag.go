package proto

import (
	"encoding/binary"
	"fmt"
	"net"
	"syscall"
	"unsafe"
)

// rxQueueDiag asks the kernel (NETLINK_SOCK_DIAG, exact lookup, no dump) for the receive-queue length
// of the TCP socket local=srv, remote=cli, i.e. the server side of a client connection: 0 means the
// server process has read everything that was sent so far.
func rxQueueDiag(srv, cli *net.TCPAddr) (int, error) {
	fd, err := syscall.Socket(syscall.AF_NETLINK, syscall.SOCK_DGRAM|syscall.SOCK_CLOEXEC, 4 /* NETLINK_SOCK_DIAG */)
	if err != nil {
		return 0, err
	}
	defer syscall.Close(fd)
	tv := syscall.Timeval{Sec: 1}
	syscall.SetsockoptTimeval(fd, syscall.SOL_SOCKET, syscall.SO_RCVTIMEO, &tv)
	s4, c4 := srv.IP.To4(), cli.IP.To4()
	if s4 == nil || c4 == nil {
		return 0, fmt.Errorf("IPv4 only")
	}
	// struct nlmsghdr (16) + struct inet_diag_req_v2 (56)
	req := make([]byte, 16+56)
	ne := nativeEndian()
	ne.PutUint32(req[0:], uint32(len(req)))
	ne.PutUint16(req[4:], 20) // SOCK_DIAG_BY_FAMILY
	ne.PutUint16(req[6:], 1)  // NLM_F_REQUEST
	ne.PutUint32(req[8:], 1)  // seq
	b := req[16:]
	b[0] = syscall.AF_INET
	b[1] = syscall.IPPROTO_TCP
	ne.PutUint32(b[4:], 0xffffffff) // all states
	binary.BigEndian.PutUint16(b[8:], uint16(srv.Port))
	binary.BigEndian.PutUint16(b[10:], uint16(cli.Port))
	copy(b[12:16], s4)
	copy(b[28:32], c4)
	ne.PutUint32(b[48:], 0xffffffff) // INET_DIAG_NOCOOKIE
	ne.PutUint32(b[52:], 0xffffffff)
	if err := syscall.Sendto(fd, req, 0, &syscall.SockaddrNetlink{Family: syscall.AF_NETLINK}); err != nil {
		return 0, err
	}
	buf := make([]byte, 4096)
	n, _, err := syscall.Recvfrom(fd, buf, 0)
	if err != nil {
		return 0, err
	}
	if n < 16 {
		return 0, fmt.Errorf("short netlink reply")
	}
	typ := ne.Uint16(buf[4:])
	if typ == syscall.NLMSG_ERROR {
		return 0, fmt.Errorf("netlink error %d", int32(ne.Uint32(buf[16:])))
	}
	// struct inet_diag_msg: family,state,timer,retrans (4) + id (48) + expires (4) + rqueue (4) ...
	if n < 16+4+48+8 {
		return 0, fmt.Errorf("short inet_diag_msg")
	}
	return int(ne.Uint32(buf[16+4+48+4:])), nil
}

func nativeEndian() binary.ByteOrder {
	x := uint16(1)
	if *(*byte)(unsafe.Pointer(&x)) == 1 {
		return binary.LittleEndian
	}
	return binary.BigEndian
}
