package proto

import (
	"encoding/json"
	"fmt"
	"os"
	"strconv"
	"strings"
)

// Tokens maps the argument tokens of the specification to concrete strings.
// A value "@REP:<n>:<pattern>" stands for <pattern> repeated up to n bytes.
type Tokens map[string]string

// LoadTokens reads the token table written by checks/c16.py.
func LoadTokens(path string) (Tokens, error) {
	b, err := os.ReadFile(path)
	if err != nil {
		return nil, err
	}
	var raw map[string]string
	if err := json.Unmarshal(b, &raw); err != nil {
		return nil, err
	}
	t := Tokens{}
	for k, v := range raw {
		if strings.HasPrefix(v, "@REP:") {
			p := strings.SplitN(v[5:], ":", 2)
			n, err := strconv.Atoi(p[0])
			if err != nil || len(p) != 2 || p[1] == "" {
				return nil, fmt.Errorf("bad token %q", v)
			}
			var sb strings.Builder
			for sb.Len() < n {
				sb.WriteString(p[1])
			}
			v = sb.String()[:n]
		}
		t[k] = v
	}
	return t, nil
}

// WithPads resolves the tokens "@PAD:<mod>:<rem>": the token's value becomes a run of 'p' bytes whose length makes the
// encoding of all frames exactly <rem> bytes longer than a multiple of <mod>.  Returns t itself when fs uses no such token.
func (t Tokens) WithPads(fs []AbsFrame) (Tokens, error) {
	var name string
	mod, rem := 0, 0
	for _, f := range fs {
		for _, a := range f.A {
			if v := t[a]; strings.HasPrefix(v, "@PAD:") {
				p := strings.Split(v[5:], ":")
				if len(p) != 2 {
					return nil, fmt.Errorf("bad token %q", v)
				}
				m, e1 := strconv.Atoi(p[0])
				r, e2 := strconv.Atoi(p[1])
				if e1 != nil || e2 != nil || m <= 0 || (name != "" && name != a) {
					return nil, fmt.Errorf("bad pad token %q (one per stream)", v)
				}
				name, mod, rem = a, m, r
			}
		}
	}
	if name == "" {
		return t, nil
	}
	t2 := Tokens{}
	for k, v := range t {
		t2[k] = v
	}
	n := 2000
	for iter := 0; iter < 6; iter++ {
		t2[name] = strings.Repeat("p", n)
		enc, _, err := t2.EncodeAll(fs)
		if err != nil {
			return nil, err
		}
		d := ((rem-len(enc))%mod + mod) % mod
		if d == 0 {
			return t2, nil
		}
		// a longer pad may need one more length digit: iterate, moving by the smaller of the two ways round
		if d > mod/2 && n-(mod-d) >= 1 {
			n -= mod - d
		} else {
			n += d
		}
	}
	return nil, fmt.Errorf("cannot pad the stream to %d mod %d", rem, mod)
}

// AbsFrame is a frame of the specification: syntax and argument tokens.
type AbsFrame struct {
	K string   `json:"k"`
	A []string `json:"a"`
}

func needsQuote(s string) bool { return s == "" || strings.ContainsAny(s, " \"'") }

func telQuote(s string) string {
	if !needsQuote(s) {
		return s
	}
	var sb strings.Builder
	sb.WriteByte('"')
	for i := 0; i < len(s); i++ {
		if s[i] == '"' || s[i] == '\\' {
			sb.WriteByte('\\')
		}
		sb.WriteByte(s[i])
	}
	sb.WriteByte('"')
	return sb.String()
}

func urlEsc(s string) string {
	var sb strings.Builder
	for i := 0; i < len(s); i++ {
		switch s[i] {
		case ' ':
			sb.WriteByte('+')
		case '+':
			sb.WriteString("%2B")
		case '%':
			sb.WriteString("%25")
		default:
			sb.WriteByte(s[i])
		}
	}
	return sb.String()
}

// Encode is the client encoding of one frame (the Go twin of Proto!Enc; the
// harness checks it byte for byte against the streams TLC generated).
func (t Tokens) Encode(b []byte, f AbsFrame) ([]byte, error) {
	args := make([]string, len(f.A))
	for i, a := range f.A {
		s, ok := t[a]
		if !ok {
			return nil, fmt.Errorf("unknown token %q", a)
		}
		args[i] = s
	}
	line := strings.Join(args, " ")
	switch f.K {
	case "resp":
		b = append(b, '*')
		b = strconv.AppendInt(b, int64(len(args)), 10)
		b = append(b, '\r', '\n')
		for _, a := range args {
			b = append(b, '$')
			b = strconv.AppendInt(b, int64(len(a)), 10)
			b = append(b, '\r', '\n')
			b = append(b, a...)
			b = append(b, '\r', '\n')
		}
	case "telnet", "tellf":
		for i, a := range args {
			if i > 0 {
				b = append(b, ' ')
			}
			b = append(b, telQuote(a)...)
		}
		if f.K == "telnet" {
			b = append(b, '\r')
		}
		b = append(b, '\n')
	case "native":
		b = append(b, '$')
		b = strconv.AppendInt(b, int64(len(line)), 10)
		b = append(b, ' ')
		b = append(b, line...)
		b = append(b, '\r', '\n')
	case "hget":
		b = append(b, "GET /"...)
		b = append(b, urlEsc(line)...)
		b = append(b, " HTTP/1.1\r\n\r\n"...)
	case "hpost":
		b = append(b, "POST / HTTP/1.1\r\nContent-Length: "...)
		b = strconv.AppendInt(b, int64(len(line)), 10)
		b = append(b, "\r\n\r\n"...)
		b = append(b, line...)
	default:
		return nil, fmt.Errorf("unknown syntax %q", f.K)
	}
	return b, nil
}

// EncodeAll concatenates the encodings of the frames; bounds[i] is the end offset of frame i.
func (t Tokens) EncodeAll(fs []AbsFrame) (stream []byte, bounds []int, err error) {
	for _, f := range fs {
		stream, err = t.Encode(stream, f)
		if err != nil {
			return nil, nil, err
		}
		bounds = append(bounds, len(stream))
	}
	return stream, bounds, nil
}
