// Package proto is the client side of the C16 check (wire framing): an
// independent parser of reply streams (RESP values, native "$n payload"
// frames, HTTP responses), the client encodings of the four request
// syntaxes, segmented delivery on raw sockets, and the control of a
// tile38-server subprocess for the malformed-input part.  It contains no
// model of the server: every expected value comes from TLC (spec/Proto.tla).
package proto

import (
	"bufio"
	"bytes"
	"encoding/json"
	"errors"
	"fmt"
	"io"
	"sort"
	"strconv"
	"strings"

	"github.com/tidwall/tile38/verifharness/t38"
)

// Frame is one reply as it appeared on the wire.
type Frame struct {
	T    string `json:"t"`   // transport: "resp", "native", "http", "raw" (bare HTTP status without body)
	Enc  string `json:"enc"` // "resp" or "json" ("none" for raw)
	C    string `json:"c"`   // class: pong | bulk | ok | nil | err | int | arr | other
	V    string `json:"v"`   // payload of a bulk
	Norm string `json:"norm"`
}

// ErrSyntax marks a reply stream that is not well formed.
var ErrSyntax = errors.New("malformed reply frame")

// ReadFrame reads exactly one reply frame of any transport.
func ReadFrame(rd *bufio.Reader) (Frame, error) {
	b, err := rd.Peek(1)
	if err != nil {
		return Frame{}, err
	}
	switch b[0] {
	case 'H':
		return readHTTP(rd)
	case '$':
		// "$<n>\r\n" is a RESP bulk, "$<n> " a native frame
		hdr, err := peekUntil(rd, func(c byte) bool { return c == ' ' || c == '\r' }, 24)
		if err != nil {
			return Frame{}, err
		}
		if hdr[len(hdr)-1] == ' ' {
			n, err := strconv.Atoi(string(hdr[1 : len(hdr)-1]))
			if err != nil || n < 0 {
				return Frame{}, fmt.Errorf("%w: native length %q", ErrSyntax, hdr)
			}
			rd.Discard(len(hdr))
			buf := make([]byte, n+2)
			if _, err := io.ReadFull(rd, buf); err != nil {
				return Frame{}, err
			}
			if buf[n] != '\r' || buf[n+1] != '\n' {
				return Frame{}, fmt.Errorf("%w: native frame not terminated by CRLF", ErrSyntax)
			}
			if n > 0 && buf[0] == '{' {
				return jsonFrame("native", string(buf[:n]))
			}
			// a RESP-encoded payload (the connection's output type was fixed to RESP by an earlier message)
			v, err := t38.ReadValue(bufio.NewReader(bytes.NewReader(buf[:n])))
			if err != nil {
				return Frame{}, fmt.Errorf("%w: native payload %q", ErrSyntax, trunc(string(buf[:n]), 200))
			}
			return respFrame("native", v), nil
		}
		fallthrough
	case '+', '-', ':', '*':
		v, err := t38.ReadValue(rd)
		if err != nil {
			if errors.Is(err, t38.ErrProtocol) {
				return Frame{}, fmt.Errorf("%w: %v", ErrSyntax, err)
			}
			return Frame{}, err
		}
		if v.Kind == '$' && !v.Null && strings.HasPrefix(v.Str, `{"ok":`) {
			return jsonFrame("resp", v.Str)
		}
		return respFrame("resp", v), nil
	}
	return Frame{}, fmt.Errorf("%w: unexpected first byte %q", ErrSyntax, b[0])
}

func peekUntil(rd *bufio.Reader, stop func(byte) bool, max int) ([]byte, error) {
	for n := 1; n <= max; n++ {
		b, err := rd.Peek(n)
		if err != nil {
			return nil, err
		}
		if stop(b[n-1]) {
			return b, nil
		}
	}
	return nil, fmt.Errorf("%w: frame header too long", ErrSyntax)
}

func respFrame(t string, v t38.Value) Frame {
	f := Frame{T: t, Enc: "resp", Norm: v.String()}
	switch v.Kind {
	case '+':
		switch v.Str {
		case "PONG":
			f.C = "pong"
		case "OK":
			f.C = "ok"
		default:
			f.C = "other"
		}
	case '-':
		f.C = "err"
	case ':':
		f.C = "int"
	case '$':
		if v.Null {
			f.C = "nil"
		} else {
			f.C, f.V = "bulk", v.Str
		}
	case '*':
		f.C = "arr"
	}
	return f
}

// jsonFrame classifies a JSON reply; "elapsed" is dropped from the normal form.
func jsonFrame(t, body string) (Frame, error) {
	var m map[string]interface{}
	dec := json.NewDecoder(strings.NewReader(body))
	dec.UseNumber()
	if err := dec.Decode(&m); err != nil {
		return Frame{}, fmt.Errorf("%w: reply is not a JSON object: %q", ErrSyntax, trunc(body, 200))
	}
	delete(m, "elapsed")
	keys := make([]string, 0, len(m))
	for k := range m {
		keys = append(keys, k)
	}
	sort.Strings(keys)
	var nb bytes.Buffer
	for _, k := range keys {
		vb, _ := json.Marshal(m[k])
		fmt.Fprintf(&nb, "%s=%s;", k, vb)
	}
	f := Frame{T: t, Enc: "json", Norm: nb.String()}
	ok, _ := m["ok"].(bool)
	switch {
	case !ok:
		f.C = "err"
	case m["ping"] != nil:
		f.C = "pong"
	case m["echo"] != nil:
		f.C = "bulk"
		f.V, _ = m["echo"].(string)
	case m["object"] != nil:
		f.C = "bulk"
		f.V, _ = m["object"].(string)
	case len(m) == 1:
		f.C = "ok"
	default:
		f.C = "other"
	}
	return f, nil
}

func readHTTP(rd *bufio.Reader) (Frame, error) {
	status, err := rd.ReadString('\n')
	if err != nil {
		return Frame{}, err
	}
	if !strings.HasPrefix(status, "HTTP/1.1 ") || !strings.HasSuffix(status, "\r\n") {
		return Frame{}, fmt.Errorf("%w: HTTP status line %q", ErrSyntax, status)
	}
	cl := -1
	for {
		h, err := rd.ReadString('\n')
		if err != nil {
			return Frame{}, err
		}
		if !strings.HasSuffix(h, "\r\n") {
			return Frame{}, fmt.Errorf("%w: HTTP header %q", ErrSyntax, h)
		}
		h = strings.TrimSuffix(h, "\r\n")
		if h == "" {
			break
		}
		if i := strings.IndexByte(h, ':'); i > 0 && strings.EqualFold(h[:i], "Content-Length") {
			cl, err = strconv.Atoi(strings.TrimSpace(h[i+1:]))
			if err != nil || cl < 0 {
				return Frame{}, fmt.Errorf("%w: Content-Length %q", ErrSyntax, h)
			}
		}
	}
	code := strings.TrimSuffix(strings.TrimPrefix(status, "HTTP/1.1 "), "\r\n")
	if cl < 0 {
		// a bare status (the "500 Bad Request" answer to an empty command name)
		return Frame{T: "raw", Enc: "none", C: "err", Norm: code}, nil
	}
	body := make([]byte, cl)
	if _, err := io.ReadFull(rd, body); err != nil {
		return Frame{}, err
	}
	if !bytes.HasSuffix(body, []byte("\r\n")) {
		return Frame{}, fmt.Errorf("%w: HTTP body does not end in CRLF", ErrSyntax)
	}
	if len(body) > 0 && body[0] == '{' {
		f, err := jsonFrame("http", string(body[:cl-2]))
		f.Norm = code + " " + f.Norm
		return f, err
	}
	// a RESP-encoded body (the connection's output type was switched to RESP before)
	v, err := t38.ReadValue(bufio.NewReader(bytes.NewReader(body[:cl-2])))
	if err != nil {
		return Frame{}, fmt.Errorf("%w: HTTP body %q", ErrSyntax, trunc(string(body), 200))
	}
	f := respFrame("http", v)
	f.Norm = code + " " + f.Norm
	return f, nil
}

func trunc(s string, n int) string {
	if len(s) > n {
		return s[:n] + fmt.Sprintf("...(%d bytes)", len(s))
	}
	return s
}

// Short renders a frame for messages.
func (f Frame) Short() string {
	return fmt.Sprintf("%s/%s:%s", f.T, f.Enc, trunc(f.Norm, 120))
}
