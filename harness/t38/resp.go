// Package t38 is the verification harness' own, independent client side:
// RESP encoder/decoder, server control and hook dispatch.
package t38

import (
	"strings"
	"bufio"
	"errors"
	"fmt"
	"io"
	"net"
	"strconv"
	"time"
)

// Value is one decoded RESP value.
type Value struct {
	Kind byte // '+', '-', ':', '$', '*'
	Str  string
	Int  int64
	Null bool
	Arr  []Value
}

func (v Value) String() string {
	switch v.Kind {
	case '+':
		return "+" + v.Str
	case '-':
		return "-" + v.Str
	case ':':
		return ":" + strconv.FormatInt(v.Int, 10)
	case '$':
		if v.Null {
			return "$nil"
		}
		return "$" + strconv.Quote(v.Str)
	case '*':
		if v.Null {
			return "*nil"
		}
		s := "["
		for i, a := range v.Arr {
			if i > 0 {
				s += " "
			}
			s += a.String()
		}
		return s + "]"
	}
	return "?"
}

// ErrProtocol is returned for a reply that is not valid RESP.
var ErrProtocol = errors.New("invalid RESP")

// ReadValue decodes exactly one RESP value.
func ReadValue(rd *bufio.Reader) (Value, error) {
	line, err := readLine(rd)
	if err != nil {
		return Value{}, err
	}
	if len(line) == 0 {
		return Value{}, ErrProtocol
	}
	switch line[0] {
	case '+', '-':
		return Value{Kind: line[0], Str: line[1:]}, nil
	case ':':
		n, err := strconv.ParseInt(line[1:], 10, 64)
		if err != nil {
			return Value{}, ErrProtocol
		}
		return Value{Kind: ':', Int: n}, nil
	case '$':
		n, err := strconv.Atoi(line[1:])
		if err != nil {
			return Value{}, ErrProtocol
		}
		if n < 0 {
			return Value{Kind: '$', Null: true}, nil
		}
		buf := make([]byte, n+2)
		if _, err := io.ReadFull(rd, buf); err != nil {
			return Value{}, err
		}
		if buf[n] != '\r' || buf[n+1] != '\n' {
			return Value{}, ErrProtocol
		}
		return Value{Kind: '$', Str: string(buf[:n])}, nil
	case '*':
		n, err := strconv.Atoi(line[1:])
		if err != nil {
			return Value{}, ErrProtocol
		}
		if n < 0 {
			return Value{Kind: '*', Null: true}, nil
		}
		v := Value{Kind: '*', Arr: make([]Value, 0, n)}
		for i := 0; i < n; i++ {
			e, err := ReadValue(rd)
			if err != nil {
				return Value{}, err
			}
			v.Arr = append(v.Arr, e)
		}
		return v, nil
	}
	return Value{}, ErrProtocol
}

func readLine(rd *bufio.Reader) (string, error) {
	b, err := rd.ReadBytes('\n')
	if err != nil {
		return "", err
	}
	if len(b) < 2 || b[len(b)-2] != '\r' {
		return "", ErrProtocol
	}
	return string(b[:len(b)-2]), nil
}

// AppendCommand encodes a command as a RESP array of bulk strings.
func AppendCommand(b []byte, args ...string) []byte {
	b = append(b, '*')
	b = strconv.AppendInt(b, int64(len(args)), 10)
	b = append(b, '\r', '\n')
	for _, a := range args {
		b = append(b, '$')
		b = strconv.AppendInt(b, int64(len(a)), 10)
		b = append(b, '\r', '\n')
		b = append(b, a...)
		b = append(b, '\r', '\n')
	}
	return b
}

// Conn is a client connection.
type Conn struct {
	C       net.Conn
	Rd      *bufio.Reader
	Timeout time.Duration
}

// Dial connects to a server.
func Dial(addr string) (*Conn, error) {
	// drivers that start tens of thousands of servers run the machine out of ephemeral ports for a moment
	// ("cannot assign requested address"): wait for ports to come back instead of failing
	var c net.Conn
	var err error
	for try := 0; try < 100; try++ {
		c, err = net.DialTimeout("tcp", addr, 5*time.Second)
		if err == nil || !strings.Contains(err.Error(), "cannot assign requested address") {
			break
		}
		time.Sleep(100 * time.Millisecond)
	}
	if err != nil {
		return nil, err
	}
	if tc, ok := c.(*net.TCPConn); ok {
		tc.SetNoDelay(true)
	}
	return &Conn{C: c, Rd: bufio.NewReaderSize(c, 1<<16), Timeout: 30 * time.Second}, nil
}

// Close closes the connection with a reset (SO_LINGER 0): every reply has been read by then, and a socket closed this
// way does not sit in TIME_WAIT - drivers that open tens of thousands of connections per minute would otherwise run
// the machine out of ephemeral ports.
func (c *Conn) Close() error {
	if tc, ok := c.C.(*net.TCPConn); ok {
		tc.SetLinger(0)
	}
	return c.C.Close()
}

// Send writes one command without waiting for the reply.
func (c *Conn) Send(args ...string) error {
	c.C.SetWriteDeadline(time.Now().Add(c.Timeout))
	_, err := c.C.Write(AppendCommand(nil, args...))
	return err
}

// Recv reads one reply.
func (c *Conn) Recv() (Value, error) {
	c.C.SetReadDeadline(time.Now().Add(c.Timeout))
	return ReadValue(c.Rd)
}

// Do sends a command and reads its reply.
func (c *Conn) Do(args ...string) (Value, error) {
	if err := c.Send(args...); err != nil {
		return Value{}, err
	}
	return c.Recv()
}

// MustDo is Do that panics on transport errors.
func (c *Conn) MustDo(args ...string) Value {
	v, err := c.Do(args...)
	if err != nil {
		panic(fmt.Sprintf("transport error on %q: %v", args, err))
	}
	return v
}
