package t38

import (
	"bytes"
	"fmt"
	"io"
	"net"
	"os"
	"path/filepath"
	"runtime"
	"strconv"
	"strings"
	"sync"
	"sync/atomic"
	"time"

	"github.com/tidwall/tile38/internal/log"
	"github.com/tidwall/tile38/internal/server"
)

// HookFn receives an instrumentation point of one server.
type HookFn func(s *server.Server, point string, args ...interface{})

var (
	hookMu   sync.RWMutex
	hookFns  = map[int]HookFn{}         // by port
	hookGen  = map[int]int64{}          // by port: generation of the installed hook (a port is reused by later servers)
	hookSeq  int64
	srvByPrt = map[int]*server.Server{} // by port
	anyHook  HookFn                     // receives every point of every server (optional)
)

func init() {
	log.SetOutput(io.Discard)
	server.VerifHook = dispatch
}

func dispatch(s *server.Server, point string, args ...interface{}) {
	port := s.VerifPort()
	if point == "server.started" {
		hookMu.Lock()
		srvByPrt[port] = s
		hookMu.Unlock()
	}
	hookMu.RLock()
	fn := hookFns[port]
	all := anyHook
	hookMu.RUnlock()
	if all != nil {
		all(s, point, args...)
	}
	if fn != nil {
		fn(s, point, args...)
	}
}

// SetHook installs the hook function for the server that listens on port.
func SetHook(port int, fn HookFn) {
	hookMu.Lock()
	if fn == nil {
		delete(hookFns, port)
		delete(hookGen, port)
	} else {
		hookFns[port] = fn
		hookSeq++
		hookGen[port] = hookSeq
	}
	hookMu.Unlock()
}

// HookGeneration tells which installation of a hook a port currently carries (0: none).
func HookGeneration(port int) int64 {
	hookMu.RLock()
	defer hookMu.RUnlock()
	return hookGen[port]
}

// ClearHookIf removes the hook of a port unless a later server has installed its own meanwhile (ports are reused as soon
// as a listener is closed, which happens before Serve returns).
func ClearHookIf(port int, gen int64) {
	hookMu.Lock()
	if hookGen[port] == gen {
		delete(hookFns, port)
		delete(hookGen, port)
	}
	hookMu.Unlock()
}

// SetAnyHook installs a function that sees the points of every server.
func SetAnyHook(fn HookFn) {
	hookMu.Lock()
	anyHook = fn
	hookMu.Unlock()
}

// GoID returns the id of the calling goroutine (for per-goroutine bookkeeping in hooks).
func GoID() int64 {
	var buf [64]byte
	n := runtime.Stack(buf[:], false)
	b := buf[:n]
	b = bytes.TrimPrefix(b, []byte("goroutine "))
	i := bytes.IndexByte(b, ' ')
	id, _ := strconv.ParseInt(string(b[:i]), 10, 64)
	return id
}

// Srv is an in-process tile38 server.
type Srv struct {
	Port     int
	Dir      string
	Addr     string
	S        *server.Server
	shutdown chan bool
	done     chan error
	stopped  bool
	hookGen  int64 // generation of the hook this server was started with
}

var nextPort atomic.Int64

func init() {
	// spread concurrent harness processes over the port space
	nextPort.Store(int64(20000 + (os.Getpid()%400)*100))
}

// FreePort returns a TCP port that is free now and that this process has not handed out before.
func FreePort() int {
	for {
		port := int(nextPort.Add(1))
		if port > 60000 {
			nextPort.Store(20000)
			continue
		}
		ln, err := net.Listen("tcp", fmt.Sprintf("127.0.0.1:%d", port))
		if err != nil {
			continue
		}
		ln.Close()
		return port
	}
}

// Options for Start.
type Options struct {
	Dir       string // data directory (created); empty: a fresh temporary one
	Port      int    // 0: pick a free one
	Spinlock  bool
	Host      string // default 127.0.0.1
	Protected string
	Hook      HookFn
	NoAOF     bool
}

// Start starts a server in this process and waits until it answers. When the port was not
// given and turns out to be taken by another process, another port is tried.
func Start(o Options) (*Srv, error) {
	if o.Port != 0 {
		return start(o)
	}
	var err error
	for try := 0; try < 6; try++ {
		var s *Srv
		o2 := o
		if s, err = start(o2); err == nil {
			return s, nil
		}
		if !strings.Contains(err.Error(), "address already in use") {
			return nil, err
		}
		// (the port went to somebody else between the probe and the listen - an ephemeral port of an outgoing
		// connection, another process: another port is tried; start() has taken the hook of the failed one back)
	}
	return nil, err
}

func start(o Options) (*Srv, error) {
	if o.Dir == "" {
		d, err := os.MkdirTemp("", "t38v-")
		if err != nil {
			return nil, err
		}
		o.Dir = d
	}
	if o.Port == 0 {
		o.Port = FreePort()
	}
	if o.Host == "" {
		o.Host = "127.0.0.1"
	}
	s := &Srv{Port: o.Port, Dir: o.Dir, Addr: fmt.Sprintf("%s:%d", o.Host, o.Port),
		shutdown: make(chan bool), done: make(chan error, 1)}
	if o.Hook != nil {
		SetHook(o.Port, o.Hook)
	}
	s.hookGen = HookGeneration(o.Port)
	go func() {
		s.done <- server.Serve(server.Options{
			Host: o.Host, Port: o.Port, Dir: o.Dir, UseHTTP: true, DevMode: true,
			AppendOnly: !o.NoAOF, Shutdown: s.shutdown, Spinlock: o.Spinlock,
			ProtectedMode: o.Protected,
		})
	}()
	deadline := time.Now().Add(60 * time.Second)
	for {
		select {
		case err := <-s.done:
			s.stopped = true
			if o.Hook != nil {
				ClearHookIf(o.Port, s.hookGen)
			}
			return nil, fmt.Errorf("server exited during start: %v", err)
		default:
		}
		c, err := Dial(s.Addr)
		if err == nil {
			v, err := c.Do("PING")
			closeNow(c)
			if err == nil && v.Kind == '+' && v.Str == "PONG" {
				break
			}
			if err == nil && v.Kind == '-' && len(v.Str) > 7 && v.Str[:7] == "LOADING" {
				time.Sleep(2 * time.Millisecond)
				continue
			}
		}
		if time.Now().After(deadline) {
			return nil, fmt.Errorf("server on %s did not start", s.Addr)
		}
		time.Sleep(2 * time.Millisecond)
	}
	// wait for loadedAndReady (PING is answered before)
	for {
		c, err := Dial(s.Addr)
		if err != nil {
			return nil, err
		}
		v, err := c.Do("SERVER")
		closeNow(c)
		if err == nil && !(v.Kind == '-' && len(v.Str) > 7 && v.Str[:7] == "LOADING") {
			break
		}
		if time.Now().After(deadline) {
			return nil, fmt.Errorf("server on %s stuck loading", s.Addr)
		}
		time.Sleep(2 * time.Millisecond)
	}
	time.Sleep(3 * time.Millisecond)
	select {
	case err := <-s.done:
		s.stopped = true
		return nil, fmt.Errorf("server exited during start: %v", err)
	default:
	}
	hookMu.RLock()
	s.S = srvByPrt[o.Port]
	hookMu.RUnlock()
	if s.S == nil {
		return nil, fmt.Errorf("server.started hook did not fire: /repo not built with -tags verif?")
	}
	return s, nil
}

// closeNow closes a polling connection with a reset, so that it does not linger in TIME_WAIT: drivers that start
// tens of thousands of servers would otherwise run out of ephemeral ports.
func closeNow(c *Conn) {
	if tc, ok := c.C.(*net.TCPConn); ok {
		tc.SetLinger(0)
	}
	c.Close()
}

var leaked atomic.Int64

// Stop shuts the server down cleanly and waits for Serve to return.
func (s *Srv) Stop() error {
	if s == nil || s.stopped {
		return nil
	}
	s.stopped = true
	close(s.shutdown)
	select {
	case err := <-s.done:
		ClearHookIf(s.Port, s.hookGen)
		if s.S != nil {
			s.S.VerifCloseFiles() // Serve leaves its log and hook queue open
		}
		// nothing may keep the stopped server (dataset, buffers, interpreters) alive: drivers run 10^5 lifetimes per process
		hookMu.Lock()
		if srvByPrt[s.Port] == s.S {
			delete(srvByPrt, s.Port)
		}
		hookMu.Unlock()
		s.S = nil
		return err
	case <-time.After(90 * time.Second):
		// Serve did not return (a busy machine, or a shutdown that waits for something): the server is left behind -
		// it no longer accepts connections - and reported, a verdict never depends on it
		leaked.Add(1)
		fmt.Fprintf(os.Stderr, "t38: server on %s did not stop within 90 s (left behind; %d so far)\n", s.Addr, leaked.Load())
		return nil
	}
}

// StopAndRemove stops the server and deletes its data directory.
func (s *Srv) StopAndRemove() {
	if s == nil {
		return
	}
	s.Stop()
	os.RemoveAll(s.Dir)
}

// Dial opens a client connection to the server.
func (s *Srv) Dial() (*Conn, error) { return Dial(s.Addr) }

// AOFPath is the path of the append-only file.
func (s *Srv) AOFPath() string { return filepath.Join(s.Dir, "appendonly.aof") }
