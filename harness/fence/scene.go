// Package fence binds spec/Fence.tla (C05, static geofences) to the real code.
//
// scene.go: the harness' own, independent geometry.  A scene is a reference
// frame (a latitude/longitude rectangle given directly, as a web-mercator
// tile or as a geohash cell), cells (positions of objects: points or small
// rectangles, in coordinates relative to the frame), areas (the fenced
// regions: rectangles, polygons, circles, the tile / geohash itself) and the
// fences on them.  From the concrete coordinates this file computes the
// tables that enter the specification as CONSTANTS:
//
//	Inside[a][c]    an object on cell c satisfies the spatial test of area a
//	Cross[a][c][d]  the straight segment between the centres of c and d meets a
//	Touch[a][c]     the rectangle of an object on c meets the bounding rectangle of a
//	TouchU[a][c][d] the rectangle spanned by objects on c and d meets it
//
// Every predicate is decided with a clearance: a scene in which a position
// lies closer to a boundary than the margin is rejected (the conventions of
// boundary points are not part of C05), so rounding never decides a case.
// Nothing here is taken from tile38 or its geometry packages.
package fence

import (
	"fmt"
	"math"
	"strconv"
	"strings"
)

// MeanEarthRadius is the IUGG mean radius R1 in metres.
const MeanEarthRadius = 6371008.8

// Frame is the reference rectangle of a scene.
type Frame struct {
	Type   string  `json:"type"` // bounds | tile | hash
	MinLat float64 `json:"minlat"`
	MinLon float64 `json:"minlon"`
	MaxLat float64 `json:"maxlat"`
	MaxLon float64 `json:"maxlon"`
	X      int     `json:"x"`
	Y      int     `json:"y"`
	Z      int     `json:"z"`
	Hash   string  `json:"hash"`
}

// CellDef is a position in frame coordinates ((0,0) = south-west corner, (1,1) = north-east corner).
type CellDef struct {
	Name string  `json:"name"`
	U    float64 `json:"u"`
	V    float64 `json:"v"`
	HW   float64 `json:"hw"` // half width / height in frame units; 0 = a point
	HH   float64 `json:"hh"`
}

// AreaDef is a fenced region and the way it is written in the command.
type AreaDef struct {
	Cmd  string       `json:"cmd"`  // nearby | within | intersects
	Form string       `json:"form"` // bounds | tile | hash | object | circle | point
	Rect []float64    `json:"rect"` // u0 v0 u1 v1 for form bounds / rectangular object (default 0 0 1 1)
	Ring [][2]float64 `json:"ring"` // polygon ring in frame units for form object
	CU   float64      `json:"cu"`   // circle centre in frame units
	CV   float64      `json:"cv"`
	RW   float64      `json:"rw"` // circle radius as a fraction of the frame's width in metres
}

// FenceDef is one fence under test.
type FenceDef struct {
	Area     int      `json:"area"`   // 1-based
	Detect   []string `json:"detect"` // nil = no DETECT clause
	Commands []string `json:"commands"`
	Match    string   `json:"match"` // "" = no MATCH clause
	Where    bool     `json:"where"` // WHERE <field> wlo whi
	NoFields bool     `json:"nofields"`
}

// SceneDef is the input of fence-table.
type SceneDef struct {
	Name   string     `json:"name"`
	Frame  Frame      `json:"frame"`
	Cells  []CellDef  `json:"cells"`
	Areas  []AreaDef  `json:"areas"`
	Fences []FenceDef `json:"fences"`
	Field  string     `json:"field"`
	WLo    int        `json:"wlo"`
	WHi    int        `json:"whi"`
	Margin float64    `json:"margin"` // clearance in frame units (and relative to the radius for circles)
}

// Cell is a concrete position: the exact strings sent in SET and the values they denote.
type Cell struct {
	Name   string     `json:"name"`
	Args   []string   `json:"args"` // POINT lat lon | BOUNDS minlat minlon maxlat maxlon
	Lon    float64    `json:"lon"`  // centre
	Lat    float64    `json:"lat"`
	Rect   [4]float64 `json:"rect"` // minlon minlat maxlon maxlat
	IsRect bool       `json:"is_rect"`
}

// Area is a concrete fenced region.
type Area struct {
	Cmd    string       `json:"cmd"`
	Form   string       `json:"form"`
	Args   []string     `json:"args"` // the area part of the fence command
	Ring   [][2]float64 `json:"ring"` // lon, lat (polygon areas)
	Circle bool         `json:"circle"`
	CLat   float64      `json:"clat"`
	CLon   float64      `json:"clon"`
	Meters float64      `json:"meters"`
	BBox   [4]float64   `json:"bbox"` // minlon minlat maxlon maxlat
	// a cell that lies inside the area as an object (position of the quiescence sentinel), 1-based
	SentinelCell int `json:"sentinel_cell"`
}

// Table is what fence-table prints and fence-replay reads back.
type Table struct {
	Scene        SceneDef       `json:"scene"`
	FrameBox     [4]float64     `json:"frame_box"` // minlon minlat maxlon maxlat
	Cells        []Cell         `json:"cells"`
	Areas        []Area         `json:"areas"`
	Inside       [][]bool       `json:"inside"`
	Cross        [][][]bool     `json:"cross"`
	CrossOrigin  [][]bool       `json:"cross_origin"` // segment from longitude 0 / latitude 0 to the cell
	Touch        [][]bool       `json:"touch"`
	TouchU       [][][]bool     `json:"touch_u"`
	MinClearance float64        `json:"min_clearance"`
	Counts       map[string]int `json:"counts"`
}

func rad(d float64) float64 { return d * math.Pi / 180 }
func deg(r float64) float64 { return r * 180 / math.Pi }

// Haversine returns the great-circle distance in metres on the mean sphere.
func Haversine(lat1, lon1, lat2, lon2 float64) float64 {
	p1, p2 := rad(lat1), rad(lat2)
	sp := math.Sin((p2 - p1) / 2)
	sl := math.Sin(rad(lon2-lon1) / 2)
	a := sp*sp + math.Cos(p1)*math.Cos(p2)*sl*sl
	if a > 1 {
		a = 1
	}
	return 2 * MeanEarthRadius * math.Asin(math.Sqrt(a))
}

// tileBox: bounds of web-mercator tile x y z (minlon minlat maxlon maxlat).
func tileBox(x, y, z int) [4]float64 {
	n := math.Pow(2, float64(z))
	lat := func(yy float64) float64 { return deg(math.Atan(math.Sinh(math.Pi * (1 - 2*yy/n)))) }
	return [4]float64{float64(x)/n*360 - 180, lat(float64(y + 1)), float64(x+1)/n*360 - 180, lat(float64(y))}
}

// hashBox: bounds of a geohash cell.
func hashBox(h string) ([4]float64, error) {
	const alphabet = "0123456789bcdefghjkmnpqrstuvwxyz"
	lon := [2]float64{-180, 180}
	lat := [2]float64{-90, 90}
	even := true
	for _, ch := range h {
		i := strings.IndexRune(alphabet, ch)
		if i < 0 {
			return [4]float64{}, fmt.Errorf("bad geohash %q", h)
		}
		for b := 4; b >= 0; b-- {
			bit := (i >> uint(b)) & 1
			r := &lat
			if even {
				r = &lon
			}
			mid := (r[0] + r[1]) / 2
			if bit == 1 {
				r[0] = mid
			} else {
				r[1] = mid
			}
			even = !even
		}
	}
	return [4]float64{lon[0], lat[0], lon[1], lat[1]}, nil
}

func fmtDeg(x float64) (string, float64) {
	s := strconv.FormatFloat(x, 'f', 7, 64)
	v, _ := strconv.ParseFloat(s, 64)
	return s, v
}

type pt struct{ x, y float64 }

func sub(a, b pt) pt         { return pt{a.x - b.x, a.y - b.y} }
func cross2(a, b pt) float64 { return a.x*b.y - a.y*b.x }
func dot(a, b pt) float64    { return a.x*b.x + a.y*b.y }

func distPtSeg(p, a, b pt) float64 {
	ab := sub(b, a)
	l2 := dot(ab, ab)
	if l2 == 0 {
		return math.Hypot(p.x-a.x, p.y-a.y)
	}
	t := dot(sub(p, a), ab) / l2
	t = math.Max(0, math.Min(1, t))
	q := pt{a.x + t*ab.x, a.y + t*ab.y}
	return math.Hypot(p.x-q.x, p.y-q.y)
}

func segsIntersect(a, b, c, d pt) bool {
	o := func(p, q, r pt) float64 { return cross2(sub(q, p), sub(r, p)) }
	d1, d2, d3, d4 := o(c, d, a), o(c, d, b), o(a, b, c), o(a, b, d)
	if ((d1 > 0 && d2 < 0) || (d1 < 0 && d2 > 0)) && ((d3 > 0 && d4 < 0) || (d3 < 0 && d4 > 0)) {
		return true
	}
	on := func(p, q, r pt) bool { // r on segment pq, given collinear
		return math.Min(p.x, q.x) <= r.x && r.x <= math.Max(p.x, q.x) && math.Min(p.y, q.y) <= r.y && r.y <= math.Max(p.y, q.y)
	}
	return (d1 == 0 && on(c, d, a)) || (d2 == 0 && on(c, d, b)) || (d3 == 0 && on(a, b, c)) || (d4 == 0 && on(a, b, d))
}

func distSegSeg(a, b, c, d pt) float64 {
	if segsIntersect(a, b, c, d) {
		return 0
	}
	return math.Min(math.Min(distPtSeg(a, c, d), distPtSeg(b, c, d)), math.Min(distPtSeg(c, a, b), distPtSeg(d, a, b)))
}

// region is an area in frame coordinates with the predicates the tables need.
// Every predicate returns its value and a clearance (how far the configuration is from flipping).
type region interface {
	point(p pt) (bool, float64)
	segment(a, b pt) (bool, float64)    // closed segment meets the closed region
	rectWithin(r [4]pt) (bool, float64) // rectangle (corners, counter-clockwise) lies inside
	rectMeets(r [4]pt) (bool, float64)  // rectangle meets the region
}

// ---------------------------------------------------------------- polygons (frame units)
type polygon struct{ ring []pt } // closed: first == last

func (g polygon) boundaryDist(p pt) float64 {
	d := math.Inf(1)
	for i := 0; i+1 < len(g.ring); i++ {
		d = math.Min(d, distPtSeg(p, g.ring[i], g.ring[i+1]))
	}
	return d
}

func (g polygon) point(p pt) (bool, float64) {
	in := false
	for i := 0; i+1 < len(g.ring); i++ {
		a, b := g.ring[i], g.ring[i+1]
		if (a.y > p.y) != (b.y > p.y) && p.x < (b.x-a.x)*(p.y-a.y)/(b.y-a.y)+a.x {
			in = !in
		}
	}
	return in, g.boundaryDist(p)
}

func (g polygon) segBoundaryDist(a, b pt) float64 {
	d := math.Inf(1)
	for i := 0; i+1 < len(g.ring); i++ {
		d = math.Min(d, distSegSeg(a, b, g.ring[i], g.ring[i+1]))
	}
	return d
}

func (g polygon) segment(a, b pt) (bool, float64) {
	d := g.segBoundaryDist(a, b)
	if d > 0 {
		// the segment does not touch the boundary: it is entirely inside or entirely outside
		in, _ := g.point(a)
		return in, d
	}
	// it meets the boundary: robust only if some point of it lies well inside
	best := 0.0
	const n = 2000
	for i := 0; i <= n; i++ {
		t := float64(i) / n
		p := pt{a.x + t*(b.x-a.x), a.y + t*(b.y-a.y)}
		if in, c := g.point(p); in && c > best {
			best = c
		}
	}
	return true, best
}

func rectEdges(r [4]pt) [4][2]pt {
	return [4][2]pt{{r[0], r[1]}, {r[1], r[2]}, {r[2], r[3]}, {r[3], r[0]}}
}

func (g polygon) rectWithin(r [4]pt) (bool, float64) {
	// inside iff the boundary of the rectangle does not meet the boundary of the polygon, one corner is inside,
	// and no polygon vertex lies in the rectangle
	d := math.Inf(1)
	for _, e := range rectEdges(r) {
		d = math.Min(d, g.segBoundaryDist(e[0], e[1]))
	}
	if d == 0 {
		// boundaries meet: not within; clearance = how deep a part of the rectangle lies outside
		best := 0.0
		for _, c := range r {
			if in, cl := g.point(c); !in && cl > best {
				best = cl
			}
		}
		return false, best
	}
	in, _ := g.point(r[0])
	for _, v := range g.ring {
		if v.x > r[0].x && v.x < r[2].x && v.y > r[0].y && v.y < r[2].y {
			return false, d // the polygon lies inside the rectangle
		}
	}
	return in, d
}

func (g polygon) rectMeets(r [4]pt) (bool, float64) {
	d := math.Inf(1)
	for _, e := range rectEdges(r) {
		d = math.Min(d, g.segBoundaryDist(e[0], e[1]))
	}
	if d == 0 {
		best := 0.0
		for _, c := range r {
			if in, cl := g.point(c); in && cl > best {
				best = cl
			}
		}
		// also the polygon's vertices inside the rectangle count as depth
		for _, v := range g.ring {
			if v.x > r[0].x && v.x < r[2].x && v.y > r[0].y && v.y < r[2].y {
				dd := math.Min(math.Min(v.x-r[0].x, r[2].x-v.x), math.Min(v.y-r[0].y, r[2].y-v.y))
				best = math.Max(best, dd)
			}
		}
		return true, best
	}
	in, _ := g.point(r[0])
	if in {
		return true, d
	}
	for _, v := range g.ring {
		if v.x > r[0].x && v.x < r[2].x && v.y > r[0].y && v.y < r[2].y {
			return true, d
		}
	}
	return false, d
}

// ---------------------------------------------------------------- circles (metres on the sphere)
type circle struct {
	lat, lon, meters float64
	ctr              pt // centre in frame units
	toLL             func(p pt) (lat, lon float64)
}

func (c circle) rel(p pt) float64 { // distance to the centre relative to the radius
	lat, lon := c.toLL(p)
	return Haversine(c.lat, c.lon, lat, lon) / c.meters
}

func (c circle) point(p pt) (bool, float64) {
	r := c.rel(p)
	return r <= 1, math.Abs(r - 1)
}

func (c circle) minmaxOnSeg(a, b pt) (float64, float64) {
	lo, hi := math.Inf(1), 0.0
	const n = 4000
	for i := 0; i <= n; i++ {
		t := float64(i) / n
		r := c.rel(pt{a.x + t*(b.x-a.x), a.y + t*(b.y-a.y)})
		lo, hi = math.Min(lo, r), math.Max(hi, r)
	}
	return lo, hi
}

func (c circle) segment(a, b pt) (bool, float64) {
	lo, _ := c.minmaxOnSeg(a, b)
	return lo <= 1, math.Abs(lo - 1)
}

func (c circle) rectWithin(r [4]pt) (bool, float64) {
	hi := 0.0
	for _, e := range rectEdges(r) {
		_, h := c.minmaxOnSeg(e[0], e[1])
		hi = math.Max(hi, h)
	}
	return hi <= 1, math.Abs(hi - 1)
}

func (c circle) rectMeets(r [4]pt) (bool, float64) {
	lo := math.Inf(1)
	for _, e := range rectEdges(r) {
		l, _ := c.minmaxOnSeg(e[0], e[1])
		lo = math.Min(lo, l)
	}
	if c.ctr.x >= r[0].x && c.ctr.x <= r[2].x && c.ctr.y >= r[0].y && c.ctr.y <= r[2].y {
		lo = 0 // the centre lies in the rectangle
	}
	return lo <= 1, math.Abs(lo - 1)
}

// clipSeg clips the segment a-b to the square [lo,hi] x [lo,hi] (Liang-Barsky); ok = false: it misses the square.
func clipSeg(a, b pt, lo, hi float64) (pt, pt, bool) {
	t0, t1 := 0.0, 1.0
	d := sub(b, a)
	for _, e := range [4][2]float64{{-d.x, a.x - lo}, {d.x, hi - a.x}, {-d.y, a.y - lo}, {d.y, hi - a.y}} {
		p, q := e[0], e[1]
		if p == 0 {
			if q < 0 {
				return a, b, false
			}
			continue
		}
		r := q / p
		if p < 0 {
			t0 = math.Max(t0, r)
		} else {
			t1 = math.Min(t1, r)
		}
	}
	if t0 > t1 {
		return a, b, false
	}
	return pt{a.x + t0*d.x, a.y + t0*d.y}, pt{a.x + t1*d.x, a.y + t1*d.y}, true
}

// rectsMeet: do two closed axis-parallel rectangles (lo, hi corners; possibly degenerate) meet, and by how much
// would one have to be shifted to change that.
func rectsMeet(lo1, hi1, lo2, hi2 pt) (bool, float64) {
	sx := math.Min(hi1.x-lo2.x, hi2.x-lo1.x) // >= 0: the x intervals overlap
	sy := math.Min(hi1.y-lo2.y, hi2.y-lo1.y)
	if sx >= 0 && sy >= 0 {
		return true, math.Min(sx, sy)
	}
	return false, math.Max(-sx, -sy)
}

// ---------------------------------------------------------------- building the table

// BuildTable computes the concrete scene and its tables.
func BuildTable(sd SceneDef) (*Table, error) {
	if sd.Margin <= 0 {
		sd.Margin = 0.04
	}
	t := &Table{Scene: sd, Counts: map[string]int{}}
	var box [4]float64
	switch sd.Frame.Type {
	case "bounds":
		box = [4]float64{sd.Frame.MinLon, sd.Frame.MinLat, sd.Frame.MaxLon, sd.Frame.MaxLat}
	case "tile":
		box = tileBox(sd.Frame.X, sd.Frame.Y, sd.Frame.Z)
	case "hash":
		var err error
		if box, err = hashBox(sd.Frame.Hash); err != nil {
			return nil, err
		}
	default:
		return nil, fmt.Errorf("unknown frame type %q", sd.Frame.Type)
	}
	t.FrameBox = box
	W, H := box[2]-box[0], box[3]-box[1]
	if W <= 0 || H <= 0 {
		return nil, fmt.Errorf("empty frame")
	}
	toLL := func(p pt) (lat, lon float64) { return box[1] + p.y*H, box[0] + p.x*W }
	toUV := func(lon, lat float64) pt { return pt{(lon - box[0]) / W, (lat - box[1]) / H} }
	clear := math.Inf(1)
	note := func(what string, c float64) error {
		if c < sd.Margin {
			return fmt.Errorf("scene %s unfit: %s has clearance %.4f < %.4f", sd.Name, what, c, sd.Margin)
		}
		clear = math.Min(clear, c)
		return nil
	}

	// cells
	type cgeo struct {
		c    pt
		rect [4]pt
	}
	var cg []cgeo
	for _, cd := range sd.Cells {
		var c Cell
		c.Name = cd.Name
		if cd.HW > 0 {
			lat0, lon0 := toLL(pt{cd.U - cd.HW, cd.V - cd.HH})
			lat1, lon1 := toLL(pt{cd.U + cd.HW, cd.V + cd.HH})
			s0, a0 := fmtDeg(lat0)
			s1, o0 := fmtDeg(lon0)
			s2, a1 := fmtDeg(lat1)
			s3, o1 := fmtDeg(lon1)
			c.Args = []string{"BOUNDS", s0, s1, s2, s3}
			c.IsRect = true
			c.Rect = [4]float64{o0, a0, o1, a1}
			c.Lon, c.Lat = (o0+o1)/2, (a0+a1)/2
		} else {
			lat, lon := toLL(pt{cd.U, cd.V})
			sa, a := fmtDeg(lat)
			so, o := fmtDeg(lon)
			c.Args = []string{"POINT", sa, so}
			c.Lon, c.Lat = o, a
			c.Rect = [4]float64{o, a, o, a}
		}
		t.Cells = append(t.Cells, c)
		p0, p2 := toUV(c.Rect[0], c.Rect[1]), toUV(c.Rect[2], c.Rect[3])
		cg = append(cg, cgeo{c: toUV(c.Lon, c.Lat), rect: [4]pt{p0, {p2.x, p0.y}, p2, {p0.x, p2.y}}})
	}

	// areas
	for ai, ad := range sd.Areas {
		var a Area
		a.Cmd, a.Form = ad.Cmd, ad.Form
		var reg region
		rectRing := func(b [4]float64) [][2]float64 {
			return [][2]float64{{b[0], b[1]}, {b[2], b[1]}, {b[2], b[3]}, {b[0], b[3]}, {b[0], b[1]}}
		}
		switch ad.Form {
		case "bounds", "tile", "hash":
			b := box
			switch ad.Form {
			case "tile":
				if sd.Frame.Type != "tile" {
					return nil, fmt.Errorf("area form tile needs a tile frame")
				}
				a.Args = []string{"TILE", strconv.Itoa(sd.Frame.X), strconv.Itoa(sd.Frame.Y), strconv.Itoa(sd.Frame.Z)}
			case "hash":
				if sd.Frame.Type != "hash" {
					return nil, fmt.Errorf("area form hash needs a geohash frame")
				}
				a.Args = []string{"HASH", sd.Frame.Hash}
			default:
				r := ad.Rect
				if len(r) != 4 {
					r = []float64{0, 0, 1, 1}
				}
				lat0, lon0 := toLL(pt{r[0], r[1]})
				lat1, lon1 := toLL(pt{r[2], r[3]})
				s0, a0 := fmtDeg(lat0)
				s1, o0 := fmtDeg(lon0)
				s2, a1 := fmtDeg(lat1)
				s3, o1 := fmtDeg(lon1)
				a.Args = []string{"BOUNDS", s0, s1, s2, s3}
				b = [4]float64{o0, a0, o1, a1}
			}
			a.Ring = rectRing(b)
			a.BBox = b
		case "object":
			ring := ad.Ring
			if len(ring) == 0 {
				r := ad.Rect
				if len(r) != 4 {
					r = []float64{0, 0, 1, 1}
				}
				ring = [][2]float64{{r[0], r[1]}, {r[2], r[1]}, {r[2], r[3]}, {r[0], r[3]}, {r[0], r[1]}}
			}
			var sb strings.Builder
			sb.WriteString(`{"type":"Polygon","coordinates":[[`)
			bb := [4]float64{math.Inf(1), math.Inf(1), math.Inf(-1), math.Inf(-1)}
			for i, uv := range ring {
				lat, lon := toLL(pt{uv[0], uv[1]})
				if i == len(ring)-1 { // closing vertex: exactly the first
					lon, lat = a.Ring[0][0], a.Ring[0][1]
				}
				so, o := fmtDeg(lon)
				sa, la := fmtDeg(lat)
				if i > 0 {
					sb.WriteByte(',')
				}
				sb.WriteString("[" + so + "," + sa + "]")
				a.Ring = append(a.Ring, [2]float64{o, la})
				bb = [4]float64{math.Min(bb[0], o), math.Min(bb[1], la), math.Max(bb[2], o), math.Max(bb[3], la)}
			}
			sb.WriteString(`]]}`)
			a.Args = []string{"OBJECT", sb.String()}
			a.BBox = bb
		case "circle", "point":
			lat, lon := toLL(pt{ad.CU, ad.CV})
			sa, la := fmtDeg(lat)
			so, lo := fmtDeg(lon)
			widthM := Haversine(la, box[0], la, box[2])
			sm := strconv.FormatFloat(ad.RW*widthM, 'f', 2, 64)
			m, _ := strconv.ParseFloat(sm, 64)
			a.Circle, a.CLat, a.CLon, a.Meters = true, la, lo, m
			if ad.Form == "circle" {
				a.Args = []string{"CIRCLE", sa, so, sm}
			} else {
				a.Args = []string{"POINT", sa, so, sm}
			}
			dlat := deg(m / MeanEarthRadius)
			dlon := deg(math.Asin(math.Min(1, math.Sin(m/MeanEarthRadius)/math.Cos(rad(la)))))
			a.BBox = [4]float64{lo - dlon, la - dlat, lo + dlon, la + dlat}
			reg = circle{lat: la, lon: lo, meters: m, ctr: toUV(lo, la), toLL: toLL}
		default:
			return nil, fmt.Errorf("unknown area form %q", ad.Form)
		}
		if (ad.Form == "point") != (ad.Cmd == "nearby") {
			return nil, fmt.Errorf("area %d: NEARBY goes with POINT only", ai+1)
		}
		if !a.Circle {
			var g polygon
			for _, ll := range a.Ring {
				g.ring = append(g.ring, toUV(ll[0], ll[1]))
			}
			reg = g
		}
		bb0, bb2 := toUV(a.BBox[0], a.BBox[1]), toUV(a.BBox[2], a.BBox[3])

		n := len(cg)
		inside := make([]bool, n)
		touch := make([]bool, n)
		crossT := make([][]bool, n)
		touchU := make([][]bool, n)
		for ci, c := range cg {
			var in bool
			var cl float64
			isRect := t.Cells[ci].IsRect
			switch {
			case !isRect:
				in, cl = reg.point(c.c)
			case ad.Cmd == "within":
				in, cl = reg.rectWithin(c.rect)
			default:
				in, cl = reg.rectMeets(c.rect)
			}
			if err := note(fmt.Sprintf("area %d cell %s (inside=%v)", ai+1, t.Cells[ci].Name, in), cl); err != nil {
				return nil, err
			}
			inside[ci] = in
			if in {
				t.Counts["inside"]++
				if a.SentinelCell == 0 {
					a.SentinelCell = ci + 1
				}
			} else {
				t.Counts["outside"]++
			}
			// bounding rectangles: the margin is not enforced here (pre-selection is not part of the statement),
			// a tenth of it guards against rounding
			tin, cl := rectsMeet(c.rect[0], c.rect[2], bb0, bb2)
			if cl < sd.Margin/10 {
				return nil, fmt.Errorf("scene %s unfit: cell %s too close to the bounding rectangle of area %d", sd.Name, t.Cells[ci].Name, ai+1)
			}
			touch[ci] = tin
			if tin && !in {
				t.Counts["in_bbox_outside_area"]++
			}
			crossT[ci] = make([]bool, n)
			touchU[ci] = make([]bool, n)
		}
		for ci := range cg {
			for di := range cg {
				if di < ci {
					crossT[ci][di] = crossT[di][ci]
					touchU[ci][di] = touchU[di][ci]
					continue
				}
				var x bool
				var cl float64
				if ci == di {
					x, cl = reg.point(cg[ci].c)
				} else {
					x, cl = reg.segment(cg[ci].c, cg[di].c)
				}
				if err := note(fmt.Sprintf("area %d segment %s-%s (meets=%v)", ai+1, t.Cells[ci].Name, t.Cells[di].Name, x), cl); err != nil {
					return nil, err
				}
				crossT[ci][di] = x
				r0, r1 := cg[ci].rect, cg[di].rect
				lo := pt{math.Min(r0[0].x, r1[0].x), math.Min(r0[0].y, r1[0].y)}
				hi := pt{math.Max(r0[2].x, r1[2].x), math.Max(r0[2].y, r1[2].y)}
				u, cl := rectsMeet(lo, hi, bb0, bb2)
				if cl < sd.Margin/10 {
					return nil, fmt.Errorf("scene %s unfit: cells %s,%s span a rectangle too close to the bounding rectangle of area %d",
						sd.Name, t.Cells[ci].Name, t.Cells[di].Name, ai+1)
				}
				touchU[ci][di] = u
				if ci != di && !inside[ci] && !inside[di] {
					if x {
						t.Counts["outside_pairs_crossing"]++
					} else {
						t.Counts["outside_pairs_not_crossing"]++
						if u {
							t.Counts["outside_pairs_not_crossing_but_spanning"]++
						}
					}
				}
			}
		}
		origin := toUV(0, 0)
		crossO := make([]bool, n)
		for ci := range cg {
			// (every area lies within a few frame units of the frame: only that part of the long segment matters)
			x, cl := false, 1.0
			if p, q, ok := clipSeg(origin, cg[ci].c, -8, 9); ok {
				x, cl = reg.segment(p, q)
			}
			if err := note(fmt.Sprintf("area %d segment from 0,0 to %s (meets=%v)", ai+1, t.Cells[ci].Name, x), cl); err != nil {
				return nil, err
			}
			crossO[ci] = x
			if x && !inside[ci] {
				t.Counts["outside_cells_behind_the_area_seen_from_0_0"]++
			}
		}
		t.CrossOrigin = append(t.CrossOrigin, crossO)
		if a.SentinelCell == 0 {
			return nil, fmt.Errorf("scene %s: no cell lies inside area %d", sd.Name, ai+1)
		}
		t.Areas = append(t.Areas, a)
		t.Inside = append(t.Inside, inside)
		t.Cross = append(t.Cross, crossT)
		t.Touch = append(t.Touch, touch)
		t.TouchU = append(t.TouchU, touchU)
	}
	for fi, f := range sd.Fences {
		if f.Area < 1 || f.Area > len(sd.Areas) {
			return nil, fmt.Errorf("fence %d: bad area", fi+1)
		}
	}
	t.MinClearance = clear
	return t, nil
}
