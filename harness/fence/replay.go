package fence

// replay.go: model -> code.  Every behaviour printed by TLC (FenceGen /
// FenceSim) is executed against a real in-process server on which every fence
// of the scene is registered three times - as a webhook (SETHOOK to an HTTP
// endpoint inside the harness), as a channel (SETCHAN + a SUBSCRIBE
// connection) and as a live `... FENCE' connection - among a population of
// other hooks.  After every step the notifications received by each fence on
// each transport are compared with the items TLC computed (detect, command,
// id, geometry, fields; group and time are not compared).  All expected
// values are TLC's; this file only executes and compares.
//
// Quiescence is decided by sentinels, never by sleeping: a PUBLISH on a
// channel of the subscriber connection, and a SET + DEL of a sentinel object
// (inside the fence's area, with an id the fence's MATCH accepts) whose `del'
// notification is delivered, in order, on the fence's webhook and live
// connection.  Sentinel ids start with "~"; notifications about them are
// not part of the behaviour.

import (
	"encoding/json"
	"fmt"
	"io"
	"math/rand"
	"net"
	"net/http"
	"sort"
	"strconv"
	"strings"
	"sync"
	"sync/atomic"
	"time"

	"github.com/tidwall/tile38/verifharness/t38"
)

// Item is one expected notification (Fence!Item).
type Item struct {
	D    string `json:"d"`
	C    string `json:"c"`
	O    int    `json:"o"`
	Cell int    `json:"cell"`
	V    int    `json:"v"`
	Need string `json:"need"`
}

// Step is one element of Fence!hist.
type Step struct {
	Op   string   `json:"op"`
	O    int      `json:"o"`
	C    int      `json:"c"`
	V    int      `json:"v"`
	Ex   bool     `json:"ex"`
	Pat  []string `json:"pat"`
	Msgs [][]Item `json:"msgs"`
}

// Behaviour is one line printed by TLC.
type Behaviour struct {
	Ids [][]string `json:"ids"`
	H   []Step     `json:"h"`
}

// Mismatch is one disagreement between the real code and TLC's values.
type Mismatch struct {
	Behaviour int    `json:"behaviour"`
	Step      int    `json:"step"`
	Fence     int    `json:"fence"` // 1-based
	Transport string `json:"transport"`
	Class     string `json:"class"` // missing | extra | payload | shape
	Text      string `json:"text"`
}

// Stats counts what was compared.
type Stats struct {
	Behaviours   int            `json:"behaviours"`
	Steps        int            `json:"steps"`
	ByOp         map[string]int `json:"steps_by_op"`
	Compared     int            `json:"compared"` // (step, fence, transport) comparisons
	Agreed       int            `json:"agreed"`
	EmptyAgreed  int            `json:"empty_agreed"` // comparisons where TLC expects nothing and nothing came
	ItemsAgreed  int            `json:"items_agreed"` // notifications equal to TLC's item
	ByKind       map[string]int `json:"items_agreed_by_kind"`
	MayPresent   int            `json:"may_items_present"`
	MayAbsent    int            `json:"may_items_absent"`
	PerTransport map[string]int `json:"per_transport"`
	Classes      map[string]int `json:"mismatch_classes"`
	Messages     int            `json:"messages"`
	Sentinel     int            `json:"sentinel_messages"`
	Reregs       int            `json:"re_registrations"`
	Replaced     int            `json:"hooks_replaced_under_the_same_name"`
	Others       int            `json:"other_hooks_registered"`
	OthersGone   int            `json:"other_hooks_deleted"`
	ExpirySteps  int            `json:"expiry_steps"`
}

func NewStats() *Stats {
	return &Stats{ByOp: map[string]int{}, ByKind: map[string]int{}, PerTransport: map[string]int{}, Classes: map[string]int{}}
}

func (s *Stats) Add(o *Stats) {
	s.Behaviours += o.Behaviours
	s.Steps += o.Steps
	s.Compared += o.Compared
	s.Agreed += o.Agreed
	s.EmptyAgreed += o.EmptyAgreed
	s.ItemsAgreed += o.ItemsAgreed
	s.MayPresent += o.MayPresent
	s.MayAbsent += o.MayAbsent
	s.Messages += o.Messages
	s.Sentinel += o.Sentinel
	s.Reregs += o.Reregs
	s.Replaced += o.Replaced
	s.Others += o.Others
	s.OthersGone += o.OthersGone
	s.ExpirySteps += o.ExpirySteps
	for k, v := range o.ByOp {
		s.ByOp[k] += v
	}
	for k, v := range o.ByKind {
		s.ByKind[k] += v
	}
	for k, v := range o.PerTransport {
		s.PerTransport[k] += v
	}
	for k, v := range o.Classes {
		s.Classes[k] += v
	}
}

// ---------------------------------------------------------------- webhook sink

// Sink is the HTTP endpoint inside the harness; messages are routed by hook name.
type Sink struct {
	ln      net.Listener
	srv     *http.Server
	routes  sync.Map // hook name -> chan string
	retired sync.Map // names of deleted hooks
	Stray   int64
	// longest time a request spent in the handler (tile38 gives a request 5 s, then sends the notification again)
	SlowestMs int64
}

func NewSink() (*Sink, error) {
	ln, err := net.Listen("tcp", "127.0.0.1:0")
	if err != nil {
		return nil, err
	}
	k := &Sink{ln: ln}
	k.srv = &http.Server{Handler: http.HandlerFunc(func(w http.ResponseWriter, r *http.Request) {
		t0 := time.Now()
		defer func() {
			if ms := int64(time.Since(t0) / time.Millisecond); ms > atomic.LoadInt64(&k.SlowestMs) {
				atomic.StoreInt64(&k.SlowestMs, ms)
			}
		}()
		body, _ := io.ReadAll(r.Body)
		var m struct {
			Hook string `json:"hook"`
		}
		json.Unmarshal(body, &m)
		if ch, ok := k.routes.Load(m.Hook); ok {
			ch.(chan string) <- string(body)
		} else if _, gone := k.retired.Load(m.Hook); !gone && !strings.HasPrefix(m.Hook, "oth") {
			// (the population of other hooks is not observed)
			atomic.AddInt64(&k.Stray, 1)
		}
		w.WriteHeader(200)
	})}
	go k.srv.Serve(ln)
	return k, nil
}

func (k *Sink) URL(path string) string { return "http://" + k.ln.Addr().String() + "/" + path }
func (k *Sink) Close()                 { k.srv.Close() }

// ---------------------------------------------------------------- runner

// Options of a replay.
type Options struct {
	Table      *Table
	Transports []string // subset of chan, hook, live
	Dir        string
	Spinlock   bool
	Others     int   // population of other hooks
	Rereg      int   // re-register the fences under test every Rereg behaviours (0 = never)
	Seed       int64 // for the population and the registration order
	Only       int   // > 0: register and compare only this fence of the scene (1-based)
}

// A sentinel object.  Every round (one per step) it is SET inside the area - its position tagged with the round
// number as z coordinate - and deleted again.  A fence whose COMMANDS accept `del' is marked by that del (always
// delivered for an object that was inside the area).  For the others the FIRST notification carrying the round's tag
// proves that everything sent before has arrived (later ones are recognised by their ~ id and ignored); so that at
// least one write is reported whatever the DETECT clause, such a sentinel makes a tour outside -> inside -> outside
// -> across (tour), or just SET inside + FSET (when that is enough for all its fences).
type sentinel struct {
	id         string
	extra      string // second MATCH clause admitting the sentinel (fences with an exact-id MATCH)
	area       int    // 1-based
	tour       bool
	fset       bool
	in, o1, o2 int // 1-based point cells: inside, outside, outside with o1-o2 crossing the area
}

type fenceReg struct {
	def      FenceDef
	base     []string // the fence command after the key: options, FENCE, DETECT, COMMANDS, area
	cmd      string
	sent     int  // index into Runner.sentinels
	byDel    bool // marked by the sentinel's del (else by the first notification tagged with the round)
	hookName string
	chanName string
	hookCh   chan string
	live     *t38.Conn
}

// Runner owns one real server.
type Runner struct {
	o         Options
	id        int
	srv       *t38.Srv
	drv       *t38.Conn
	sub       *t38.Conn
	sink      *Sink
	has       map[string]bool
	key       string
	doneChan  string
	tokSeq    int
	gen       int
	fences    []*fenceReg
	sentinels []sentinel
	rng       *rand.Rand
	others    []string // names of the live other hooks ("c:"/"h:" prefix tells the kind)
	nOther    int
	nbeh      int
}

// patience bounds every wait for a reply or a sentinel (never used as a quiescence criterion).
const patience = 3 * time.Minute

func hasStr(xs []string, x string) bool {
	for _, y := range xs {
		if y == x {
			return true
		}
	}
	return false
}

// tourCells picks point cells of the scene: one inside the area and two outside whose segment crosses it.
func tourCells(t *Table, area int) (in, o1, o2 int, ok bool) {
	a := area - 1
	for c := range t.Cells {
		if !t.Cells[c].IsRect && t.Inside[a][c] && in == 0 {
			in = c + 1
		}
	}
	for c := range t.Cells {
		for d := range t.Cells {
			if o1 == 0 && c != d && !t.Cells[c].IsRect && !t.Cells[d].IsRect && !t.Inside[a][c] && !t.Inside[a][d] && t.Cross[a][c][d] {
				o1, o2 = c+1, d+1
			}
		}
	}
	return in, o1, o2, in != 0 && o1 != 0
}

// sentinelFor derives an id that the MATCH pattern accepts, that no object of a behaviour has (ids of behaviours are
// alphanumeric, sentinel ids contain punctuation) and that is unique for its group of fences.  For a pattern without
// wildcard a second MATCH clause (extra) has to admit the sentinel.
const sentinelChars = "~!#$%&+=@^"

func sentinelFor(glob string, n int) (id string, extra string, err error) {
	if n < 0 || n >= len(sentinelChars) {
		return "", "", fmt.Errorf("too many sentinels")
	}
	tag := "~s" + strconv.Itoa(n)
	if glob == "" {
		return tag, "", nil
	}
	if strings.ContainsAny(glob, "*?") {
		return strings.NewReplacer("*", tag, "?", sentinelChars[n:n+1]).Replace(glob), "", nil
	}
	return "~q" + strconv.Itoa(n) + glob, "~q" + strconv.Itoa(n) + "*", nil
}

// insideCells picks for every area a point cell inside it, preferring cells that lie inside many areas (one sentinel
// there serves the fences of all of them); 0 = none.
func insideCells(t *Table) []int {
	out := make([]int, len(t.Areas))
	for {
		best, cover := -1, 0
		for c := range t.Cells {
			if t.Cells[c].IsRect {
				continue
			}
			n := 0
			for a := range t.Areas {
				if out[a] == 0 && t.Inside[a][c] {
					n++
				}
			}
			if n > cover {
				best, cover = c, n
			}
		}
		if best < 0 {
			return out
		}
		for a := range t.Areas {
			if out[a] == 0 && t.Inside[a][best] {
				out[a] = best + 1
			}
		}
	}
}

func isSentinelID(id string) bool {
	for _, c := range id {
		if !(c >= 'a' && c <= 'z' || c >= 'A' && c <= 'Z' || c >= '0' && c <= '9') {
			return true
		}
	}
	return false
}

func NewRunner(id int, o Options, sink *Sink, st *Stats) (*Runner, error) {
	srv, err := t38.Start(t38.Options{Dir: fmt.Sprintf("%s/srv%d", o.Dir, id), Spinlock: o.Spinlock})
	if err != nil {
		return nil, err
	}
	c, err := srv.Dial()
	if err != nil {
		srv.StopAndRemove()
		return nil, err
	}
	c.Timeout = patience
	r := &Runner{o: o, id: id, srv: srv, drv: c, sink: sink, has: map[string]bool{},
		key: fmt.Sprintf("fleet%d", id), rng: rand.New(rand.NewSource(o.Seed*1000003 + int64(id)))}
	for _, t := range o.Transports {
		r.has[t] = true
	}
	sc := o.Table.Scene
	type groupKey struct {
		glob string
		cell int // the sentinel's cell inside the area (shared by the areas it lies in) ...
		area int // ... or, for a touring sentinel, the area
	}
	seen := map[groupKey]int{}
	inCell := insideCells(o.Table)
	for fi, fd := range sc.Fences {
		if !r.active(fi) {
			r.fences = append(r.fences, &fenceReg{def: fd})
			continue
		}
		area := o.Table.Areas[fd.Area-1]
		fr := &fenceReg{def: fd, cmd: strings.ToUpper(area.Cmd)}
		// how can this fence be marked: by del; else by the SET inside (or the FSET inside); else by the tour
		nodel := len(fd.Commands) > 0 && !hasStr(fd.Commands, "del")
		det := func(d string) bool { return fd.Detect == nil || hasStr(fd.Detect, d) }
		bySet := hasStr(fd.Commands, "set") && (det("enter") || det("inside"))
		byFset := hasStr(fd.Commands, "fset") && !fd.NoFields && det("inside")
		tour := nodel && !bySet && !byFset
		if tour && !hasStr(fd.Commands, "set") && !(hasStr(fd.Commands, "fset") && !fd.NoFields && det("outside")) {
			srv.StopAndRemove()
			return nil, fmt.Errorf("fence %d: COMMANDS %v DETECT %v: no write of a sentinel is ever reported, the harness cannot mark quiescence",
				fi+1, fd.Commands, fd.Detect)
		}
		fr.byDel = !nodel
		gk := groupKey{glob: fd.Match, cell: inCell[fd.Area-1]}
		if tour {
			gk = groupKey{glob: fd.Match, area: fd.Area}
		}
		if _, ok := seen[gk]; !ok {
			s := sentinel{area: fd.Area}
			var ok bool
			if s.in, s.o1, s.o2, ok = tourCells(o.Table, fd.Area); !ok || inCell[fd.Area-1] == 0 {
				srv.StopAndRemove()
				return nil, fmt.Errorf("area %d has no point cells inside / outside-outside across for the sentinel", fd.Area)
			}
			if !tour {
				s.in = inCell[fd.Area-1]
			}
			var err error
			if s.id, s.extra, err = sentinelFor(fd.Match, len(r.sentinels)); err != nil {
				srv.StopAndRemove()
				return nil, err
			}
			seen[gk] = len(r.sentinels)
			r.sentinels = append(r.sentinels, s)
		}
		fr.sent = seen[gk]
		sn := &r.sentinels[fr.sent]
		sn.tour = sn.tour || tour
		sn.fset = sn.fset || (nodel && !bySet && !tour)
		extra := sn.extra
		if fd.Match != "" {
			fr.base = append(fr.base, "MATCH", fd.Match)
			if extra != "" {
				fr.base = append(fr.base, "MATCH", extra)
			}
		}
		if fd.Where {
			fr.base = append(fr.base, "WHERE", sc.Field, strconv.Itoa(sc.WLo), strconv.Itoa(sc.WHi))
		}
		if fd.NoFields {
			fr.base = append(fr.base, "NOFIELDS")
		}
		fr.base = append(fr.base, "FENCE")
		if fd.Detect != nil {
			fr.base = append(fr.base, "DETECT", strings.Join(fd.Detect, ","))
		}
		if len(fd.Commands) > 0 {
			fr.base = append(fr.base, "COMMANDS", strings.Join(fd.Commands, ","))
		}
		fr.base = append(fr.base, area.Args...)
		_ = fi
		r.fences = append(r.fences, fr)
	}
	if err := r.registerSt(st); err != nil {
		r.Close()
		return nil, err
	}
	return r, nil
}

func (r *Runner) active(fi int) bool { return r.o.Only == 0 || r.o.Only == fi+1 }

func (r *Runner) Close() {
	r.unregister(false)
	r.drv.Close()
	r.srv.StopAndRemove()
}

func okReply(v t38.Value, err error, what string) error {
	if err != nil {
		return fmt.Errorf("%s: %v", what, err)
	}
	if v.Kind == '-' {
		return fmt.Errorf("%s: %s", what, v.String())
	}
	return nil
}

// (one in six detects `outside' - those are evaluated for every write of their key)
var otherDetects = []string{"", "enter", "enter,exit", "cross", "inside", "cross,outside", "exit", "inside", "enter,exit,cross", "enter,inside",
	"exit,cross", "cross"}

// addOthers registers n hooks that are not under test: random rectangles around the frame, on the fenced key and
// on another key, with and without outside / cross detection (they populate the registries the server pre-selects from).
func (r *Runner) addOthers(n int, st *Stats) error {
	box := r.o.Table.FrameBox
	W, H := box[2]-box[0], box[3]-box[1]
	pending := 0
	flush := func() error {
		for ; pending > 0; pending-- {
			v, err := r.drv.Recv()
			if e := okReply(v, err, "registering another hook"); e != nil {
				return e
			}
		}
		return nil
	}
	for i := 0; i < n; i++ {
		r.nOther++
		cx := box[0] + (r.rng.Float64()*7-3)*W
		cy := box[1] + (r.rng.Float64()*7-3)*H
		w := W * (0.05 + r.rng.Float64()*r.rng.Float64()*2.5)
		h := H * (0.05 + r.rng.Float64()*r.rng.Float64()*2.5)
		key := r.key
		if r.rng.Intn(10) < 4 {
			key = r.key + "-elsewhere"
		}
		cmd := []string{"WITHIN", "INTERSECTS"}[r.rng.Intn(2)]
		args := []string{cmd, key, "FENCE"}
		det := otherDetects[r.rng.Intn(len(otherDetects))]
		webhook := r.nOther%250 == 7 // a few webhooks; they detect `enter' only, so they rarely fire
		if webhook {
			det = "enter"
		}
		if det != "" {
			args = append(args, "DETECT", det)
		}
		f := func(x float64) string { return strconv.FormatFloat(x, 'f', 6, 64) }
		args = append(args, "BOUNDS", f(cy-h/2), f(cx-w/2), f(cy+h/2), f(cx+w/2))
		if webhook {
			name := fmt.Sprintf("oth%d-%d", r.id, r.nOther)
			r.drv.Send(append([]string{"SETHOOK", name, r.sink.URL("other")}, args...)...)
			r.others = append(r.others, "h:"+name)
		} else {
			name := fmt.Sprintf("othc%d-%d", r.id, r.nOther)
			r.drv.Send(append([]string{"SETCHAN", name}, args...)...)
			r.others = append(r.others, "c:"+name)
		}
		st.Others++
		if pending++; pending >= 200 {
			if err := flush(); err != nil {
				return err
			}
		}
	}
	return flush()
}

func (r *Runner) delOthers(n int, st *Stats) error {
	for i := 0; i < n && len(r.others) > 0; i++ {
		j := r.rng.Intn(len(r.others))
		name := r.others[j]
		r.others[j] = r.others[len(r.others)-1]
		r.others = r.others[:len(r.others)-1]
		cmd := "DELCHAN"
		if name[0] == 'h' {
			cmd = "DELHOOK"
		}
		v, err := r.drv.Do(cmd, name[2:])
		if e := okReply(v, err, cmd); e != nil {
			return e
		}
		st.OthersGone++
	}
	return nil
}

// registerSt sets up the population and the three registrations of every fence under test.
func (r *Runner) registerSt(st *Stats) error {
	r.gen++
	first := r.gen == 1
	if first && r.o.Others > 0 {
		if err := r.addOthers(r.o.Others/2, st); err != nil {
			return err
		}
	}
	order := r.rng.Perm(len(r.fences))
	var chans []string
	r.doneChan = fmt.Sprintf("done%d-%d", r.id, r.gen)
	// every other fence is first registered under its name as a decoy - a big area around the frame detecting
	// everything - and then REPLACED by the real fence (SETHOOK / SETCHAN of an existing name): what the decoy
	// would report must never be seen
	box := r.o.Table.FrameBox
	W, H := box[2]-box[0], box[3]-box[1]
	f6 := func(x float64) string { return strconv.FormatFloat(x, 'f', 6, 64) }
	decoy := []string{"INTERSECTS", r.key, "FENCE", "DETECT", "inside,outside,enter,exit,cross",
		"BOUNDS", f6(box[1] - 4*H), f6(box[0] - 4*W), f6(box[3] + 4*H), f6(box[2] + 4*W)}
	for oi, fi := range order {
		if !r.active(fi) {
			continue
		}
		fr := r.fences[fi]
		fence := append([]string{fr.cmd, r.key}, fr.base...)
		replace := (oi+r.gen)%2 == 0
		if r.has["hook"] {
			fr.hookName = fmt.Sprintf("fh%d-%d-%d", r.id, r.gen, fi+1)
			fr.hookCh = make(chan string, 4096)
			r.sink.routes.Store(fr.hookName, fr.hookCh)
			if replace {
				v, e := r.drv.Do(append([]string{"SETHOOK", fr.hookName, r.sink.URL(fmt.Sprintf("w%d", r.id))}, decoy...)...)
				if err := okReply(v, e, "SETHOOK (decoy)"); err != nil {
					return err
				}
				st.Replaced++
			}
			v, e := r.drv.Do(append([]string{"SETHOOK", fr.hookName, r.sink.URL(fmt.Sprintf("w%d", r.id))}, fence...)...)
			if err := okReply(v, e, "SETHOOK "+strings.Join(fence, " ")); err != nil {
				return err
			}
		}
		if r.has["chan"] {
			fr.chanName = fmt.Sprintf("fc%d-%d-%d", r.id, r.gen, fi+1)
			if replace {
				v, e := r.drv.Do(append([]string{"SETCHAN", fr.chanName}, decoy...)...)
				if err := okReply(v, e, "SETCHAN (decoy)"); err != nil {
					return err
				}
				st.Replaced++
			}
			v, e := r.drv.Do(append([]string{"SETCHAN", fr.chanName}, fence...)...)
			if err := okReply(v, e, "SETCHAN "+strings.Join(fence, " ")); err != nil {
				return err
			}
			chans = append(chans, fr.chanName)
		}
		if r.has["live"] {
			live, err := r.srv.Dial()
			if err != nil {
				return err
			}
			live.Timeout = patience
			v, e := live.Do(fence...)
			if err := okReply(v, e, "live "+strings.Join(fence, " ")); err != nil {
				return err
			}
			if v.Kind != '+' || v.Str != "OK" {
				return fmt.Errorf("live fence reply %s", v.String())
			}
			fr.live = live
		}
	}
	if r.has["chan"] {
		sub, err := r.srv.Dial()
		if err != nil {
			return err
		}
		sub.Timeout = patience
		chans = append(chans, r.doneChan)
		if err := sub.Send(append([]string{"SUBSCRIBE"}, chans...)...); err != nil {
			return err
		}
		for range chans {
			v, err := sub.Recv()
			if e := okReply(v, err, "SUBSCRIBE"); e != nil {
				return e
			}
			if v.Kind != '*' || len(v.Arr) != 3 || v.Arr[0].Str != "subscribe" {
				return fmt.Errorf("SUBSCRIBE reply %s", v.String())
			}
		}
		r.sub = sub
	}
	if first && r.o.Others > 0 {
		if err := r.addOthers(r.o.Others-r.o.Others/2, st); err != nil {
			return err
		}
		if err := r.delOthers(r.o.Others/3, st); err != nil {
			return err
		}
	} else if !first && r.o.Others > 0 {
		// churn: replace a tenth of the population
		n := r.o.Others / 10
		if err := r.delOthers(n, st); err != nil {
			return err
		}
		if err := r.addOthers(n, st); err != nil {
			return err
		}
	}
	return nil
}

func (r *Runner) unregister(check bool) error {
	var first error
	keep := func(err error) {
		if err != nil && first == nil {
			first = err
		}
	}
	for _, fr := range r.fences {
		if fr.live != nil {
			fr.live.Send("QUIT")
			fr.live.Close()
			fr.live = nil
		}
		if fr.hookName != "" {
			v, e := r.drv.Do("DELHOOK", fr.hookName)
			keep(okReply(v, e, "DELHOOK"))
			r.sink.retired.Store(fr.hookName, true) // late notifications about sentinels may still be in flight
			r.sink.routes.Delete(fr.hookName)
			fr.hookName = ""
		}
		if fr.chanName != "" {
			v, e := r.drv.Do("DELCHAN", fr.chanName)
			keep(okReply(v, e, "DELCHAN"))
			fr.chanName = ""
		}
	}
	if r.sub != nil {
		r.sub.Close()
		r.sub = nil
	}
	if check {
		return first
	}
	return nil
}

// ---------------------------------------------------------------- observed notifications

type obsMsg struct {
	Command string                     `json:"command"`
	Detect  string                     `json:"detect"`
	Hook    string                     `json:"hook"`
	Key     string                     `json:"key"`
	ID      *string                    `json:"id"`
	Object  json.RawMessage            `json:"object"`
	Fields  map[string]json.RawMessage `json:"fields"`
	raw     string
	bad     string
}

func (m *obsMsg) id() string {
	if m.ID == nil {
		return ""
	}
	return *m.ID
}

func parseMsg(raw string) *obsMsg {
	m := &obsMsg{raw: raw}
	if err := json.Unmarshal([]byte(raw), m); err != nil {
		m.bad = "not JSON: " + err.Error()
	}
	return m
}

// marks: is m the notification that closes round `round' for a fence observed through this sentinel?
func (s sentinel) marks(m *obsMsg, byDel bool, round int) bool {
	if m.id() != s.id {
		return false
	}
	if byDel {
		return m.Command == "del"
	}
	var g struct {
		Coordinates []float64 `json:"coordinates"`
	}
	return json.Unmarshal(m.Object, &g) == nil && len(g.Coordinates) == 3 && g.Coordinates[2] == float64(round)
}

func isSentinel(m *obsMsg) bool { return m.bad == "" && m.ID != nil && isSentinelID(*m.ID) }

// expectedGeo: does the object member equal the geometry that was SET for the cell?
func geoEquals(raw json.RawMessage, c *Cell) bool {
	var g struct {
		Type        string          `json:"type"`
		Coordinates json.RawMessage `json:"coordinates"`
	}
	if len(raw) == 0 || json.Unmarshal(raw, &g) != nil {
		return false
	}
	if !c.IsRect {
		var xy []float64
		if g.Type != "Point" || json.Unmarshal(g.Coordinates, &xy) != nil || len(xy) != 2 {
			return false
		}
		return xy[0] == c.Lon && xy[1] == c.Lat
	}
	var rings [][][]float64
	if g.Type != "Polygon" || json.Unmarshal(g.Coordinates, &rings) != nil || len(rings) != 1 || len(rings[0]) != 5 {
		return false
	}
	b := c.Rect
	want := [5][2]float64{{b[0], b[1]}, {b[2], b[1]}, {b[2], b[3]}, {b[0], b[3]}, {b[0], b[1]}}
	for i, p := range rings[0] {
		if len(p) != 2 || p[0] != want[i][0] || p[1] != want[i][1] {
			return false
		}
	}
	return true
}

func (r *Runner) itemText(it Item, ids []string) string {
	s := it.C
	if it.D != "" {
		s += ":" + it.D
	}
	if it.O > 0 {
		s += " " + ids[it.O-1]
	}
	if it.Cell > 0 && it.C != "del" {
		s += "@" + r.o.Table.Cells[it.Cell-1].Name
		if it.V > 0 {
			s += fmt.Sprintf(" %s=%d", r.o.Table.Scene.Field, it.V)
		}
	}
	if it.Need == "may" {
		s += "?"
	}
	return s
}

func obsText(m *obsMsg) string {
	if m.bad != "" {
		return "<" + m.bad + ">"
	}
	s := m.Command
	if m.Detect != "" {
		s += ":" + m.Detect
	}
	if m.ID != nil {
		s += " " + *m.ID
	}
	return s
}

// sameKey: command, detect and id of the notification are those of the item.
func sameKey(it Item, m *obsMsg, ids []string) bool {
	if m.bad != "" || m.Command != it.C || m.Detect != it.D {
		return false
	}
	if it.O == 0 {
		return m.ID == nil
	}
	return m.ID != nil && *m.ID == ids[it.O-1]
}

// payload: everything else the statement names - key, hook, geometry, fields.  "" = equal.
func (r *Runner) payload(it Item, m *obsMsg, fr *fenceReg, tr string) string {
	if m.Key != r.key {
		return fmt.Sprintf("key %q instead of %q", m.Key, r.key)
	}
	switch tr {
	case "hook":
		if m.Hook != fr.hookName {
			return fmt.Sprintf("hook %q instead of %q", m.Hook, fr.hookName)
		}
	case "chan":
		if m.Hook != fr.chanName {
			return fmt.Sprintf("hook %q instead of %q", m.Hook, fr.chanName)
		}
	default:
		if m.Hook != "" {
			return fmt.Sprintf("hook %q on a live connection", m.Hook)
		}
	}
	if it.C == "del" || it.C == "drop" {
		if len(m.Object) != 0 || m.Fields != nil {
			return "object / fields in a " + it.C + " notification"
		}
		return ""
	}
	c := &r.o.Table.Cells[it.Cell-1]
	if !geoEquals(m.Object, c) {
		return fmt.Sprintf("object %s is not the geometry of cell %s (%s)", string(m.Object), c.Name, strings.Join(c.Args, " "))
	}
	field := r.o.Table.Scene.Field
	switch {
	case it.V <= 0:
		if len(m.Fields) != 0 {
			return fmt.Sprintf("fields %v although the object has none / the fence has NOFIELDS", rawFields(m.Fields))
		}
	default:
		var x float64
		if len(m.Fields) != 1 || json.Unmarshal(m.Fields[field], &x) != nil || x != float64(it.V) {
			return fmt.Sprintf("fields %v instead of {%s:%d}", rawFields(m.Fields), field, it.V)
		}
	}
	return ""
}

func rawFields(f map[string]json.RawMessage) string {
	var ks []string
	for k, v := range f {
		ks = append(ks, k+":"+string(v))
	}
	sort.Strings(ks)
	return "{" + strings.Join(ks, ",") + "}"
}

// compare the notifications one transport delivered for one fence with TLC's items.
// Every `must' item has to be there, `may' items may be, nothing else, in this order.
func (r *Runner) compare(exp []Item, obs []*obsMsg, ids []string, fr *fenceReg, tr string, unordered bool, st *Stats) (class, text string) {
	for _, m := range obs {
		if m.bad != "" {
			return "shape", m.bad + ": " + m.raw
		}
	}
	if unordered {
		obs = append([]*obsMsg(nil), obs...)
		sort.SliceStable(obs, func(i, j int) bool { return obs[i].id() < obs[j].id() })
	}
	j := 0
	var kinds []string
	mayP, mayA := 0, 0
	for _, it := range exp {
		if j < len(obs) && sameKey(it, obs[j], ids) {
			if p := r.payload(it, obs[j], fr, tr); p != "" {
				return "payload", "notification " + obsText(obs[j]) + ": " + p + "; raw " + obs[j].raw
			}
			k := it.C
			if it.D != "" {
				k += ":" + it.D
			}
			kinds = append(kinds, k)
			if it.Need == "may" {
				mayP++
			}
			j++
			continue
		}
		if it.Need == "must" {
			// missing, or something else in its place
			for _, m := range obs[j:] {
				if sameKey(it, m, ids) {
					return "extra", "unexpected notification " + obsText(obs[j]) + " before " + r.itemText(it, ids)
				}
			}
			return "missing", "no notification " + r.itemText(it, ids)
		}
		mayA++
	}
	if j < len(obs) {
		return "extra", "unexpected notification " + obsText(obs[j]) + "; raw " + obs[j].raw
	}
	st.ItemsAgreed += len(kinds)
	for _, k := range kinds {
		st.ByKind[k]++
	}
	st.MayPresent += mayP
	st.MayAbsent += mayA
	if len(obs) == 0 {
		st.EmptyAgreed++
	}
	return "", ""
}

// ---------------------------------------------------------------- one behaviour

func join(cs []string) string { return strings.Join(cs, "") }

// quiesce sends the sentinels after the commands already sent (nsent replies pending, the first `ncheck' of which are
// returned), and collects what every transport of every fence received up to its sentinel.
func (r *Runner) quiesce(nsent int, st *Stats) ([]t38.Value, map[string][][]*obsMsg, error) {
	r.tokSeq++
	tok := fmt.Sprintf("~tok %d", r.tokSeq)
	n := nsent
	needObj := r.has["hook"] || r.has["live"]
	if needObj {
		z := strconv.Itoa(r.tokSeq)
		sc := r.o.Table.Scene
		for _, s := range r.sentinels {
			cells := []int{s.in}
			if s.tour {
				cells = []int{s.o1, s.in, s.o1, s.o2}
			}
			for i, c := range cells {
				args := []string{"SET", r.key, s.id, "FIELD", sc.Field, strconv.Itoa(sc.WLo)}
				r.drv.Send(append(append(args, r.o.Table.Cells[c-1].Args...), z)...)
				n++
				if (s.tour && (i == 1 || i == 2)) || (s.fset && !s.tour) { // an FSET inside (and one outside), for fences that accept fset only
					r.drv.Send("FSET", r.key, s.id, sc.Field, strconv.Itoa(sc.WLo+1))
					n++
				}
			}
			r.drv.Send("DEL", r.key, s.id)
			n++
		}
	}
	if r.has["chan"] {
		r.drv.Send("PUBLISH", r.doneChan, tok)
		n++
	}
	var replies []t38.Value
	for i := 0; i < n; i++ {
		v, err := r.drv.Recv()
		if err != nil {
			return nil, nil, fmt.Errorf("reply %d of %d: %v", i, n, err)
		}
		if i < nsent {
			replies = append(replies, v)
		} else if v.Kind == '-' {
			return nil, nil, fmt.Errorf("sentinel command failed: %s", v.String())
		}
	}
	obs := map[string][][]*obsMsg{}
	nf := len(r.fences)
	if r.has["chan"] {
		per := make([][]*obsMsg, nf)
		byName := map[string]int{}
		for i, fr := range r.fences {
			if r.active(i) {
				byName[fr.chanName] = i
			}
		}
		for {
			v, err := r.sub.Recv()
			if err != nil {
				return nil, nil, fmt.Errorf("channel sentinel not received: %v", err)
			}
			if v.Kind != '*' || len(v.Arr) != 3 || v.Arr[0].Str != "message" {
				return nil, nil, fmt.Errorf("unexpected frame on the subscriber connection: %s", v.String())
			}
			if v.Arr[1].Str == r.doneChan {
				if v.Arr[2].Str == tok {
					break
				}
				return nil, nil, fmt.Errorf("stale sentinel %q on the subscriber connection", v.Arr[2].Str)
			}
			fi, ok := byName[v.Arr[1].Str]
			if !ok {
				return nil, nil, fmt.Errorf("message on unknown channel %q", v.Arr[1].Str)
			}
			m := parseMsg(v.Arr[2].Str)
			if isSentinel(m) {
				st.Sentinel++
				continue
			}
			st.Messages++
			per[fi] = append(per[fi], m)
		}
		obs["chan"] = per
	}
	if r.has["hook"] {
		per := make([][]*obsMsg, nf)
		for i, fr := range r.fences {
			if !r.active(i) {
				continue
			}
			want := r.sentinels[fr.sent]
			tm := time.NewTimer(patience)
		loop:
			for {
				select {
				case raw := <-fr.hookCh:
					m := parseMsg(raw)
					if isSentinel(m) {
						st.Sentinel++
						if want.marks(m, fr.byDel, r.tokSeq) {
							break loop
						}
						continue
					}
					st.Messages++
					per[i] = append(per[i], m)
				case <-tm.C:
					return nil, nil, fmt.Errorf("webhook sentinel of fence %d (%s) not received", i+1, strings.Join(fr.base, " "))
				}
			}
			tm.Stop()
		}
		obs["hook"] = per
	}
	if r.has["live"] {
		per := make([][]*obsMsg, nf)
		for i, fr := range r.fences {
			if !r.active(i) {
				continue
			}
			want := r.sentinels[fr.sent]
			for {
				v, err := fr.live.Recv()
				if err != nil {
					return nil, nil, fmt.Errorf("live sentinel of fence %d (%s) not received: %v", i+1, strings.Join(fr.base, " "), err)
				}
				if v.Kind != '$' {
					return nil, nil, fmt.Errorf("unexpected frame on a live connection: %s", v.String())
				}
				m := parseMsg(v.Str)
				if isSentinel(m) {
					st.Sentinel++
					if want.marks(m, fr.byDel, r.tokSeq) {
						break
					}
					continue
				}
				st.Messages++
				per[i] = append(per[i], m)
			}
		}
		obs["live"] = per
	}
	return replies, obs, nil
}

// Run replays one behaviour (the collection is empty before and after); returns its mismatches.
func (r *Runner) Run(bi int, b *Behaviour, st *Stats) ([]Mismatch, error) {
	sc := r.o.Table.Scene
	if r.o.Rereg > 0 && r.nbeh > 0 && r.nbeh%r.o.Rereg == 0 {
		if err := r.unregister(true); err != nil {
			return nil, err
		}
		if err := r.registerSt(st); err != nil {
			return nil, err
		}
		st.Reregs++
	}
	r.nbeh++
	ids := make([]string, len(b.Ids))
	for i, cs := range b.Ids {
		ids[i] = join(cs)
		if ids[i] == "" || isSentinelID(ids[i]) {
			return nil, fmt.Errorf("object id %q collides with the sentinel ids", ids[i])
		}
	}
	nf := len(r.fences)
	var out []Mismatch
	st.Behaviours++
	carry := make([][]Item, nf)
	carrying := false
	for si, h := range b.H {
		st.Steps++
		st.ByOp[h.Op]++
		if len(h.Msgs) != nf {
			return out, fmt.Errorf("behaviour %d step %d: %d fences in the behaviour, %d in the scene", bi, si, len(h.Msgs), nf)
		}
		var cmd []string
		desc := h.Op
		switch h.Op {
		case "set":
			cmd = []string{"SET", r.key, ids[h.O-1]}
			if h.V >= 0 {
				cmd = append(cmd, "FIELD", sc.Field, strconv.Itoa(h.V))
			}
			expSoon := h.Ex && si+1 < len(b.H) && b.H[si+1].Op == "expire" && b.H[si+1].O == h.O
			if h.Ex {
				if expSoon {
					cmd = append(cmd, "EX", "0.01")
				} else {
					cmd = append(cmd, "EX", "86400")
				}
			}
			cmd = append(cmd, r.o.Table.Cells[h.C-1].Args...)
			desc = strings.Join(cmd, " ")
			if expSoon {
				// the deadline may pass at any moment: the notifications of this SET are compared together with the expiry's
				v, err := r.drv.Do(cmd...)
				if e := okReply(v, err, desc); e != nil {
					return out, fmt.Errorf("behaviour %d step %d: %v", bi, si, e)
				}
				for f := range carry {
					carry[f] = append([]Item(nil), h.Msgs[f]...)
				}
				carrying = true
				continue
			}
		case "setstr":
			cmd = []string{"SET", r.key, ids[h.O-1], "STRING", "some text"}
		case "fset":
			cmd = []string{"FSET", r.key, ids[h.O-1], sc.Field, strconv.Itoa(h.V)}
		case "del":
			cmd = []string{"DEL", r.key, ids[h.O-1]}
		case "pdel":
			cmd = []string{"PDEL", r.key, join(h.Pat)}
		case "drop":
			cmd = []string{"DROP", r.key}
		case "expire":
			if !carrying {
				return out, fmt.Errorf("behaviour %d step %d: expiry without a preceding SET .. EX", bi, si)
			}
			st.ExpirySteps++
			// wait (polling the object, 10 ms apart) until the server's sweeper has deleted it
			deadline := time.Now().Add(patience)
			for {
				v, err := r.drv.Do("GET", r.key, ids[h.O-1])
				if err != nil {
					return out, fmt.Errorf("behaviour %d step %d: GET: %v", bi, si, err)
				}
				if v.Null || v.Kind == '-' {
					break
				}
				if time.Now().After(deadline) {
					return out, fmt.Errorf("behaviour %d step %d: object %s did not expire", bi, si, ids[h.O-1])
				}
				time.Sleep(10 * time.Millisecond)
			}
		default:
			return out, fmt.Errorf("unknown op %q", h.Op)
		}
		nsent := 0
		if cmd != nil {
			desc = strings.Join(cmd, " ")
			if err := r.drv.Send(cmd...); err != nil {
				return out, fmt.Errorf("behaviour %d step %d %s: %v", bi, si, desc, err)
			}
			nsent = 1
		}
		replies, obs, err := r.quiesce(nsent, st)
		if err != nil {
			return out, fmt.Errorf("behaviour %d step %d %s: %v", bi, si, desc, err)
		}
		if nsent == 1 && replies[0].Kind == '-' {
			return out, fmt.Errorf("behaviour %d step %d %s: reply %s", bi, si, desc, replies[0].String())
		}
		for f := 0; f < nf; f++ {
			if !r.active(f) {
				continue
			}
			exp := h.Msgs[f]
			if carrying {
				exp = append(carry[f], h.Msgs[f]...)
			}
			for _, tr := range r.o.Transports {
				st.Compared++
				st.PerTransport[tr]++
				class, text := r.compare(exp, obs[tr][f], ids, r.fences[f], tr, h.Op == "pdel", st)
				if class == "" {
					st.Agreed++
					continue
				}
				st.Classes[class]++
				var es, os []string
				for _, it := range exp {
					es = append(es, r.itemText(it, ids))
				}
				for _, m := range obs[tr][f] {
					os = append(os, obsText(m))
				}
				out = append(out, Mismatch{Behaviour: bi, Step: si, Fence: f + 1, Transport: tr, Class: class,
					Text: fmt.Sprintf("%s; fence %s %s; specification [%s]; observed [%s]; %s", desc, r.fences[f].cmd,
						strings.Join(r.fences[f].base, " "), strings.Join(es, ", "), strings.Join(os, ", "), text)})
			}
		}
		carrying = false
	}
	// empty the collection (a trailing SET .. EX leaves an object behind) and drain what that causes
	r.drv.Send("DROP", r.key)
	if _, _, err := r.quiesce(1, NewStats()); err != nil {
		return out, fmt.Errorf("behaviour %d reset: %v", bi, err)
	}
	return out, nil
}
