// Package roam binds spec/Roam.tla (C20, roaming geofences) to the real code.
//
// table.go: the harness' own, independent geometry: concrete coordinates of
// the grid cells, the great-circle (haversine) distance table in millimetres
// and the bounding-rectangle table that enter the specification as CONSTANTS.
// Nothing here is taken from tile38 or its geo package.
package roam

import (
	"fmt"
	"math"
	"strconv"
)

// MeanEarthRadius is the IUGG mean radius R1 in metres.
const MeanEarthRadius = 6371008.8

// Cell is one grid position; Lat/Lon are the exact strings sent in SET.
type Cell struct {
	Lat  string  `json:"lat"`
	Lon  string  `json:"lon"`
	LatF float64 `json:"latf"`
	LonF float64 `json:"lonf"`
}

// Table is what `roam-table` prints and `roam-replay` reads back.
type Table struct {
	Rows     int       `json:"rows"`
	Cols     int       `json:"cols"`
	Cells    []Cell    `json:"cells"`
	DistMM   [][]int64 `json:"dist_mm"`
	Rect     [][]bool  `json:"rect"`
	RadiusM  string    `json:"radius_m"` // verbatim argument of ROAM
	RadiusMM int64     `json:"radius_mm"`
	// diagnostics for the check (fitness of the grid for the quantifier of C20)
	Inside       int     `json:"pairs_inside_circle"`
	Corner       int     `json:"pairs_in_rect_outside_circle"`
	Outside      int     `json:"pairs_outside_rect"`
	MinMarginPct float64 `json:"min_margin_pct"`      // min |d - r| / r over all pairs, in percent
	MinRectPct   float64 `json:"min_rect_margin_pct"` // min relative distance of a cell to a rectangle edge
	Sentinel     Cell    `json:"sentinel"`            // a far-away position for the quiescence sentinel
}

func rad(d float64) float64 { return d * math.Pi / 180 }

// Haversine returns the great-circle distance in metres on the mean sphere.
func Haversine(lat1, lon1, lat2, lon2 float64) float64 {
	p1, p2 := rad(lat1), rad(lat2)
	dp := p2 - p1
	dl := rad(lon2 - lon1)
	sp := math.Sin(dp / 2)
	sl := math.Sin(dl / 2)
	a := sp*sp + math.Cos(p1)*math.Cos(p2)*sl*sl
	if a > 1 {
		a = 1
	}
	return 2 * MeanEarthRadius * math.Asin(math.Sqrt(a))
}

// inBoundingRect: does (lat2,lon2) lie in the latitude/longitude rectangle
// that is searched for the circle of radius r metres around (lat1,lon1)?
// That is the smallest rectangle containing the circle; when that rectangle
// would cross the 180th meridian the searched area is the whole latitude
// belt (every longitude).  Also returns the smallest relative distance of
// the point to an edge of the area (and of the rectangle to the meridian).
func inBoundingRect(lat1, lon1, lat2, lon2, r float64) (bool, float64) {
	ang := r / MeanEarthRadius
	dLat := ang * 180 / math.Pi
	// half-width in longitude of a spherical cap: asin(sin(ang)/cos(lat))
	dLon := math.Asin(math.Sin(ang)/math.Cos(rad(lat1))) * 180 / math.Pi
	a := math.Abs(lat2-lat1) / dLat
	m := math.Abs(1 - a)
	// distance of the rectangle's east / west edge to the 180th meridian, relative to the half-width
	m = math.Min(m, math.Min(math.Abs(180-(lon1+dLon)), math.Abs(-180-(lon1-dLon)))/dLon)
	if lon1+dLon > 180 || lon1-dLon < -180 {
		return a <= 1, m // belt
	}
	// (a point on the other side of the meridian is ~360 degrees away in these coordinates: outside)
	b := math.Abs(lon2-lon1) / dLon
	return a <= 1 && b <= 1, math.Min(m, math.Abs(1-b))
}

func ftoa(f float64) string { return strconv.FormatFloat(f, 'f', -1, 64) }

// BuildTable lays out rows x cols cells, sideNS / sideEW metres apart, with
// the south-west cell at (lat0, lon0).
func BuildTable(lat0, lon0 float64, rows, cols int, sideNS, sideEW float64, radius string) (*Table, error) {
	r, err := strconv.ParseFloat(radius, 64)
	if err != nil || r <= 0 {
		return nil, fmt.Errorf("bad radius %q", radius)
	}
	t := &Table{Rows: rows, Cols: cols, RadiusM: radius, RadiusMM: int64(math.Round(r * 1000))}
	degNS := sideNS / MeanEarthRadius * 180 / math.Pi
	degEW := sideEW / (MeanEarthRadius * math.Cos(rad(lat0))) * 180 / math.Pi
	for i := 0; i < rows; i++ {
		for j := 0; j < cols; j++ {
			// round to 7 decimals so that the text sent to the server is exact and short
			la := math.Round((lat0+float64(i)*degNS)*1e7) / 1e7
			lo := math.Round((lon0+float64(j)*degEW)*1e7) / 1e7
			if lo >= 180 {
				lo = math.Round((lo-360)*1e7) / 1e7 // across the 180th meridian
			}
			t.Cells = append(t.Cells, Cell{Lat: ftoa(la), Lon: ftoa(lo), LatF: la, LonF: lo})
		}
	}
	n := len(t.Cells)
	t.MinMarginPct, t.MinRectPct = math.Inf(1), math.Inf(1)
	for a := 0; a < n; a++ {
		drow := make([]int64, n)
		rrow := make([]bool, n)
		for b := 0; b < n; b++ {
			ca, cb := t.Cells[a], t.Cells[b]
			d := Haversine(ca.LatF, ca.LonF, cb.LatF, cb.LonF)
			if a > b {
				drow[b] = t.DistMM[b][a] // exactly symmetric
			} else {
				drow[b] = int64(math.Round(d * 1000))
			}
			in, m := inBoundingRect(ca.LatF, ca.LonF, cb.LatF, cb.LonF, r)
			rrow[b] = in
			if a != b {
				t.MinRectPct = math.Min(t.MinRectPct, m*100)
				t.MinMarginPct = math.Min(t.MinMarginPct, math.Abs(d-r)/r*100)
				switch {
				case d <= r:
					t.Inside++
				case in:
					t.Corner++
				default:
					t.Outside++
				}
			}
		}
		t.DistMM = append(t.DistMM, drow)
		t.Rect = append(t.Rect, rrow)
	}
	// sentinel: roughly antipodal in longitude and on the other hemisphere
	sl := lon0 + 180
	if sl > 180 {
		sl -= 360
	}
	sa := -lat0
	if math.Abs(sa) < 20 {
		sa = -55
	}
	t.Sentinel = Cell{Lat: ftoa(sa), Lon: ftoa(sl), LatF: sa, LonF: sl}
	return t, nil
}
