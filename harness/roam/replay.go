package roam

// replay.go: model -> code.  Every behaviour printed by TLC (RoamGen / RoamSim)
// is executed against a real in-process server with the ROAM fence registered
// three times - as a channel (SETCHAN + SUBSCRIBE connection), as a webhook
// (SETHOOK to an HTTP endpoint inside the harness) and as a live
// `NEARBY ... FENCE ROAM` connection.  After every SET the nearby / faraway
// entries received on each transport are compared with the entries TLC
// computed (ids exactly, metres within a tolerance).  All expected values are
// TLC's; this file only executes and compares.
//
// Quiescence is decided by sentinels, never by sleeping: a PUBLISH on the
// channel, and a SET + DEL of a far-away sentinel object whose `del`
// notification is delivered, in order, on the webhook and the live connection.

import (
	"encoding/json"
	"fmt"
	"io"
	"math"
	"net"
	"net/http"
	"sort"
	"strings"
	"sync"
	"sync/atomic"
	"time"

	"github.com/tidwall/tile38/verifharness/t38"
)

// Entry is one expected nearby/faraway entry (object index into ids, millimetres).
type Entry struct {
	O  int   `json:"o"`
	MM int64 `json:"mm"`
}

// Outcome is what one SET must report.
type Outcome struct {
	Nearby  []Entry `json:"nearby"`
	Faraway []Entry `json:"faraway"`
}

// Step is one element of Roam!hist.
type Step struct {
	Op      string  `json:"op"`
	O       int     `json:"o"`
	C       int     `json:"c"`
	Old     int     `json:"old"`
	Exp     Outcome `json:"exp"`
	Dev     Outcome `json:"dev"`
	Corners int     `json:"corners"`
}

// Behaviour is one line printed by TLC.
type Behaviour struct {
	Cfg struct {
		Pat     []string `json:"pat"`
		Nodwell bool     `json:"nodwell"`
	} `json:"cfg"`
	Ids [][]string `json:"ids"`
	H   []Step     `json:"h"`
}

// ObsEntry is one entry reported by the real server.
type ObsEntry struct {
	ID     string
	Meters float64
}

// Observed is what one transport delivered for one SET.
type Observed struct {
	Nearby, Faraway []ObsEntry
	Shape           []string // malformed / unexpected messages
}

// Mismatch is one disagreement between the real code and TLC's values.
type Mismatch struct {
	Behaviour int    `json:"behaviour"`
	Step      int    `json:"step"`
	Transport string `json:"transport"`
	Class     string `json:"class"` // rectfilter | sets | meters | shape
	Text      string `json:"text"`
}

// Stats counts what was compared.
type Stats struct {
	Behaviours    int            `json:"behaviours"`
	Steps         int            `json:"steps"`
	SetSteps      int            `json:"set_steps"`
	DelSteps      int            `json:"del_steps"`
	Compared      int            `json:"compared"`       // (step, transport) comparisons
	EntriesAgreed int            `json:"entries_agreed"` // reported entries equal to TLC's (id and metres)
	MetersChecked int            `json:"meters_checked"`
	EmptyAgreed   int            `json:"empty_agreed"` // comparisons where TLC expects no message and none came
	CornerSteps   int            `json:"corner_steps"` // SETs with a neighbour in the rectangle but outside the circle
	CornerAgreed  int            `json:"corner_steps_agreed"`
	PerTransport  map[string]int `json:"per_transport"`
	Classes       map[string]int `json:"mismatch_classes"`
	MaxRelErr     float64        `json:"max_rel_meter_error"`
	OrderSame     int            `json:"order_same"` // observation only: entry order equals TLC's distance order
	OrderDiff     int            `json:"order_diff"`
	Messages      int            `json:"messages"`
	ByPattern     map[string]int `json:"by_pattern"`
	Areas         int            `json:"behaviours_with_a_covering_area_object"`
	Nodwell       map[string]int `json:"by_nodwell"`
	OrderExamples []string       `json:"order_examples"`
}

func NewStats() *Stats {
	return &Stats{PerTransport: map[string]int{}, Classes: map[string]int{}, ByPattern: map[string]int{}, Nodwell: map[string]int{}}
}

func (s *Stats) Add(o *Stats) {
	s.Behaviours += o.Behaviours
	s.Steps += o.Steps
	s.SetSteps += o.SetSteps
	s.DelSteps += o.DelSteps
	s.Compared += o.Compared
	s.EntriesAgreed += o.EntriesAgreed
	s.MetersChecked += o.MetersChecked
	s.EmptyAgreed += o.EmptyAgreed
	s.CornerSteps += o.CornerSteps
	s.CornerAgreed += o.CornerAgreed
	s.OrderSame += o.OrderSame
	s.OrderDiff += o.OrderDiff
	s.Messages += o.Messages
	s.MaxRelErr = math.Max(s.MaxRelErr, o.MaxRelErr)
	for k, v := range o.PerTransport {
		s.PerTransport[k] += v
	}
	for k, v := range o.Classes {
		s.Classes[k] += v
	}
	s.Areas += o.Areas
	for k, v := range o.ByPattern {
		s.ByPattern[k] += v
	}
	for k, v := range o.Nodwell {
		s.Nodwell[k] += v
	}
	for _, e := range o.OrderExamples {
		if len(s.OrderExamples) < 5 {
			s.OrderExamples = append(s.OrderExamples, e)
		}
	}
}

// ---------------------------------------------------------------- webhook sink

// Sink is the HTTP endpoint inside the harness; messages are routed by hook name.
type Sink struct {
	ln     net.Listener
	srv    *http.Server
	routes sync.Map // hook name -> chan string
	Stray  int64
}

func NewSink() (*Sink, error) {
	ln, err := net.Listen("tcp", "127.0.0.1:0")
	if err != nil {
		return nil, err
	}
	k := &Sink{ln: ln}
	k.srv = &http.Server{Handler: http.HandlerFunc(func(w http.ResponseWriter, r *http.Request) {
		body, _ := io.ReadAll(r.Body)
		var m struct {
			Hook string `json:"hook"`
		}
		json.Unmarshal(body, &m)
		if ch, ok := k.routes.Load(m.Hook); ok {
			ch.(chan string) <- string(body)
		} else {
			atomic.AddInt64(&k.Stray, 1)
		}
		w.WriteHeader(200)
	})}
	go k.srv.Serve(ln)
	return k, nil
}

func (k *Sink) URL(path string) string { return "http://" + k.ln.Addr().String() + "/" + path }
func (k *Sink) Close()                 { k.srv.Close() }

// ---------------------------------------------------------------- runner

// Options of a replay.
type Options struct {
	Table      *Table
	Transports []string // subset of chan, hook, live
	Tol        float64  // relative tolerance on metres
	Dir        string
	Spinlock   bool
}

// Runner owns one real server.
type Runner struct {
	o      Options
	id     int
	srv    *t38.Srv
	drv    *t38.Conn
	sink   *Sink
	seq    int
	has    map[string]bool
	tokSeq int
}

const sentinelID = "~sentinel"

// patience bounds every wait for a reply or a sentinel (never used as a quiescence criterion).
const patience = 3 * time.Minute

func NewRunner(id int, o Options, sink *Sink) (*Runner, error) {
	srv, err := t38.Start(t38.Options{Dir: fmt.Sprintf("%s/srv%d", o.Dir, id), Spinlock: o.Spinlock})
	if err != nil {
		return nil, err
	}
	c, err := srv.Dial()
	if err != nil {
		srv.StopAndRemove()
		return nil, err
	}
	// the server fsyncs its log once per second while holding its lock; on a busy disk that can take
	// very long, so only a really long silence counts as a dead server
	c.Timeout = patience
	r := &Runner{o: o, id: id, srv: srv, drv: c, sink: sink, has: map[string]bool{}}
	for _, t := range o.Transports {
		r.has[t] = true
	}
	return r, nil
}

func (r *Runner) Close() {
	r.drv.Close()
	r.srv.StopAndRemove()
}

func join(cs []string) string { return strings.Join(cs, "") }

type fenceMsg struct {
	Command string `json:"command"`
	Detect  string `json:"detect"`
	Hook    string `json:"hook"`
	Key     string `json:"key"`
	ID      string `json:"id"`
	Nearby  *struct {
		Key    string   `json:"key"`
		ID     string   `json:"id"`
		Meters *float64 `json:"meters"`
	} `json:"nearby"`
	Faraway *struct {
		Key    string   `json:"key"`
		ID     string   `json:"id"`
		Meters *float64 `json:"meters"`
	} `json:"faraway"`
}

// absorb classifies one notification; returns true when it is the del-sentinel.
func absorb(raw string, key, movedID string, obs *Observed, msgs *int) bool {
	var m fenceMsg
	if err := json.Unmarshal([]byte(raw), &m); err != nil {
		obs.Shape = append(obs.Shape, "not JSON: "+raw)
		return false
	}
	if m.Command == "del" {
		return m.ID == sentinelID
	}
	*msgs++
	switch {
	case m.Command != "set" || m.Detect != "roam":
		obs.Shape = append(obs.Shape, "unexpected notification: "+raw)
	case m.Key != key || m.ID != movedID:
		obs.Shape = append(obs.Shape, fmt.Sprintf("notification for %s/%s while %s/%s was SET: %s", m.Key, m.ID, key, movedID, raw))
	case (m.Nearby == nil) == (m.Faraway == nil):
		obs.Shape = append(obs.Shape, "neither or both of nearby/faraway: "+raw)
	case m.Nearby != nil:
		if m.Nearby.Meters == nil || m.Nearby.Key != key {
			obs.Shape = append(obs.Shape, "nearby without meters / wrong key: "+raw)
		} else {
			obs.Nearby = append(obs.Nearby, ObsEntry{m.Nearby.ID, *m.Nearby.Meters})
		}
	default:
		if m.Faraway.Meters == nil || m.Faraway.Key != key {
			obs.Shape = append(obs.Shape, "faraway without meters / wrong key: "+raw)
		} else {
			obs.Faraway = append(obs.Faraway, ObsEntry{m.Faraway.ID, *m.Faraway.Meters})
		}
	}
	return false
}

func fmtObs(es []ObsEntry) string {
	var s []string
	for _, e := range es {
		s = append(s, fmt.Sprintf("%s@%.3fm", e.ID, e.Meters))
	}
	return "[" + strings.Join(s, " ") + "]"
}

func fmtExp(es []Entry, ids []string) string {
	var s []string
	for _, e := range es {
		s = append(s, fmt.Sprintf("%s@%dmm", ids[e.O-1], e.MM))
	}
	return "[" + strings.Join(s, " ") + "]"
}

// sameEntries: do the reported entries equal TLC's (one entry per id, metres within tol)?
// Returns also the number of entries whose id and metres agreed and the largest relative error.
func sameEntries(got []ObsEntry, want []Entry, ids []string, tol float64) (setsOK, metersOK bool, agreed int, maxrel float64) {
	setsOK, metersOK = len(got) == len(want), true
	w := map[string]int64{}
	for _, e := range want {
		w[ids[e.O-1]] = e.MM
	}
	seen := map[string]bool{}
	for _, g := range got {
		mm, ok := w[g.ID]
		if !ok || seen[g.ID] {
			setsOK = false
			continue
		}
		seen[g.ID] = true
		diff := math.Abs(g.Meters*1000 - float64(mm))
		// the server floors to millimetres: 1.5 mm absolute slack besides the relative tolerance
		if diff > tol*float64(mm)+1.5 {
			metersOK = false
		} else {
			agreed++
		}
		if mm > 0 {
			maxrel = math.Max(maxrel, diff/float64(mm))
		}
	}
	if len(seen) != len(w) {
		setsOK = false
	}
	return
}

// sameOrder: are the reported entries in non-decreasing order of TLC's distances?
// (entries with equal millimetre distance may come in any order)
func sameOrder(got []ObsEntry, want []Entry, ids []string) bool {
	mm := map[string]int64{}
	for _, e := range want {
		mm[ids[e.O-1]] = e.MM
	}
	for i := 1; i < len(got); i++ {
		if mm[got[i-1].ID] > mm[got[i].ID] {
			return false
		}
	}
	return true
}

// Run replays one behaviour; returns its mismatches.
func (r *Runner) Run(bi int, b *Behaviour, st *Stats) ([]Mismatch, error) {
	r.seq++
	tag := fmt.Sprintf("%d-%d", r.id, r.seq)
	key, chn, hook := "fleet"+tag, "rc"+tag, "rh"+tag
	ids := make([]string, len(b.Ids))
	for i, cs := range b.Ids {
		ids[i] = join(cs)
	}
	pat := join(b.Cfg.Pat)
	fence := []string{"NEARBY", key, "FENCE"}
	if b.Cfg.Nodwell {
		fence = append(fence, "NODWELL")
	}
	fence = append(fence, "ROAM", key, pat, r.o.Table.RadiusM)

	okInt := func(v t38.Value, err error, what string) error {
		if err != nil {
			return fmt.Errorf("%s: %v", what, err)
		}
		if v.Kind == '-' {
			return fmt.Errorf("%s: %s", what, v.String())
		}
		return nil
	}
	var sub, live *t38.Conn
	var hookCh chan string
	var err error
	if r.has["chan"] {
		v, e := r.drv.Do(append([]string{"SETCHAN", chn}, fence...)...)
		if err = okInt(v, e, "SETCHAN"); err != nil {
			return nil, err
		}
		if sub, err = r.srv.Dial(); err != nil {
			return nil, err
		}
		defer sub.Close()
		sub.Timeout = patience
		v, e = sub.Do("SUBSCRIBE", chn)
		if err = okInt(v, e, "SUBSCRIBE"); err != nil {
			return nil, err
		}
		if v.Kind != '*' || len(v.Arr) != 3 || v.Arr[0].Str != "subscribe" {
			return nil, fmt.Errorf("SUBSCRIBE reply %s", v.String())
		}
	}
	if r.has["hook"] {
		hookCh = make(chan string, 1024)
		r.sink.routes.Store(hook, hookCh)
		defer r.sink.routes.Delete(hook)
		v, e := r.drv.Do(append([]string{"SETHOOK", hook, r.sink.URL(fmt.Sprintf("w%d", r.id))}, fence...)...)
		if err = okInt(v, e, "SETHOOK"); err != nil {
			return nil, err
		}
	}
	if r.has["live"] {
		if live, err = r.srv.Dial(); err != nil {
			return nil, err
		}
		defer live.Close()
		live.Timeout = patience
		v, e := live.Do(fence...)
		if err = okInt(v, e, "live NEARBY"); err != nil {
			return nil, err
		}
		if v.Kind != '+' || v.Str != "OK" {
			return nil, fmt.Errorf("live fence reply %s", v.String())
		}
	}
	// every other behaviour: a non-point object of the roam collection whose rectangle covers every cell while its
	// centre is twenty radii away - by the statement (distance between the two objects: the centres) it is nobody's
	// neighbour and nothing about it is ever reported; a neighbour search that walks candidates by rectangle distance
	// meets it first
	if bi%2 == 1 {
		minLat, maxLat, minLon, maxLon := 90.0, -90.0, 180.0, -180.0
		for _, c := range r.o.Table.Cells {
			minLat, maxLat = math.Min(minLat, c.LatF), math.Max(maxLat, c.LatF)
			minLon, maxLon = math.Min(minLon, c.LonF), math.Max(maxLon, c.LonF)
		}
		rdeg := float64(r.o.Table.RadiusMM) / 1000 / 111320
		top := minLat + 40*rdeg
		if maxLon-minLon < 90 && top < 89 && top > maxLat+2*rdeg && minLon-0.01 > -180 && maxLon+0.01 < 180 {
			areaID := ids[0] + "~area"
			v, e := r.drv.Do("SET", key, areaID, "BOUNDS", ftoa(minLat-0.001), ftoa(minLon-0.01), ftoa(top), ftoa(maxLon+0.01))
			if err = okInt(v, e, "SET area"); err != nil {
				return nil, err
			}
			st.Areas++
		}
	}
	needObj := r.has["hook"] || r.has["live"]
	const wait = patience
	var out []Mismatch
	st.Behaviours++
	st.ByPattern[pat]++
	st.Nodwell[fmt.Sprint(b.Cfg.Nodwell)]++
	for si, h := range b.H {
		st.Steps++
		movedID := ids[h.O-1]
		// the command and the sentinels go out in one pipeline; the replies come back in order
		r.tokSeq++
		tok := fmt.Sprintf("~sentinel %d", r.tokSeq)
		switch h.Op {
		case "set":
			st.SetSteps++
			cell := r.o.Table.Cells[h.C-1]
			err = r.drv.Send("SET", key, movedID, "POINT", cell.Lat, cell.Lon)
		case "del":
			st.DelSteps++
			err = r.drv.Send("DEL", key, movedID)
		default:
			err = fmt.Errorf("unknown op %q", h.Op)
		}
		if err != nil {
			return out, fmt.Errorf("behaviour %d step %d %s: %v", bi, si, h.Op, err)
		}
		n := 0
		if needObj {
			r.drv.Send("SET", key, sentinelID, "POINT", r.o.Table.Sentinel.Lat, r.o.Table.Sentinel.Lon)
			r.drv.Send("DEL", key, sentinelID)
			n += 2
		}
		if r.has["chan"] {
			r.drv.Send("PUBLISH", chn, tok)
			n++
		}
		v, err := r.drv.Recv()
		if err == nil {
			if h.Op == "set" && !(v.Kind == '+' && v.Str == "OK") || h.Op == "del" && !(v.Kind == ':' && v.Int == 1) {
				err = fmt.Errorf("reply %s", v.String())
			}
		}
		if err != nil {
			return out, fmt.Errorf("behaviour %d step %d %s: %v", bi, si, h.Op, err)
		}
		for i := 0; i < n; i++ {
			v, err := r.drv.Recv()
			if err != nil || v.Kind == '-' {
				return out, fmt.Errorf("sentinel command %d: %v %s", i, err, v.String())
			}
		}
		obs := map[string]*Observed{}
		if r.has["chan"] {
			o := &Observed{}
			obs["chan"] = o
			sub.Timeout = wait
			for {
				v, err := sub.Recv()
				if err != nil {
					return out, fmt.Errorf("behaviour %d step %d: channel sentinel not received: %v", bi, si, err)
				}
				if v.Kind != '*' || len(v.Arr) != 3 || v.Arr[0].Str != "message" {
					return out, fmt.Errorf("unexpected frame on the subscriber connection: %s", v.String())
				}
				if v.Arr[2].Str == tok {
					break
				}
				absorb(v.Arr[2].Str, key, movedID, o, &st.Messages)
			}
		}
		if r.has["hook"] {
			o := &Observed{}
			obs["hook"] = o
			tm := time.NewTimer(wait)
		loop:
			for {
				select {
				case raw := <-hookCh:
					if absorb(raw, key, movedID, o, &st.Messages) {
						break loop
					}
				case <-tm.C:
					return out, fmt.Errorf("behaviour %d step %d: webhook sentinel not received", bi, si)
				}
			}
			tm.Stop()
		}
		if r.has["live"] {
			o := &Observed{}
			obs["live"] = o
			live.Timeout = wait
			for {
				v, err := live.Recv()
				if err != nil {
					return out, fmt.Errorf("behaviour %d step %d: live sentinel not received: %v", bi, si, err)
				}
				if v.Kind != '$' {
					return out, fmt.Errorf("unexpected frame on the live connection: %s", v.String())
				}
				if absorb(v.Str, key, movedID, o, &st.Messages) {
					break
				}
			}
		}
		if h.Corners > 0 {
			st.CornerSteps++
		}
		allAgree := true
		for _, tr := range r.o.Transports {
			o := obs[tr]
			st.Compared++
			st.PerTransport[tr]++
			class, text := r.compare(o, &h, ids, st)
			if class == "" {
				continue
			}
			allAgree = false
			st.Classes[class]++
			from := "absent"
			if h.Old > 0 {
				from = fmt.Sprintf("cell %d", h.Old)
			}
			out = append(out, Mismatch{Behaviour: bi, Step: si, Transport: tr, Class: class,
				Text: fmt.Sprintf("%s %s -> cell %d (from %s), fence ROAM pattern %q radius %s m nodwell=%v: observed nearby=%s faraway=%s; "+
					"specification nearby=%s faraway=%s; %s", strings.ToUpper(h.Op), movedID, h.C, from, pat, r.o.Table.RadiusM,
					b.Cfg.Nodwell, fmtObs(o.Nearby), fmtObs(o.Faraway), fmtExp(h.Exp.Nearby, ids), fmtExp(h.Exp.Faraway, ids), text)})
		}
		if h.Corners > 0 && allAgree {
			st.CornerAgreed++
		}
	}
	// tear down: the fence registrations, the connections, the collection
	if live != nil {
		live.Send("QUIT")
		live.Close()
	}
	if sub != nil {
		sub.Close()
	}
	if r.has["chan"] {
		if v, e := r.drv.Do("DELCHAN", chn); okInt(v, e, "DELCHAN") != nil {
			return out, okInt(v, e, "DELCHAN")
		}
	}
	if r.has["hook"] {
		if v, e := r.drv.Do("DELHOOK", hook); okInt(v, e, "DELHOOK") != nil {
			return out, okInt(v, e, "DELHOOK")
		}
	}
	if v, e := r.drv.Do("DROP", key); okInt(v, e, "DROP") != nil {
		return out, okInt(v, e, "DROP")
	}
	return out, nil
}

// compare one transport's observation with TLC's expectation for the step.
// "" = agreement.  Otherwise the class and an explanation.
func (r *Runner) compare(o *Observed, h *Step, ids []string, st *Stats) (string, string) {
	if len(o.Shape) > 0 {
		return "shape", "malformed or unexpected notification: " + strings.Join(o.Shape, " | ")
	}
	tol := r.o.Tol
	ns, nm, na, nr := sameEntries(o.Nearby, h.Exp.Nearby, ids, tol)
	fs, fm, fa, fr := sameEntries(o.Faraway, h.Exp.Faraway, ids, tol)
	if ns && fs && nm && fm {
		st.EntriesAgreed += na + fa
		st.MetersChecked += na + fa
		st.MaxRelErr = math.Max(st.MaxRelErr, math.Max(nr, fr))
		if len(o.Nearby)+len(o.Faraway) == 0 {
			st.EmptyAgreed++
		}
		// observation only (the statement does not fix an order)
		if sameOrder(o.Nearby, h.Exp.Nearby, ids) && sameOrder(o.Faraway, h.Exp.Faraway, ids) {
			st.OrderSame++
		} else {
			st.OrderDiff++
			if len(st.OrderExamples) < 5 {
				st.OrderExamples = append(st.OrderExamples, fmt.Sprintf("observed nearby=%s faraway=%s; TLC order nearby=%s faraway=%s",
					fmtObs(o.Nearby), fmtObs(o.Faraway), fmtExp(h.Exp.Nearby, ids), fmtExp(h.Exp.Faraway, ids)))
			}
		}
		return "", ""
	}
	if ns && fs {
		return "meters", fmt.Sprintf("reported metres differ from the true distance by more than %.2f %% (largest relative error %.4f)",
			tol*100, math.Max(nr, fr))
	}
	// the sets differ from the intended specification: is it exactly the recorded as-coded deviation?
	dns, dnm, _, _ := sameEntries(o.Nearby, h.Dev.Nearby, ids, tol)
	dfs, dfm, _, _ := sameEntries(o.Faraway, h.Dev.Faraway, ids, tol)
	var beyond []string
	radius := r.o.Table.RadiusMM
	for _, e := range h.Dev.Nearby {
		if e.MM > radius {
			for _, g := range o.Nearby {
				if g.ID == ids[e.O-1] {
					beyond = append(beyond, fmt.Sprintf("%s reported nearby at %.3f m (true distance %d mm > radius %d mm)", g.ID, g.Meters, e.MM, radius))
				}
			}
		}
	}
	sort.Strings(beyond)
	if dns && dnm && dfs && dfm {
		detail := "a neighbour beyond the radius at the previous or new position is counted as within it"
		if len(beyond) > 0 {
			detail = strings.Join(beyond, ", ")
		}
		return "rectfilter", "observed entries equal the specification's as-coded deviation RectFilter " +
			"(radius filter ineffective, neighbour set = search rectangle => nearby reported beyond the radius): " + detail
	}
	return "sets", "nearby/faraway sets differ from the specification and are not explained by any modelled deviation (as-coded RectFilter would give nearby=" +
		fmtExp(h.Dev.Nearby, ids) + " faraway=" + fmtExp(h.Dev.Faraway, ids) + ")"
}
