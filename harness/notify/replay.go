package notify

// replay.go: model -> code for the webhook path.  Every behaviour printed by
// TLC (spec/NotifySim.tla) is a script of client-visible events - writes,
// endpoint status changes, every send attempt with the message TLC says it
// carries and its outcome, spurious signals, redefinitions, ticks.  The
// script is executed against a real server whose hooks point to endpoints
// inside the harness: a request is held until the script reaches the attempt
// it belongs to, compared with TLC's message and answered as scripted.  Then
// the endpoints recover and, after quiescence (all expected messages, two
// rounds of sentinel writes, empty queue), each hook's endpoint must have
// accepted exactly the messages TLC computed (hgen minus dropped): same
// order, same multiplicity, nothing after the sentinels.
//
// Expected values are TLC's; this file executes, waits and compares.

import (
	"fmt"
	"os"
	"strings"
	"time"

	"github.com/tidwall/tile38/verifharness/t38"
)

// Msg is a message of the model: the write that caused it and the detect code.
type Msg struct {
	W int `json:"w"`
	D int `json:"d"`
}

// Event is one element of Notify!hist.
type Event struct {
	A       string `json:"a"`
	H       int    `json:"h"`
	Inc     int    `json:"inc"`
	E       int    `json:"e"`
	W       int    `json:"w"`
	D       int    `json:"d"`
	Idx     int    `json:"idx"`
	Res     string `json:"res"`
	Pos     int    `json:"pos"`
	Size    int    `json:"size"`
	Mode    string `json:"mode"`
	K       int    `json:"k"`
	C       int    `json:"c"`
	N       int    `json:"n"`
	Dropped int    `json:"dropped"`
	Clock   int    `json:"clock"`
}

// Script is one behaviour printed by NotifySim.
type Script struct {
	Hooks []struct {
		Key   int   `json:"key"`
		Kinds []int `json:"kinds"`
		Eps   []int `json:"eps"`
	} `json:"hooks"`
	NEps     int      `json:"neps"`
	TTL      int      `json:"ttl"`
	MaxClock int      `json:"maxclock"`
	H        []Event  `json:"h"`
	Gen      [][]Msg  `json:"gen"`
	Dropped  [][]Msg  `json:"dropped"`
	Ep       []string `json:"ep"`
	Clock    int      `json:"clock"`
}

// Mismatch is one disagreement between the real server and TLC's values.
type Mismatch struct {
	Behaviour int    `json:"behaviour"`
	Hook      int    `json:"hook"`
	Class     string `json:"class"` // lost | duplicate | order | spurious | late | stuck | attempt | reply
	Text      string `json:"text"`
}

// Stats counts what was executed and compared.
type Stats struct {
	Behaviours     int            `json:"behaviours"`
	Events         int            `json:"events"`
	Writes         int            `json:"writes"`
	Tries          map[string]int `json:"tries"` // scripted attempts by outcome
	StepsCompared  int            `json:"steps_compared"`
	HooksCompared  int            `json:"hooks_compared"`
	MsgsCompared   int            `json:"messages_compared"`
	MidBatchFails  int            `json:"mid_batch_failures"`
	Failovers      int            `json:"failover_deliveries"`
	RefusedSeen    int            `json:"refused_attempts_observed"`
	Unscripted     int            `json:"unscripted_timeouts"`
	Desync         int            `json:"desynchronised"`
	SkippedSlow    int            `json:"skipped_slow"`
	SkipReasons    map[string]int `json:"skip_reasons"`
	SkipExamples   []string       `json:"skip_examples"`
	Pokes          int            `json:"pokes"`
	Replaces       int            `json:"replaces"`
	Ticks          int            `json:"ticks"`
	DroppedByTTL   int            `json:"dropped_by_retention"`
	Hangs          int            `json:"hangs"`
	Classes        map[string]int `json:"mismatch_classes"`
	MaxStallMs     int64          `json:"max_stall_ms"`
	WriteWhileHeld int            `json:"writes_while_a_request_was_in_flight"`
}

func NewStats() *Stats {
	return &Stats{Tries: map[string]int{}, Classes: map[string]int{}, SkipReasons: map[string]int{}}
}

func (s *Stats) Add(o *Stats) {
	s.Behaviours += o.Behaviours
	s.Events += o.Events
	s.Writes += o.Writes
	s.StepsCompared += o.StepsCompared
	s.HooksCompared += o.HooksCompared
	s.MsgsCompared += o.MsgsCompared
	s.MidBatchFails += o.MidBatchFails
	s.Failovers += o.Failovers
	s.RefusedSeen += o.RefusedSeen
	s.Unscripted += o.Unscripted
	s.Desync += o.Desync
	s.SkippedSlow += o.SkippedSlow
	s.Pokes += o.Pokes
	s.Replaces += o.Replaces
	s.Ticks += o.Ticks
	s.DroppedByTTL += o.DroppedByTTL
	s.Hangs += o.Hangs
	s.WriteWhileHeld += o.WriteWhileHeld
	if o.MaxStallMs > s.MaxStallMs {
		s.MaxStallMs = o.MaxStallMs
	}
	for k, v := range o.Tries {
		s.Tries[k] += v
	}
	for k, v := range o.Classes {
		s.Classes[k] += v
	}
	for k, v := range o.SkipReasons {
		s.SkipReasons[k] += v
	}
	for _, e := range o.SkipExamples {
		if len(s.SkipExamples) < 6 {
			s.SkipExamples = append(s.SkipExamples, e)
		}
	}
}

// Options of a replay.
type Options struct {
	Dir      string
	TickDur  time.Duration // real duration of one model tick (TTL scenarios)
	StepWait time.Duration // how long a scripted attempt may take to show up
	Settle   time.Duration // how long the recovered endpoint may wait for the outstanding messages
	MaxStall time.Duration // a scenario during which the process stalled longer than this is not judged
	Corrupt  bool          // self-test: the harness corrupts what it observed (drops one accepted message)
}

// Runner owns one real server and a pool of endpoints.
type Runner struct {
	o    Options
	id   int
	srv  *t38.Srv
	drv  *t38.Conn
	eps  map[[2]int]*Endpoint // one port per (hook, endpoint of the model): a closed listener then concerns one sender only
	seq  int
	flog *FailLog
}

var detectName = map[int]string{0: "cross", 1: "exit", 2: "outside", 3: "enter", 4: "inside"}

func NewRunner(id int, o Options) (*Runner, error) {
	srv, err := t38.Start(t38.Options{Dir: fmt.Sprintf("%s/srv%d", o.Dir, id)})
	if err != nil {
		return nil, err
	}
	c, err := srv.Dial()
	if err != nil {
		srv.StopAndRemove()
		return nil, err
	}
	c.Timeout = 3 * time.Minute
	return &Runner{o: o, id: id, srv: srv, drv: c, flog: CaptureLog(), eps: map[[2]int]*Endpoint{}}, nil
}

func (r *Runner) Close() {
	for _, e := range r.eps {
		e.Close()
	}
	r.drv.Close()
	r.srv.StopAndRemove()
}

type obsMsg struct {
	id, detect string
	sentinel   int // 0, or the round of the sentinel write
}

func (m obsMsg) String() string { return m.id + "/" + m.detect }

// scenario is the state of one replay.
type scenario struct {
	r          *Runner
	sc         *Script
	tag        string
	names      []string // hook names, index h-1
	keys       map[int]string
	arrivals   chan *Attempt
	held       []*Attempt // per hook: the request currently held
	accepted   [][]obsMsg // per hook
	accounted  map[string]int
	modes      []string // per endpoint, as scripted
	auto       bool
	tainted    bool // an unscripted event happened: step comparisons are not judged
	ambiguous  []*Attempt
	acceptedAt [][]*Attempt
	out        []Mismatch
	bi         int
	st         *Stats
	rev        []int
	writeAt    map[string]time.Time // object id -> when its SET was acknowledged
	hanging    []*Attempt           // requests left unanswered (hang): the client gives up after its timeout
	lastArrive time.Time
}

// quiet reports whether nothing can be on its way to an endpoint: the on-disk queue is empty, no request is held
// or hanging, and no request has arrived for a while (a sender that holds a batch in memory sends at once).
func (s *scenario) quiet(since time.Duration) bool {
	for _, a := range s.held {
		if a != nil && !a.Gone() {
			return false
		}
	}
	for _, a := range s.hanging {
		if !a.Gone() {
			return false
		}
	}
	return time.Since(s.lastArrive) > since && s.r.srv.S.VerifIdle()
}

func (s *scenario) hookOf(a *Attempt) int {
	// path: /tag/h<idx>
	i := strings.LastIndex(a.Path, "/h")
	if i < 0 {
		return -1
	}
	n := 0
	fmt.Sscanf(a.Path[i+2:], "%d", &n)
	if n < 1 || n > len(s.names) {
		return -1
	}
	return n - 1
}

func (s *scenario) mismatch(hook int, class, text string) {
	s.out = append(s.out, Mismatch{Behaviour: s.bi, Hook: hook, Class: class, Text: text})
}

// take files an arrived request under its hook.
func (s *scenario) take(a *Attempt) {
	s.lastArrive = time.Now()
	h := s.hookOf(a)
	if os.Getenv("NOTIFY_DEBUG") != "" {
		fmt.Fprintf(os.Stderr, "%s arrival port=%d path=%s id=%s detect=%s\n", time.Now().Format("15:04:05.000"), a.EP.Port, a.Path, a.ID, a.Detect)
	}
	if h < 0 {
		s.mismatch(0, "spurious", "request on an unknown path "+a.Path+": "+a.Body)
		a.Decide(Accept)
		return
	}
	if a.Hook != s.names[h] {
		s.mismatch(h+1, "spurious", fmt.Sprintf("endpoint of hook %s received a message of hook %q: %s", s.names[h], a.Hook, a.Body))
	}
	old := s.held[h]
	if old != nil && !old.Gone() {
		// the sender of a hook is sequential: a new request means that the previous one is over for the client;
		// give the endpoint's server a moment to notice that the connection was closed
		for i := 0; i < 200 && !old.Gone(); i++ {
			time.Sleep(5 * time.Millisecond)
		}
	}
	if old != nil && old.Gone() {
		// the client gave up on the request that was held (the harness took longer than its 5 s timeout): an
		// unscripted failure - the script can no longer be followed attempt by attempt
		s.accounted[old.EP.URL(s.tag, fmt.Sprintf("h%d", h+1))]++
		s.tainted = true
		s.st.Unscripted++
	}
	if old != nil && !old.Gone() {
		s.mismatch(h+1, "attempt", fmt.Sprintf("hook %s has two requests in flight at once (%s/%s and %s/%s): its sender is not sequential",
			s.names[h], old.ID, old.Detect, a.ID, a.Detect))
		old.Decide(Abort)
	}
	s.held[h] = a
}

// accept answers 200 and counts the body as delivered; a request that has been held for too long is
// cut instead (the client may be about to give up: accepting it could be ambiguous).
func (s *scenario) accept(h int, a *Attempt) bool {
	if time.Since(a.Arrived) > 3*time.Second {
		a.Decide(Abort)
		s.accounted[a.EP.URL(s.tag, fmt.Sprintf("h%d", h+1))]++
		s.tainted = true
		s.st.Unscripted++
		return false
	}
	if !a.Decide(Accept) {
		s.tainted = true
		s.st.Unscripted++
		return false
	}
	m := obsMsg{id: a.ID, detect: a.Detect}
	if strings.HasPrefix(a.ID, "~s") {
		fmt.Sscanf(a.ID, "~s%d", &m.sentinel)
	}
	s.accepted[h] = append(s.accepted[h], m)
	s.acceptedAt[h] = append(s.acceptedAt[h], a)
	return true
}

// pump files everything that has arrived; in auto mode it accepts it as well.
func (s *scenario) pump(wait time.Duration) {
	var tm <-chan time.Time
	if wait > 0 {
		tm = time.After(wait)
	}
	for {
		if s.auto {
			for h, a := range s.held {
				if a != nil {
					s.held[h] = nil
					if !a.Gone() {
						s.accept(h, a)
					}
				}
			}
		}
		if wait > 0 {
			select {
			case a := <-s.arrivals:
				s.take(a)
				continue
			case <-tm:
				return
			}
		}
		select {
		case a := <-s.arrivals:
			s.take(a)
		default:
			return
		}
	}
}

// await returns the request hook h has in flight, waiting for it to arrive.
func (s *scenario) await(h int, patience time.Duration) *Attempt {
	deadline := time.Now().Add(patience)
	var quietSince time.Time
	for {
		if a := s.held[h]; a != nil {
			if !a.Gone() {
				return a
			}
			// the client gave up while the request was held (the harness was too slow for its 5 s timeout)
			s.held[h] = nil
			s.accounted[a.EP.URL(s.tag, fmt.Sprintf("h%d", h+1))]++
			s.tainted = true
			s.st.Unscripted++
		}
		left := time.Until(deadline)
		if left <= 0 {
			return nil
		}
		if quietSince.IsZero() {
			if s.quiet(500 * time.Millisecond) {
				quietSince = time.Now()
			}
		} else if !s.quiet(500 * time.Millisecond) {
			quietSince = time.Time{}
		} else if time.Since(quietSince) > 2500*time.Millisecond {
			// the queue has been empty and nothing has moved for 3 s (six retry periods): no attempt will come
			return nil
		}
		select {
		case a := <-s.arrivals:
			s.take(a)
		case <-time.After(minDur(left, 50*time.Millisecond)):
		}
	}
}

func minDur(a, b time.Duration) time.Duration {
	if a < b {
		return a
	}
	return b
}

func (s *scenario) sethook(h int, extra ...string) (t38.Value, error) {
	hk := s.sc.Hooks[h]
	var urls []string
	for _, e := range hk.Eps {
		urls = append(urls, s.r.eps[[2]int{h + 1, e}].URL(s.tag, fmt.Sprintf("h%d", h+1)))
	}
	var det []string
	for _, d := range hk.Kinds {
		det = append(det, detectName[d])
	}
	args := []string{"SETHOOK", s.names[h], strings.Join(urls, ",")}
	args = append(args, extra...)
	args = append(args, "WITHIN", s.keys[hk.Key], "FENCE", "DETECT", strings.Join(det, ","), "BOUNDS", "-10", "-10", "10", "10")
	return s.r.drv.Do(args...)
}

// Run replays one behaviour.
func (r *Runner) Run(bi int, sc *Script, st *Stats) ([]Mismatch, error) {
	r.seq++
	stall := NewStall(r.srv.Dir)
	defer stall.Stop()
	s := &scenario{r: r, sc: sc, bi: bi, st: st, tag: fmt.Sprintf("n%d-%d-%d", os.Getpid()%1000, r.id, r.seq),
		keys: map[int]string{}, arrivals: make(chan *Attempt, 1024), accounted: map[string]int{}, writeAt: map[string]time.Time{},
		lastArrive: time.Now()}
	var mine []*Endpoint
	for h, hk := range sc.Hooks {
		for _, e := range hk.Eps {
			k := [2]int{h + 1, e}
			if r.eps[k] == nil {
				ep, err := NewEndpoint()
				if err != nil {
					return nil, err
				}
				r.eps[k] = ep
			}
			if err := r.eps[k].SetListening(true); err != nil {
				return nil, err
			}
			r.eps[k].Route(s.tag, func(a *Attempt) { s.arrivals <- a })
			defer r.eps[k].Route(s.tag, nil)
			mine = append(mine, r.eps[k])
		}
	}
	openAll := func() error {
		for _, ep := range mine {
			if err := ep.SetListening(true); err != nil {
				return err
			}
		}
		return nil
	}
	s.modes = make([]string, sc.NEps)
	for i := range s.modes {
		s.modes[i] = "up"
	}
	nh := len(sc.Hooks)
	s.held = make([]*Attempt, nh)
	s.accepted = make([][]obsMsg, nh)
	s.acceptedAt = make([][]*Attempt, nh)
	s.rev = make([]int, nh)
	for h := 0; h < nh; h++ {
		s.names = append(s.names, fmt.Sprintf("%s-h%d", s.tag, h+1))
		s.keys[sc.Hooks[h].Key] = fmt.Sprintf("%s-k%d", s.tag, sc.Hooks[h].Key)
	}
	fail := func(what string, v t38.Value, err error) error {
		return fmt.Errorf("behaviour %d: %s: %v %s", bi, what, err, v.String())
	}
	for h := 0; h < nh; h++ {
		v, err := s.sethook(h)
		if err != nil || v.Kind != ':' || v.Int != 1 {
			return nil, fail("SETHOOK", v, err)
		}
	}
	defer func() {
		for h := 0; h < nh; h++ {
			r.drv.Do("DELHOOK", s.names[h])
		}
		for _, k := range s.keys {
			r.drv.Do("DROP", k)
		}
		// whatever is still held must not block the server's sender for long
		for _, a := range s.held {
			if a != nil {
				a.Decide(Abort)
			}
		}
	}()
	st.Behaviours++
	t0 := time.Now()
	desync := false
	usedTicks := false
	tickStart := t0
	redefined := ""
	for _, ev := range sc.H {
		if ev.A == "replace" {
			redefined = " [the hook was redefined by SETHOOK while its old sender was still at work]"
		}
	}
	url := func(h, e int) string { return r.eps[[2]int{h, e}].URL(s.tag, fmt.Sprintf("h%d", h)) }

	for _, ev := range sc.H {
		st.Events++
		if os.Getenv("NOTIFY_DEBUG") != "" {
			fmt.Fprintf(os.Stderr, "%s event %+v\n", time.Now().Format("15:04:05.000"), ev)
		}
		if sc.MaxClock > 0 && ev.A != "tick" && time.Since(tickStart) > 5*time.Second {
			// the retention is judged on a grid of ticks: everything between two ticks has to happen well within one
			s.tainted = true
		}
		switch ev.A {
		case "write":
			for _, a := range s.held {
				if a != nil && !a.Gone() {
					st.WriteWhileHeld++
					break
				}
			}
			key, ok := s.keys[ev.K]
			if !ok { // a key no hook watches
				key = fmt.Sprintf("%s-k%d", s.tag, ev.K)
				s.keys[ev.K] = key
			}
			v, err := r.drv.Do("SET", key, fmt.Sprintf("o%04d", ev.W), "POINT", "1", "1")
			if err != nil || v.Kind != '+' || v.Str != "OK" {
				return s.out, fail("SET", v, err)
			}
			s.writeAt[fmt.Sprintf("o%04d", ev.W)] = time.Now()
			st.Writes++
		case "flip":
			// the status of the model's endpoint is carried out attempt by attempt (see "try"): the outcome of
			// every attempt is the one TLC computed from the status at that point of the behaviour
			s.modes[ev.E-1] = ev.Mode
		case "poke":
			v, err := s.sethook(ev.H-1, s.metas(ev.H-1)...)
			if err != nil || v.Kind != ':' || v.Int != 0 {
				return s.out, fail("SETHOOK (identical definition)", v, err)
			}
			st.Pokes++
		case "replace":
			s.rev[ev.H-1]++
			v, err := s.sethook(ev.H-1, s.metas(ev.H-1)...)
			if err != nil || v.Kind != ':' || v.Int != 1 {
				return s.out, fail("SETHOOK (redefinition)", v, err)
			}
			st.Replaces++
		case "tick":
			usedTicks = true
			st.Ticks++
			if d := time.Until(t0.Add(time.Duration(ev.Clock) * r.o.TickDur)); d > 0 {
				s.pump(d)
			}
			tickStart = time.Now()
		case "try":
			if s.auto {
				continue
			}
			st.Tries[ev.Res]++
			h := ev.H - 1
			want := obsMsg{id: fmt.Sprintf("o%04d", ev.W), detect: detectName[ev.D]}
			check := func(a *Attempt) {
				if s.tainted {
					return
				}
				st.StepsCompared++
				if a.EP != r.eps[[2]int{ev.H, ev.E}] || a.ID != want.id || a.Detect != want.detect {
					s.mismatch(ev.H, "attempt", fmt.Sprintf("hook %s: the request that arrived carries %s/%s at endpoint %d, the specification's next attempt is %s at endpoint %d",
						s.names[h], a.ID, a.Detect, r.epIndex(ev.H, a.EP), want, ev.E))
				}
			}
			if ev.Res == "refuse" {
				// nothing listens: a request that is already connected is cut; otherwise the listener of this
				// hook's endpoint is closed until the server's log shows that the attempt has failed against it
				deadline := time.Now().Add(r.o.StepWait)
				ep := r.eps[[2]int{ev.H, ev.E}]
				u := url(ev.H, ev.E)
				closed := false
				for {
					if a := s.held[h]; a != nil && !a.Gone() && a.EP == ep {
						check(a)
						a.Decide(Abort)
						s.accounted[url(ev.H, r.epIndex(ev.H, a.EP))]++
						s.held[h] = nil
						if ev.Pos > 1 {
							st.MidBatchFails++
						}
						break
					}
					if !closed {
						ep.SetListening(false)
						closed = true
					}
					if n := r.flog.Failed(u); n > s.accounted[u] {
						s.accounted[u] = n
						st.RefusedSeen++
						if ev.Pos > 1 {
							st.MidBatchFails++
						}
						if !s.tainted {
							st.StepsCompared++ // the attempt went to the endpoint TLC computed (the log names the URL)
						}
						break
					}
					if time.Now().After(deadline) {
						desync = true
						break
					}
					s.pump(2 * time.Millisecond)
				}
				if closed {
					if err := ep.SetListening(true); err != nil {
						return s.out, err
					}
				}
			} else {
			again:
				a := s.await(h, r.o.StepWait)
				if a == nil {
					desync = true
				} else {
					check(a)
					s.held[h] = nil
					switch ev.Res {
					case "up":
						if !s.accept(h, a) {
							goto again
						}
						if ev.E != sc.Hooks[h].Eps[0] {
							st.Failovers++
						}
					case "5xx":
						a.Decide(Reject)
						s.accounted[url(ev.H, r.epIndex(ev.H, a.EP))]++
						if ev.Pos > 1 {
							st.MidBatchFails++
						}
					case "hang":
						a.Decide(Hang)
						s.hanging = append(s.hanging, a)
						s.accounted[url(ev.H, r.epIndex(ev.H, a.EP))]++
						st.Hangs++
						if ev.Pos > 1 {
							st.MidBatchFails++
						}
					}
				}
			}
			if desync {
				// the scripted attempt never came: stop following the script, let everything through and
				// keep performing the writes; the final comparison decides
				st.Desync++
				s.tainted = true
				s.auto = true
				if err := openAll(); err != nil {
					return s.out, err
				}
				desync = false
			}
		}
		s.pump(0)
	}

	// ---- recovery and quiescence
	s.auto = true
	if err := openAll(); err != nil {
		return s.out, err
	}
	expected := make([][]obsMsg, nh)
	for h := 0; h < nh; h++ {
		drop := map[Msg]bool{}
		for _, m := range sc.Dropped[h] {
			drop[m] = true
			st.DroppedByTTL++
		}
		for _, m := range sc.Gen[h] {
			if !drop[m] {
				expected[h] = append(expected[h], obsMsg{id: fmt.Sprintf("o%04d", m.W), detect: detectName[m.D]})
			}
		}
	}
	got := func(h int) int { return len(s.accepted[h]) }
	allThere := func() bool {
		for h := 0; h < nh; h++ {
			if got(h) < len(expected[h]) {
				return false
			}
		}
		return true
	}
	settleStart := time.Now()
	var quietSince time.Time
	for !allThere() && time.Since(settleStart) < r.o.Settle {
		s.pump(20 * time.Millisecond)
		// when the queue is empty and nothing moves any more, what is missing will not come: no need to wait on
		if !s.quiet(500 * time.Millisecond) {
			quietSince = time.Time{}
		} else if quietSince.IsZero() {
			quietSince = time.Now()
		} else if time.Since(quietSince) > 2500*time.Millisecond {
			break
		}
	}
	settleEnd := time.Now()
	late := make([]int, nh) // messages still missing when the patience ran out
	stuck := false
	if !allThere() {
		for h := 0; h < nh; h++ {
			late[h] = len(expected[h]) - got(h)
		}
		stuck = !r.srv.S.VerifIdle()
	}
	// two rounds of sentinel writes: everything queued before a sentinel is sent before it
	for round := 1; round <= 2; round++ {
		for k, key := range s.keys {
			_ = k
			v, err := r.drv.Do("SET", key, fmt.Sprintf("~s%d", round), "POINT", "1", "1")
			if err != nil || v.Kind != '+' {
				return s.out, fail("sentinel SET", v, err)
			}
			s.writeAt[fmt.Sprintf("~s%d", round)] = time.Now()
		}
		seen := func() bool {
			for h := 0; h < nh; h++ {
				n := 0
				for _, m := range s.accepted[h] {
					if m.sentinel == round {
						n++
					}
				}
				if n < len(sc.Hooks[h].Kinds) {
					return false
				}
			}
			return true
		}
		start := time.Now()
		for !seen() && time.Since(start) < r.o.Settle {
			s.pump(20 * time.Millisecond)
		}
		if !seen() {
			if stall.Max() > r.o.MaxStall {
				st.SkippedSlow++
				return nil, nil
			}
			for h := 0; h < nh; h++ {
				s.mismatch(h+1, "lost", fmt.Sprintf("hook %s: the sentinel write of round %d was not delivered within %v although every endpoint accepts; accepted so far: %v",
					s.names[h], round, r.o.Settle, s.accepted[h]))
			}
			break
		}
	}
	idleStart := time.Now()
	for !r.srv.S.VerifIdle() && time.Since(idleStart) < 5*time.Second {
		s.pump(20 * time.Millisecond)
	}
	s.pump(30 * time.Millisecond)

	// ---- the judgement: accepted = TLC's messages, in order, each once, nothing after the sentinels
	ms := stall.Max()
	if ms.Milliseconds() > st.MaxStallMs {
		st.MaxStallMs = ms.Milliseconds()
	}
	for h := 0; h < nh; h++ {
		for _, a := range s.acceptedAt[h] {
			if a.Ambiguous.Load() {
				s.ambiguous = append(s.ambiguous, a)
			}
		}
	}
	if r.o.Corrupt {
		// self-test of the binding: forget the first message that the endpoint of some hook accepted
		for h := 0; h < nh; h++ {
			if len(s.accepted[h]) > 0 && s.accepted[h][0].sentinel == 0 {
				s.accepted[h] = s.accepted[h][1:]
				break
			}
		}
	}
	before := len(s.out)
	tooOld := false
	for h := 0; h < nh; h++ {
		var obs []obsMsg
		afterSentinel := false
		for _, m := range s.accepted[h] {
			if m.sentinel > 0 {
				afterSentinel = true
				continue
			}
			if afterSentinel {
				s.mismatch(h+1, "late", fmt.Sprintf("hook %s: %s was accepted after a sentinel write, i.e. after the queue had been drained: a message sent again", s.names[h], m))
			}
			obs = append(obs, m)
		}
		st.HooksCompared++
		st.MsgsCompared += len(expected[h])
		class, text := compareSeq(obs, expected[h])
		if class == "lost" && sc.MaxClock == 0 {
			// the model's clock stands still; the real retention is 30 s: a message that was older than that when the
			// endpoints had recovered and everything had settled may have been dropped by it - not judged
			seen := map[obsMsg]bool{}
			for _, m := range obs {
				seen[m] = true
			}
			young := false
			for _, m := range expected[h] {
				if at, ok := s.writeAt[m.id]; !seen[m] && (!ok || settleEnd.Sub(at) < 26*time.Second) {
					young = true
				}
			}
			if !young {
				tooOld = true
			}
		}
		if class != "" {
			s.mismatch(h+1, class, fmt.Sprintf("hook %s (key %d, detect %v, endpoints %v): %s; accepted by the endpoint: %v; specification (generated, in write order, minus retention): %v",
				s.names[h], sc.Hooks[h].Key, sc.Hooks[h].Kinds, sc.Hooks[h].Eps, text, obs, expected[h]))
		} else if late[h] > 0 {
			where := "they were no longer in the queue"
			if stuck {
				where = "they sat in the on-disk queue"
			}
			s.mismatch(h+1, "stuck", fmt.Sprintf("hook %s: %d message(s) were not delivered within %v after every endpoint had recovered (%s) and arrived only after a further write woke the sender up",
				s.names[h], late[h], r.o.Settle, where))
		}
	}
	if len(s.out) > before || len(s.out) > 0 {
		reason := ""
		switch {
		case ms > r.o.MaxStall:
			reason = "process or disk stalled"
		case len(s.ambiguous) > 0:
			reason = "a request was answered after its client had given up"
		case usedTicks && s.tainted:
			reason = "retention script could not be followed on its time grid"
		case tooOld:
			reason = "the missing messages were older than the 30 s retention when the endpoints had recovered"
		}
		if reason != "" {
			// too slow to judge
			st.SkippedSlow++
			st.SkipReasons[reason]++
			if len(st.SkipExamples) < 6 {
				st.SkipExamples = append(st.SkipExamples, fmt.Sprintf("behaviour %d (%s): %s", bi, reason, s.out[0].Text))
			}
			return nil, nil
		}
	}
	for i := range s.out {
		s.out[i].Text += redefined
		st.Classes[s.out[i].Class]++
	}
	return s.out, nil
}

func (s *scenario) metas(h int) []string {
	if s.rev[h] == 0 {
		return nil
	}
	return []string{"META", "rev", fmt.Sprint(s.rev[h])}
}

func (r *Runner) epIndex(h int, e *Endpoint) int {
	for k, x := range r.eps {
		if x == e && k[0] == h {
			return k[1]
		}
	}
	return 0
}

// compareSeq compares what an endpoint accepted with TLC's sequence.
func compareSeq(obs, exp []obsMsg) (string, string) {
	same := len(obs) == len(exp)
	if same {
		for i := range obs {
			if obs[i] != exp[i] {
				same = false
				break
			}
		}
	}
	if same {
		return "", ""
	}
	cnt := map[obsMsg]int{}
	for _, m := range obs {
		cnt[m]++
	}
	want := map[obsMsg]bool{}
	for _, m := range exp {
		want[m] = true
	}
	var lost, dup, spur []string
	for _, m := range exp {
		if cnt[m] == 0 {
			lost = append(lost, m.String())
		}
	}
	for m, n := range cnt {
		if !want[m] {
			spur = append(spur, m.String())
		} else if n > 1 {
			dup = append(dup, fmt.Sprintf("%s x%d", m, n))
		}
	}
	switch {
	case len(spur) > 0:
		return "spurious", "messages the specification never generated for this hook: " + strings.Join(spur, " ")
	case len(lost) > 0 && len(dup) > 0:
		return "lost", "lost: " + strings.Join(lost, " ") + "; delivered more than once: " + strings.Join(dup, " ")
	case len(lost) > 0:
		return "lost", "never delivered: " + strings.Join(lost, " ")
	case len(dup) > 0:
		return "duplicate", "delivered more than once: " + strings.Join(dup, " ")
	}
	return "order", "every message once, but not in the order of the writes"
}
