// Package notify binds spec/Notify.tla (C10) to the real server: scripted HTTP
// endpoints, the replay of TLC-generated failure scripts (model -> code) and
// the recorder of concurrent runs that NotifyTrace judges (code -> model).
//
// This file: the webhook endpoint inside the harness.  Every request is held
// until the driver decides its outcome, so that the driver - not timing -
// determines which attempt succeeds and which fails:
//
//	Accept  200, the body counts as delivered
//	Reject  503 (the "5xx" failure), the body does not count
//	Hang    the request is never answered; the client gives up after its own timeout
//	Abort   the connection is cut without an answer (what a request that was already
//	        connected sees when the endpoint goes away)
//
// "refuse" is a closed listener: the endpoint keeps its port number, nothing listens on it.
package notify

import (
	"encoding/json"
	"fmt"
	"io"
	"net"
	"net/http"
	"os"
	"strings"
	"sync"
	"sync/atomic"
	"time"

	"github.com/tidwall/tile38/internal/log"
)

// Outcome of one request, decided by the driver.
type Outcome int

const (
	Accept Outcome = iota
	Reject
	Hang
	Abort
)

// Attempt is one request that reached an endpoint.
type Attempt struct {
	EP      *Endpoint
	Path    string // URL path: identifies scenario and hook
	Hook    string // "hook" member of the body
	ID      string // "id" member
	Detect  string // "detect" member
	Command string
	Body    string
	Arrived time.Time
	decide  chan Outcome
	gone    chan struct{} // closed when the client went away before a decision
	once    sync.Once
	// Ambiguous: the driver accepted the request but the client had given up meanwhile, so the
	// server may send the message again although the endpoint counted it (only on a stalled machine)
	Ambiguous atomic.Bool
}

// Gone reports whether the client gave up before the driver decided.
func (a *Attempt) Gone() bool {
	select {
	case <-a.gone:
		return true
	default:
		return false
	}
}

// Decide hands the outcome to the waiting request; false if the client has gone meanwhile
// (then nothing was answered and the request does not count).
func (a *Attempt) Decide(o Outcome) bool {
	ok := false
	a.once.Do(func() {
		select {
		case <-a.gone:
			return
		default:
		}
		a.decide <- o
		select {
		case <-a.gone: // the handler left through the other branch: the decision was not carried out
		default:
			ok = true
		}
	})
	return ok
}

// Router receives the attempts of one scenario.
type Router func(a *Attempt)

// Endpoint is one webhook endpoint with a port of its own.
type Endpoint struct {
	Port   int
	mu     sync.Mutex
	ln     net.Listener
	srv    *http.Server
	routes sync.Map // path prefix (first path element) -> Router
	Stray  atomic.Int64
	Seen   atomic.Int64
}

var sinkPort atomic.Int64

func init() {
	// ports below the ephemeral range, spread over concurrent harness processes
	sinkPort.Store(int64(10000 + (os.Getpid()%90)*100))
}

// NewEndpoint reserves a port and starts listening on it.
func NewEndpoint() (*Endpoint, error) {
	for try := 0; try < 2000; try++ {
		p := int(sinkPort.Add(1))
		if p >= 19990 {
			sinkPort.Store(10000)
			continue
		}
		e := &Endpoint{Port: p}
		if err := e.listen(); err == nil {
			return e, nil
		}
	}
	return nil, fmt.Errorf("no free port for a webhook endpoint")
}

func (e *Endpoint) listen() error {
	ln, err := net.Listen("tcp", fmt.Sprintf("127.0.0.1:%d", e.Port))
	if err != nil {
		return err
	}
	srv := &http.Server{Handler: http.HandlerFunc(e.serve)}
	// one connection per request: a closed listener then refuses every new attempt
	srv.SetKeepAlivesEnabled(false)
	e.ln, e.srv = ln, srv
	go srv.Serve(ln)
	return nil
}

// SetListening opens or closes the listener; requests already connected are not touched.
func (e *Endpoint) SetListening(on bool) error {
	e.mu.Lock()
	defer e.mu.Unlock()
	if on == (e.ln != nil) {
		return nil
	}
	if !on {
		e.ln.Close()
		e.ln = nil
		return nil
	}
	var err error
	for try := 0; try < 200; try++ {
		if err = e.listen(); err == nil {
			return nil
		}
		time.Sleep(10 * time.Millisecond)
	}
	return fmt.Errorf("cannot listen again on port %d: %v", e.Port, err)
}

// Close shuts the endpoint down for good.
func (e *Endpoint) Close() {
	e.mu.Lock()
	defer e.mu.Unlock()
	if e.ln != nil {
		e.ln.Close()
		e.ln = nil
	}
	if e.srv != nil {
		e.srv.Close()
	}
}

// URL of the endpoint for one hook of one scenario.
func (e *Endpoint) URL(tag, hook string) string {
	return fmt.Sprintf("http://127.0.0.1:%d/%s/%s", e.Port, tag, hook)
}

// Route installs the receiver of the attempts whose path starts with /tag/.
func (e *Endpoint) Route(tag string, r Router) {
	if r == nil {
		e.routes.Delete(tag)
	} else {
		e.routes.Store(tag, r)
	}
}

func (e *Endpoint) serve(w http.ResponseWriter, r *http.Request) {
	body, _ := io.ReadAll(r.Body)
	e.Seen.Add(1)
	parts := strings.SplitN(strings.TrimPrefix(r.URL.Path, "/"), "/", 2)
	rt, ok := e.routes.Load(parts[0])
	if !ok {
		e.Stray.Add(1)
		w.WriteHeader(200)
		return
	}
	a := &Attempt{EP: e, Path: r.URL.Path, Body: string(body), Arrived: time.Now(),
		decide: make(chan Outcome, 1), gone: make(chan struct{})}
	var m struct {
		Hook    string `json:"hook"`
		ID      string `json:"id"`
		Detect  string `json:"detect"`
		Command string `json:"command"`
	}
	json.Unmarshal(body, &m)
	a.Hook, a.ID, a.Detect, a.Command = m.Hook, m.ID, m.Detect, m.Command
	rt.(Router)(a)
	ctx := r.Context()
	select {
	case o := <-a.decide:
		switch o {
		case Accept:
			w.WriteHeader(200)
			if ctx.Err() != nil {
				a.Ambiguous.Store(true)
			}
		case Reject:
			w.WriteHeader(503)
		case Hang:
			<-ctx.Done()
			close(a.gone) // the client has given up
		case Abort:
			abort(w)
		}
	case <-ctx.Done():
		close(a.gone)
		select {
		case o := <-a.decide:
			if o == Accept {
				a.Ambiguous.Store(true)
			}
		default:
		}
	}
}

func abort(w http.ResponseWriter) {
	if hj, ok := w.(http.Hijacker); ok {
		if c, _, err := hj.Hijack(); err == nil {
			if tc, ok := c.(*net.TCPConn); ok {
				tc.SetLinger(0)
			}
			c.Close()
			return
		}
	}
	panic(http.ErrAbortHandler)
}

// ---------------------------------------------------------------- the server's own debug log

// FailLog counts the failed sends the server logs ("Endpoint connect/send error: idx: url: err"),
// per endpoint URL.  It is used only to know that an attempt against a closed listener has happened
// (such an attempt is invisible to the endpoint); no verdict is derived from it.
type FailLog struct {
	mu sync.Mutex
	n  map[string]int
	ok map[string]int
}

var theFailLog *FailLog
var failLogOnce sync.Once

// CaptureLog routes the server's debug log into the counter (process wide, once).
func CaptureLog() *FailLog {
	failLogOnce.Do(func() {
		theFailLog = &FailLog{n: map[string]int{}, ok: map[string]int{}}
		log.SetLevel(3)
		log.SetOutput(theFailLog)
	})
	return theFailLog
}

const failMark = "Endpoint connect/send error: "
const okMark = "Endpoint send ok: "

func (f *FailLog) Write(b []byte) (int, error) {
	s := string(b)
	for _, mk := range []string{failMark, okMark} {
		if i := strings.Index(s, mk); i >= 0 {
			rest := s[i+len(mk):]
			// "<idx>: <url>: <err>"
			if j := strings.Index(rest, ": "); j >= 0 {
				rest = rest[j+2:]
				if k := strings.Index(rest, ": "); k >= 0 {
					f.mu.Lock()
					if mk == failMark {
						f.n[rest[:k]]++
					} else {
						f.ok[rest[:k]]++
					}
					f.mu.Unlock()
				}
			}
		}
	}
	return len(b), nil
}

// Failed returns how many failed sends to url the server has logged.
func (f *FailLog) Failed(url string) int {
	f.mu.Lock()
	defer f.mu.Unlock()
	return f.n[url]
}

// ---------------------------------------------------------------- stall detector

// Stall measures how late a 20 ms sleeper wakes up and how long a small write + fsync in the data directory
// takes (the hook queue is fsynced under its lock once per second): the largest value seen tells whether the
// machine was too slow for a time based judgement.
type Stall struct {
	max  atomic.Int64
	stop chan struct{}
}

func (s *Stall) note(d time.Duration) {
	for {
		m := s.max.Load()
		if int64(d) <= m || s.max.CompareAndSwap(m, int64(d)) {
			return
		}
	}
}

// NewStall starts the probes; dir may be empty (no disk probe).
func NewStall(dir string) *Stall {
	s := &Stall{stop: make(chan struct{})}
	go func() {
		const step = 20 * time.Millisecond
		last := time.Now()
		for {
			select {
			case <-s.stop:
				return
			default:
			}
			time.Sleep(step)
			now := time.Now()
			s.note(now.Sub(last) - step)
			last = now
		}
	}()
	if dir != "" {
		go func() {
			os.MkdirAll(dir, 0o755)
			name := fmt.Sprintf("%s/stall-probe-%d", dir, time.Now().UnixNano())
			f, err := os.Create(name)
			if err != nil {
				return
			}
			defer os.Remove(name)
			defer f.Close()
			for {
				select {
				case <-s.stop:
					return
				default:
				}
				t := time.Now()
				f.WriteAt([]byte("x"), 0)
				f.Sync()
				s.note(time.Since(t))
				time.Sleep(250 * time.Millisecond)
			}
		}()
	}
	return s
}

func (s *Stall) Max() time.Duration { return time.Duration(s.max.Load()) }
func (s *Stall) Stop()              { close(s.stop) }
