package notify

import (
	"fmt"
	"sync"
	"sync/atomic"
	"time"

	"github.com/tidwall/tile38/verifharness/t38"
)

// LiveRace opens `lives` live fences on one key and pipelines n SETs of fresh objects inside them.
// It returns the number of events the live connections received (n per connection when nothing is lost).
func LiveRace(lives, n int) (int64, error) {
	srv, err := t38.Start(t38.Options{})
	if err != nil {
		return 0, err
	}
	defer srv.StopAndRemove()
	var got atomic.Int64
	var wg sync.WaitGroup
	for l := 0; l < lives; l++ {
		c, err := srv.Dial()
		if err != nil {
			return 0, err
		}
		defer c.Close()
		c.Timeout = time.Minute
		v, err := c.Do("WITHIN", "k", "FENCE", "DETECT", "inside", "BOUNDS", "-10", "-10", "10", "10")
		if err != nil || v.Kind != '+' {
			return 0, fmt.Errorf("live fence: %v %s", err, v.String())
		}
		wg.Add(1)
		go func() {
			defer wg.Done()
			for i := 0; i < n; i++ {
				if _, err := c.Recv(); err != nil {
					return
				}
				got.Add(1)
			}
		}()
	}
	w, err := srv.Dial()
	if err != nil {
		return 0, err
	}
	defer w.Close()
	w.Timeout = time.Minute
	go func() {
		for i := 0; i < n; i++ {
			w.Send("SET", "k", fmt.Sprintf("o%d", i), "POINT", "1", "1")
		}
	}()
	for i := 0; i < n; i++ {
		if v, err := w.Recv(); err != nil || v.Kind != '+' {
			return got.Load(), fmt.Errorf("SET %d: %v %s", i, err, v.String())
		}
	}
	wg.Wait()
	return got.Load(), nil
}
