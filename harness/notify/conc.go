package notify

// conc.go: code -> model.  Concurrent writer connections (SET into fenced
// collections, PUBLISH), subscriber connections that subscribe / unsubscribe
// (exact and pattern) while the writers run, live fence connections opened at
// the start and in the middle, and webhooks whose endpoint fails in random
// windows (503 / closed listener).  Everything a client can observe is
// recorded: tickets drawn from one atomic counter just before a command is
// written and just after its reply was read, every frame every receiver got,
// every request the endpoints saw, and - after the run - the order of the
// SETs in appendonly.aof.  The record is one line of trace.ndjson; TLC judges
// it with spec/NotifyTrace.tla.  Nothing is judged here.

import (
	"bufio"
	"encoding/json"
	"fmt"
	"math/rand"
	"os"
	"strings"
	"sync"
	"sync/atomic"
	"time"

	"github.com/tidwall/tile38/verifharness/t38"
)

// Item is one received notification, as NotifyTrace reads it.
type Item struct {
	C    int    `json:"c"`
	I    int    `json:"i"`
	Ch   int    `json:"ch"`
	D    int    `json:"d"`
	W    int    `json:"w"`
	St   int64  `json:"st"`
	Rt   int64  `json:"rt"`
	Kind string `json:"kind,omitempty"`
	N    int    `json:"n,omitempty"`
}

type ReqRec struct {
	C  int  `json:"c"`
	I  int  `json:"i"`
	D  int  `json:"d"`
	W  int  `json:"w"`
	Ok bool `json:"ok"`
}

type PubRec struct {
	C  int   `json:"c"`
	I  int   `json:"i"`
	Ch int   `json:"ch"`
	St int64 `json:"st"`
	Rt int64 `json:"rt"`
}

type WriteRec struct {
	C  int   `json:"c"`
	I  int   `json:"i"`
	W  int   `json:"w"`
	K  int   `json:"k"`
	St int64 `json:"st"`
	Rt int64 `json:"rt"`
}

type InstRec struct {
	S    int    `json:"s"`
	J    int    `json:"j"`
	Kind string `json:"kind"`
	N    int    `json:"n"`
	St   int64  `json:"st"`
	At   int64  `json:"at"`
	Ust  int64  `json:"ust"`
	Uat  int64  `json:"uat"`
}

type FenceRec struct {
	K     int   `json:"k"`
	Kinds []int `json:"kinds"`
}

type SubStream struct {
	S     int    `json:"s"`
	Items []Item `json:"items"`
}

type HookStream struct {
	H        int      `json:"h"`
	K        int      `json:"k"`
	Kinds    []int    `json:"kinds"`
	Items    []Item   `json:"items"`
	Attempts []ReqRec `json:"attempts"`
}

type LiveStream struct {
	L     int    `json:"l"`
	K     int    `json:"k"`
	Kinds []int  `json:"kinds"`
	St    int64  `json:"st"`
	At    int64  `json:"at"`
	Items []Item `json:"items"`
}

// ConcTrace is one line of trace.ndjson.
type ConcTrace struct {
	ID       string       `json:"id"`
	PatMatch [][]int      `json:"patmatch"`
	Chans    []FenceRec   `json:"chans"` // channel f carries the events of the fence on key K with these detect codes
	Pubs     []PubRec     `json:"pubs"`
	Writes   []WriteRec   `json:"writes"`
	Insts    []InstRec    `json:"insts"`
	Subs     []SubStream  `json:"subs"`
	Hooks    []HookStream `json:"hooks"`
	Lives    []LiveStream `json:"lives"`
	// not read by TLC
	Info map[string]int `json:"info"`
}

// ConcOptions of one run.
type ConcOptions struct {
	Dir      string
	Seed     int64
	Writers  int
	Ops      int // operations per writer connection
	Subs     int
	Pace     time.Duration // mean pause between two operations of a writer connection
	Faults   bool          // the endpoint of hook 1 fails in random windows
	Patience time.Duration // for the final sentinels
}

type subOp struct {
	op   string // sub | unsub
	kind string // ch | pat
	n    int
}

var detectCode = map[string]int{"cross": 0, "exit": 1, "outside": 2, "enter": 3, "inside": 4}

// ErrSlow marks a run that could not be completed in time (never a verdict).
type ErrSlow struct{ What string }

func (e ErrSlow) Error() string { return "too slow / stalled: " + e.What }

// RunConc performs one concurrent run on a fresh server and returns its record.
func RunConc(id int, o ConcOptions) (*ConcTrace, error) {
	rng := rand.New(rand.NewSource(o.Seed))
	srv, err := t38.Start(t38.Options{Dir: fmt.Sprintf("%s/conc%d-%d", o.Dir, id, o.Seed)})
	if err != nil {
		return nil, err
	}
	defer srv.StopAndRemove()
	stall := NewStall(srv.Dir)
	defer stall.Stop()
	tag := fmt.Sprintf("c%d-%d-", os.Getpid()%1000, id)
	var ticket atomic.Int64
	T := func() int64 { return ticket.Add(1) }

	// ---- names.  channels: 1..3 fence channels, 4 a plain channel, 4+s the end channel of subscriber s
	keys := []string{tag + "k1", tag + "k2"}
	chans := []FenceRec{{K: 1, Kinds: []int{3, 4}}, {K: 1, Kinds: []int{4}}, {K: 2, Kinds: []int{4}}}
	nch := 4 + o.Subs
	chName := make([]string, nch+1)
	chIndex := map[string]int{}
	for f := 1; f <= 3; f++ {
		chName[f] = fmt.Sprintf("%sf%d", tag, f)
	}
	chName[4] = tag + "p1"
	for s := 1; s <= o.Subs; s++ {
		chName[4+s] = fmt.Sprintf("z-%s%d", tag, s) // outside every pattern
	}
	for i := 1; i <= nch; i++ {
		chIndex[chName[i]] = i
	}
	patName := []string{"", tag + "*", tag + "f*"}
	patIndex := map[string]int{patName[1]: 1, patName[2]: 2}
	tr := &ConcTrace{ID: fmt.Sprintf("%s seed %d", tag, o.Seed), PatMatch: [][]int{{1, 2, 3, 4}, {1, 2, 3}}, Chans: chans, Info: map[string]int{}}

	drv, err := srv.Dial()
	if err != nil {
		return nil, err
	}
	defer drv.Close()
	drv.Timeout = 2 * time.Minute
	must := func(v t38.Value, err error, what string) error {
		if err != nil {
			return fmt.Errorf("%s: %v", what, err)
		}
		if v.Kind == '-' {
			return fmt.Errorf("%s: %s", what, v.String())
		}
		return nil
	}
	detect := func(kinds []int) string {
		var d []string
		for _, k := range kinds {
			d = append(d, detectName[k])
		}
		return strings.Join(d, ",")
	}
	for f := 1; f <= 3; f++ {
		v, e := drv.Do("SETCHAN", chName[f], "WITHIN", keys[chans[f-1].K-1], "FENCE", "DETECT", detect(chans[f-1].Kinds), "BOUNDS", "-10", "-10", "10", "10")
		if err := must(v, e, "SETCHAN"); err != nil {
			return nil, err
		}
	}

	// ---- webhooks
	type hookState struct {
		mu       sync.Mutex
		ep       *Endpoint
		items    []*Attempt
		attempts []struct {
			a  *Attempt
			ok bool
		}
		mode atomic.Int32 // 0 accept, 1 reject
	}
	hookCfg := []FenceRec{{K: 1, Kinds: []int{3, 4}}, {K: 2, Kinds: []int{4}}}
	hooks := make([]*hookState, len(hookCfg))
	hookName := make([]string, len(hookCfg))
	var ambiguous atomic.Int64
	for h := range hookCfg {
		ep, err := NewEndpoint()
		if err != nil {
			return nil, err
		}
		defer ep.Close()
		hs := &hookState{ep: ep}
		hooks[h] = hs
		hookName[h] = fmt.Sprintf("%sh%d", tag, h+1)
		ep.Route(strings.TrimSuffix(tag, "-"), func(a *Attempt) {
			hs.mu.Lock()
			ok := hs.mode.Load() == 0
			hs.attempts = append(hs.attempts, struct {
				a  *Attempt
				ok bool
			}{a, ok})
			if ok {
				hs.items = append(hs.items, a)
			}
			hs.mu.Unlock()
			if ok {
				if !a.Decide(Accept) {
					ambiguous.Add(1)
				}
			} else {
				a.Decide(Reject)
			}
		})
		v, e := drv.Do("SETHOOK", hookName[h], ep.URL(strings.TrimSuffix(tag, "-"), fmt.Sprintf("h%d", h+1)), "WITHIN", keys[hookCfg[h].K-1],
			"FENCE", "DETECT", detect(hookCfg[h].Kinds), "BOUNDS", "-10", "-10", "10", "10")
		if err := must(v, e, "SETHOOK"); err != nil {
			return nil, err
		}
	}

	// ---- message identity
	parse := func(payload string) (c, i, d int, hook string) {
		if strings.HasPrefix(payload, "p:") {
			fmt.Sscanf(payload, "p:%d:%d", &c, &i)
			return
		}
		var m struct {
			Hook   string `json:"hook"`
			ID     string `json:"id"`
			Detect string `json:"detect"`
		}
		if json.Unmarshal([]byte(payload), &m) == nil && strings.HasPrefix(m.ID, "o-") {
			fmt.Sscanf(m.ID, "o-%d-%d", &c, &i)
			d = detectCode[m.Detect]
			hook = m.Hook
		}
		return
	}

	var wg sync.WaitGroup
	var closing atomic.Bool // the run is being ended by the driver: read errors of the receivers are expected
	var connMu sync.Mutex
	var rconns []*t38.Conn // the receivers' connections
	var firstErr error
	var errMu sync.Mutex
	setErr := func(err error) {
		errMu.Lock()
		if firstErr == nil {
			firstErr = err
		}
		errMu.Unlock()
	}
	type rawItem struct {
		c, i, d, ch int
		kind        string
		n           int
	}

	// ---- live fences
	type liveState struct {
		cfg    FenceRec
		st, at int64
		items  []rawItem
		done   chan struct{}
		endID  string
	}
	liveCfg := []FenceRec{{K: 1, Kinds: []int{4}}, {K: 2, Kinds: []int{3, 4}}, {K: 1, Kinds: []int{3, 4}}}
	lives := make([]*liveState, len(liveCfg))
	var liveMu sync.Mutex
	var endMu sync.Mutex
	drvC := o.Writers + 1
	endWrite := map[int]string{} // key index -> id of the last sentinel write (under endMu)
	startLive := func(l int) {
		ls := &liveState{cfg: liveCfg[l], done: make(chan struct{})}
		liveMu.Lock()
		lives[l] = ls
		liveMu.Unlock()
		c, err := srv.Dial()
		if err != nil {
			setErr(err)
			close(ls.done)
			return
		}
		c.Timeout = 10 * time.Minute
		connMu.Lock()
		rconns = append(rconns, c)
		connMu.Unlock()
		ls.st = T()
		v, err := c.Do("WITHIN", keys[ls.cfg.K-1], "FENCE", "DETECT", detect(ls.cfg.Kinds), "BOUNDS", "-10", "-10", "10", "10")
		if err != nil || v.Kind != '+' {
			setErr(fmt.Errorf("live fence: %v %s", err, v.String()))
			close(ls.done)
			c.Close()
			return
		}
		ls.at = T()
		go func() {
			defer close(ls.done)
			defer c.Close()
			for {
				v, err := c.Recv()
				if err != nil {
					if !closing.Load() {
						setErr(fmt.Errorf("live connection %d: %v", l+1, err))
					}
					return
				}
				if v.Kind != '$' {
					setErr(fmt.Errorf("unexpected frame on a live connection: %s", v.String()))
					return
				}
				ci, ii, d, _ := parse(v.Str)
				ls.items = append(ls.items, rawItem{c: ci, i: ii, d: d})
				// the last message of the last sentinel write ends the stream
				endMu.Lock()
				end := endWrite[ls.cfg.K]
				endMu.Unlock()
				if ci == drvC && fmt.Sprintf("o-%d-%d", ci, ii) == end && d == ls.cfg.Kinds[len(ls.cfg.Kinds)-1] {
					return
				}
			}
		}()
	}

	// ---- subscribers
	type subState struct {
		mu    sync.Mutex
		prog  []subOp
		insts []*InstRec
		items []rawItem
		done  chan struct{}
	}
	subs := make([]*subState, o.Subs)
	endPayload := make([]string, o.Subs)
	for s := 0; s < o.Subs; s++ {
		ss := &subState{done: make(chan struct{})}
		subs[s] = ss
		// a random sane program over: channels 1..4 exact, patterns 1..2; the last operation subscribes the end channel
		active := map[string]bool{}
		nops := 1 + rng.Intn(5)
		for len(ss.prog) < nops {
			var op subOp
			if rng.Intn(3) == 0 {
				op = subOp{kind: "pat", n: 1 + rng.Intn(2)}
			} else {
				op = subOp{kind: "ch", n: 1 + rng.Intn(4)}
			}
			k := fmt.Sprintf("%s%d", op.kind, op.n)
			if active[k] {
				op.op = "unsub"
				active[k] = false
			} else if len(ss.prog) > 0 && rng.Intn(4) == 0 {
				// a client that unsubscribes from a fixed list: the name is not subscribed on this connection (another
				// connection may be its only subscriber).  Notify: Cancels = 0, nobody's subscription changes.
				op.op = "unsub"
			} else {
				op.op = "sub"
				active[k] = true
			}
			if len(ss.prog) == 0 && op.op != "sub" {
				continue
			}
			ss.prog = append(ss.prog, op)
		}
		ss.prog = append(ss.prog, subOp{op: "sub", kind: "ch", n: 4 + s + 1})
	}
	runSub := func(s int, pauses []time.Duration) {
		ss := subs[s]
		defer close(ss.done)
		c, err := srv.Dial()
		if err != nil {
			setErr(err)
			return
		}
		defer c.Close()
		c.Timeout = 10 * time.Minute
		connMu.Lock()
		rconns = append(rconns, c)
		connMu.Unlock()
		acks := make(chan string, 16)
		progDone := make(chan struct{})
		go func() { // the program: one operation at a time, each waits for its acknowledgement
			defer close(progDone)
			for j, op := range ss.prog {
				time.Sleep(pauses[j])
				cmd := map[string]string{"subch": "SUBSCRIBE", "subpat": "PSUBSCRIBE", "unsubch": "UNSUBSCRIBE", "unsubpat": "PUNSUBSCRIBE"}[op.op+op.kind]
				name := chName[0]
				if op.kind == "ch" {
					name = chName[op.n]
				} else {
					name = patName[op.n]
				}
				t := T()
				ss.mu.Lock()
				if op.op == "sub" {
					ss.insts = append(ss.insts, &InstRec{S: s + 1, J: j + 1, Kind: op.kind, N: op.n, St: t})
				} else {
					for k := len(ss.insts) - 1; k >= 0; k-- {
						if in := ss.insts[k]; in.Kind == op.kind && in.N == op.n && in.Ust == 0 {
							in.Ust = t
							break
						}
					}
				}
				ss.mu.Unlock()
				if err := c.Send(cmd, name); err != nil {
					setErr(err)
					return
				}
				select {
				case <-acks:
				case <-time.After(o.Patience):
					setErr(ErrSlow{"no acknowledgement of " + cmd})
					return
				}
				t = T()
				ss.mu.Lock()
				if op.op == "sub" {
					ss.insts[len(ss.insts)-1].At = t
				} else {
					for k := len(ss.insts) - 1; k >= 0; k-- {
						if in := ss.insts[k]; in.Kind == op.kind && in.N == op.n && in.Uat == 0 && in.Ust != 0 {
							in.Uat = t
							break
						}
					}
				}
				ss.mu.Unlock()
			}
		}()
		for {
			v, err := c.Recv()
			if err != nil {
				if !closing.Load() {
					setErr(fmt.Errorf("subscriber %d: %v", s+1, err))
				}
				return
			}
			if v.Kind != '*' || len(v.Arr) < 3 {
				setErr(fmt.Errorf("unexpected frame on a subscriber connection: %s", v.String()))
				return
			}
			switch v.Arr[0].Str {
			case "subscribe", "psubscribe", "unsubscribe", "punsubscribe":
				acks <- v.Arr[0].Str
			case "message":
				ci, ii, d, hook := parse(v.Arr[2].Str)
				ch := chIndex[v.Arr[1].Str]
				if hook != "" && hook != v.Arr[1].Str {
					ci, ii = 0, 0 // a fence message on a channel that is not its fence's
				}
				ss.items = append(ss.items, rawItem{c: ci, i: ii, d: d, ch: ch, kind: "ch", n: ch})
				endMu.Lock()
				end := endPayload[s]
				endMu.Unlock()
				if end != "" && v.Arr[2].Str == end && ch == 4+s+1 {
					<-progDone
					return
				}
			case "pmessage":
				if len(v.Arr) != 4 {
					setErr(fmt.Errorf("unexpected frame on a subscriber connection: %s", v.String()))
					return
				}
				ci, ii, d, hook := parse(v.Arr[3].Str)
				ch := chIndex[v.Arr[2].Str]
				if hook != "" && hook != v.Arr[2].Str {
					ci, ii = 0, 0
				}
				ss.items = append(ss.items, rawItem{c: ci, i: ii, d: d, ch: ch, kind: "pat", n: patIndex[v.Arr[1].Str]})
			default:
				setErr(fmt.Errorf("unexpected frame on a subscriber connection: %s", v.String()))
				return
			}
		}
	}

	// ---- writers
	type opRec struct {
		c, i   int
		pub    bool
		ch, k  int
		st, rt int64
	}
	ops := make([][]opRec, o.Writers+2)
	runWriter := func(c int, seed int64) {
		defer wg.Done()
		r := rand.New(rand.NewSource(seed))
		conn, err := srv.Dial()
		if err != nil {
			setErr(err)
			return
		}
		defer conn.Close()
		conn.Timeout = o.Patience
		for i := 1; i <= o.Ops; i++ {
			rec := opRec{c: c, i: i}
			var args []string
			if r.Intn(10) < 4 {
				rec.pub = true
				rec.ch = 1 + r.Intn(4)
				args = []string{"PUBLISH", chName[rec.ch], fmt.Sprintf("p:%d:%d", c, i)}
			} else {
				rec.k = 1 + r.Intn(2)
				args = []string{"SET", keys[rec.k-1], fmt.Sprintf("o-%d-%d", c, i), "POINT", "1", "1"}
			}
			rec.st = T()
			v, err := conn.Do(args...)
			rec.rt = T()
			if err != nil || v.Kind == '-' {
				setErr(fmt.Errorf("%v: %v %s", args, err, v.String()))
				return
			}
			ops[c] = append(ops[c], rec)
			if o.Pace > 0 && r.Intn(2) == 0 {
				time.Sleep(time.Duration(r.Int63n(int64(4 * o.Pace))))
			}
		}
	}

	// ---- go
	startLive(0)
	startLive(2) // a second live fence on the same key: both evaluate every write of it
	subPauses := make([][]time.Duration, o.Subs)
	for s := 0; s < o.Subs; s++ {
		for range subs[s].prog {
			subPauses[s] = append(subPauses[s], time.Duration(rng.Intn(12000))*time.Microsecond)
		}
		go runSub(s, subPauses[s])
	}
	stopFaults := make(chan struct{})
	var faultWG sync.WaitGroup
	if o.Faults {
		faultWG.Add(1)
		fr := rand.New(rand.NewSource(o.Seed ^ 0x5eed))
		go func() {
			defer faultWG.Done()
			hs := hooks[0]
			for {
				select {
				case <-stopFaults:
					hs.mode.Store(0)
					hs.ep.SetListening(true)
					return
				case <-time.After(time.Duration(5+fr.Intn(40)) * time.Millisecond):
				}
				switch fr.Intn(3) {
				case 0:
					hs.ep.SetListening(true)
					hs.mode.Store(0)
				case 1:
					hs.ep.SetListening(true)
					hs.mode.Store(1)
					tr.Info["windows_503"]++
				case 2:
					hs.ep.SetListening(false)
					tr.Info["windows_refuse"]++
				}
			}
		}()
	}
	lateLive := time.Duration(rng.Intn(15)) * time.Millisecond
	go func() {
		time.Sleep(lateLive)
		startLive(1)
	}()
	wseeds := make([]int64, o.Writers+1)
	for c := 1; c <= o.Writers; c++ {
		wseeds[c] = rng.Int63()
	}
	for c := 1; c <= o.Writers; c++ {
		wg.Add(1)
		go runWriter(c, wseeds[c])
	}
	t0dbg := time.Now()
	wg.Wait()
	if os.Getenv("NOTIFY_DEBUG") != "" {
		fmt.Fprintln(os.Stderr, "writers done after", time.Since(t0dbg))
	}
	close(stopFaults)
	faultWG.Wait()
	lateThere := func() bool {
		liveMu.Lock()
		defer liveMu.Unlock()
		return lives[1] != nil
	}
	for !lateThere() { // the late live fence must have been requested before the sentinels
		time.Sleep(time.Millisecond)
		errMu.Lock()
		e := firstErr
		errMu.Unlock()
		if e != nil {
			return nil, e
		}
	}
	// the subscribers' programs must be through before the end sentinels are published
	deadline := time.Now().Add(o.Patience)
	for s := 0; s < o.Subs; s++ {
		for {
			ss := subs[s]
			n := len(ss.prog)
			okk := false
			ss.mu.Lock()
			if len(ss.insts) > 0 {
				last := ss.insts[len(ss.insts)-1]
				okk = last.J == n && last.At != 0
			}
			ss.mu.Unlock()
			if okk {
				break
			}
			errMu.Lock()
			e := firstErr
			errMu.Unlock()
			if e != nil {
				return nil, e
			}
			if time.Now().After(deadline) {
				return nil, ErrSlow{"subscriber programs did not finish"}
			}
			time.Sleep(time.Millisecond)
		}
	}
	// ---- two rounds of sentinels by the driver connection (ordinary operations of the record)
	di := 0
	dop := func(rec opRec, args ...string) error {
		rec.st = T()
		v, err := drv.Do(args...)
		rec.rt = T()
		if err := must(v, err, args[0]); err != nil {
			return err
		}
		ops[drvC] = append(ops[drvC], rec)
		return nil
	}
	for round := 1; round <= 2; round++ {
		// the writes first: the end sentinels on the subscribers' end channels are the very last operations
		for k := 1; k <= 2; k++ {
			di++
			idd := fmt.Sprintf("o-%d-%d", drvC, di)
			if round == 2 {
				endMu.Lock()
				endWrite[k] = idd
				endMu.Unlock()
			}
			if err := dop(opRec{c: drvC, i: di, k: k}, "SET", keys[k-1], idd, "POINT", "1", "1"); err != nil {
				return nil, err
			}
		}
		for s := 0; s < o.Subs; s++ {
			di++
			p := fmt.Sprintf("p:%d:%d", drvC, di)
			if round == 2 {
				endMu.Lock()
				endPayload[s] = p
				endMu.Unlock()
			}
			if err := dop(opRec{c: drvC, i: di, pub: true, ch: 4 + s + 1}, "PUBLISH", chName[4+s+1], p); err != nil {
				return nil, err
			}
		}
	}
	// ---- wait for the ends.  A receiver that does not get its end sentinel in time is cut off and recorded as it
	// is (TLC then finds what is missing) - unless the machine stalled, in which case the run is not recorded
	incomplete := 0
	endBy := time.Now().Add(o.Patience)
	waitCh := func(ch chan struct{}) bool {
		select {
		case <-ch:
			return true
		case <-time.After(time.Until(endBy)):
			return false
		}
	}
	for s := range subs {
		if !waitCh(subs[s].done) {
			incomplete++
		}
	}
	for l := range lives {
		if !waitCh(lives[l].done) {
			incomplete++
		}
	}
	hookEnd := func(h int) bool {
		hs := hooks[h]
		hs.mu.Lock()
		defer hs.mu.Unlock()
		last := hookCfg[h].Kinds[len(hookCfg[h].Kinds)-1]
		endMu.Lock()
		end := endWrite[hookCfg[h].K]
		endMu.Unlock()
		for _, a := range hs.items {
			if a.ID == end && detectCode[a.Detect] == last {
				return true
			}
		}
		return false
	}
	for h := range hooks {
		for !hookEnd(h) {
			if time.Now().After(endBy) {
				incomplete++
				break
			}
			time.Sleep(5 * time.Millisecond)
		}
	}
	for !srv.S.VerifIdle() && time.Now().Before(endBy) {
		time.Sleep(5 * time.Millisecond)
	}
	time.Sleep(20 * time.Millisecond)
	closing.Store(true)
	connMu.Lock()
	for _, c := range rconns {
		c.Close()
	}
	connMu.Unlock()
	for s := range subs {
		<-subs[s].done
	}
	for l := range lives {
		<-lives[l].done
	}
	errMu.Lock()
	e := firstErr
	errMu.Unlock()
	if e != nil {
		return nil, e
	}
	if stall.Max() > 1500*time.Millisecond || ambiguous.Load() > 0 {
		return nil, ErrSlow{fmt.Sprintf("process / disk stalled for %v, %d requests answered after their client had gone", stall.Max(), ambiguous.Load())}
	}
	tr.Info["receivers_cut_off_without_end_sentinel"] = incomplete

	// ---- the order of the SETs in the log
	wOf := map[string]int{}
	f, err := os.Open(srv.AOFPath())
	if err != nil {
		return nil, err
	}
	rd := bufio.NewReaderSize(f, 1<<16)
	nset := 0
	for {
		v, err := t38.ReadValue(rd)
		if err != nil {
			break
		}
		if v.Kind == '*' && len(v.Arr) >= 3 && strings.EqualFold(v.Arr[0].Str, "set") && (v.Arr[1].Str == keys[0] || v.Arr[1].Str == keys[1]) {
			nset++
			wOf[v.Arr[2].Str] = nset
		}
	}
	f.Close()

	// ---- the record
	type opKey struct{ c, i int }
	tick := map[opKey]opRec{}
	for c := range ops {
		for _, rec := range ops[c] {
			tick[opKey{rec.c, rec.i}] = rec
			if rec.pub {
				tr.Pubs = append(tr.Pubs, PubRec{C: rec.c, I: rec.i, Ch: rec.ch, St: rec.st, Rt: rec.rt})
			} else {
				w := wOf[fmt.Sprintf("o-%d-%d", rec.c, rec.i)]
				if w == 0 {
					return nil, fmt.Errorf("acknowledged SET o-%d-%d is not in appendonly.aof", rec.c, rec.i)
				}
				tr.Writes = append(tr.Writes, WriteRec{C: rec.c, I: rec.i, W: w, K: rec.k, St: rec.st, Rt: rec.rt})
			}
		}
	}
	item := func(r rawItem) Item {
		rec := tick[opKey{r.c, r.i}]
		it := Item{C: r.c, I: r.i, Ch: r.ch, D: r.d, St: rec.st, Rt: rec.rt, Kind: r.kind, N: r.n}
		if !rec.pub && rec.c != 0 {
			it.W = wOf[fmt.Sprintf("o-%d-%d", r.c, r.i)]
		}
		return it
	}
	for s, ss := range subs {
		st := SubStream{S: s + 1, Items: []Item{}}
		for _, r := range ss.items {
			st.Items = append(st.Items, item(r))
		}
		tr.Subs = append(tr.Subs, st)
		for _, in := range ss.insts {
			tr.Insts = append(tr.Insts, *in)
		}
		tr.Info["sub_items"] += len(ss.items)
	}
	for h, hs := range hooks {
		st := HookStream{H: h + 1, K: hookCfg[h].K, Kinds: hookCfg[h].Kinds, Items: []Item{}, Attempts: []ReqRec{}}
		hs.mu.Lock()
		for _, a := range hs.items {
			c, i, d, hook := parse(a.Body)
			if hook != hookName[h] {
				c, i = 0, 0
			}
			st.Items = append(st.Items, item(rawItem{c: c, i: i, d: d}))
		}
		for _, x := range hs.attempts {
			c, i, d, _ := parse(x.a.Body)
			st.Attempts = append(st.Attempts, ReqRec{C: c, I: i, D: d, W: wOf[x.a.ID], Ok: x.ok})
			if !x.ok {
				tr.Info["requests_rejected"]++
			}
		}
		hs.mu.Unlock()
		tr.Hooks = append(tr.Hooks, st)
		tr.Info["hook_items"] += len(st.Items)
	}
	for l, ls := range lives {
		st := LiveStream{L: l + 1, K: ls.cfg.K, Kinds: ls.cfg.Kinds, St: ls.st, At: ls.at, Items: []Item{}}
		for _, r := range ls.items {
			st.Items = append(st.Items, item(r))
		}
		tr.Lives = append(tr.Lives, st)
		tr.Info["live_items"] += len(st.Items)
	}
	tr.Info["ops"] = len(tr.Pubs) + len(tr.Writes)
	tr.Info["max_stall_ms"] = int(stall.Max().Milliseconds())
	if tr.Pubs == nil {
		tr.Pubs = []PubRec{}
	}
	if tr.Writes == nil {
		tr.Writes = []WriteRec{}
	}
	if tr.Insts == nil {
		tr.Insts = []InstRec{}
	}
	return tr, nil
}
