package nearby

// world.go: concrete coordinates for the shapes and query points of spec/Nearby.tla,
// the SET arguments that realise them, and the integer distance tables (CONSTANTS
// Dist, FarLB) computed with geom.go.  A world is a pure function of its parameters.

import (
	"fmt"
	"math"
	"math/rand"
	"runtime"
	"strconv"
	"strings"
	"sync"
)

// Shape is one placed geometry (or a string value).
type Shape struct {
	Kind    string     `json:"kind"` // pt ptz gpt box line poly mpt str
	Args    []string   `json:"args"` // arguments of SET after the id and the FIELD clause
	Box     [4]float64 `json:"box"`  // minlat, minlon, maxlat, maxlon (bounding rectangle; zero for str)
	Indexed bool       `json:"indexed"`
	Cells   []int      `json:"cells,omitempty"` // grid shapes: r1, c1, r2, c2 (0-based)
}

// Query is one query point; Lat/Lon are the exact strings sent.
type Query struct {
	Lat  string  `json:"lat"`
	Lon  string  `json:"lon"`
	LatF float64 `json:"latf"`
	LonF float64 `json:"lonf"`
}

// FarObj is an anonymous far object.
type FarObj struct {
	ID   string   `json:"id"`
	Args []string `json:"args"`
}

// Params of a world.
type Params struct {
	Name   string  `json:"name"`
	Lat0   float64 `json:"lat0"` // south-west cell of the grid / centre of a random world
	Lon0   float64 `json:"lon0"`
	DLat   float64 `json:"dlat"` // grid steps in degrees
	DLon   float64 `json:"dlon"`
	Rows   int     `json:"rows"` // 0: no grid, a pool of random shapes
	Cols   int     `json:"cols"`
	NExt   int     `json:"next"`   // extended shapes placed on the grid (or in the pool)
	NPool  int     `json:"npool"`  // random point shapes in the pool (random worlds)
	NMov   int     `json:"nmov"`   // objects the generators move
	NNear  int     `json:"nnear"`  // near fillers: known objects placed at their own random shapes
	NFar   int     `json:"nfar"`   // anonymous far objects
	NExtra int     `json:"nextra"` // random off-grid query points
	NRing  int     `json:"nring"`  // near-tie fillers: this many points in each of two annuli, about 10 cm apart in distance
	Seed   int64   `json:"seed"`
}

// World is what `nearby-world` prints and `nearby-run` reads back.
type World struct {
	P         Params    `json:"params"`
	Shapes    []Shape   `json:"shapes"`
	Queries   []Query   `json:"queries"`
	DistMM    [][]int64 `json:"dist_mm"` // [query][shape], -1 for a string value
	IDs       []string  `json:"ids"`     // known objects: movers, then near fillers
	NMov      int       `json:"nmov"`
	InitAt    []int     `json:"init_at"` // 1-based shape index, 0 = absent
	InitF     []int     `json:"init_f"`
	GenShapes []int     `json:"gen_shapes"` // 1-based
	Far       []FarObj  `json:"far"`
	FarLB     []int64   `json:"far_lb_mm"`
	Pats      []string  `json:"pats"`
	RingQ     []int     `json:"ring_queries"` // 1-based query points the near-tie annuli are centred on
	// diagnostics
	MaxKnownMM  int64 `json:"max_known_mm"`
	MinFarLBMM  int64 `json:"min_far_lb_mm"`
	ZeroDist    int   `json:"pairs_at_distance_zero"`   // (query, shape) pairs with distance 0
	InsideRect  int   `json:"queries_inside_rectangle"` // of which the shape is extended
	ExtShapes   int   `json:"extended_shapes"`
	WrapShapes  int   `json:"shapes_spanning_the_180th_meridian"`
	TiedPairs   int   `json:"tied_shape_pairs"` // per query: pairs of shapes within 5 mm of each other
	PointShapes int   `json:"point_shapes"`
}

func ftoa(f float64) string { return strconv.FormatFloat(f, 'f', -1, 64) }

func r7(f float64) float64 { return math.Round(f*1e7) / 1e7 }

func wrapLon(l float64) float64 {
	for l > 180 {
		l -= 360
	}
	for l < -180 {
		l += 360
	}
	return r7(l)
}

func clampLat(l float64) float64 { return r7(math.Max(-90, math.Min(90, l))) }

func pointShape(kind string, lat, lon float64) Shape {
	s := Shape{Kind: kind, Box: [4]float64{lat, lon, lat, lon}, Indexed: true}
	switch kind {
	case "pt":
		s.Args = []string{"POINT", ftoa(lat), ftoa(lon)}
	case "ptz":
		s.Args = []string{"POINT", ftoa(lat), ftoa(lon), "123.5"}
	case "gpt":
		s.Args = []string{"OBJECT", fmt.Sprintf(`{"type":"Point","coordinates":[%s,%s]}`, ftoa(lon), ftoa(lat))}
	}
	return s
}

// extShape builds an extended object whose bounding rectangle is exactly the
// rectangle spanned by the two corner positions (numeric minimum / maximum of the
// coordinates, which is what a bounding rectangle of coordinates is).
func extShape(kind string, lat1, lon1, lat2, lon2 float64) Shape {
	a, b := math.Min(lat1, lat2), math.Max(lat1, lat2)
	c, d := math.Min(lon1, lon2), math.Max(lon1, lon2)
	if (a == b || c == d) && kind == "poly" {
		kind = "box" // a rectangle of zero height or width: no polygon
	}
	s := Shape{Kind: kind, Box: [4]float64{a, c, b, d}, Indexed: true}
	pt := func(lat, lon float64) string { return "[" + ftoa(lon) + "," + ftoa(lat) + "]" }
	midLat, midLon := r7((a+b)/2), r7((c+d)/2)
	switch kind {
	case "box":
		s.Args = []string{"BOUNDS", ftoa(a), ftoa(c), ftoa(b), ftoa(d)}
	case "line":
		// south-west corner, a vertex on the eastern edge, north-east... stays inside the rectangle
		s.Args = []string{"OBJECT", `{"type":"LineString","coordinates":[` +
			strings.Join([]string{pt(a, c), pt(midLat, d), pt(b, midLon), pt(b, d)}, ",") + `]}`}
	case "poly":
		s.Args = []string{"OBJECT", `{"type":"Polygon","coordinates":[[` +
			strings.Join([]string{pt(a, c), pt(a, d), pt(b, d), pt(midLat, midLon), pt(a, c)}, ",") + `]]}`}
	case "mpt":
		s.Args = []string{"OBJECT", `{"type":"MultiPoint","coordinates":[` +
			strings.Join([]string{pt(a, d), pt(b, c), pt(midLat, midLon)}, ",") + `]}`}
	case "feat":
		s.Args = []string{"OBJECT", `{"type":"Feature","geometry":{"type":"LineString","coordinates":[` +
			strings.Join([]string{pt(b, c), pt(a, d)}, ",") + `]},"properties":{"n":1}}`}
	}
	return s
}

var extKinds = []string{"box", "line", "poly", "mpt", "feat"}

// Build computes the world of the parameters.
func Build(p Params) (*World, error) {
	rng := rand.New(rand.NewSource(p.Seed*1000003 + 17))
	w := &World{P: p, NMov: p.NMov, Pats: []string{"*", "m*", "*1", "f?0*"}}
	var cellLat, cellLon []float64
	for r := 0; r < p.Rows; r++ {
		cellLat = append(cellLat, clampLat(p.Lat0+float64(r)*p.DLat))
	}
	for c := 0; c < p.Cols; c++ {
		cellLon = append(cellLon, wrapLon(p.Lon0+float64(c)*p.DLon))
	}
	// region of the near fillers and the random query points
	var latLo, latHi, lonLo, lonSpan float64
	if p.Rows > 0 {
		latLo, latHi = p.Lat0-1.5*p.DLat, p.Lat0+(float64(p.Rows)+0.5)*p.DLat
		lonLo, lonSpan = p.Lon0-1.5*p.DLon, (float64(p.Cols)+2)*p.DLon
	} else {
		latLo, latHi = p.Lat0-p.DLat, p.Lat0+p.DLat
		lonLo, lonSpan = p.Lon0-p.DLon, 2*p.DLon
	}
	randPos := func() (float64, float64) {
		return clampLat(latLo + rng.Float64()*(latHi-latLo)), wrapLon(lonLo + rng.Float64()*lonSpan)
	}
	randExt := func(kind string) Shape {
		la, lo := randPos()
		la2 := clampLat(la + (rng.Float64()-0.3)*(latHi-latLo)*0.2)
		lo2 := wrapLon(lo + (rng.Float64()-0.3)*lonSpan*0.2)
		if la2 == la {
			la2 = clampLat(la - (latHi-latLo)*0.05)
		}
		if lo2 == lo {
			lo2 = wrapLon(lo + lonSpan*0.05)
		}
		return extShape(kind, la, lo, la2, lo2)
	}

	// ---- shapes the generators place
	if p.Rows > 0 {
		for r := 0; r < p.Rows; r++ {
			for c := 0; c < p.Cols; c++ {
				s := pointShape("pt", cellLat[r], cellLon[c])
				s.Cells = []int{r, c, r, c}
				w.Shapes = append(w.Shapes, s)
			}
		}
		// duplicates of a position under other encodings
		s := pointShape("gpt", cellLat[0], cellLon[0])
		s.Cells = []int{0, 0, 0, 0}
		w.Shapes = append(w.Shapes, s)
		s = pointShape("ptz", cellLat[p.Rows-1], cellLon[p.Cols-1])
		s.Cells = []int{p.Rows - 1, p.Cols - 1, p.Rows - 1, p.Cols - 1}
		w.Shapes = append(w.Shapes, s)
		// extended shapes on rectangles of cells
		type rc struct{ r1, c1, r2, c2 int }
		var boxes []rc
		for r1 := 0; r1 < p.Rows; r1++ {
			for r2 := r1; r2 < p.Rows; r2++ {
				for c1 := 0; c1 < p.Cols; c1++ {
					for c2 := c1; c2 < p.Cols; c2++ {
						if r1 != r2 || c1 != c2 {
							boxes = append(boxes, rc{r1, c1, r2, c2})
						}
					}
				}
			}
		}
		rng.Shuffle(len(boxes), func(i, j int) { boxes[i], boxes[j] = boxes[j], boxes[i] })
		for i := 0; i < p.NExt && i < len(boxes); i++ {
			b := boxes[i]
			kind := extKinds[i%len(extKinds)]
			if (b.r1 == b.r2 || b.c1 == b.c2) && kind == "poly" {
				kind = "box" // a rectangle of zero height or width: no polygon
			}
			s := extShape(kind, cellLat[b.r1], cellLon[b.c1], cellLat[b.r2], cellLon[b.c2])
			s.Cells = []int{b.r1, b.c1, b.r2, b.c2}
			w.Shapes = append(w.Shapes, s)
		}
	} else {
		for i := 0; i < p.NPool; i++ {
			la, lo := randPos()
			kind := "pt"
			if i%17 == 3 {
				kind = "gpt"
			} else if i%19 == 5 {
				kind = "ptz"
			}
			w.Shapes = append(w.Shapes, pointShape(kind, la, lo))
			if i%11 == 7 { // a duplicate position
				w.Shapes = append(w.Shapes, pointShape("pt", la, lo))
			}
		}
		for i := 0; i < p.NExt; i++ {
			w.Shapes = append(w.Shapes, randExt(extKinds[i%len(extKinds)]))
		}
	}
	w.Shapes = append(w.Shapes, Shape{Kind: "str", Args: []string{"STRING", "not a geometry"}})
	for i := range w.Shapes {
		w.GenShapes = append(w.GenShapes, i+1)
	}

	// ---- known objects: movers (absent), near fillers (each at its own shape)
	for i := 0; i < p.NMov; i++ {
		w.IDs = append(w.IDs, fmt.Sprintf("m%d", i+1))
		w.InitAt = append(w.InitAt, 0)
		w.InitF = append(w.InitF, 0)
	}
	for i := 0; i < p.NNear; i++ {
		var s Shape
		if i%7 == 5 {
			s = randExt(extKinds[(i/7)%len(extKinds)])
		} else {
			la, lo := randPos()
			s = pointShape("pt", la, lo)
		}
		w.Shapes = append(w.Shapes, s)
		w.IDs = append(w.IDs, fmt.Sprintf("f%03d", i))
		w.InitAt = append(w.InitAt, len(w.Shapes))
		w.InitF = append(w.InitF, rng.Intn(2))
	}

	// ---- query points: every cell, the poles / the 180th meridian where near, random positions
	addQ := func(la, lo float64) {
		w.Queries = append(w.Queries, Query{Lat: ftoa(la), Lon: ftoa(lo), LatF: la, LonF: lo})
	}
	for r := 0; r < p.Rows; r++ {
		for c := 0; c < p.Cols; c++ {
			addQ(cellLat[r], cellLon[c])
		}
	}
	poleQ := -1
	if latHi > 89.5 {
		poleQ = len(w.Queries)
		addQ(90, 0)
		addQ(90, -135)
	}
	if latLo < -89.5 {
		poleQ = len(w.Queries)
		addQ(-90, 0)
		addQ(-90, 77)
	}
	if lonLo+lonSpan > 180 && lonLo < 180 || lonLo < -180 {
		addQ(clampLat((latLo+latHi)/2), 180)
		addQ(clampLat(latLo+(latHi-latLo)*0.3), -180)
	}
	for i := 0; i < p.NExtra; i++ {
		la, lo := randPos()
		addQ(la, lo)
	}

	// ---- near ties: two annuli of known objects around two query points, in random directions (so that they sit
	// in different leaves of a deep tree), about 10 cm apart in distance: the order among them is decided by
	// centimetres, i.e. by the exactness of the item distances and the admissibility of the node bounds
	if p.NRing > 0 && len(w.Queries) > 0 {
		for ring := 0; ring < 2; ring++ {
			q := w.Queries[len(w.Queries)-1-ring]
			if ring == 1 && poleQ >= 0 {
				// seen from a pole every rectangle is "due north / south": every node bound is tight
				q = w.Queries[poleQ]
				w.RingQ = append(w.RingQ, poleQ+1)
			} else {
				w.RingQ = append(w.RingQ, len(w.Queries)-ring)
			}
			base := (0.15 + 0.2*float64(ring)) * GreatCircle(latLo, lonLo, latHi, lonLo)
			for j := 0; j < p.NRing; j++ {
				la, lo := destination(q.LatF, q.LonF, rng.Float64()*2*math.Pi, base+0.1*float64(p.NRing)*rng.Float64())
				w.Shapes = append(w.Shapes, pointShape("pt", clampLat(la), wrapLon(lo)))
				w.IDs = append(w.IDs, fmt.Sprintf("r%d%03d", ring, j))
				w.InitAt = append(w.InitAt, len(w.Shapes))
				w.InitF = append(w.InitF, rng.Intn(2))
			}
		}
	}

	// ---- distance table
	nq, ns := len(w.Queries), len(w.Shapes)
	w.DistMM = make([][]int64, nq)
	var wg sync.WaitGroup
	sem := make(chan struct{}, runtime.NumCPU())
	for qi := range w.Queries {
		w.DistMM[qi] = make([]int64, ns)
		wg.Add(1)
		sem <- struct{}{}
		go func(qi int) {
			defer wg.Done()
			defer func() { <-sem }()
			q := w.Queries[qi]
			for si, s := range w.Shapes {
				if !s.Indexed {
					w.DistMM[qi][si] = -1
					continue
				}
				d := BoxDistance(q.LatF, q.LonF, Box{s.Box[0], s.Box[1], s.Box[2], s.Box[3]})
				w.DistMM[qi][si] = int64(math.Round(d * 1000))
			}
		}(qi)
	}
	wg.Wait()
	for qi := range w.Queries {
		row := w.DistMM[qi]
		for si, s := range w.Shapes {
			if !s.Indexed {
				continue
			}
			if row[si] > w.MaxKnownMM {
				w.MaxKnownMM = row[si]
			}
			if row[si] == 0 {
				w.ZeroDist++
				if s.Kind != "pt" && s.Kind != "ptz" && s.Kind != "gpt" {
					w.InsideRect++
				}
			}
			for sj := 0; sj < si; sj++ {
				if w.Shapes[sj].Indexed && math.Abs(float64(row[si]-row[sj])) <= 5 {
					w.TiedPairs++
				}
			}
		}
	}
	for _, s := range w.Shapes {
		switch s.Kind {
		case "pt", "ptz", "gpt":
			w.PointShapes++
		case "str":
		default:
			w.ExtShapes++
			if s.Box[3]-s.Box[1] > 180 {
				w.WrapShapes++
			}
		}
	}
	if w.MaxKnownMM >= 1<<30 {
		return nil, fmt.Errorf("world %s: a known distance of %d mm does not fit TLC's integers", p.Name, w.MaxKnownMM)
	}

	// ---- far objects: beyond every known shape from every query point
	clat, clon := clampLat((latLo+latHi)/2), wrapLon(lonLo+lonSpan/2)
	reach := 0.0 // of the known world from the centre
	for _, s := range w.Shapes {
		if s.Indexed {
			for _, c := range [][2]float64{{s.Box[0], s.Box[1]}, {s.Box[2], s.Box[3]}, {s.Box[0], s.Box[3]}, {s.Box[2], s.Box[1]}} {
				reach = math.Max(reach, GreatCircle(clat, clon, c[0], c[1]))
			}
		}
	}
	for _, q := range w.Queries {
		reach = math.Max(reach, GreatCircle(clat, clon, q.LatF, q.LonF))
	}
	farMin := 5*reach + 5000
	w.FarLB = make([]int64, nq)
	lb := make([]float64, nq)
	for i := range lb {
		lb[i] = math.Inf(1)
	}
	for len(w.Far) < p.NFar {
		// a random bearing and a distance between farMin and farMin + 1500 km from the centre
		dist := farMin + rng.Float64()*rng.Float64()*1.5e6
		brg := rng.Float64() * 2 * math.Pi
		la, lo := destination(clat, clon, brg, dist)
		la, lo = clampLat(la), wrapLon(lo)
		if GreatCircle(clat, clon, la, lo) < farMin*0.999 {
			continue
		}
		f := FarObj{ID: fmt.Sprintf("z%05d", len(w.Far))}
		box := Box{la, lo, la, lo}
		if len(w.Far)%50 == 7 && math.Abs(la) < 88 && math.Abs(lo) < 178 {
			s := extShape(extKinds[(len(w.Far)/50)%len(extKinds)], la, lo, clampLat(la+0.01), wrapLon(lo+0.01))
			// keep the rectangle on the far side
			if GreatCircle(clat, clon, s.Box[0], s.Box[1]) < farMin || GreatCircle(clat, clon, s.Box[2], s.Box[3]) < farMin ||
				GreatCircle(clat, clon, s.Box[0], s.Box[3]) < farMin || GreatCircle(clat, clon, s.Box[2], s.Box[1]) < farMin {
				continue
			}
			f.Args = s.Args
			box = Box{s.Box[0], s.Box[1], s.Box[2], s.Box[3]}
		} else {
			f.Args = []string{"POINT", ftoa(la), ftoa(lo)}
		}
		for qi, q := range w.Queries {
			lb[qi] = math.Min(lb[qi], BoxDistance(q.LatF, q.LonF, box))
		}
		w.Far = append(w.Far, f)
	}
	w.MinFarLBMM = 1 << 30
	for qi := range w.Queries {
		v := int64(1 << 30)
		if len(w.Far) > 0 && lb[qi]*1000 < float64(v) {
			v = int64(math.Floor(lb[qi] * 1000))
		}
		w.FarLB[qi] = v
		if v < w.MinFarLBMM {
			w.MinFarLBMM = v
		}
	}
	if len(w.Far) > 0 && w.MinFarLBMM < 2*w.MaxKnownMM+2000 {
		return nil, fmt.Errorf("world %s: far objects (>= %d mm) are not clearly beyond the known ones (<= %d mm)",
			p.Name, w.MinFarLBMM, w.MaxKnownMM)
	}
	return w, nil
}

// destination: the position reached from (lat, lon) after dist metres on the initial bearing brg (radians).
func destination(lat, lon, brg, dist float64) (float64, float64) {
	p, l, a := rad(lat), rad(lon), dist/MeanEarthRadius
	p2 := math.Asin(math.Sin(p)*math.Cos(a) + math.Cos(p)*math.Sin(a)*math.Cos(brg))
	l2 := l + math.Atan2(math.Sin(brg)*math.Sin(a)*math.Cos(p), math.Cos(a)-math.Sin(p)*math.Sin(p2))
	return p2 * 180 / math.Pi, l2 * 180 / math.Pi
}
