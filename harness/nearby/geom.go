// Package nearby binds spec/Nearby.tla (C13, NEARBY in distance order) to the real code.
//
// geom.go: the harness' own, independent mathematics.  Great-circle distances are
// computed from unit vectors (atan2 of cross and dot product, not the haversine
// formula the server uses); the distance of a point to a latitude/longitude
// rectangle is found by numerical minimisation over the rectangle's boundary (not
// by the closed-form case analysis of the server).  The results enter the
// specification as integer CONSTANT tables (millimetres).  Nothing here is taken
// from tile38.
package nearby

import "math"

// MeanEarthRadius is the IUGG mean radius R1 in metres (the server uses 6371000;
// the difference, 1.4e-6, is far inside the tolerance of the statement).
const MeanEarthRadius = 6371008.8

func rad(d float64) float64 { return d * math.Pi / 180 }

type vec [3]float64

func unit(lat, lon float64) vec {
	p, l := rad(lat), rad(lon)
	cp := math.Cos(p)
	return vec{cp * math.Cos(l), cp * math.Sin(l), math.Sin(p)}
}

// angle between two unit vectors, well conditioned for small and for large angles
func angle(a, b vec) float64 {
	cx := a[1]*b[2] - a[2]*b[1]
	cy := a[2]*b[0] - a[0]*b[2]
	cz := a[0]*b[1] - a[1]*b[0]
	dot := a[0]*b[0] + a[1]*b[1] + a[2]*b[2]
	return math.Atan2(math.Sqrt(cx*cx+cy*cy+cz*cz), dot)
}

// GreatCircle returns the great-circle distance in metres on the mean sphere.
func GreatCircle(lat1, lon1, lat2, lon2 float64) float64 {
	if lat1 == lat2 && lon1 == lon2 {
		return 0
	}
	return MeanEarthRadius * angle(unit(lat1, lon1), unit(lat2, lon2))
}

// Box is a latitude/longitude rectangle: the points with MinLat <= lat <= MaxLat and
// MinLon <= lon <= MaxLon (it never wraps around the 180th meridian: an object that
// has coordinates on both sides of it has a bounding rectangle that spans the globe
// the long way round, and that is the rectangle meant by the statement).
type Box struct{ MinLat, MinLon, MaxLat, MaxLon float64 }

// IsPoint tells whether the rectangle is a single position.
func (b Box) IsPoint() bool { return b.MinLat == b.MaxLat && b.MinLon == b.MaxLon }

// Contains tells whether the position lies in the rectangle.
func (b Box) Contains(lat, lon float64) bool {
	return b.MinLat <= lat && lat <= b.MaxLat && b.MinLon <= lon && lon <= b.MaxLon
}

// minimise f over [0,1]: coarse sampling, then golden-section search around the best sample
func minimise(f func(t float64) float64) float64 {
	const n = 720
	best, bi := math.Inf(1), 0
	for i := 0; i <= n; i++ {
		if v := f(float64(i) / n); v < best {
			best, bi = v, i
		}
	}
	lo := math.Max(0, float64(bi-1)/n)
	hi := math.Min(1, float64(bi+1)/n)
	const phi = 0.6180339887498949
	x1, x2 := hi-phi*(hi-lo), lo+phi*(hi-lo)
	f1, f2 := f(x1), f(x2)
	for k := 0; k < 200 && hi-lo > 1e-15; k++ {
		if f1 <= f2 {
			hi, x2, f2 = x2, x1, f1
			x1 = hi - phi*(hi-lo)
			f1 = f(x1)
		} else {
			lo, x1, f1 = x1, x2, f2
			x2 = lo + phi*(hi-lo)
			f2 = f(x2)
		}
	}
	return math.Min(best, math.Min(f1, f2))
}

// BoxDistance returns the smallest great-circle distance in metres from the position
// to a point of the rectangle (0 inside it).
func BoxDistance(lat, lon float64, b Box) float64 {
	if b.IsPoint() {
		return GreatCircle(lat, lon, b.MinLat, b.MinLon)
	}
	if b.Contains(lat, lon) {
		return 0
	}
	q := unit(lat, lon)
	d := math.Inf(1)
	edge := func(lat0, lon0, lat1, lon1 float64) {
		if lat0 == lat1 && lon0 == lon1 {
			d = math.Min(d, angle(q, unit(lat0, lon0)))
			return
		}
		d = math.Min(d, minimise(func(t float64) float64 {
			return angle(q, unit(lat0+t*(lat1-lat0), lon0+t*(lon1-lon0)))
		}))
	}
	edge(b.MinLat, b.MinLon, b.MinLat, b.MaxLon) // south
	edge(b.MaxLat, b.MinLon, b.MaxLat, b.MaxLon) // north
	edge(b.MinLat, b.MinLon, b.MaxLat, b.MinLon) // west
	edge(b.MinLat, b.MaxLon, b.MaxLat, b.MaxLon) // east
	return MeanEarthRadius * d
}
