package cur

import (
	"fmt"
	"math/rand"
	"sort"
	"strconv"
	"strings"
)

// Random (seeded) collections, larger than what TLC enumerates: enough objects for the R-tree and the
// B-trees to have several levels, strings and geometries mixed, duplicate coordinates, duplicate values.
// Only the data and the queries are random; the recorded paging runs are judged by CursorTrace.

// RandDataset is a seeded collection as a list of commands.
type RandDataset struct {
	N     int
	Setup [][]string
}

func ff(f float64) string { return strconv.FormatFloat(f, 'f', 5, 64) }

// MakeDataset builds n objects for key.
func MakeDataset(rng *rand.Rand, key string, n int) RandDataset {
	ds := RandDataset{N: n}
	prefixes := []string{"a", "ab", "b", "b", "c"}
	vals := []string{"a", "ab", "abc", "b", "ba", "c", "a", "b"}
	seen := map[string]bool{}
	type pt struct{ lat, lon float64 }
	var pts []pt
	var pending []string
	for len(seen) < n {
		id := prefixes[rng.Intn(len(prefixes))] + strconv.Itoa(rng.Intn(4*n+10))
		if rng.Intn(12) == 0 {
			id = prefixes[rng.Intn(len(prefixes))] // the bare prefix: equal to a range bound
		}
		if seen[id] {
			continue
		}
		seen[id] = true
		a := []string{"SET", key, id}
		if f := rng.Intn(4); f != 0 {
			a = append(a, "FIELD", FieldName, strconv.Itoa(f))
		}
		var p pt
		if len(pts) > 0 && rng.Intn(6) == 0 {
			p = pts[rng.Intn(len(pts))] // duplicate coordinates
		} else {
			p = pt{GridLat - 0.2 + rng.Float64()*0.4, GridLon - 0.2 + rng.Float64()*0.4}
		}
		switch k := rng.Intn(20); {
		case k < 5:
			v := vals[rng.Intn(len(vals))]
			if rng.Intn(3) == 0 {
				v += strconv.Itoa(rng.Intn(5))
			}
			a = append(a, "STRING", v)
		case k < 7:
			d := 0.002 + rng.Float64()*0.05
			a = append(a, "BOUNDS", ff(p.lat), ff(p.lon), ff(p.lat+d), ff(p.lon+d))
		case k < 8:
			a = append(a, "OBJECT", fmt.Sprintf(`{"type":"LineString","coordinates":[[%s,%s],[%s,%s],[%s,%s]]}`,
				ff(p.lon), ff(p.lat), ff(p.lon+0.03), ff(p.lat+0.01), ff(p.lon+0.01), ff(p.lat+0.04)))
		case k < 9:
			d := 0.01 + rng.Float64()*0.03
			a = append(a, "OBJECT", fmt.Sprintf(`{"type":"Polygon","coordinates":[[[%s,%s],[%s,%s],[%s,%s],[%s,%s]]]}`,
				ff(p.lon), ff(p.lat), ff(p.lon+d), ff(p.lat), ff(p.lon), ff(p.lat+d), ff(p.lon), ff(p.lat)))
		default:
			pts = append(pts, p)
			a = append(a, "POINT", ff(p.lat), ff(p.lon))
		}
		ds.Setup = append(ds.Setup, a)
		// churn: now and then an extra object is stored and removed again a few commands later, so that the
		// indexes are paged in shapes that insertions alone do not produce (node merges, re-used slots)
		if n > 7 && rng.Intn(3) == 0 {
			zid := "z" + strconv.Itoa(len(ds.Setup))
			if rng.Intn(4) == 0 {
				ds.Setup = append(ds.Setup, []string{"SET", key, zid, "STRING", vals[rng.Intn(len(vals))]})
			} else {
				ds.Setup = append(ds.Setup, []string{"SET", key, zid, "POINT", ff(p.lat + 0.001), ff(p.lon - 0.001)})
			}
			pending = append(pending, zid)
		}
		if len(pending) > 3 || (len(pending) > 0 && len(seen) == n) {
			for _, zid := range pending {
				ds.Setup = append(ds.Setup, []string{"DEL", key, zid})
			}
			pending = pending[:0]
		}
	}
	return ds
}

var randFilters = [][]string{
	nil,
	{"MATCH", "*"},
	{"MATCH", "a*"},
	{"MATCH", "b*"},
	{"MATCH", "ab*"},
	{"MATCH", "*1"},
	{"MATCH", "b"},
	{"MATCH", "b?"},
	{"WHERE", FieldName, "1", "2"},
	{"WHERE", FieldName, "0", "0"},
	{"WHEREIN", FieldName, "2", "1", "3"},
	{"WHEREEVAL", EvalScript, "2", "2", "3"},
	{"MATCH", "b*", "WHERE", FieldName, "1", "3"},
	{"MATCH", "*2", "WHEREIN", FieldName, "2", "0", "2"},
	{"MATCH", "c*", "MATCH", "a*"},
}

// RandQueries draws nq queries over the five families for a dataset.
func RandQueries(rng *rand.Rand, key string, nq int) []QuerySpec {
	var out []QuerySpec
	fams := []string{"SCAN", "SEARCH", "WITHIN", "INTERSECTS", "NEARBY"}
	for i := 0; i < nq; i++ {
		fam := fams[i%len(fams)]
		post := append([]string{}, randFilters[rng.Intn(len(randFilters))]...)
		if fam == "SEARCH" {
			// SEARCH matches values, not ids
			for j := range post {
				if j > 0 && post[j-1] == "MATCH" {
					post[j] = strings.TrimRight(post[j], "12")
					if post[j] == "" {
						post[j] = "*"
					}
				}
			}
		}
		switch fam {
		case "SCAN", "SEARCH":
			if rng.Intn(2) == 0 {
				post = append(post, "DESC")
			}
			post = append(post, []string{"IDS", "OBJECTS", "IDS"}[rng.Intn(3)])
		case "WITHIN", "INTERSECTS":
			post = append(post, []string{"IDS", "IDS", "OBJECTS", "POINTS", "BOUNDS"}[rng.Intn(5)])
			lat := GridLat - 0.2 + rng.Float64()*0.3
			lon := GridLon - 0.2 + rng.Float64()*0.3
			switch rng.Intn(4) {
			case 0:
				post = append(post, "BOUNDS", "-90", "-180", "90", "180")
			case 1:
				d := 0.05 + rng.Float64()*0.3
				post = append(post, "BOUNDS", ff(lat), ff(lon), ff(lat+d), ff(lon+d))
			case 2:
				post = append(post, "CIRCLE", ff(lat+0.1), ff(lon+0.1), strconv.Itoa(2000+rng.Intn(30000)))
			default:
				d := 0.1 + rng.Float64()*0.2
				post = append(post, "OBJECT", fmt.Sprintf(`{"type":"Polygon","coordinates":[[[%s,%s],[%s,%s],[%s,%s],[%s,%s]]]}`,
					ff(lon), ff(lat), ff(lon+d), ff(lat), ff(lon+d/2), ff(lat+d), ff(lon), ff(lat)))
			}
		case "NEARBY":
			if rng.Intn(2) == 0 {
				post = append(post, "DISTANCE")
			}
			post = append(post, []string{"IDS", "IDS", "POINTS"}[rng.Intn(3)])
			lat := GridLat - 0.25 + rng.Float64()*0.5
			lon := GridLon - 0.25 + rng.Float64()*0.5
			post = append(post, "POINT", ff(lat), ff(lon))
			if rng.Intn(2) == 0 {
				post = append(post, strconv.Itoa(3000+rng.Intn(30000)))
			}
		}
		out = append(out, QuerySpec{Fam: strings.ToLower(fam), Pre: []string{fam, key}, Post: post})
	}
	return out
}

// SomeLimits selects LIMIT values for a collection of n objects whose unlimited reply has nu items:
// all of 1..n+1 when that is small, otherwise the small ones, the neighbourhoods of the node sizes of the
// indexes and of the default limit, and the limits that hit the end of the result exactly.
func SomeLimits(n int) func(nu int) []int {
	return func(nu int) []int {
		if n <= 24 {
			return AllLimits(n)(nu)
		}
		set := map[int]bool{}
		for _, l := range []int{1, 2, 3, 5, 7, 15, 16, 17, 31, 32, 33, 63, 64, 65, 99, 100, 101, 127, 128, 129, 255, 256, 257,
			nu - 1, nu, nu + 1, nu / 2, nu/2 + 1, nu / 3, nu / 4, n - 1, n, n + 1} {
			if l >= 1 && l <= n+1 {
				set[l] = true
			}
		}
		out := make([]int, 0, len(set))
		for l := range set {
			out = append(out, l)
		}
		sort.Ints(out)
		return out
	}
}

// RunRandom loads one seeded dataset and records nq queries.
func (w *Worker) RunRandom(di int, seed int64, n, nq int, st *Stats) ([]Recorded, error) {
	rng := rand.New(rand.NewSource(seed))
	ds := MakeDataset(rng, w.Key, n)
	if err := Drop(w.Ctl, w.Key); err != nil {
		return nil, err
	}
	if err := Load(w.Ctl, ds.Setup); err != nil {
		return nil, err
	}
	defer Drop(w.Ctl, w.Key)
	st.Cases++
	st.Objects += n
	if n > st.MaxN {
		st.MaxN = n
	}
	before := w.requests()
	var recs []Recorded
	for qi, q := range RandQueries(rng, w.Key, nq) {
		cl := w.Resp
		if (di+qi)%4 == 3 {
			cl = w.Json
		}
		line, err := cl.Record(fmt.Sprintf("r%d.q%d", di, qi), q, n, SomeLimits(n))
		if err != nil {
			return nil, err
		}
		recs = append(recs, Recorded{Line: line, Query: q, Setup: ds.Setup, JSON: cl.Mode == JSON})
		st.CountLine(&line)
	}
	st.Requests += w.requests() - before
	return recs, nil
}
