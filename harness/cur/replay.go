package cur

import (
	"encoding/json"
	"fmt"
	"reflect"
	"strings"

	"github.com/tidwall/tile38/verifharness/t38"
)

// Mismatch is a disagreement between a reply of the real server and the reply the model computed.
type Mismatch struct {
	Case   int      `json:"case"`
	Query  int      `json:"query"`
	What   string   `json:"what"` // unlimited-items | unlimited-cursor | page-items | page-cursor | page-count
	Limit  int      `json:"limit"`
	Page   int      `json:"page"`
	Cmd    string   `json:"cmd"`
	Want   string   `json:"want"`
	Got    string   `json:"got"`
	Detail string   `json:"detail"`
	Setup  []string `json:"setup,omitempty"`
}

// Stats of a replay / recording.
type Stats struct {
	Cases        int            `json:"cases"`
	Objects      int            `json:"objects"`
	Queries      int            `json:"queries"`      // model queries compared
	Runs         int            `json:"runs"`         // paging runs compared with the model
	Replies      int            `json:"replies"`      // replies compared with the model (items and cursor)
	Items        int            `json:"items"`        // items compared with the model
	Requests     int            `json:"requests"`     // requests sent
	TraceLines   int            `json:"trace_lines"`  // (dataset, query) lines recorded for CursorTrace
	TraceRuns    int            `json:"trace_runs"`   // paging runs recorded
	TraceReplies int            `json:"trace_replies"`
	Fams         map[string]int `json:"fams"` // recorded lines per family
	MaxN         int            `json:"max_n"`
	// coverage of the situations the property is about (counted, never judged, here)
	CursorAhead int `json:"cursor_ahead"` // compared replies whose cursor exceeds the number of items returned so far
	ExactEnd    int `json:"exact_end"`    // recorded runs whose LIMIT was hit exactly at the end (final reply empty)
	MultiPage   int `json:"multi_page"`   // recorded runs with three or more replies
}

// CountLine adds one recorded line to the statistics.
func (s *Stats) CountLine(l *TLine) {
	s.TraceLines++
	s.TraceRuns += len(l.Runs)
	for _, run := range l.Runs {
		s.TraceReplies += len(run.Pages)
		if k := len(run.Pages); k >= 2 && len(run.Pages[k-1].Items) == 0 {
			s.ExactEnd++
		}
		if len(run.Pages) >= 3 {
			s.MultiPage++
		}
	}
	if s.Fams == nil {
		s.Fams = map[string]int{}
	}
	s.Fams[l.Fam]++
}

// Add accumulates.
func (s *Stats) Add(o Stats) {
	s.Cases += o.Cases
	s.Objects += o.Objects
	s.Queries += o.Queries
	s.Runs += o.Runs
	s.Replies += o.Replies
	s.Items += o.Items
	s.Requests += o.Requests
	s.TraceLines += o.TraceLines
	s.TraceRuns += o.TraceRuns
	s.TraceReplies += o.TraceReplies
	s.CursorAhead += o.CursorAhead
	s.ExactEnd += o.ExactEnd
	s.MultiPage += o.MultiPage
	if s.Fams == nil {
		s.Fams = map[string]int{}
	}
	for k, v := range o.Fams {
		s.Fams[k] += v
	}
	if o.MaxN > s.MaxN {
		s.MaxN = o.MaxN
	}
}

// Recorded is what one dataset contributed to the trace, with what is needed to re-execute a line.
type Recorded struct {
	Line  TLine
	Query QuerySpec
	Setup [][]string
	JSON  bool
}

// Worker owns one real server and two connections (RESP, JSON).
type Worker struct {
	Srv  *t38.Srv
	Ctl  *t38.Conn
	Resp *Client
	Json *Client
	Key  string
}

// NewWorker starts a server.
func NewWorker(spin bool) (*Worker, error) {
	srv, err := t38.Start(t38.Options{Spinlock: spin, NoAOF: true})
	if err != nil {
		return nil, err
	}
	w := &Worker{Srv: srv, Key: "c11"}
	if w.Ctl, err = srv.Dial(); err != nil {
		return nil, err
	}
	if w.Resp, err = NewClient(srv, RESP); err != nil {
		return nil, err
	}
	if w.Json, err = NewClient(srv, JSON); err != nil {
		return nil, err
	}
	return w, nil
}

// Close stops the server.
func (w *Worker) Close() {
	if w.Ctl != nil {
		w.Ctl.Close()
	}
	if w.Resp != nil {
		w.Resp.C.Close()
	}
	if w.Json != nil {
		w.Json.C.Close()
	}
	w.Srv.StopAndRemove()
}

func (w *Worker) requests() int { return w.Resp.Reqs + w.Json.Reqs }

// AllLimits is LIMIT 1..n+1.
func AllLimits(n int) func(int) []int {
	return func(int) []int {
		out := make([]int, 0, n+1)
		for l := 1; l <= n+1; l++ {
			out = append(out, l)
		}
		return out
	}
}

func fmtStrs(s []string) string { return "[" + strings.Join(s, " ") + "]" }

// RunCase loads the dataset of a case, compares every SCAN / SEARCH paging run with the model's replies,
// and records the paging runs of all five families for CursorTrace.
func (w *Worker) RunCase(ci int, c *Case, st *Stats, record bool) ([]Mismatch, []Recorded, error) {
	var setup [][]string
	for _, o := range c.Ds {
		setup = append(setup, SetCmd(w.Key, o))
	}
	if err := Drop(w.Ctl, w.Key); err != nil {
		return nil, nil, err
	}
	if err := Load(w.Ctl, setup); err != nil {
		return nil, nil, err
	}
	defer Drop(w.Ctl, w.Key)
	n := len(c.Ds)
	st.Cases++
	st.Objects += n
	if n > st.MaxN {
		st.MaxN = n
	}
	before := w.requests()
	var mism []Mismatch
	var recs []Recorded
	var setupText []string
	for _, a := range setup {
		setupText = append(setupText, strings.Join(a, " "))
	}
	add := func(m Mismatch) {
		m.Case = ci
		m.Setup = setupText
		mism = append(mism, m)
	}
	// the two output modes alternate by case and by query
	for qi := range c.Qs {
		qc := &c.Qs[qi]
		if len(qc.Runs) != n+1 {
			return nil, nil, fmt.Errorf("case %d query %d: %d runs for %d objects", ci, qi, len(qc.Runs), n)
		}
		cl := w.Resp
		if (ci+qi)%3 == 2 {
			cl = w.Json
		}
		q := ModelQuery(w.Key, qc.Q)
		st.Queries++
		// (ii-a) the unlimited reply is the model's
		u, err := cl.Ask(q, 0, n+1)
		if err != nil {
			return nil, nil, err
		}
		want := Strs(qc.U)
		st.Replies++
		st.Items += len(want)
		if !reflect.DeepEqual(append([]string{}, u.Items...), want) {
			add(Mismatch{Query: qi, What: "unlimited-items", Limit: n + 1, Cmd: strings.Join(q.Args(0, n+1), " "),
				Want: fmtStrs(want), Got: fmtStrs(u.Items), Detail: "reply of the unlimited query differs from the model"})
		}
		if u.Cursor != 0 {
			add(Mismatch{Query: qi, What: "unlimited-cursor", Limit: n + 1, Cmd: strings.Join(q.Args(0, n+1), " "),
				Want: "0", Got: fmt.Sprint(u.Cursor), Detail: "unlimited query returned a cursor"})
		}
		line := TLine{ID: fmt.Sprintf("c%d.q%d", ci, qi), Fam: q.Fam, N: n, U: u.Items, UCur: u.Cursor}
		if line.U == nil {
			line.U = []string{}
		}
		// (ii-b) every reply of every paging run is the model's: items and cursor
		for l := 1; l <= n+1; l++ {
			model := qc.Runs[l-1]
			run, err := cl.PageAll(q, l, len(model)+3)
			if err != nil {
				return nil, nil, err
			}
			line.Runs = append(line.Runs, run)
			st.Runs++
			if len(run.Pages) != len(model) {
				add(Mismatch{Query: qi, What: "page-count", Limit: l, Cmd: q.String(),
					Want: fmt.Sprint(len(model)), Got: fmt.Sprint(len(run.Pages)),
					Detail: fmt.Sprintf("number of replies until cursor 0 differs (real cursors %v)", cursors(run))})
			}
			var sent int64
			got := 0
			for j := 0; j < len(run.Pages) && j < len(model); j++ {
				got += len(run.Pages[j].Items)
				if run.Pages[j].Next > int64(got) {
					st.CursorAhead++
				}
				wantItems := Strs(model[j].Items)
				st.Replies++
				st.Items += len(wantItems)
				if !reflect.DeepEqual(append([]string{}, run.Pages[j].Items...), wantItems) {
					add(Mismatch{Query: qi, What: "page-items", Limit: l, Page: j + 1, Cmd: strings.Join(q.Args(sent, l), " "),
						Want: fmtStrs(wantItems), Got: fmtStrs(run.Pages[j].Items), Detail: "items of a reply differ from the model"})
				}
				if run.Pages[j].Next != model[j].Next {
					add(Mismatch{Query: qi, What: "page-cursor", Limit: l, Page: j + 1, Cmd: strings.Join(q.Args(sent, l), " "),
						Want: fmt.Sprint(model[j].Next), Got: fmt.Sprint(run.Pages[j].Next), Detail: "cursor of a reply differs from the model"})
				}
				sent = run.Pages[j].Next
			}
		}
		if record {
			recs = append(recs, Recorded{Line: line, Query: q, Setup: setup, JSON: cl.Mode == JSON})
		}
	}
	// the three spatial families: recorded only (their walk order is internal to the R-tree)
	if record {
		for fi, f := range c.Filters {
			for si, q := range SpatialQueries(w.Key, f, ci+fi) {
				cl := w.Resp
				if (ci+fi+si)%3 == 2 {
					cl = w.Json
				}
				line, err := cl.Record(fmt.Sprintf("c%d.f%d.s%d", ci, fi, si), q, n, AllLimits(n))
				if err != nil {
					return nil, nil, err
				}
				recs = append(recs, Recorded{Line: line, Query: q, Setup: setup, JSON: cl.Mode == JSON})
			}
		}
	}
	for i := range recs {
		st.CountLine(&recs[i].Line)
	}
	st.Requests += w.requests() - before
	return mism, recs, nil
}

func cursors(r TRun) []int64 {
	var out []int64
	for _, p := range r.Pages {
		out = append(out, p.Next)
	}
	return out
}

// DecodeCase parses one generator line.
func DecodeCase(line []byte) (*Case, error) {
	var c Case
	if err := json.Unmarshal(line, &c); err != nil {
		return nil, fmt.Errorf("bad case: %v", err)
	}
	return &c, nil
}
