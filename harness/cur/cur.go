// Package cur binds the Cursor specification (C11) to the real server: the
// table from the abstract datasets / queries of spec/CursorGen.tla to concrete
// commands, the paging driver (re-issue the query with the returned CURSOR
// until it is 0) and the recording of paging runs for spec/CursorTrace.tla.
//
// There is no model of tile38 in here: expected replies and cursors come
// from TLC (cases), and recorded replies are judged by TLC (traces).
package cur

import (
	"encoding/json"
	"fmt"
	"strconv"
	"strings"

	"github.com/tidwall/tile38/verifharness/t38"
)

// ---------------------------------------------------------------------------
// Abstract cases as emitted by CursorGen (ToJson).

// Obj is one object of an abstract dataset.
type Obj struct {
	ID   []int  `json:"id"`
	Kind string `json:"kind"` // "p" point, "s" string
	F    int    `json:"f"`    // value of field "f", 0 = absent
	Cell int    `json:"cell"` // grid cell of a point
	Val  []int  `json:"val"`  // value of a string object
}

// Pat is a MATCH pattern.
type Pat struct {
	Kind string `json:"kind"` // all | prefix | suffix | exact | prefix1 (literal + "?")
	Lit  []int  `json:"lit"`
}

// Where is a field filter.
type Where struct {
	Kind string `json:"kind"` // none | range | in | eval
	Lo   int    `json:"lo"`
	Hi   int    `json:"hi"`
	Vals []int  `json:"vals"`
}

// Filter is a MATCH / WHERE combination.
type Filter struct {
	Pat   Pat   `json:"pat"`
	Where Where `json:"where"`
}

// Query is a SCAN or SEARCH query of the model.
type Query struct {
	Fam   string `json:"fam"`
	Pat   Pat    `json:"pat"`
	Where Where  `json:"where"`
	Desc  bool   `json:"desc"`
}

// MPage is one reply predicted by the model.
type MPage struct {
	Items [][]int `json:"items"`
	Next  int64   `json:"next"`
}

// QCase is a query with the model's replies for LIMIT 1..n+1 (Runs[L-1]).
type QCase struct {
	Q    Query     `json:"q"`
	U    [][]int   `json:"u"`
	Walk int       `json:"walk"`
	Runs [][]MPage `json:"runs"`
}

// Case is one line of the generator: a dataset, the filter combinations and the predicted queries.
type Case struct {
	Ds      []Obj    `json:"ds"`
	Filters []Filter `json:"filters"`
	Qs      []QCase  `json:"qs"`
}

// ---------------------------------------------------------------------------
// Token table: abstract -> concrete.

// Str maps an integer string of the model to bytes: 1 -> 'a', 2 -> 'b', ...
// (order of the integers = byte order of the letters).
func Str(s []int) string {
	b := make([]byte, len(s))
	for i, c := range s {
		b[i] = byte('a' - 1 + c)
	}
	return string(b)
}

// Strs maps a list of integer strings.
func Strs(ss [][]int) []string {
	out := make([]string, len(ss))
	for i, s := range ss {
		out[i] = Str(s)
	}
	return out
}

// FieldName is the one field the filters talk about.
const FieldName = "f"

// Grid: cell c (1-based) lies at row (c-1)/2, column (c-1)%2 of a 0.01 degree grid.
const (
	GridLat = 33.0
	GridLon = -115.0
	GridD   = 0.01
)

// CellPos returns the coordinates of a cell as text.
func CellPos(c int) (lat, lon string) {
	r, k := (c-1)/2, (c-1)%2
	return strconv.FormatFloat(GridLat+GridD*float64(r), 'f', 4, 64),
		strconv.FormatFloat(GridLon+GridD*float64(k), 'f', 4, 64)
}

// SetCmd is the command that stores an abstract object.
func SetCmd(key string, o Obj) []string {
	a := []string{"SET", key, Str(o.ID)}
	if o.F != 0 {
		a = append(a, "FIELD", FieldName, strconv.Itoa(o.F))
	}
	if o.Kind == "s" {
		return append(a, "STRING", Str(o.Val))
	}
	lat, lon := CellPos(o.Cell)
	return append(a, "POINT", lat, lon)
}

// MatchArgs renders a pattern.
func MatchArgs(p Pat) []string {
	switch p.Kind {
	case "all":
		return []string{"MATCH", "*"}
	case "prefix":
		return []string{"MATCH", Str(p.Lit) + "*"}
	case "suffix":
		return []string{"MATCH", "*" + Str(p.Lit)}
	case "exact":
		return []string{"MATCH", Str(p.Lit)}
	case "prefix1":
		return []string{"MATCH", Str(p.Lit) + "?"}
	}
	panic("unknown pattern kind " + p.Kind)
}

// EvalScript is the WHEREEVAL text for an inclusive range on the field (an absent field reads as 0, as in WHERE).
const EvalScript = "local v = FIELDS." + FieldName + " or 0; return v >= tonumber(ARGV[1]) and v <= tonumber(ARGV[2])"

// WhereArgs renders a field filter.
func WhereArgs(w Where) []string {
	switch w.Kind {
	case "none":
		return nil
	case "range":
		return []string{"WHERE", FieldName, strconv.Itoa(w.Lo), strconv.Itoa(w.Hi)}
	case "eval":
		return []string{"WHEREEVAL", EvalScript, "2", strconv.Itoa(w.Lo), strconv.Itoa(w.Hi)}
	case "in":
		a := []string{"WHEREIN", FieldName, strconv.Itoa(len(w.Vals))}
		for _, v := range w.Vals {
			a = append(a, strconv.Itoa(v))
		}
		return a
	}
	panic("unknown where kind " + w.Kind)
}

// QuerySpec is a concrete query without CURSOR / LIMIT: Pre + [CURSOR c] + LIMIT n + Post.
type QuerySpec struct {
	Fam  string   `json:"fam"`
	Pre  []string `json:"pre"`
	Post []string `json:"post"`
}

// Args builds the argument vector for one request.
func (q QuerySpec) Args(cursor int64, limit int) []string {
	a := append([]string{}, q.Pre...)
	if cursor != 0 {
		a = append(a, "CURSOR", strconv.FormatInt(cursor, 10))
	}
	a = append(a, "LIMIT", strconv.Itoa(limit))
	return append(a, q.Post...)
}

func (q QuerySpec) String() string {
	return strings.Join(q.Pre, " ") + " [CURSOR c] LIMIT n " + strings.Join(q.Post, " ")
}

// ModelQuery renders a SCAN / SEARCH query of the model (output IDS).
func ModelQuery(key string, q Query) QuerySpec {
	var post []string
	post = append(post, MatchArgs(q.Pat)...)
	if q.Desc {
		post = append(post, "DESC")
	} else {
		post = append(post, "ASC")
	}
	post = append(post, WhereArgs(q.Where)...)
	post = append(post, "IDS")
	return QuerySpec{Fam: q.Fam, Pre: []string{strings.ToUpper(q.Fam), key}, Post: post}
}

// Area is a search area of a spatial family.
type Area struct {
	Name string
	Args []string
}

// areas over the grid of CellPos (cells 1..4: (33,-115) (33,-114.99) (33.01,-115) (33.01,-114.99))
var boundsAreas = []Area{
	{"bounds-all", []string{"BOUNDS", "32", "-116", "34", "-114"}},
	{"bounds-row0", []string{"BOUNDS", "32.995", "-115.005", "33.005", "-114.985"}},
	{"circle-c1", []string{"CIRCLE", "33", "-115", "1000"}},
	{"poly-col0", []string{"OBJECT", `{"type":"Polygon","coordinates":[[[-115.005,32.995],[-114.995,32.995],[-114.995,33.015],[-115.005,33.015],[-115.005,32.995]]]}`}},
}
var nearbyAreas = []Area{
	{"knn", []string{"POINT", "33.002", "-114.998"}},
	{"radius", []string{"POINT", "33", "-115", "1200"}},
	{"knn-far", []string{"POINT", "10", "10"}},
}

// SpatialQueries lists the WITHIN / INTERSECTS / NEARBY queries asked for one filter combination: one area
// per family, rotating with variant (so that all areas, outputs and filters meet over the cases).
func SpatialQueries(key string, f Filter, variant int) []QuerySpec {
	var out []QuerySpec
	filt := append(MatchArgs(f.Pat), WhereArgs(f.Where)...)
	outputs := [][]string{{"IDS"}, {"IDS"}, {"OBJECTS"}, {"IDS"}, {"POINTS"}}
	for k, fam := range []string{"WITHIN", "INTERSECTS"} {
		a := boundsAreas[(variant+k)%len(boundsAreas)]
		post := append([]string{}, filt...)
		post = append(post, outputs[(variant/len(boundsAreas)+k)%len(outputs)]...)
		post = append(post, a.Args...)
		out = append(out, QuerySpec{Fam: strings.ToLower(fam), Pre: []string{fam, key}, Post: post})
	}
	a := nearbyAreas[variant%len(nearbyAreas)]
	post := append([]string{}, filt...)
	if (variant/len(nearbyAreas))%2 == 1 {
		post = append(post, "DISTANCE")
	}
	post = append(post, "IDS")
	post = append(post, a.Args...)
	out = append(out, QuerySpec{Fam: "nearby", Pre: []string{"NEARBY", key}, Post: post})
	return out
}

// ---------------------------------------------------------------------------
// Replies.

// Mode of a connection.
type Mode int

const (
	RESP Mode = iota
	JSON
)

// Reply is one parsed reply of a search command: rendered items and the cursor.
type Reply struct {
	Items  []string
	Cursor int64
}

func renderRESP(v t38.Value) string {
	if v.Kind == '$' && !v.Null {
		return v.Str
	}
	return v.String()
}

// ParseReply decodes the reply of SCAN/SEARCH/WITHIN/INTERSECTS/NEARBY (not COUNT).
func ParseReply(mode Mode, v t38.Value) (Reply, error) {
	if mode == RESP {
		if v.Kind != '*' || v.Null || len(v.Arr) != 2 || v.Arr[0].Kind != ':' || v.Arr[1].Kind != '*' {
			return Reply{}, fmt.Errorf("unexpected reply %s", clip(v.String()))
		}
		r := Reply{Cursor: v.Arr[0].Int, Items: make([]string, 0, len(v.Arr[1].Arr))}
		for _, e := range v.Arr[1].Arr {
			r.Items = append(r.Items, renderRESP(e))
		}
		return r, nil
	}
	if v.Kind != '$' || v.Null {
		return Reply{}, fmt.Errorf("unexpected reply %s", clip(v.String()))
	}
	var doc map[string]json.RawMessage
	if err := json.Unmarshal([]byte(v.Str), &doc); err != nil {
		return Reply{}, fmt.Errorf("reply is not JSON: %v: %s", err, clip(v.Str))
	}
	if string(doc["ok"]) != "true" {
		return Reply{}, fmt.Errorf("reply not ok: %s", clip(v.Str))
	}
	var r Reply
	if err := json.Unmarshal(doc["cursor"], &r.Cursor); err != nil {
		return Reply{}, fmt.Errorf("reply without cursor: %s", clip(v.Str))
	}
	var arr []json.RawMessage
	found := false
	for _, k := range []string{"ids", "objects", "points", "bounds", "hashes"} {
		if raw, ok := doc[k]; ok {
			if err := json.Unmarshal(raw, &arr); err != nil {
				return Reply{}, fmt.Errorf("member %s is not an array: %s", k, clip(v.Str))
			}
			found = true
		}
	}
	if !found {
		return Reply{}, fmt.Errorf("reply without items: %s", clip(v.Str))
	}
	r.Items = make([]string, 0, len(arr))
	for _, e := range arr {
		var s string
		var obj map[string]json.RawMessage
		if json.Unmarshal(e, &s) == nil {
			r.Items = append(r.Items, s)
		} else if json.Unmarshal(e, &obj) == nil && obj != nil {
			// In JSON output the per-object "fields" array is positional: its shape is given by the field
			// names collected over the whole reply (header member "fields"), so it is a property of the
			// reply, not of the object.  It is dropped; everything else of the element is kept.
			delete(obj, "fields")
			b, _ := json.Marshal(obj)
			r.Items = append(r.Items, string(b))
		} else {
			r.Items = append(r.Items, string(e))
		}
	}
	return r, nil
}

func clip(s string) string {
	if len(s) > 300 {
		return s[:300] + "..."
	}
	return s
}

// Client is one connection in one output mode.
type Client struct {
	C    *t38.Conn
	Mode Mode
	Reqs int
}

// NewClient dials the server and selects the output mode.
func NewClient(srv *t38.Srv, mode Mode) (*Client, error) {
	c, err := srv.Dial()
	if err != nil {
		return nil, err
	}
	if mode == JSON {
		v, err := c.Do("OUTPUT", "json")
		if err != nil {
			return nil, err
		}
		if v.Kind != '$' || !strings.Contains(v.Str, `"ok":true`) {
			return nil, fmt.Errorf("OUTPUT json: %s", v.String())
		}
	}
	return &Client{C: c, Mode: mode}, nil
}

// Ask sends one request of a query.
func (c *Client) Ask(q QuerySpec, cursor int64, limit int) (Reply, error) {
	args := q.Args(cursor, limit)
	v, err := c.C.Do(args...)
	c.Reqs++
	if err != nil {
		return Reply{}, fmt.Errorf("%v: %v", args, err)
	}
	r, err := ParseReply(c.Mode, v)
	if err != nil {
		return Reply{}, fmt.Errorf("%v: %v", args, err)
	}
	return r, nil
}

// TPage is one recorded reply.
type TPage struct {
	Items []string `json:"items"`
	Next  int64    `json:"next"`
}

// TRun is one recorded paging run.
type TRun struct {
	Limit int     `json:"limit"`
	Trunc bool    `json:"trunc"`
	Pages []TPage `json:"pages"`
}

// TLine is one line of the trace judged by CursorTrace.
type TLine struct {
	ID   string   `json:"id"`
	Fam  string   `json:"fam"`
	N    int      `json:"n"`
	U    []string `json:"u"`
	UCur int64    `json:"ucur"`
	Runs []TRun   `json:"runs"`
}

// PageAll re-issues the query with the returned cursor until it is 0, or until maxPages replies were read.
func (c *Client) PageAll(q QuerySpec, limit, maxPages int) (TRun, error) {
	run := TRun{Limit: limit}
	var cursor int64
	for {
		r, err := c.Ask(q, cursor, limit)
		if err != nil {
			return run, err
		}
		if r.Items == nil {
			r.Items = []string{}
		}
		run.Pages = append(run.Pages, TPage{Items: r.Items, Next: r.Cursor})
		if r.Cursor == 0 {
			return run, nil
		}
		if len(run.Pages) >= maxPages {
			run.Trunc = true
			return run, nil
		}
		cursor = r.Cursor
	}
}

// Record asks the unlimited query (LIMIT n+1) and pages the query with every limit.
func (c *Client) Record(id string, q QuerySpec, n int, limits func(nu int) []int) (TLine, error) {
	line := TLine{ID: id, Fam: q.Fam, N: n}
	u, err := c.Ask(q, 0, n+1)
	if err != nil {
		return line, err
	}
	line.U, line.UCur = u.Items, u.Cursor
	if line.U == nil {
		line.U = []string{}
	}
	for _, l := range limits(len(line.U)) {
		run, err := c.PageAll(q, l, n+4)
		if err != nil {
			return line, err
		}
		line.Runs = append(line.Runs, run)
	}
	return line, nil
}

// Load stores a dataset (a list of commands) and checks every reply is OK.
func Load(c *t38.Conn, cmds [][]string) error {
	for _, a := range cmds {
		v, err := c.Do(a...)
		if err != nil {
			return err
		}
		if strings.EqualFold(a[0], "DEL") {
			if !(v.Kind == ':' && v.Int == 1) {
				return fmt.Errorf("%v: %s", a, v.String())
			}
			continue
		}
		if !(v.Kind == '+' && v.Str == "OK") {
			return fmt.Errorf("%v: %s", a, v.String())
		}
	}
	return nil
}

// Drop removes the collection (it may be absent).
func Drop(c *t38.Conn, key string) error {
	v, err := c.Do("DROP", key)
	if err != nil {
		return err
	}
	if v.Kind != ':' {
		return fmt.Errorf("DROP %s: %s", key, v.String())
	}
	return nil
}
