package gates

import (
	"fmt"
	"sort"
	"strings"
)

// Template is one valid argument vector of a command. Placeholders in braces
// are filled from the fixture ({key} {truck} {bus} {note} {doc} {aux} {hook}
// {chan} {pw} {badpw} {sha} {fakeport}).
type Template struct {
	Args []string
	// Live: the command may detach the connection (AOF, SUBSCRIBE, MONITOR,
	// FENCE searches): only the first reply is read, with a short deadline,
	// and the connection is not used afterwards.
	Live bool
	// RewritesLog: the command legitimately rewrites the append-only file
	// without modifying data (AOFSHRINK). On the leader its aof_size change
	// does not count as a data modification, and the harness waits for the
	// background rewrite to end before it goes on.
	RewritesLog bool
	// Auth: for AUTH templates, which password the template carries
	// ("right", "wrong", "none"); "-" for every other command.
	Auth string
	// Thorough: only used in the thorough tier.
	Thorough bool
}

func t(args ...string) Template                 { return Template{Args: args, Auth: "-"} }
func live(args ...string) Template              { return Template{Args: args, Auth: "-", Live: true} }
func deep(tp Template) Template                 { tp.Thorough = true; return tp }
func auth(kind string, args ...string) Template { return Template{Args: args, Auth: kind} }

const fence = "NEARBY|{zone}|FENCE|DETECT|enter|POINT|10|10|100"

func sp(s string) []string { return strings.Split(s, "|") }

// Templates: every command name that can be found in the source needs at
// least one entry here; a name without one makes the check fail ("no
// template"), so that a newly added command cannot slip through unchecked.
// The first template of a command is used in both tiers. Arguments avoid
// blanks (so that the HTTP and native transports can carry them); a JSON
// argument may only be the last one.
var Templates = map[string][]Template{
	// ---- writes
	"set": {t("SET", "{key}", "new1", "POINT", "10.5", "20.5"),
		deep(t("SET", "{key}", "{truck}", "FIELD", "speed", "5", "POINT", "33.1", "-112.1")),
		deep(t("SET", "{key}", "new2", "EX", "5000", "STRING", "hello")),
		deep(t("SET", "{key}", "{truck}", "NX", "POINT", "1", "2")),
		deep(t("sEt", "newkey", "new3", "OBJECT", `{"type":"Point","coordinates":[1,2]}`))},
	"fset": {t("FSET", "{key}", "{truck}", "speed", "42"),
		deep(t("FSET", "{key}", "{truck}", "XX", "load", "3"))},
	"del":      {t("DEL", "{key}", "{truck}"), deep(t("DEL", "{key}", "missing")), deep(t("del", "{key}", "{note}"))},
	"pdel":     {t("PDEL", "{key}", "tr*"), deep(t("PDEL", "{key}", "*"))},
	"drop":     {t("DROP", "{key}"), deep(t("DROP", "missingkey"))},
	"flushdb":  {t("FLUSHDB")},
	"rename":   {t("RENAME", "{aux}", "aux2"), deep(t("RENAME", "{aux}", "{key}"))},
	"renamenx": {t("RENAMENX", "{aux}", "aux3"), deep(t("RENAMENX", "{aux}", "{key}"))},
	"sethook": {t(append([]string{"SETHOOK", "hooknew", "http://127.0.0.1:9/h"}, sp(fence)...)...),
		deep(t(append([]string{"SETHOOK", "{hook}", "http://127.0.0.1:9/other"}, sp(fence)...)...))},
	"delhook":  {t("DELHOOK", "{hook}")},
	"pdelhook": {t("PDELHOOK", "*")},
	"setchan":  {t(append([]string{"SETCHAN", "channew"}, sp(fence)...)...)},
	"delchan":  {t("DELCHAN", "{chan}")},
	"pdelchan": {t("PDELCHAN", "*")},
	"expire":   {t("EXPIRE", "{key}", "{truck}", "1000"), deep(t("EXPIRE", "{key}", "missing", "10"))},
	"persist":  {t("PERSIST", "{key}", "{bus}"), deep(t("PERSIST", "{key}", "{truck}"))},
	"jset": {t("JSET", "{key}", "{doc}", "name.last", "smith"),
		deep(t("JSET", "{key}", "{truck}", "properties.tag", "x")), deep(t("JSET", "{key}", "newdoc", "a.b", "1"))},
	"jdel": {t("JDEL", "{key}", "{doc}", "name.first"), deep(t("JDEL", "{key}", "{doc}", "nosuch.path")),
		deep(t("jdel", "{key}", "{doc}", "name"))},
	// ---- object reads and searches
	"get": {t("GET", "{key}", "{truck}"), deep(t("GET", "{key}", "{truck}", "WITHFIELDS", "POINT")),
		deep(t("GET", "{key}", "{note}")), deep(t("get", "{key}", "{doc}")), deep(t("GET", "{key}", "missing"))},
	"fget":    {t("FGET", "{key}", "{truck}", "speed")},
	"jget":    {t("JGET", "{key}", "{doc}", "name.first"), deep(t("JGET", "{key}", "{truck}"))},
	"exists":  {t("EXISTS", "{key}", "{truck}")},
	"fexists": {t("FEXISTS", "{key}", "{truck}", "speed")},
	"ttl":     {t("TTL", "{key}", "{bus}")},
	"type":    {t("TYPE", "{key}")},
	"bounds":  {t("BOUNDS", "{key}")},
	"keys":    {t("KEYS", "*")},
	"scan": {t("SCAN", "{key}"), deep(t("SCAN", "{key}", "LIMIT", "1", "IDS")), deep(t("SCAN", "{key}", "COUNT")),
		deep(t("SCAN", "{key}", "WHERE", "speed", "0", "+inf", "OBJECTS"))},
	"search": {t("SEARCH", "{key}"), deep(t("SEARCH", "{key}", "MATCH", "n*", "IDS"))},
	"nearby": {t("NEARBY", "{key}", "POINT", "33.46", "-112.27", "100000"),
		deep(t("NEARBY", "{key}", "LIMIT", "1", "IDS", "POINT", "33.46", "-112.27")),
		deep(live("NEARBY", "{key}", "FENCE", "POINT", "33.46", "-112.27", "100000"))},
	"within": {t("WITHIN", "{key}", "BOUNDS", "33", "-113", "34", "-112"),
		deep(t("WITHIN", "{key}", "COUNT", "BOUNDS", "33", "-113", "34", "-112"))},
	"intersects": {t("INTERSECTS", "{key}", "BOUNDS", "33", "-113", "34", "-112"),
		deep(t("INTERSECTS", "{key}", "POINTS", "GET", "{key}", "{truck}"))},
	"test": {t("TEST", "GET", "{key}", "{truck}", "INTERSECTS", "CLIP", "BOUNDS", "-90", "-180", "90", "180"),
		t("TEST", "POINT", "1", "1", "INTERSECTS", "BOUNDS", "0", "0", "2", "2"),
		deep(t("TEST", "GET", "{key}", "{truck}", "WITHIN", "BOUNDS", "-90", "-180", "90", "180"))},
	"hooks": {t("HOOKS", "*")},
	"chans": {t("CHANS", "*")},
	// ---- scripts
	"eval": {t("EVAL", "return(tile38.call('get','{key}','{truck}'))", "0"),
		deep(t("EVAL", "return(tile38.call('set','{key}','viaeval','POINT',3,4))", "0")), deep(t("EVAL", "return(1)", "0"))},
	"evalro": {t("EVALRO", "return(tile38.call('get','{key}','{truck}'))", "0"),
		deep(t("EVALRO", "return(tile38.call('set','{key}','viaevalro','POINT',3,4))", "0"))},
	"evalna": {t("EVALNA", "return(tile38.call('get','{key}','{truck}'))", "0"),
		deep(t("EVALNA", "return(tile38.call('del','{key}','{truck}'))", "0")),
		deep(t("EVALNA", "return(tile38.call('jdel','{key}','{doc}','name.first'))", "0"))},
	"evalsha":       {t("EVALSHA", "{sha}", "0")},
	"evalrosha":     {t("EVALROSHA", "{sha}", "0")},
	"evalnasha":     {t("EVALNASHA", "{sha}", "0")},
	"script":        {t("SCRIPT")},
	"script load":   {t("SCRIPT", "LOAD", "return(2)")},
	"script exists": {t("SCRIPT", "EXISTS", "{sha}")},
	"script flush":  {t("SCRIPT", "FLUSH")},
	// ---- replication, configuration, administration
	"follow":         {t("FOLLOW", "no", "one"), deep(t("FOLLOW", "127.0.0.1", "{fakeport}"))},
	"slaveof":        {t("SLAVEOF", "no", "one")},
	"replconf":       {t("REPLCONF", "listening-port", "9999")},
	"readonly":       {t("READONLY", "no"), deep(t("READONLY", "yes"))},
	"config":         {t("CONFIG")},
	"config get":     {t("CONFIG", "GET", "keepalive"), deep(t("CONFIG", "GET", "requirepass"))},
	"config set":     {t("CONFIG", "SET", "keepalive", "300")},
	"config rewrite": {t("CONFIG", "REWRITE")},
	"client":         {t("CLIENT", "LIST"), deep(t("CLIENT", "GETNAME"))},
	"aof":            {live("AOF", "0")},
	"aofmd5":         {t("AOFMD5", "0", "10")},
	"aofshrink":      {{Args: []string{"AOFSHRINK"}, Auth: "-", RewritesLog: true}},
	"gc":             {t("GC")},
	"stats":          {t("STATS", "{key}")},
	"server":         {t("SERVER"), deep(t("SERVER", "EXT"))},
	"info":           {t("INFO")},
	"role":           {t("ROLE")},
	"healthz":        {t("HEALTHZ")},
	"output":         {t("OUTPUT"), deep(t("OUTPUT", "json")), deep(t("OUTPUT", "resp"))},
	"monitor":        {live("MONITOR")},
	"subscribe":      {live("SUBSCRIBE", "{chan}")},
	"psubscribe":     {live("PSUBSCRIBE", "*")},
	"publish":        {t("PUBLISH", "{chan}", "hello")},
	// ---- dev-mode commands (servers run with DevMode off, as in production)
	"shutdown":   {t("SHUTDOWN")},
	"massinsert": {t("MASSINSERT", "1", "1")},
	"sleep":      {t("SLEEP", "0")},
	// ---- connection level
	"ping": {t("PING"), deep(t("PING", "hi"))},
	"echo": {t("ECHO", "hello")},
	"quit": {live("QUIT")},
	"auth": {auth("right", "AUTH", "{pw}"), auth("wrong", "AUTH", "{badpw}"), auth("none", "AUTH"),
		deep(auth("wrong", "auth", "{pw}x"))},
	"hello":   {t("HELLO", "3")},
	"command": {t("COMMAND"), deep(t("COMMAND", "DOCS"))},
	"timeout": {t("TIMEOUT", "10", "GET", "{key}", "{truck}"), deep(t("TIMEOUT", "10", "SET", "{key}", "viatimeout", "POINT", "1", "2"))},
}

// Instance is one (command, template) pair of a run.
type Instance struct {
	ID   string   `json:"id"`   // "get", "get~2", ...
	Base string   `json:"base"` // command name as found in the source
	Args []string `json:"args"` // placeholders still unfilled
	Auth string   `json:"auth"`
	Live bool     `json:"live"` // the connection is not used after this instance
	tpl  Template
}

// Instances builds the instance list for the commands found in the source.
// It fails when a command has no template.
func Instances(cmds []SourceCmd, thorough bool) ([]Instance, error) {
	var missing []string
	var out []Instance
	for _, c := range cmds {
		tps := Templates[c.Name]
		if len(tps) == 0 {
			missing = append(missing, fmt.Sprintf("%s (found in %s)", c.Name, strings.Join(c.Sources, ", ")))
			continue
		}
		for k, tp := range tps {
			if tp.Thorough && !thorough {
				continue
			}
			id := c.Name // the id does not depend on the tier
			if k > 0 {
				id = fmt.Sprintf("%s~%d", c.Name, k+1)
			}
			out = append(out, Instance{ID: id, Base: c.Name, Args: tp.Args, Auth: tp.Auth, Live: tp.Live, tpl: tp})
		}
	}
	if len(missing) > 0 {
		sort.Strings(missing)
		return nil, fmt.Errorf("no template for command(s): %s -- add an argument template to harness/gates/templates.go",
			strings.Join(missing, "; "))
	}
	return out, nil
}
