package gates

import (
	"encoding/json"
	"fmt"
	"math/rand"
	"sort"
	"strings"
	"sync"
	"time"
)

// ---------------------------------------------------------------- measurement

// Measured is what one (instance, wrapper) does on a real leader.
type Measured struct {
	Inst    string `json:"i"`
	Wrapper string `json:"w"`
	Class   string `json:"cls"`  // reply class on the leader
	Mut     bool   `json:"mut"`  // projection changed, or a command was logged
	Data    bool   `json:"data"` // the reply contained object data the client had not sent
	Sample  string `json:"sample,omitempty"`
}

// MeasureResult is the output of the measurement phase.
type MeasureResult struct {
	Commands  []SourceCmd `json:"commands"`
	Instances []Instance  `json:"instances"`
	Wrappers  []string    `json:"wrappers"`
	Cells     []Measured  `json:"cells"`
	Skipped   [][2]string `json:"skipped"`  // (instance, wrapper) the wrapper cannot carry
	Unstable  []string    `json:"unstable"` // measurements that differed between two runs
	Leader    string      `json:"leader_mode"`
}

// InstanceTable maps instance ids to instances (all tiers).
func InstanceTable(cmds []SourceCmd) (map[string]Instance, error) {
	all, err := Instances(cmds, true)
	if err != nil {
		return nil, err
	}
	m := map[string]Instance{}
	for _, in := range all {
		m[in.ID] = in
	}
	return m, nil
}

func (e *Env) extraVars() map[string]string {
	x := map[string]string{}
	if p, err := e.FakePort(); err == nil {
		x["fakeport"] = p
	}
	return x
}

// execOne runs one instance under one wrapper on a fresh connection.
func (e *Env) execOne(in Instance, w string, peer string) (obs Observed, changed string, leak string, sent string, err error) {
	args := e.fx.Fill(in.Args, e.extraVars())
	if strings.Contains(strings.Join(in.Args, " "), "{sha}") {
		e.EnsureScript()
	}
	p, err := dialFrom(e.n.addr, peer)
	if err != nil {
		return obs, "", "", "", err
	}
	defer p.Close()
	bp, bs := e.n.dump()
	wait := replyWait
	if in.tpl.Live {
		wait = 800 * time.Millisecond // on the leader a detaching command may legitimately answer nothing
	}
	obs, sent = p.Do(w, args, e.fx, wait)
	ap, as := e.n.dump()
	if in.tpl.RewritesLog && obs.Class == "ok" {
		select {
		case <-e.n.shrunk:
		case <-time.After(5 * time.Second):
		}
		ap, as = e.n.dump()
		if ap != bp {
			changed = "projection"
		}
	} else if ap != bp {
		changed = "projection"
	} else if as != bs {
		changed = fmt.Sprintf("aof_size %d->%d", bs, as)
	}
	leak = Leak(e.fx, obs.Text, sent)
	return
}

// Measure runs every instance under every wrapper on a leader, twice.
func Measure(repo string, seed int64, thorough bool, base string) (*MeasureResult, error) {
	cmds, err := ExtractCommands(repo)
	if err != nil {
		return nil, err
	}
	insts, err := Instances(cmds, thorough)
	if err != nil {
		return nil, err
	}
	fx := NewFixture(seed)
	res := &MeasureResult{Commands: cmds, Instances: insts, Wrappers: Wrappers, Leader: SrvMode{}.String()}
	type key struct{ i, w string }
	var runs [2]map[key]Measured
	var wg sync.WaitGroup
	errs := make([]error, 2)
	for r := 0; r < 2; r++ {
		runs[r] = map[key]Measured{}
		wg.Add(1)
		go func(r int) {
			defer wg.Done()
			env, err := NewEnv(SrvMode{}, fx, base, false)
			if err != nil {
				errs[r] = err
				return
			}
			defer env.Close()
			order := append([]Instance(nil), insts...)
			if r == 1 { // the second run goes through the table backwards
				for i, j := 0, len(order)-1; i < j; i, j = i+1, j-1 {
					order[i], order[j] = order[j], order[i]
				}
			}
			for _, in := range order {
				for _, w := range Wrappers {
					if !Expressible(fx.Fill(in.Args, env.extraVars()), w) {
						continue
					}
					obs, changed, leak, _, err := env.execOne(in, w, "lo")
					if err != nil {
						errs[r] = err
						return
					}
					m := Measured{Inst: in.ID, Wrapper: w, Class: obs.Class, Mut: changed != "", Data: leak != ""}
					if len(obs.Text) > 100 {
						m.Sample = obs.Text[:100]
					} else {
						m.Sample = obs.Text
					}
					runs[r][key{in.ID, w}] = m
					if err := env.Settle(false); err != nil {
						errs[r] = fmt.Errorf("after %s/%s: %v", in.ID, w, err)
						return
					}
				}
			}
		}(r)
	}
	wg.Wait()
	WaitStopped()
	for _, err := range errs {
		if err != nil {
			return nil, err
		}
	}
	for _, in := range insts {
		for _, w := range Wrappers {
			a, ok := runs[0][key{in.ID, w}]
			if !ok {
				res.Skipped = append(res.Skipped, [2]string{in.ID, w})
				continue
			}
			b := runs[1][key{in.ID, w}]
			if a.Class != b.Class || a.Mut != b.Mut || a.Data != b.Data {
				res.Unstable = append(res.Unstable, fmt.Sprintf("%s/%s: %s,%v,%v vs %s,%v,%v", in.ID, w,
					a.Class, a.Mut, a.Data, b.Class, b.Mut, b.Data))
				// a command whose effect on a leader depends on timing (FOLLOW starts an asynchronous session that may or
				// may not have replaced the dataset when the measurement looks): the property is then demanded only for
				// what BOTH runs showed - the weaker of the two measurements never asks for more than the statement
				a.Mut = a.Mut && b.Mut
				a.Data = a.Data && b.Data
				if a.Class != b.Class {
					a.Class = "err"
				}
			}
			res.Cells = append(res.Cells, a)
		}
	}
	return res, nil
}

// ---------------------------------------------------------------- behaviours

// Exp is the expectation TLC computed for one step.
type Exp struct {
	Rep       []string `json:"rep"`       // allowed reply classes
	Unchanged bool     `json:"unchanged"` // dataset and aof_size must not change
	NoData    bool     `json:"nodata"`    // the reply must not disclose object data
	Authd     string   `json:"authd"`     // "T", "F", "any": may the connection be authenticated afterwards
	Rule      string   `json:"rule"`      // which clause of the property decided
}

// ConnState is the model's connection state.
type ConnState struct {
	St    string `json:"st"`
	Peer  string `json:"peer"`
	Authd bool   `json:"authd"`
	Tried bool   `json:"tried"`
	N     int    `json:"n"`
	Early bool   `json:"early"` // opened, and used once, before the password was configured
}

// Step is one step of a behaviour.
type Step struct {
	K    string    `json:"k"` // "connect" | "cmd"
	Peer string    `json:"peer,omitempty"`
	I    string    `json:"i,omitempty"`
	W    string    `json:"w,omitempty"`
	Pre  ConnState `json:"pre"`
	Post ConnState `json:"post"`
	Exp  Exp       `json:"exp"`
}

// Behaviour is one TLC-generated behaviour: a server mode and a sequence of steps on one connection.
type Behaviour struct {
	Srv   SrvMode `json:"srv"`
	Steps []Step  `json:"steps"`
}

// Mismatch is a disagreement between the real code and TLC's expectation.
type Mismatch struct {
	Behaviour int    `json:"behaviour"`
	Step      int    `json:"step"`
	Text      string `json:"text"`
	Line      string `json:"line"`
}

// Stats counts what was executed and compared.
type Stats struct {
	Early       int            `json:"early_connections"` // connections opened and used before the password was configured
	Behaviours  int            `json:"behaviours"`
	Steps       int            `json:"steps"`
	Cells       int            `json:"cells"`       // command steps executed
	Constrained int            `json:"constrained"` // command steps for which the specification demands something
	Checks      int            `json:"checks"`      // single comparisons (class, unchanged, no data, authenticated)
	Probes      int            `json:"probes"`
	Truncated   int            `json:"truncated"` // behaviours cut short because the connection was gone
	ByMode      map[string]int `json:"by_mode"`
	ByRule      map[string]int `json:"by_rule"`
	ByWrapper   map[string]int `json:"by_wrapper"`
	ByClass     map[string]int `json:"by_class"`
	Builds      int            `json:"env_builds"`
	Repairs     int            `json:"env_repairs"`
}

func newStats() *Stats {
	return &Stats{ByMode: map[string]int{}, ByRule: map[string]int{}, ByWrapper: map[string]int{}, ByClass: map[string]int{}}
}

func (s *Stats) add(o *Stats) {
	s.Behaviours += o.Behaviours
	s.Early += o.Early
	s.Steps += o.Steps
	s.Cells += o.Cells
	s.Constrained += o.Constrained
	s.Checks += o.Checks
	s.Probes += o.Probes
	s.Truncated += o.Truncated
	s.Builds += o.Builds
	s.Repairs += o.Repairs
	for k, v := range o.ByMode {
		s.ByMode[k] += v
	}
	for k, v := range o.ByRule {
		s.ByRule[k] += v
	}
	for k, v := range o.ByWrapper {
		s.ByWrapper[k] += v
	}
	for k, v := range o.ByClass {
		s.ByClass[k] += v
	}
}

func contains(xs []string, x string) bool {
	for _, y := range xs {
		if x == y {
			return true
		}
	}
	return false
}

func connName(c ConnState) string {
	switch {
	case c.St == "refused":
		return "refused"
	case c.Authd:
		return "authenticated"
	case c.Tried && c.Early:
		return "early+wrong-password-tried"
	case c.Tried:
		return "wrong-password-tried"
	case c.Early:
		return "opened-before-the-password-was-set"
	}
	return "fresh"
}

type job struct {
	idx  int
	line string
	b    Behaviour
}

// Result of RunBehaviours.
type Result struct {
	Stats      *Stats     `json:"stats"`
	Mismatches []Mismatch `json:"mismatches"`
	Samples    []string   `json:"samples"`
	Desync     []string   `json:"desync"`
	Capped     bool       `json:"capped"` // stopped early: too many mismatches
}

// RunBehaviours executes TLC-generated behaviours against real servers and
// compares every step with TLC's expectation.
func RunBehaviours(repo string, seed int64, lines []string, base string, spin bool, maxMismatch int) (*Result, error) {
	cmds, err := ExtractCommands(repo)
	if err != nil {
		return nil, err
	}
	table, err := InstanceTable(cmds)
	if err != nil {
		return nil, err
	}
	fx := NewFixture(seed)
	groups := map[SrvMode][]job{}
	for i, l := range lines {
		var b Behaviour
		if err := json.Unmarshal([]byte(l), &b); err != nil {
			return nil, fmt.Errorf("behaviour %d: %v", i, err)
		}
		groups[b.Srv] = append(groups[b.Srv], job{i, l, b})
	}
	res := &Result{Stats: newStats()}
	var mu sync.Mutex
	var wg sync.WaitGroup
	var firstErr error
	for mode, jobs := range groups {
		wg.Add(1)
		go func(mode SrvMode, jobs []job) {
			defer wg.Done()
			rng := rand.New(rand.NewSource(seed*1000003 + int64(len(jobs))))
			rng.Shuffle(len(jobs), func(i, j int) { jobs[i], jobs[j] = jobs[j], jobs[i] })
			env, err := NewEnv(mode, fx, base, spin)
			if err != nil {
				mu.Lock()
				if firstErr == nil {
					firstErr = err
				}
				mu.Unlock()
				return
			}
			defer env.Close()
			st := newStats()
			for _, j := range jobs {
				mu.Lock()
				stop := firstErr != nil || len(res.Mismatches) >= maxMismatch
				if len(res.Mismatches) >= maxMismatch {
					res.Capped = true
				}
				mu.Unlock()
				if stop {
					break
				}
				ms, desync, err := env.runBehaviour(j, table, st)
				mu.Lock()
				res.Mismatches = append(res.Mismatches, ms...)
				if desync != "" {
					res.Desync = append(res.Desync, desync)
				}
				if err != nil && firstErr == nil {
					firstErr = fmt.Errorf("mode %s: %v", mode, err)
				}
				if len(res.Samples) < 6 && j.idx%211 == 0 {
					res.Samples = append(res.Samples, j.line)
				}
				mu.Unlock()
			}
			st.Builds, st.Repairs = env.Builds, env.Repairs
			mu.Lock()
			res.Stats.add(st)
			mu.Unlock()
		}(mode, jobs)
	}
	wg.Wait()
	WaitStopped()
	if firstErr != nil {
		return nil, firstErr
	}
	sort.Slice(res.Mismatches, func(i, j int) bool {
		a, b := res.Mismatches[i], res.Mismatches[j]
		if a.Behaviour != b.Behaviour {
			return a.Behaviour < b.Behaviour
		}
		return a.Step < b.Step
	})
	return res, nil
}

func (e *Env) runBehaviour(j job, table map[string]Instance, st *Stats) (ms []Mismatch, desync string, err error) {
	st.Behaviours++
	var p *Peer
	defer func() { p.Close() }()
	mode := e.Mode.String()
	for k, s := range j.b.Steps {
		st.Steps++
		switch s.K {
		case "connect":
			if s.Post.Early {
				// the connection exists, and has had an ordinary command answered, before the password is configured
				// (behaviours of one mode run one after the other on this server, nobody else is connected to it)
				if err := mustOK(e.ctl, "CONFIG", "SET", "requirepass", ""); err != nil {
					return ms, "", err
				}
			}
			p, err = dialFrom(e.n.addr, s.Peer)
			if err != nil {
				return ms, "", err
			}
			if s.Post.Early {
				warm, _ := p.Do("plain", []string{"GET", "verif-no-such-key", "verif-no-such-id"}, e.fx, replyWait)
				if err := mustOK(e.ctl, "CONFIG", "SET", "requirepass", e.fx.Vars["pw"]); err != nil {
					return ms, "", err
				}
				if warm.Class == "closed" || warm.Class == "none" || warm.Class == "auth-required" {
					return ms, "", fmt.Errorf("behaviour %d: the early connection could not be warmed up (%s)", j.idx, warm.Class)
				}
				st.Early++
			}
			obs := Observed{Class: "accepted"}
			if !contains(s.Exp.Rep, "accepted") {
				// a refusal is an unsolicited message: wait for it when the model says
				// there is one (an unexpected refusal shows up as the class of the
				// first reply)
				obs = p.greeting(replyWait)
			}
			st.Checks++
			st.ByRule["connect:"+s.Exp.Rule]++
			if !contains(s.Exp.Rep, obs.Class) {
				ms = append(ms, Mismatch{j.idx, k, fmt.Sprintf(
					"srv=%s peer=%s connect rule=%s: connection %s, expected {%s}; greeting=%.60q",
					mode, s.Peer, s.Exp.Rule, obs.Class, strings.Join(s.Exp.Rep, ","), obs.Text), j.line})
				return ms, "", nil
			}
			if obs.Class == "denied" && !p.closed {
				ms = append(ms, Mismatch{j.idx, k, fmt.Sprintf(
					"srv=%s peer=%s connect rule=%s: refusal sent but the connection stays open", mode, s.Peer, s.Exp.Rule), j.line})
			}
		case "cmd":
			in, ok := table[s.I]
			if !ok {
				return ms, "", fmt.Errorf("behaviour %d: unknown instance %q", j.idx, s.I)
			}
			if p == nil {
				return ms, "", fmt.Errorf("behaviour %d: command before connect", j.idx)
			}
			if p.closed && s.Pre.St != "refused" {
				st.Truncated++
				return ms, "", nil
			}
			args := e.fx.Fill(in.Args, e.extraVars())
			if !Expressible(args, s.W) {
				return ms, "", fmt.Errorf("behaviour %d: wrapper %s cannot carry %s", j.idx, s.W, s.I)
			}
			if strings.Contains(strings.Join(in.Args, " "), "{sha}") {
				e.EnsureScript()
			}
			bp, bs := e.n.dump()
			// Silence is waited out only briefly where the specification accepts it
			// (class "none" allowed) and the command may detach the connection;
			// everywhere else a reply gets the full time to arrive.
			wait := replyWait
			if in.tpl.Live && contains(s.Exp.Rep, "none") {
				wait = silentWait
			}
			obs, sent := p.Do(s.W, args, e.fx, wait)
			ap, as := e.n.dump()
			st.Cells++
			st.ByMode[mode+"/"+connName(s.Pre)+"/"+s.Pre.Peer]++
			st.ByRule[s.Exp.Rule]++
			st.ByWrapper[s.W]++
			st.ByClass[obs.Class]++
			var probs []string
			constrained := false
			if len(s.Exp.Rep) > 0 {
				st.Checks++
				if !contains(s.Exp.Rep, obs.Class) {
					probs = append(probs, fmt.Sprintf("reply class %s not in expected {%s}", obs.Class, strings.Join(s.Exp.Rep, ",")))
				}
				if !contains(s.Exp.Rep, "ok") {
					constrained = true
				}
			}
			if s.Exp.Unchanged {
				constrained = true
				st.Checks++
				if ap != bp {
					probs = append(probs, "dataset changed (projection)")
				} else if as != bs {
					probs = append(probs, fmt.Sprintf("dataset changed (aof_size %d->%d)", bs, as))
				}
			}
			if s.Exp.NoData {
				constrained = true
				st.Checks++
				if m := Leak(e.fx, obs.Text, sent); m != "" {
					probs = append(probs, "reply discloses object data "+m)
				}
			}
			needProbe := s.Exp.Authd == "F" || s.Exp.Authd == "T" || s.Post.Authd != s.Pre.Authd
			if needProbe && !isHTTP(s.W) && !p.closed && s.Pre.St != "refused" {
				st.Probes++
				pr, _ := p.Do("plain", []string{"SERVER"}, e.fx, replyWait)
				authd := pr.Class != "auth-required" && pr.Class != "closed" && pr.Class != "none"
				if s.Exp.Authd == "F" || s.Exp.Authd == "T" {
					constrained = true
					st.Checks++
					if authd != (s.Exp.Authd == "T") {
						if authd {
							probs = append(probs, "connection became authenticated")
						} else {
							probs = append(probs, "connection is not authenticated")
						}
					}
				} else if authd != s.Post.Authd {
					desync = fmt.Sprintf("behaviour %d step %d (%s %s/%s): the model continues with authd=%v, the real connection has authd=%v",
						j.idx, k, mode, s.I, s.W, s.Post.Authd, authd)
				}
			}
			if constrained {
				st.Constrained++
			}
			if len(probs) > 0 {
				txt := obs.Text
				if len(txt) > 120 {
					txt = txt[:120]
				}
				ms = append(ms, Mismatch{j.idx, k, fmt.Sprintf(
					"srv=%s peer=%s conn=%s cmd=%s inst=%s wrapper=%s rule=%s: %s; request=%q reply=%s %q",
					mode, s.Pre.Peer, connName(s.Pre), in.Base, s.I, s.W, s.Exp.Rule, strings.Join(probs, "; "),
					sent, obs.Class, txt), j.line})
			}
			was := e.n
			if err := e.Settle(in.tpl.RewritesLog && obs.Class == "ok"); err != nil {
				return ms, desync, fmt.Errorf("cannot re-establish the mode after %s/%s: %v", s.I, s.W, err)
			}
			if e.n != was {
				// the servers of the mode were started afresh: the connection is gone
				if k < len(j.b.Steps)-1 {
					st.Truncated++
				}
				return ms, desync, nil
			}
			if desync != "" {
				return ms, desync, nil
			}
		default:
			return ms, "", fmt.Errorf("behaviour %d: unknown step kind %q", j.idx, s.K)
		}
	}
	return ms, "", nil
}
