// Package gates binds spec/Gates.tla (property C15) to the real tile38 code:
// it extracts the command table from the current source tree, measures on a
// real leader what every command does, and executes the behaviours that TLC
// generated from the specification against real servers in every access mode.
//
// The package contains no model of the gates: which reply is expected, whether
// the dataset may change, whether data may be disclosed and whether the
// connection may become authenticated is read from TLC's output.
package gates

import (
	"encoding/json"
	"fmt"
	"go/ast"
	"go/parser"
	"go/token"
	"os"
	"path/filepath"
	"sort"
	"strconv"
	"strings"
)

// SourceCmd is one command name found in the source tree.
type SourceCmd struct {
	Name    string   `json:"name"`    // lower case, sub-commands as "config get"
	Sources []string `json:"sources"` // where it was found
}

// isCommandTag reports whether e is `msg.Command()` or the identifier `cmd`.
func isCommandTag(e ast.Expr) bool {
	switch v := e.(type) {
	case *ast.Ident:
		return v.Name == "cmd"
	case *ast.CallExpr:
		if sel, ok := v.Fun.(*ast.SelectorExpr); ok && sel.Sel.Name == "Command" && len(v.Args) == 0 {
			return true
		}
	}
	return false
}

func strLit(e ast.Expr) (string, bool) {
	bl, ok := e.(*ast.BasicLit)
	if !ok || bl.Kind != token.STRING {
		return "", false
	}
	s, err := strconv.Unquote(bl.Value)
	if err != nil {
		return "", false
	}
	return s, true
}

// namesInFunc collects the string literals of every `switch msg.Command()` /
// `switch cmd` case and of every `cmd == "x"` / `msg.Command() == "x"`
// comparison in the named functions of one file. It returns, per function,
// how many switch statements on the command name were seen.
func namesInFunc(file string, funcs map[string]bool, add func(name, where string)) (map[string]int, error) {
	fset := token.NewFileSet()
	f, err := parser.ParseFile(fset, file, nil, 0)
	if err != nil {
		return nil, err
	}
	seen := map[string]int{}
	for _, d := range f.Decls {
		fd, ok := d.(*ast.FuncDecl)
		if !ok || fd.Body == nil || !funcs[fd.Name.Name] {
			continue
		}
		where := filepath.Base(file) + ":" + fd.Name.Name
		ast.Inspect(fd.Body, func(n ast.Node) bool {
			switch v := n.(type) {
			case *ast.SwitchStmt:
				if v.Tag != nil && isCommandTag(v.Tag) {
					seen[fd.Name.Name]++
					for _, st := range v.Body.List {
						cc := st.(*ast.CaseClause)
						for _, e := range cc.List {
							if s, ok := strLit(e); ok {
								add(s, where)
							}
						}
					}
				}
			case *ast.BinaryExpr:
				if v.Op == token.EQL || v.Op == token.NEQ {
					if s, ok := strLit(v.Y); ok && isCommandTag(v.X) {
						add(s, where)
					}
					if s, ok := strLit(v.X); ok && isCommandTag(v.Y) {
						add(s, where)
					}
				}
			}
			return true
		})
	}
	return seen, nil
}

// ExtractCommands derives the command table from the CURRENT source tree:
// the switch in (*Server).command, the lock/gate switch and the name tests of
// handleInputCommand and netServe, the script dispatch tables of scripts.go
// and the keys of core/commands.json.
func ExtractCommands(repo string) ([]SourceCmd, error) {
	m := map[string]map[string]bool{}
	add := func(name, where string) {
		name = strings.ToLower(strings.TrimSpace(name))
		if name == "" {
			return
		}
		if m[name] == nil {
			m[name] = map[string]bool{}
		}
		m[name][where] = true
	}
	srv := filepath.Join(repo, "internal", "server", "server.go")
	seen, err := namesInFunc(srv, map[string]bool{"command": true, "handleInputCommand": true, "netServe": true}, add)
	if err != nil {
		return nil, fmt.Errorf("parsing %s: %v", srv, err)
	}
	if seen["command"] == 0 {
		return nil, fmt.Errorf("%s: no `switch msg.Command()` found in func (s *Server) command", srv)
	}
	if seen["handleInputCommand"] == 0 {
		return nil, fmt.Errorf("%s: no switch on the command name found in handleInputCommand", srv)
	}
	scr := filepath.Join(repo, "internal", "server", "scripts.go")
	seen, err = namesInFunc(scr, map[string]bool{"commandInScript": true, "luaTile38Call": true,
		"luaTile38AtomicRW": true, "luaTile38AtomicRO": true, "luaTile38NonAtomic": true}, add)
	if err != nil {
		return nil, fmt.Errorf("parsing %s: %v", scr, err)
	}
	if seen["commandInScript"] == 0 {
		return nil, fmt.Errorf("%s: script dispatch table (commandInScript) not found", scr)
	}
	cj := filepath.Join(repo, "core", "commands.json")
	b, err := os.ReadFile(cj)
	if err != nil {
		return nil, err
	}
	var tab map[string]json.RawMessage
	if err := json.Unmarshal(b, &tab); err != nil {
		return nil, fmt.Errorf("%s: %v", cj, err)
	}
	if len(tab) == 0 {
		return nil, fmt.Errorf("%s: empty command table", cj)
	}
	for k := range tab {
		add(k, "commands.json")
	}
	var out []SourceCmd
	for name, ws := range m {
		c := SourceCmd{Name: name}
		for w := range ws {
			c.Sources = append(c.Sources, w)
		}
		sort.Strings(c.Sources)
		out = append(out, c)
	}
	sort.Slice(out, func(i, j int) bool { return out[i].Name < out[j].Name })
	if len(out) < 40 {
		return nil, fmt.Errorf("only %d command names extracted from %s: extraction is broken", len(out), repo)
	}
	return out, nil
}
