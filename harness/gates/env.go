package gates

import (
	"bufio"
	"encoding/json"
	"fmt"
	"net"
	"os"
	"path/filepath"
	"strconv"
	"strings"
	"sync"
	"time"

	"github.com/tidwall/tile38/internal/server"
	"github.com/tidwall/tile38/verifharness/t38"
)

// NonLoopback is the sandbox's second local address: a peer that connects
// from it is not a loopback peer for the server.
const NonLoopback = "192.0.2.2"

// Fixture is the dataset every server holds, with markers: values that occur
// nowhere but in stored objects (ids, coordinates, field values, strings).
type Fixture struct {
	Seed    int64
	Vars    map[string]string // placeholder -> concrete argument
	Load    [][]string        // commands that create the dataset
	Markers []string          // object level data
	Script  string            // preloaded script ({sha})
}

// NewFixture derives keys, ids and values from the seed.
func NewFixture(seed int64) *Fixture {
	n := 4000 + (seed*7919)%5000 // 4 digit tag
	tag := func(i int64) string { return strconv.FormatInt(n+i, 10) }
	f := &Fixture{Seed: seed, Vars: map[string]string{}}
	v := f.Vars
	v["key"] = "fleet" + tag(0)
	v["truck"] = "truck" + tag(1)
	v["bus"] = "bus" + tag(2)
	v["note"] = "note" + tag(3)
	v["doc"] = "doc" + tag(4)
	v["aux"] = "aux" + tag(5)
	v["auxid"] = "pt" + tag(6)
	v["hook"] = "hook" + tag(7)
	v["chan"] = "chan" + tag(8)
	v["zone"] = "zone" + tag(9)
	v["pw"] = "pw" + tag(10) + "secret"
	v["badpw"] = "nope" + tag(11)
	lat := func(i int64) string { return "33.4" + tag(i) }
	lon := func(i int64) string { return "-112.2" + tag(i) }
	speed := tag(20) + ".25"
	noteVal := "hello" + tag(21) + "marker"
	first := "tom" + tag(22)
	f.Script = "return(tile38.call('get','" + v["key"] + "','" + v["truck"] + "'))"
	v["sha"] = server.Sha1Sum(f.Script)
	fence := []string{"NEARBY", v["zone"], "FENCE", "DETECT", "enter", "POINT", "10", "10", "100"}
	f.Load = [][]string{
		{"SET", v["key"], v["truck"], "FIELD", "speed", speed, "POINT", lat(30), lon(30)},
		{"SET", v["key"], v["bus"], "EX", "100000", "POINT", lat(31), lon(31)},
		{"SET", v["key"], v["note"], "STRING", noteVal},
		{"SET", v["key"], v["doc"], "STRING", `{"name":{"first":"` + first + `","age":7}}`},
		{"SET", v["aux"], v["auxid"], "POINT", lat(32), lon(32)},
		append([]string{"SETHOOK", v["hook"], "http://127.0.0.1:9/gates"}, fence...),
		append([]string{"SETCHAN", v["chan"]}, fence...),
	}
	f.Markers = []string{v["truck"], v["bus"], v["note"], v["doc"], v["auxid"],
		lat(30), lon(30)[1:], lat(31), lon(31)[1:], lat(32), lon(32)[1:], speed, noteVal, first}
	return f
}

// Fill replaces the placeholders of a template.
func (f *Fixture) Fill(args []string, extra map[string]string) []string {
	out := make([]string, len(args))
	for i, a := range args {
		if strings.Contains(a, "{") {
			for k, val := range f.Vars {
				a = strings.ReplaceAll(a, "{"+k+"}", val)
			}
			for k, val := range extra {
				a = strings.ReplaceAll(a, "{"+k+"}", val)
			}
		}
		out[i] = a
	}
	return out
}

// SrvMode is the server part of a mode, as the specification names it.
type SrvMode struct {
	Follower     bool `json:"follower"`
	CaughtUpOnce bool `json:"caughtUpOnce"`
	ReadOnly     bool `json:"readOnly"`
	RequirePass  bool `json:"requirepass"`
	Protected    bool `json:"protected"`
}

func (m SrvMode) String() string {
	var p []string
	switch {
	case m.Follower && m.CaughtUpOnce:
		p = append(p, "follower-caught-up")
	case m.Follower:
		p = append(p, "follower-never-caught-up")
	}
	if m.ReadOnly {
		p = append(p, "readonly")
	}
	if m.RequirePass {
		p = append(p, "requirepass")
	}
	if m.Protected {
		p = append(p, "protected")
	}
	if len(p) == 0 {
		return "leader"
	}
	return strings.Join(p, "+")
}

// node is one in-process server.
type node struct {
	s        *server.Server
	port     int
	addr     string
	dir      string
	shutdown chan bool
	done     chan error
	shrunk   chan struct{}
	caughtUp chan struct{} // follow.caughtup points
	hookGen  int64         // generation of this node's hook (its port may be reused by a later node)
}

var (
	portMu   sync.Mutex
	nextPort = 11000 + (os.Getpid()*37)%15000
)

// allocPort hands out every port at most once per process: servers are
// stopped in the background, and a port that is reused while its previous
// owner is still shutting down would mix up the hook registrations.
func allocPort() int {
	portMu.Lock()
	defer portMu.Unlock()
	for {
		nextPort++
		if nextPort > 32000 {
			nextPort = 11000
		}
		ln, err := net.Listen("tcp", fmt.Sprintf("127.0.0.1:%d", nextPort))
		if err != nil {
			continue
		}
		ln.Close()
		return nextPort
	}
}

func startNode(base string, protected, spin bool) (n *node, err error) {
	for try := 0; try < 5; try++ {
		if n, err = startNodeOnce(base, protected, spin); err == nil {
			return n, nil
		}
	}
	return nil, err
}

func startNodeOnce(base string, protected, spin bool) (*node, error) {
	dir, err := os.MkdirTemp(base, "gates-")
	if err != nil {
		return nil, err
	}
	n := &node{port: allocPort(), dir: dir, shutdown: make(chan bool), done: make(chan error, 1),
		shrunk: make(chan struct{}, 16), caughtUp: make(chan struct{}, 16)}
	n.addr = fmt.Sprintf("127.0.0.1:%d", n.port)
	var mu sync.Mutex
	t38.SetHook(n.port, func(s *server.Server, point string, args ...interface{}) {
		switch point {
		case "server.started":
			mu.Lock()
			n.s = s
			mu.Unlock()
		case "shrink.end":
			select {
			case n.shrunk <- struct{}{}:
			default:
			}
		case "follow.caughtup":
			select {
			case n.caughtUp <- struct{}{}:
			default:
			}
		}
	})
	n.hookGen = t38.HookGeneration(n.port)
	if err := n.launch(protected, spin); err != nil {
		return nil, err
	}
	mu.Lock()
	defer mu.Unlock()
	if n.s == nil {
		return nil, fmt.Errorf("server.started hook did not fire: /repo not built with -tags verif?")
	}
	return n, nil
}


// launch starts Serve on the node's directory and port and waits until it answers.
func (n *node) launch(protected, spin bool) error {
	dir := n.dir
	prot := "no"
	if protected {
		prot = "yes"
	}
	go func() {
		// DevMode off: the production configuration (SHUTDOWN, MASSINSERT and
		// SLEEP are unknown commands there).
		n.done <- server.Serve(server.Options{Host: "127.0.0.1", Port: n.port, Dir: dir, UseHTTP: true,
			DevMode: false, AppendOnly: true, Shutdown: n.shutdown, ProtectedMode: prot, Spinlock: spin})
	}()
	deadline := time.Now().Add(20 * time.Second)
	for {
		select {
		case err := <-n.done:
			return fmt.Errorf("server exited during start: %v", err)
		default:
		}
		c, err := t38.Dial(n.addr)
		if err == nil {
			v, err := c.Do("SERVER")
			c.Close()
			// (a server that loaded a password from its configuration file answers "authentication required")
			if err == nil && (v.Kind == '*' || (v.Kind == '-' && strings.Contains(v.Str, "authentication required"))) {
				break
			}
		}
		if time.Now().After(deadline) {
			return fmt.Errorf("server on %s did not start", n.addr)
		}
		time.Sleep(2 * time.Millisecond)
	}
	return nil
}

// restart stops the server and starts it again on the same data directory and port (the next process lifetime: what
// the configuration file holds is what the server is now).
func (n *node) restart(protected, spin bool) error {
	close(n.shutdown)
	select {
	case <-n.done:
	case <-time.After(60 * time.Second):
		return fmt.Errorf("server on %s did not stop for a restart", n.addr)
	}
	if n.s != nil {
		n.s.VerifCloseFiles()
	}
	n.shutdown = make(chan bool)
	n.done = make(chan error, 1)
	return n.launch(protected, spin)
}

var stopping sync.WaitGroup

func (n *node) stop() {
	close(n.shutdown)
	select {
	case <-n.done:
	case <-time.After(30 * time.Second):
	}
	if n.s != nil {
		n.s.VerifCloseFiles()
	}
	t38.ClearHookIf(n.port, n.hookGen)
	os.RemoveAll(n.dir)
}

// stopLater shuts a server down in the background (an in-process server needs
// about a second to stop); WaitStopped waits for all of them.
func (n *node) stopLater() {
	stopping.Add(1)
	go func() {
		defer stopping.Done()
		n.stop()
	}()
}

// WaitStopped waits until every server that was stopped in the background is gone.
func WaitStopped() { stopping.Wait() }

// dump is the projection of the dataset (VerifDump) as canonical JSON, and the aof size.
func (n *node) dump() (string, int) {
	st := n.s.VerifDump(true)
	sz := st.AofSz
	st.AofSz = 0
	b, _ := json.Marshal(st)
	return string(b), sz
}

// dumpNoDeadline is the projection without the absolute deadlines (they differ between two loads of the fixture).
func (n *node) dumpNoDeadline() string {
	st := n.s.VerifDump(true)
	st.AofSz = 0
	for _, col := range st.Cols {
		for id, o := range col {
			o.ExNano = 0
			col[id] = o
		}
	}
	b, _ := json.Marshal(st)
	return string(b)
}

// fakeLeader answers SERVER plausibly (an id, a huge aof_size, not following)
// and stalls on everything else, so that a follower pointed at it never
// catches up (see followStep in follow.go: SERVER, then REPLCONF).
type fakeLeader struct {
	ln      net.Listener
	port    int
	stalled chan struct{}
}

func newFakeLeader() (*fakeLeader, error) {
	ln, err := net.Listen("tcp", "127.0.0.1:0")
	if err != nil {
		return nil, err
	}
	f := &fakeLeader{ln: ln, port: ln.Addr().(*net.TCPAddr).Port, stalled: make(chan struct{}, 64)}
	go func() {
		for {
			c, err := ln.Accept()
			if err != nil {
				return
			}
			go func(c net.Conn) {
				defer c.Close()
				rd := bufio.NewReader(c)
				for {
					v, err := t38.ReadValue(rd)
					if err != nil {
						return
					}
					name := ""
					if len(v.Arr) > 0 {
						name = strings.ToLower(v.Arr[0].Str)
					}
					switch name {
					case "server":
						kv := []string{"id", "fa4eleader00000000000000000000c15", "aof_size", "1000000000", "num_objects", "0"}
						b := []byte(fmt.Sprintf("*%d\r\n", len(kv)))
						for _, s := range kv {
							b = append(b, fmt.Sprintf("$%d\r\n%s\r\n", len(s), s)...)
						}
						c.Write(b)
					case "quit":
						return
					default:
						select {
						case f.stalled <- struct{}{}:
						default:
						}
						// stall: never answer, keep the connection open until the peer goes away
						for {
							if _, err := t38.ReadValue(rd); err != nil {
								return
							}
						}
					}
				}
			}(c)
		}
	}()
	return f, nil
}

func (f *fakeLeader) close() { f.ln.Close() }

// Env is the set of servers that realises one server mode.
type Env struct {
	Mode    SrvMode
	fx      *Fixture
	base    string // scratch directory
	spin    bool
	n       *node // the server under test
	leader  *node // real leader (follower caught up)
	fake    *fakeLeader
	ctl     *t38.Conn
	baseDmp string // projection (without deadlines) right after the fixture was (re)loaded
	Builds  int
	Repairs int
	Restarts int // environments whose server was restarted after it was brought into its mode
}

// NewEnv starts the servers of a mode and brings them into it.
func NewEnv(mode SrvMode, fx *Fixture, base string, spin bool) (*Env, error) {
	e := &Env{Mode: mode, fx: fx, base: base, spin: spin}
	if err := e.build(); err != nil {
		e.Close()
		return nil, fmt.Errorf("mode %s: %v", mode, err)
	}
	return e, nil
}

// Close stops every server of the environment.
func (e *Env) Close() {
	if e.ctl != nil {
		e.ctl.Close()
		e.ctl = nil
	}
	if e.n != nil {
		e.n.stopLater()
		e.n = nil
	}
	if e.leader != nil {
		e.leader.stopLater()
		e.leader = nil
	}
	if e.fake != nil {
		e.fake.close()
		e.fake = nil
	}
}

func mustOK(c *t38.Conn, args ...string) error {
	v, err := c.Do(args...)
	if err != nil {
		return fmt.Errorf("%v: %v", args, err)
	}
	if v.Kind == '-' {
		return fmt.Errorf("%v: %s", args, v.Str)
	}
	return nil
}

func loadFixture(c *t38.Conn, fx *Fixture) error {
	for _, cmd := range fx.Load {
		if err := mustOK(c, cmd...); err != nil {
			return fmt.Errorf("fixture: %v", err)
		}
	}
	return mustOK(c, "SCRIPT", "LOAD", fx.Script)
}

func serverInfo(c *t38.Conn) (map[string]string, error) {
	v, err := c.Do("SERVER")
	if err != nil {
		return nil, err
	}
	if v.Kind != '*' {
		return nil, fmt.Errorf("SERVER: %s", v.String())
	}
	m := map[string]string{}
	for i := 0; i+1 < len(v.Arr); i += 2 {
		m[v.Arr[i].Str] = v.Arr[i+1].Str
	}
	return m, nil
}

func (e *Env) build() error {
	e.Close()
	e.Builds++
	var err error
	if e.n, err = startNode(e.base, e.Mode.Protected, e.spin); err != nil {
		return err
	}
	if e.ctl, err = t38.Dial(e.n.addr); err != nil {
		return err
	}
	e.ctl.Timeout = 10 * time.Second
	switch {
	case e.Mode.Follower && e.Mode.CaughtUpOnce:
		// a real leader holds the fixture; the follower copies it
		if e.leader, err = startNode(e.base, false, e.spin); err != nil {
			return err
		}
		lc, err := t38.Dial(e.leader.addr)
		if err != nil {
			return err
		}
		defer lc.Close()
		if err := loadFixture(lc, e.fx); err != nil {
			return err
		}
		if err := mustOK(e.ctl, "FOLLOW", "127.0.0.1", strconv.Itoa(e.leader.port)); err != nil {
			return err
		}
		if err := e.awaitCaughtUp(); err != nil {
			return err
		}
		if err := mustOK(e.ctl, "SCRIPT", "LOAD", e.fx.Script); err != nil {
			return err
		}
	case e.Mode.Follower:
		// own data first, then FOLLOW a leader that never lets it catch up
		if err := loadFixture(e.ctl, e.fx); err != nil {
			return err
		}
		if e.fake, err = newFakeLeader(); err != nil {
			return err
		}
		if err := mustOK(e.ctl, "FOLLOW", "127.0.0.1", strconv.Itoa(e.fake.port)); err != nil {
			return err
		}
		select {
		case <-e.fake.stalled:
		case <-time.After(10 * time.Second):
			return fmt.Errorf("follower never talked to the stalling leader")
		}
	default:
		if err := loadFixture(e.ctl, e.fx); err != nil {
			return err
		}
	}
	e.baseDmp = e.n.dumpNoDeadline()
	if e.Mode.ReadOnly {
		if err := mustOK(e.ctl, "READONLY", "yes"); err != nil {
			return err
		}
	}
	if e.Mode.RequirePass {
		if err := mustOK(e.ctl, "CONFIG", "SET", "requirepass", e.fx.Vars["pw"]); err != nil {
			return err
		}
		if err := mustOK(e.ctl, "AUTH", e.fx.Vars["pw"]); err != nil {
			return err
		}
	}
	if e.Builds%2 == 0 && !e.Mode.Follower && (e.Mode.ReadOnly || e.Mode.RequirePass) {
		// every second environment of these modes is the NEXT process lifetime of the server: READONLY is kept in the
		// configuration file by the command itself, the password after CONFIG REWRITE
		if e.Mode.RequirePass {
			if err := mustOK(e.ctl, "CONFIG", "REWRITE"); err != nil {
				return err
			}
		}
		e.ctl.Close()
		if err := e.n.restart(e.Mode.Protected, e.spin); err != nil {
			return err
		}
		if e.ctl, err = t38.Dial(e.n.addr); err != nil {
			return err
		}
		e.ctl.Timeout = 10 * time.Second
		if e.Mode.RequirePass {
			if err := mustOK(e.ctl, "AUTH", e.fx.Vars["pw"]); err != nil {
				return fmt.Errorf("after a restart the configured password is not accepted: %v", err)
			}
		}
		e.Restarts++
	}
	return e.verifyMode()
}

// verifyMode checks that the server is in the mode it is meant to be in. The
// follow target and the read-only flag are read from the server's own config
// file (rewritten by FOLLOW and READONLY before they reply): SERVER itself is
// gated on a follower that never caught up. "caught up once" is read from
// SERVER where that is possible; a follower of the stalling fake leader has
// never been sent anything it could catch up with.
func (e *Env) verifyMode() error {
	b, err := os.ReadFile(filepath.Join(e.n.dir, "config"))
	if err != nil {
		return err
	}
	var cfg struct {
		FollowHost string `json:"follow_host"`
		FollowPort int    `json:"follow_port"`
		ReadOnly   bool   `json:"read_only"`
	}
	if err := json.Unmarshal(b, &cfg); err != nil {
		return fmt.Errorf("config file: %v", err)
	}
	if (cfg.FollowHost != "") != e.Mode.Follower {
		return fmt.Errorf("follow_host=%q", cfg.FollowHost)
	}
	if cfg.ReadOnly != e.Mode.ReadOnly {
		return fmt.Errorf("read_only=%v", cfg.ReadOnly)
	}
	if e.Mode.Follower {
		want := 0
		if e.Mode.CaughtUpOnce {
			want = e.leader.port
		} else if e.fake != nil {
			want = e.fake.port
		}
		if cfg.FollowPort != want {
			return fmt.Errorf("follow_port=%d, want %d", cfg.FollowPort, want)
		}
		if e.Mode.CaughtUpOnce {
			m, err := serverInfo(e.ctl)
			if err != nil {
				return err
			}
			if m["caught_up_once"] != "true" {
				return fmt.Errorf("caught_up_once=%q", m["caught_up_once"])
			}
		}
	}
	return nil
}

// Settle brings the environment back to its mode and its base dataset after a
// step. Leader-like servers execute what they are sent, so the dataset is
// reloaded through the control connection; followers are rebuilt.
func (e *Env) Settle(waitShrink bool) error {
	if waitShrink {
		select {
		case <-e.n.shrunk:
		case <-time.After(5 * time.Second):
		}
	}
	modeOK := e.verifyMode() == nil
	dataOK := e.n.dumpNoDeadline() == e.baseDmp
	if modeOK && dataOK {
		return nil
	}
	e.Repairs++
	if e.Mode.Follower {
		// the dataset of a follower can only be repaired by starting over; a changed
		// follow target or read-only flag is put back with the commands that set them
		if !dataOK {
			return e.build()
		}
		if err := e.refollow(); err != nil {
			return e.build()
		}
		return nil
	}
	// leader-like: switch the write gates off, reload, switch them on again
	if err := mustOK(e.ctl, "FOLLOW", "no", "one"); err != nil {
		return e.build()
	}
	if err := mustOK(e.ctl, "READONLY", "no"); err != nil {
		return e.build()
	}
	if !dataOK {
		if err := mustOK(e.ctl, "FLUSHDB"); err != nil {
			return e.build()
		}
		if err := loadFixture(e.ctl, e.fx); err != nil {
			return e.build()
		}
	}
	if e.Mode.ReadOnly {
		if err := mustOK(e.ctl, "READONLY", "yes"); err != nil {
			return e.build()
		}
	}
	if e.n.dumpNoDeadline() != e.baseDmp || e.verifyMode() != nil {
		return e.build()
	}
	return nil
}

// refollow points a follower whose dataset is intact back at its leader.
func (e *Env) refollow() error {
	ro := "no"
	if e.Mode.ReadOnly {
		ro = "yes"
	}
	if err := mustOK(e.ctl, "READONLY", ro); err != nil {
		return err
	}
	if e.Mode.CaughtUpOnce {
		if e.followPort() != e.leader.port {
			// Following again would re-apply the leader's whole log on top of the
			// follower's data while "caught up" is reported after the first command
			// (followCheckSome does not reset a short log): there is no point at which
			// the follower is known to be quiet. Start over with fresh servers.
			return fmt.Errorf("follow target changed")
		}
	} else if e.followPort() != e.fake.port {
		for len(e.fake.stalled) > 0 {
			<-e.fake.stalled
		}
		if err := mustOK(e.ctl, "FOLLOW", "127.0.0.1", strconv.Itoa(e.fake.port)); err != nil {
			return err
		}
		select {
		case <-e.fake.stalled:
		case <-time.After(5 * time.Second):
			return fmt.Errorf("follower never talked to the stalling leader")
		}
	}
	if e.n.dumpNoDeadline() != e.baseDmp {
		return fmt.Errorf("dataset changed by following again")
	}
	return e.verifyMode()
}

// awaitCaughtUp waits until the follower has reported (hook point
// follow.caughtup) that it applied everything its leader had when the stream
// began -- the leader is idle, so nothing arrives afterwards -- and holds the
// leader's dataset.
func (e *Env) awaitCaughtUp() error {
	select {
	case <-e.n.caughtUp:
	case <-time.After(20 * time.Second):
		return fmt.Errorf("follower did not catch up with its leader")
	}
	want := e.leader.dumpNoDeadline()
	deadline := time.Now().Add(10 * time.Second)
	for {
		m, err := serverInfo(e.ctl)
		if err == nil && m["caught_up"] == "true" && e.n.dumpNoDeadline() == want {
			return nil
		}
		if time.Now().After(deadline) {
			return fmt.Errorf("follower caught up but is not a copy of its leader (SERVER: %v %v)", m, err)
		}
		time.Sleep(2 * time.Millisecond)
	}
}

// followPort reads the follow target from the server's config file (0: none).
func (e *Env) followPort() int {
	b, err := os.ReadFile(filepath.Join(e.n.dir, "config"))
	if err != nil {
		return 0
	}
	var cfg struct {
		FollowHost string `json:"follow_host"`
		FollowPort int    `json:"follow_port"`
	}
	if json.Unmarshal(b, &cfg) != nil || cfg.FollowHost == "" {
		return 0
	}
	return cfg.FollowPort
}

// EnsureScript makes sure the preloaded script is in the script cache.
func (e *Env) EnsureScript() {
	e.ctl.Do("SCRIPT", "LOAD", e.fx.Script)
}

// FakePort is a port on which a stalling fake leader listens (for FOLLOW templates).
func (e *Env) FakePort() (string, error) {
	if e.fake == nil {
		f, err := newFakeLeader()
		if err != nil {
			return "", err
		}
		e.fake = f
	}
	return strconv.Itoa(e.fake.port), nil
}
