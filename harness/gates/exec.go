package gates

import (
	"bufio"
	"bytes"
	"encoding/json"
	"fmt"
	"io"
	"net"
	"strconv"
	"strings"
	"time"

	"github.com/tidwall/tile38/verifharness/t38"
)

// Wrappers, in the order the specification lists them.
var Wrappers = []string{"plain", "timeout", "eval", "evalro", "evalna", "json", "native", "http", "httpauth", "httpbad"}

func isHTTP(w string) bool { return strings.HasPrefix(w, "http") }

// lineEncodable: can the argument vector travel on a blank separated line
// (HTTP body, native protocol)? See readNativeMessageLine.
func lineEncodable(args []string) bool {
	for i, a := range args {
		if a == "" || strings.ContainsAny(a, "\r\n") || a[0] == '"' {
			return false
		}
		if a[0] == '{' {
			if i != len(args)-1 {
				return false
			}
			continue
		}
		if strings.Contains(a, " ") {
			return false
		}
	}
	return true
}

// Expressible reports whether the wrapper can carry the arguments.
func Expressible(args []string, w string) bool {
	switch w {
	case "native", "http", "httpauth", "httpbad":
		return lineEncodable(args)
	case "eval", "evalro", "evalna":
		for _, a := range args {
			if a == "" { // tile38.call stops at the first empty argument
				return false
			}
		}
	}
	return true
}

func luaQuote(s string) string {
	var b strings.Builder
	b.WriteByte('\'')
	for i := 0; i < len(s); i++ {
		c := s[i]
		switch {
		case c == '\'' || c == '\\':
			b.WriteByte('\\')
			b.WriteByte(c)
		case c < 32 || c > 126:
			fmt.Fprintf(&b, "\\%03d", c)
		default:
			b.WriteByte(c)
		}
	}
	b.WriteByte('\'')
	return b.String()
}

// Peer is a client connection from a chosen local address.
type Peer struct {
	c      net.Conn
	rd     *bufio.Reader
	closed bool
}

func dialFrom(addr, peer string) (*Peer, error) {
	d := net.Dialer{Timeout: 5 * time.Second}
	if peer == "nl" {
		d.LocalAddr = &net.TCPAddr{IP: net.ParseIP(NonLoopback)}
	}
	// (hundreds of thousands of short connections: wait for ephemeral ports to come back instead of failing)
	var c net.Conn
	var err error
	for try := 0; try < 200; try++ {
		c, err = d.Dial("tcp", addr)
		if err == nil || !strings.Contains(err.Error(), "cannot assign requested address") {
			break
		}
		time.Sleep(100 * time.Millisecond)
	}
	if err != nil {
		return nil, err
	}
	if tc, ok := c.(*net.TCPConn); ok {
		tc.SetNoDelay(true)
	}
	return &Peer{c: c, rd: bufio.NewReaderSize(c, 1<<16)}, nil
}

func (p *Peer) Close() {
	if p != nil && p.c != nil {
		// reset instead of FIN: no TIME_WAIT, the ephemeral port is free at once
		if tc, ok := p.c.(*net.TCPConn); ok {
			tc.SetLinger(0)
		}
		p.c.Close()
	}
}

// Observed is what came back for one request.
type Observed struct {
	Class string // ok, not-leader, read-only, catching-up, auth-required, invalid-password, err, denied, closed, none
	Text  string // flattened reply (all strings of the reply)
}

func errClass(msg string) string {
	m := strings.ToLower(msg)
	switch {
	case strings.HasPrefix(m, "denied"):
		return "denied"
	case strings.Contains(m, "not the leader"):
		return "not-leader"
	case strings.Contains(m, "read only"):
		return "read-only"
	case strings.Contains(m, "catching up to leader"):
		return "catching-up"
	case strings.Contains(m, "authentication required"):
		return "auth-required"
	case strings.Contains(m, "invalid password"):
		return "invalid-password"
	}
	return "err"
}

// classifyJSON handles a tile38 JSON reply ({"ok":...}); ok=false when s is not one.
func classifyJSON(s string) (Observed, bool) {
	t := strings.TrimSpace(s)
	if !strings.HasPrefix(t, "{") {
		return Observed{}, false
	}
	var m map[string]json.RawMessage
	if json.Unmarshal([]byte(t), &m) != nil {
		// tile38 prints an unquoted elapsed in one case; fall back to a textual test
		if strings.HasPrefix(t, `{"ok":true`) {
			return Observed{Class: "ok", Text: t}, true
		}
		return Observed{}, false
	}
	okv, has := m["ok"]
	if !has {
		return Observed{}, false
	}
	if string(okv) == "true" {
		return Observed{Class: "ok", Text: t}, true
	}
	var e string
	json.Unmarshal(m["err"], &e)
	return Observed{Class: errClass(e), Text: t}, true
}

func flatten(v t38.Value, b *strings.Builder) {
	switch v.Kind {
	case '*':
		for _, a := range v.Arr {
			flatten(a, b)
		}
	case ':':
		b.WriteString(strconv.FormatInt(v.Int, 10))
		b.WriteByte(' ')
	default:
		b.WriteString(v.Str)
		b.WriteByte(' ')
	}
}

func classifyValue(v t38.Value) Observed {
	var b strings.Builder
	flatten(v, &b)
	switch v.Kind {
	case '-':
		return Observed{Class: errClass(v.Str), Text: b.String()}
	case '$':
		if !v.Null {
			if o, ok := classifyJSON(v.Str); ok {
				return o
			}
		}
	}
	return Observed{Class: "ok", Text: b.String()}
}

func classifyRaw(raw []byte, eof bool) Observed {
	if len(raw) == 0 {
		if eof {
			return Observed{Class: "closed"}
		}
		return Observed{Class: "none"}
	}
	body := raw
	if bytes.HasPrefix(raw, []byte("HTTP/1.")) {
		if i := bytes.Index(raw, []byte("\r\n\r\n")); i >= 0 {
			body = raw[i+4:]
		}
	}
	s := strings.TrimSpace(string(body))
	if o, ok := classifyJSON(s); ok {
		return o
	}
	if s != "" && strings.ContainsRune("+-:$*", rune(s[0])) {
		if v, err := t38.ReadValue(bufio.NewReader(strings.NewReader(s + "\r\n"))); err == nil {
			// only the first value is "the reply": what a detached (live)
			// connection streams afterwards is not examined
			return classifyValue(v)
		}
	}
	if bytes.HasPrefix(raw, []byte("HTTP/1.")) && !bytes.HasPrefix(raw, []byte("HTTP/1.1 200")) {
		return Observed{Class: "err", Text: s}
	}
	return Observed{Class: "ok", Text: s}
}

func isTimeout(err error) bool {
	ne, ok := err.(net.Error)
	return ok && ne.Timeout()
}

// readRESP reads one RESP value.
func (p *Peer) readRESP(d time.Duration) Observed {
	p.c.SetReadDeadline(time.Now().Add(d))
	v, err := t38.ReadValue(p.rd)
	if err != nil {
		if isTimeout(err) {
			return Observed{Class: "none"}
		}
		p.closed = true
		return Observed{Class: "closed"}
	}
	return classifyValue(v)
}

// readNative reads one `$<n> <payload>\r\n` frame (a RESP value is accepted too: -DENIED).
func (p *Peer) readNative(d time.Duration) Observed {
	p.c.SetReadDeadline(time.Now().Add(d))
	first, err := p.rd.Peek(1)
	if err != nil {
		if isTimeout(err) {
			return Observed{Class: "none"}
		}
		p.closed = true
		return Observed{Class: "closed"}
	}
	if first[0] != '$' {
		return p.readRESP(d)
	}
	head, err := p.rd.ReadString(' ')
	if err != nil || len(head) < 3 {
		p.closed = true
		return Observed{Class: "closed"}
	}
	n, err := strconv.Atoi(head[1 : len(head)-1])
	if err != nil || n < 0 {
		p.closed = true
		return Observed{Class: "err", Text: "bad native frame " + head}
	}
	buf := make([]byte, n+2)
	if _, err := io.ReadFull(p.rd, buf); err != nil {
		p.closed = true
		return Observed{Class: "closed"}
	}
	return classifyRaw(buf[:n], false)
}

// readAll reads until the server closes the connection (HTTP). It waits up to
// d for the first byte; once data flows, 200 ms of silence end the reading (a
// detached connection is never closed by the server).
func (p *Peer) readAll(d time.Duration) Observed {
	var raw []byte
	buf := make([]byte, 1<<16)
	p.c.SetReadDeadline(time.Now().Add(d))
	eof := false
	for {
		n, err := p.rd.Read(buf)
		raw = append(raw, buf[:n]...)
		if err != nil {
			eof = !isTimeout(err)
			break
		}
		p.c.SetReadDeadline(time.Now().Add(200 * time.Millisecond))
	}
	p.closed = true
	return classifyRaw(raw, eof)
}

// greeting waits for an unsolicited message (the protected-mode refusal).
func (p *Peer) greeting(d time.Duration) Observed {
	p.c.SetReadDeadline(time.Now().Add(d))
	if _, err := p.rd.Peek(1); err != nil {
		if isTimeout(err) {
			return Observed{Class: "accepted"}
		}
		p.closed = true
		return Observed{Class: "closed"}
	}
	o := p.readRESP(d)
	if o.Class == "denied" {
		// the server must also have hung up
		p.c.SetReadDeadline(time.Now().Add(d))
		if _, err := p.rd.Peek(1); err != nil && !isTimeout(err) {
			p.closed = true
		}
	}
	return o
}

// replyWait: how long a reply may take. silentWait: how long the harness
// waits when no reply at all is an acceptable outcome (a command that
// detaches the connection, e.g. SUBSCRIBE over HTTP, answers nothing).
const (
	replyWait  = 8 * time.Second
	silentWait = 300 * time.Millisecond
)

// Request is one wrapped command as it goes over the wire.
type Request struct {
	Wrapper string
	Args    []string // the command itself
	Sent    string   // everything the client sent (for the disclosure test)
}

// Do sends the command under the wrapper and reads the first reply, waiting
// at most `wait` for it.
func (p *Peer) Do(w string, args []string, fx *Fixture, wait time.Duration) (Observed, string) {
	send := func(b []byte) {
		p.c.SetWriteDeadline(time.Now().Add(5 * time.Second))
		p.c.Write(b)
	}
	switch w {
	case "plain":
		send(t38.AppendCommand(nil, args...))
		return p.readRESP(wait), strings.Join(args, " ")
	case "timeout":
		a := append([]string{"TIMEOUT", "10"}, args...)
		send(t38.AppendCommand(nil, a...))
		return p.readRESP(wait), strings.Join(a, " ")
	case "eval", "evalro", "evalna":
		q := make([]string, len(args))
		for i, a := range args {
			q[i] = luaQuote(a)
		}
		a := []string{strings.ToUpper(w), "return(tile38.call(" + strings.Join(q, ",") + "))", "0"}
		send(t38.AppendCommand(nil, a...))
		return p.readRESP(wait), strings.Join(a, " ")
	case "json":
		send(t38.AppendCommand(nil, "OUTPUT", "json"))
		p.readRESP(replyWait)
		send(t38.AppendCommand(nil, args...))
		return p.readRESP(wait), strings.Join(args, " ")
	case "native":
		line := strings.Join(args, " ")
		send([]byte("$" + strconv.Itoa(len(line)) + " " + line + "\r\n"))
		return p.readNative(wait), line
	case "http", "httpauth", "httpbad":
		line := strings.Join(args, " ")
		hdr := ""
		if w == "httpauth" {
			hdr = "Authorization: " + fx.Vars["pw"] + "\r\n"
		} else if w == "httpbad" {
			hdr = "Authorization: " + fx.Vars["badpw"] + "\r\n"
		}
		req := "POST / HTTP/1.1\r\nHost: gates\r\n" + hdr + "Content-Length: " + strconv.Itoa(len(line)) + "\r\n\r\n" + line
		send([]byte(req))
		return p.readAll(wait), line
	}
	return Observed{Class: "none", Text: "unknown wrapper " + w}, ""
}

// Leak returns the first fixture marker that occurs in the reply but not in
// what the client itself sent ("obtains data"), or "".
func Leak(fx *Fixture, reply, sent string) string {
	for _, m := range fx.Markers {
		if strings.Contains(reply, m) && !strings.Contains(sent, m) {
			return m
		}
	}
	return ""
}
