package reply

import (
	"bufio"
	"bytes"
	"fmt"
	"io"
	"net"
	"os"
	"regexp"
	"strconv"
	"strings"
	"sync"
	"sync/atomic"
	"time"

	"github.com/tidwall/tile38/internal/server"
	"github.com/tidwall/tile38/verifharness/t38"
)

// LaneSpec is one way of talking to a server: a transport and the output
// mode that is established right after connecting ("" = leave the default).
type LaneSpec struct {
	Name      string `json:"name"`
	Transport string `json:"transport"` // resp | telnet | native | http
	Set       string `json:"set"`       // "" | "resp" | "json": OUTPUT command sent after connecting
}

// AllLanes: every transport in both output modes it can be put in. HTTP
// connections serve one request, so their mode is always the default (JSON).
var AllLanes = []LaneSpec{
	{"resp/R", "resp", ""},
	{"telnet/R", "telnet", ""},
	{"native/R", "native", "resp"},
	{"resp/J", "resp", "json"},
	{"telnet/J", "telnet", "json"},
	{"native/J", "native", ""},
	{"http/J", "http", ""},
	{"httppost/J", "httppost", ""},
}

// ---------------------------------------------------------------------------
// client encodings (what a client of each transport writes)

func telnetArg(s string) string {
	if s != "" && !strings.ContainsAny(s, " \"'\\\n\r\t") {
		return s
	}
	var sb strings.Builder
	sb.WriteByte('"')
	for i := 0; i < len(s); i++ {
		switch c := s[i]; c {
		case '"', '\\':
			sb.WriteByte('\\')
			sb.WriteByte(c)
		case '\n':
			sb.WriteString(`\n`)
		case '\r':
			sb.WriteString(`\r`)
		case '\t':
			sb.WriteString(`\t`)
		default:
			sb.WriteByte(c)
		}
	}
	sb.WriteByte('"')
	return sb.String()
}

// lineCarries reports whether the space-separated line syntax of the native
// and HTTP transports can carry the argument vector unchanged: arguments are
// split at blanks, except that an argument starting with '{' takes the rest
// of the line, and a quoted rest of line after SET ... STRING is unquoted.
func lineCarries(args []string) bool {
	for i, a := range args {
		last := i == len(args)-1
		if a == "" {
			return false
		}
		if a[0] == '{' {
			if !last {
				return false
			}
			continue // the rest of the line, blanks included
		}
		if strings.ContainsAny(a, " ") {
			return false
		}
		if a[0] == '"' && args[len(args)-1][len(args[len(args)-1])-1] == '"' {
			return false
		}
	}
	return len(args) > 0
}

func pctEncode(s string) string {
	var sb strings.Builder
	for i := 0; i < len(s); i++ {
		c := s[i]
		if c >= 'a' && c <= 'z' || c >= 'A' && c <= 'Z' || c >= '0' && c <= '9' || c == '-' || c == '_' || c == '.' || c == '~' {
			sb.WriteByte(c)
		} else {
			fmt.Fprintf(&sb, "%%%02X", c)
		}
	}
	return sb.String()
}

// Encode returns the bytes a client of the transport sends for args, or
// ok=false when the transport's syntax cannot carry them.
func Encode(transport string, args []string) (b []byte, ok bool) {
	if len(args) == 0 {
		return nil, false
	}
	switch transport {
	case "resp":
		return t38.AppendCommand(nil, args...), true
	case "telnet":
		// the first byte selects the syntax on the server side
		if a := args[0]; a == "" || a[0] == '*' || a[0] == '$' {
			return nil, false
		}
		for _, a := range args {
			if strings.ContainsAny(a, "\x00") { // carried, but keep the line printable for reports
				continue
			}
		}
		var sb strings.Builder
		for i, a := range args {
			if i > 0 {
				sb.WriteByte(' ')
			}
			sb.WriteString(telnetArg(a))
		}
		sb.WriteString("\r\n")
		return []byte(sb.String()), true
	case "native":
		if !lineCarries(args) {
			return nil, false
		}
		line := strings.Join(args, " ")
		return []byte("$" + strconv.Itoa(len(line)) + " " + line + "\r\n"), true
	case "http", "httppost":
		if !lineCarries(args) {
			return nil, false
		}
		if len(args) == 1 {
			a := args[0]
			if strings.Contains(a, "?") || strings.HasSuffix(a, ".mvt") || strings.HasSuffix(a, ".pbf") || strings.HasPrefix(a, "viewer") {
				return nil, false // the HTTP front end gives these paths another meaning
			}
		}
		line := strings.Join(args, " ")
		if transport == "http" {
			return []byte("GET /" + pctEncode(line) + " HTTP/1.1\r\nHost: t\r\n\r\n"), true
		}
		// POST: the command name in the path, the rest in the body (the server joins path and body)
		head := args[0]
		body := ""
		if len(args) > 1 {
			body = " " + strings.Join(args[1:], " ")
		}
		return []byte("POST /" + pctEncode(head) + " HTTP/1.1\r\nHost: t\r\nContent-Length: " +
			strconv.Itoa(len(body)) + "\r\n\r\n" + body), true
	}
	return nil, false
}

// ---------------------------------------------------------------------------
// servers

// Node is one in-process server (DevMode off: the production configuration).
type Node struct {
	hookGen int64
	S        *server.Server
	Port     int
	Addr     string
	Dir      string
	shutdown chan bool
	done     chan error
	Shrinks  atomic.Int64 // log rewrites that have ended
}

// StartNode starts a server below base.
func StartNode(base string) (*Node, error) {
	var last error
	for try := 0; try < 6; try++ {
		n, err := startNode(base)
		if err == nil {
			return n, nil
		}
		last = err
	}
	return nil, last
}

func startNode(base string) (*Node, error) {
	dir, err := os.MkdirTemp(base, "reply-")
	if err != nil {
		return nil, err
	}
	n := &Node{Port: t38.FreePort(), Dir: dir, shutdown: make(chan bool), done: make(chan error, 1)}
	n.Addr = fmt.Sprintf("127.0.0.1:%d", n.Port)
	var mu sync.Mutex
	t38.SetHook(n.Port, func(s *server.Server, point string, args ...interface{}) {
		switch point {
		case "server.started":
			mu.Lock()
			n.S = s
			mu.Unlock()
		case "shrink.end":
			n.Shrinks.Add(1)
		}
	})
	n.hookGen = t38.HookGeneration(n.Port)
	go func() {
		n.done <- server.Serve(server.Options{Host: "127.0.0.1", Port: n.Port, Dir: dir, UseHTTP: true,
			DevMode: false, AppendOnly: true, Shutdown: n.shutdown, ProtectedMode: "no"})
	}()
	deadline := time.Now().Add(30 * time.Second)
	for {
		select {
		case err := <-n.done:
			os.RemoveAll(dir)
			return nil, fmt.Errorf("server exited during start: %v", err)
		default:
		}
		c, err := t38.Dial(n.Addr)
		if err == nil {
			v, err := c.Do("SERVER")
			c.Close()
			if err == nil && v.Kind == '*' {
				break
			}
		}
		if time.Now().After(deadline) {
			return nil, fmt.Errorf("server on %s did not start", n.Addr)
		}
		time.Sleep(2 * time.Millisecond)
	}
	mu.Lock()
	defer mu.Unlock()
	if n.S == nil {
		return nil, fmt.Errorf("server.started hook did not fire: tile38 not built with -tags verif?")
	}
	return n, nil
}

// Stop shuts the server down and removes its directory.
func (n *Node) Stop() {
	close(n.shutdown)
	select {
	case <-n.done:
	case <-time.After(30 * time.Second):
	}
	t38.ClearHookIf(n.Port, n.hookGen) // (the port may already belong to a later node)
	os.RemoveAll(n.Dir)
}

// ---------------------------------------------------------------------------
// lanes

// ErrStall is returned when a lane got no complete answer in time.
type ErrStall struct{ What string }

func (e ErrStall) Error() string { return e.What }

// ReplyTimeout bounds the wait for one reply (a reply normally takes well under a millisecond).
var ReplyTimeout = 20 * time.Second

// Lane is one connection style to one server of its own.
type Lane struct {
	Spec  LaneSpec
	Node  *Node
	Side  *t38.Conn // plain RESP connection for fixtures and for commands the transport cannot carry
	c     net.Conn
	rd    *bufio.Reader
	seq   int
	Fresh bool // the connection was (re)opened and nothing was sent on it yet
}

// NewLane starts a server and opens the side connection; the lane connection
// itself is opened by Connect (a recorded event).
func NewLane(spec LaneSpec, base string) (*Lane, error) {
	n, err := StartNode(base)
	if err != nil {
		return nil, err
	}
	l := &Lane{Spec: spec, Node: n}
	if l.Side, err = t38.Dial(n.Addr); err != nil {
		n.Stop()
		return nil, err
	}
	l.Side.Timeout = 120 * time.Second
	return l, nil
}

// Close closes the connections and stops the server.
func (l *Lane) Close() {
	if l.c != nil {
		l.c.Close()
	}
	if l.Side != nil {
		l.Side.Close()
	}
	l.Node.Stop()
}

// Stream reports whether the lane keeps one connection (everything but HTTP).
func (l *Lane) Stream() bool { return l.Spec.Transport != "http" && l.Spec.Transport != "httppost" }

// Connect (re)opens the lane connection.
func (l *Lane) Connect() error {
	if l.c != nil {
		l.c.Close()
		l.c = nil
	}
	if !l.Stream() {
		l.Fresh = true
		return nil
	}
	c, err := net.DialTimeout("tcp", l.Node.Addr, 5*time.Second)
	if err != nil {
		return err
	}
	if tc, ok := c.(*net.TCPConn); ok {
		tc.SetNoDelay(true)
	}
	l.c = c
	l.rd = bufio.NewReaderSize(c, 1<<16)
	l.Fresh = true
	return nil
}

var (
	reSentJSONResp   = regexp.MustCompile(`\$\d+\r\n\{"ok":true,"ping":"(zqN\d{9}pz)","elapsed":"[^"]*"\}\r\n$`)
	reSentJSONNative = regexp.MustCompile(`\$\d+ \{"ok":true,"ping":"(zqN\d{9}pz)","elapsed":"[^"]*"\}\r\n$`)
)

// sentinelCut looks for the reply to the sentinel PING at the end of buf and
// returns the bytes before it and the output mode the sentinel was answered in.
func sentinelCut(transport, nonce string, buf []byte) (reply []byte, mode string, ok bool) {
	respForm := "$" + strconv.Itoa(len(nonce)) + "\r\n" + nonce + "\r\n"
	switch transport {
	case "resp", "telnet":
		if bytes.HasSuffix(buf, []byte(respForm)) {
			return buf[:len(buf)-len(respForm)], "resp", true
		}
		if loc := reSentJSONResp.FindSubmatchIndex(buf); loc != nil && string(buf[loc[2]:loc[3]]) == nonce {
			return buf[:loc[0]], "json", true
		}
	case "native":
		nat := "$" + strconv.Itoa(len(respForm)) + " " + respForm + "\r\n"
		if bytes.HasSuffix(buf, []byte(nat)) {
			return buf[:len(buf)-len(nat)], "resp", true
		}
		if loc := reSentJSONNative.FindSubmatchIndex(buf); loc != nil && string(buf[loc[2]:loc[3]]) == nonce {
			return buf[:loc[0]], "json", true
		}
	}
	return nil, "", false
}

// Exchange sends one command on the lane and returns what came back. On a
// stream lane the command is followed by a sentinel PING so that the reply is
// delimited by the server's own next reply, not by the reply's (possibly
// broken) framing. A stall (no complete answer within ReplyTimeout) is
// returned as ErrStall together with what was received.
func (l *Lane) Exchange(args []string) (Reading, error) {
	rd := Reading{Lane: l.Spec.Name, Tr: l.Spec.Transport, RV: NoR(), JV: NoJ(), RErr: "-", JErr: "-"}
	wire, ok := Encode(l.Spec.Transport, args)
	if !ok {
		return rd, nil
	}
	rd.Sent = true
	if !l.Stream() {
		return l.exchangeHTTP(rd, wire)
	}
	if l.c == nil {
		return rd, fmt.Errorf("lane %s is not connected", l.Spec.Name)
	}
	l.Fresh = false
	l.seq++
	nonce := fmt.Sprintf("zqN%09dpz", l.seq)
	sent, _ := Encode(l.Spec.Transport, []string{"PING", nonce})
	l.c.SetWriteDeadline(time.Now().Add(ReplyTimeout))
	if _, err := l.c.Write(append(append([]byte{}, wire...), sent...)); err != nil {
		// the server may have closed the connection on an earlier command
		rd.Closed = true
		rd.FErr = "write failed: " + err.Error()
		return rd, nil
	}
	var buf []byte
	chunk := make([]byte, 1<<16)
	deadline := time.Now().Add(ReplyTimeout)
	for {
		l.c.SetReadDeadline(deadline)
		n, err := l.rd.Read(chunk)
		buf = append(buf, chunk[:n]...)
		if reply, mode, found := sentinelCut(l.Spec.Transport, nonce, buf); found {
			rd.Ping = mode
			l.fill(&rd, reply)
			return rd, nil
		}
		if err != nil {
			if ne, ok := err.(net.Error); ok && ne.Timeout() {
				rd.FErr = fmt.Sprintf("no complete reply within %v (%d bytes received)", ReplyTimeout, len(buf))
				rd.Raw = rawPrefix(buf)
				return rd, ErrStall{fmt.Sprintf("lane %s: %s for %q", l.Spec.Name, rd.FErr, args)}
			}
			// connection closed by the server: everything received is the reply
			rd.Closed = true
			l.fill(&rd, buf)
			l.c.Close()
			l.c = nil
			return rd, nil
		}
	}
}

// fill parses the reply bytes of a stream lane.
func (l *Lane) fill(rd *Reading, reply []byte) {
	rd.Raw = rawPrefix(reply)
	switch l.Spec.Transport {
	case "resp", "telnet":
		rd.ReadRESPReply(reply)
	case "native":
		// "$<len> <payload>\r\n", exactly once
		payload, why := nativeFrame(reply)
		if why != "" {
			rd.FWF, rd.FErr = false, why
			return
		}
		rd.FWF = true
		rd.ReadPayload(payload)
	}
}

func nativeFrame(b []byte) ([]byte, string) {
	if len(b) == 0 {
		return nil, "empty reply"
	}
	if b[0] != '$' {
		return nil, "native reply does not start with '$'"
	}
	sp := bytes.IndexByte(b, ' ')
	if sp < 2 {
		return nil, "native reply has no length"
	}
	n, err := strconv.Atoi(string(b[1:sp]))
	if err != nil || n < 0 {
		return nil, "native reply has a bad length " + strconv.Quote(string(b[1:sp]))
	}
	rest := b[sp+1:]
	if len(rest) != n+2 {
		return nil, fmt.Sprintf("native reply: length says %d, %d bytes follow", n, len(rest)-2)
	}
	if rest[n] != '\r' || rest[n+1] != '\n' {
		return nil, "native reply not terminated by CRLF"
	}
	return rest[:n], ""
}

func (l *Lane) exchangeHTTP(rd Reading, wire []byte) (Reading, error) {
	l.Fresh = false
	c, err := net.DialTimeout("tcp", l.Node.Addr, 5*time.Second)
	if err != nil {
		return rd, err
	}
	defer c.Close()
	c.SetDeadline(time.Now().Add(ReplyTimeout))
	if _, err := c.Write(wire); err != nil {
		return rd, err
	}
	buf, err := io.ReadAll(c)
	if err != nil {
		if ne, ok := err.(net.Error); ok && ne.Timeout() {
			rd.FErr = fmt.Sprintf("connection not closed within %v (%d bytes received)", ReplyTimeout, len(buf))
			rd.Raw = rawPrefix(buf)
			return rd, ErrStall{fmt.Sprintf("lane %s: %s", l.Spec.Name, rd.FErr)}
		}
	}
	rd.Closed = true // HTTP connections serve one request
	rd.Raw = rawPrefix(buf)
	status, ctype, body, why := httpResponse(buf)
	rd.Status, rd.CType = status, ctype
	if why != "" {
		rd.FWF, rd.FErr = false, why
		return rd, nil
	}
	rd.FWF = true
	rd.ReadPayload(body)
	return rd, nil
}

// httpResponse parses one HTTP/1.1 response with a Content-Length and
// returns the body without the CRLF the server appends to it.
func httpResponse(b []byte) (status, ctype string, body []byte, why string) {
	i := bytes.Index(b, []byte("\r\n\r\n"))
	if i < 0 {
		return "", "", nil, "no HTTP header"
	}
	lines := strings.Split(string(b[:i]), "\r\n")
	parts := strings.SplitN(lines[0], " ", 3)
	if len(parts) < 2 || !strings.HasPrefix(parts[0], "HTTP/1.") {
		return "", "", nil, "bad HTTP status line " + strconv.Quote(lines[0])
	}
	status = parts[1]
	cl := -1
	for _, h := range lines[1:] {
		kv := strings.SplitN(h, ":", 2)
		if len(kv) != 2 {
			return status, "", nil, "bad HTTP header line " + strconv.Quote(h)
		}
		switch strings.ToLower(strings.TrimSpace(kv[0])) {
		case "content-length":
			n, err := strconv.Atoi(strings.TrimSpace(kv[1]))
			if err != nil || n < 0 {
				return status, ctype, nil, "bad Content-Length"
			}
			cl = n
		case "content-type":
			ctype = strings.TrimSpace(kv[1])
		}
	}
	rest := b[i+4:]
	if cl < 0 {
		return status, ctype, nil, "no Content-Length"
	}
	if len(rest) != cl {
		return status, ctype, nil, fmt.Sprintf("Content-Length says %d, body has %d bytes", cl, len(rest))
	}
	if !bytes.HasSuffix(rest, []byte("\r\n")) {
		return status, ctype, nil, "HTTP body does not end in the CRLF the length accounts for"
	}
	return status, ctype, rest[:len(rest)-2], ""
}
