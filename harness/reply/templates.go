package reply

import (
	"encoding/json"
	"fmt"
	"sort"
	"strings"

	"github.com/tidwall/tile38/verifharness/gates"
	"github.com/tidwall/tile38/verifharness/ks"
)

// Row is one naming of the fixture: the concrete strings that the
// placeholders of the templates stand for. The rows are chosen so that every
// string a reply can embed (keys, ids, field names and values, hook and
// channel names, meta names and values, string objects, JSON documents) needs
// JSON escaping in some row.
type Row struct {
	Name string
	V    map[string]string
}

func row(name string, kv ...string) Row {
	r := Row{Name: name, V: map[string]string{
		// defaults (the "plain" naming)
		"key": "fleet", "key2": "depot", "id": "truck1", "id2": "truck2", "id3": "truck3", "sid": "note1", "doc": "doc1",
		"field": "speed", "field2": "load", "fval": "7", "hook": "hook1", "chan": "chan1",
		"meta": "owner", "metav": "bob", "sval": "hello world", "msg": "hi there",
	}}
	for i := 0; i+1 < len(kv); i += 2 {
		r.V[kv[i]] = kv[i+1]
	}
	return r
}

// Rows: "plain" first (it is the naming every argument shape is tried with).
var Rows = []Row{
	row("plain"),
	row("quote", "key", `fl"eet`, "key2", `de\pot`, "id", `tr"uck\1`, "id2", `truck"2"`, "id3", `\truck3\`, "sid", `no"te`, "doc", `d"oc`,
		"field", `sp"eed`, "field2", `lo\ad`, "fval", `a"b\c`, "hook", `ho"ok`, "chan", `ch\an`, "meta", `ow"ner`, "metav", `b\"ob`,
		"sval", `say "hi" \ bye`, "msg", `{"quoted":"\"x\""}`),
	row("blank", "key", "my fleet", "key2", " depot ", "id", "truck one", "id2", "\ttruck2", "id3", "truck3 ", "sid", "a note", "doc", "the doc",
		"field", "top speed", "field2", "the load", "fval", " padded text ", "hook", "my hook", "chan", "my chan", "meta", "the owner", "metav", "bob the builder",
		"sval", "line1\nline2\r\nline3\ttab", "msg", "two  blanks"),
	row("ctrl", "key", "fle\x01et", "key2", "dep\x1fot", "id", "tru\x00ck1", "id2", "truck2\x7f", "id3", "\x1btruck3", "sid", "no\x02te", "doc", "d\x03oc",
		"field", "spe\x04ed", "field2", "lo\x05ad", "fval", "a\x06b\x08c\x0c", "hook", "ho\x0eok", "chan", "ch\x0fan", "meta", "ow\x10ner", "metav", "b\x11ob",
		"sval", "bell\x07 nul\x00 esc\x1b del\x7f", "msg", "ctrl\x01\x02"),
	row("crlf", "key", "fle\net", "key2", "dep\rot", "id", "truck\r\n1", "id2", "truck2\n", "id3", "\rtruck3", "sid", "no\r\nte", "doc", "d\noc",
		"field", "spe\ned", "field2", "lo\rad", "fval", "a\r\nb", "hook", "ho\nok", "chan", "ch\r\nan", "meta", "ow\nner", "metav", "b\r\nob",
		"sval", "one\r\n+OK\r\n$3\r\ntwo", "msg", "m\r\n-ERR x\r\n"),
	row("utf8", "key", "flotté", "key2", "dépôt", "id", "camión1", "id2", "卡车2", "id3", "🚚3", "sid", "nöte", "doc", "dök",
		"field", "vitesse_é", "field2", "負荷", "fval", "schnell🚀", "hook", "häk", "chan", "канал", "meta", "propriétaire", "metav", "böb x",
		"sval", "h\u00e9llo w\u00f6rld \u00a0\u2028\u2029 \ufeff \U0001d11e", "msg", "ünï"),
	row("bin", "key", "fle\xffet", "key2", "dep\xfeot", "id", "truck\x80\x811", "id2", "\xc3truck2", "id3", "truck3\xe2\x82", "sid", "no\xf0te", "doc", "d\xffoc",
		"field", "spe\xffed", "field2", "lo\xc0ad", "fval", "a\xff\xfeb", "hook", "ho\xffok", "chan", "ch\xfean", "meta", "ow\x80ner", "metav", "b\xffob",
		"sval", "bytes \xff\xfe\x80 \xc3\x28 end", "msg", "bin\xff"),
	row("html", "key", "<fleet>", "key2", "a&b", "id", "<truck1>", "id2", "truck&2", "id3", "truck'3'", "sid", "<note>", "doc", "do&c",
		"field", "<speed>", "field2", "lo&ad", "fval", "<b>&amp;</b>", "hook", "<hook>", "chan", "ch&an", "meta", "<owner>", "metav", "b&ob",
		"sval", "<script>alert('x')</script> & more", "msg", "<m>"),
	row("numlike", "key", "123", "key2", "-4.5", "id", "007", "id2", "1e3", "id3", "true", "sid", "null", "doc", "0",
		"field", "1", "field2", "false", "fval", "1e5", "hook", "42", "chan", "-1", "meta", "0", "metav", "00",
		"sval", "12345", "msg", "5"),
	row("nan", "fval", "NaN", "sval", "NaN", "msg", "NaN", "hook", "nan", "chan", "NaN", "metav", "nan", "id3", "nan"),
	row("inf", "fval", "+Inf", "sval", "-Inf", "msg", "Infinity", "hook", "inf", "chan", "-Inf", "metav", "Infinity", "id3", "+inf"),
	row("jsonval", "fval", `{"a":[1,2,{"b":null}],"c":"d"}`, "sval", `{"a":1,"b":"x","c":[true,false,null]}`, "msg", `{"fence":true,"n":1}`,
		"metav", `{"m":1}`),
	row("boolval", "fval", "true", "sval", "true", "msg", "false", "metav", "null"),
	row("hexval", "fval", "0x1F", "sval", "0x1F", "msg", "0x1F"),
	row("negzero", "fval", "-0", "sval", "-0", "msg", "-0"),
	row("bigval", "fval", "123456789012345678901234567890", "sval", "1e400", "msg", "1e400"),
	row("fracval", "fval", "0.1", "field2", "load.max", "sval", ".5", "msg", "5."),
	row("jsonish", "key", "{fleet}", "key2", "[depot]", "id", "{\"a\":1}", "id2", "[1,2]", "id3", "\"q\"", "sid", "{note", "doc", "doc}",
		"field", "{speed}", "field2", "[load]", "fval", "{broken", "hook", "{hook}", "chan", "[chan]", "meta", "{owner}", "metav", "[bob",
		"sval", `{"unterminated": `, "msg", `[1,2`),
}

// RowByName returns a naming.
func RowByName(name string) (Row, bool) {
	for _, r := range Rows {
		if r.Name == name {
			return r, true
		}
	}
	return Row{}, false
}

// ScriptBody is the script whose SHA the {sha} placeholder stands for.
const ScriptBody = "return {KEYS[1] or 'none', ARGV[1] or 'none'}"

// Fill replaces the placeholders of a template.
func (r Row) Fill(args []string, extra map[string]string) []string {
	out := make([]string, len(args))
	for i, a := range args {
		if strings.Contains(a, "{") {
			for k, v := range r.V {
				a = strings.ReplaceAll(a, "{"+k+"}", v)
			}
			for k, v := range extra {
				a = strings.ReplaceAll(a, "{"+k+"}", v)
			}
		}
		out[i] = a
	}
	return out
}

func jsonStr(s string) string {
	b, _ := json.Marshal(Sanitize(s))
	return string(b)
}

// Fixture is the list of commands that builds the state of a naming (sent
// over the RESP side connection of every server).
func (r Row) Fixture() [][]string {
	v := r.V
	feature := `{"type":"Feature","geometry":{"type":"Polygon","coordinates":[[[-116,33],[-115,33],[-115,34],[-116,34],[-116,33]]]},"properties":{"name":` +
		jsonStr(v["sval"]) + `,"n":7,"tags":["a",` + jsonStr(v["metav"]) + `]}}`
	return [][]string{
		{"SET", v["key"], v["id"], "FIELD", v["field"], "10.5", "FIELD", v["field2"], v["fval"], "POINT", "33.5", "-115.5"},
		{"SET", v["key"], v["id2"], "FIELD", v["field"], "0.0", "EX", "100000", "OBJECT", feature},
		{"SET", v["key"], v["id3"], "FIELD", v["field2"], v["fval"], "POINT", "33", "-115", "10.5"},
		{"SET", v["key"], v["sid"], "FIELD", v["field"], "abc", "STRING", v["sval"]},
		{"JSET", v["key"], v["doc"], "name.first", v["sval"]},
		{"JSET", v["key"], v["doc"], "n", "5"},
		{"JSET", v["key"], v["doc"], "list.-1", v["fval"]},
		{"SET", v["key2"], v["id"], "POINT", "1", "2"},
		{"SET", v["key2"], v["sid"], "STRING", v["fval"]},
		{"SETHOOK", v["hook"], "http://127.0.0.1:9/h?x=" + pctEncode(v["metav"]), "META", v["meta"], v["metav"], "META", "zz", "1",
			"NEARBY", v["key"], "FENCE", "DETECT", "enter,exit", "POINT", "80", "100", "1000"},
		{"SETCHAN", v["chan"], "META", v["meta"], v["metav"], "EX", "100000", "WITHIN", v["key"], "FENCE", "DETECT", "enter", "BOUNDS", "80", "100", "81", "101"},
		{"SCRIPT", "LOAD", ScriptBody},
	}
}

// Restore is sent on the side connection after every behaviour: it undoes
// the settings a command of the table may have changed and that the dataset
// projection does not show.
func Restore() [][]string {
	return [][]string{
		{"READONLY", "no"},
		{"FOLLOW", "no", "one"},
		{"SCRIPT", "LOAD", ScriptBody},
		{"CONFIG", "SET", "keepalive", "300"},
		{"CONFIG", "SET", "maxmemory", "0"},
	}
}

// Template is one argument vector of a command, placeholders unfilled.
type Template struct {
	Args []string
	// Live: the command detaches the connection (SUBSCRIBE, PSUBSCRIBE, a
	// FENCE search, MONITOR, AOF, QUIT): it is run by the live driver on a
	// connection of its own, not in lock-step.
	Live bool
	// Trigger (live templates): the commands, sent on another connection,
	// that make the server push a message to the live connection.
	Trigger [][]string
	// Thorough: only used in the thorough tier.
	Thorough bool
	// Reconnect: the command changes the state of its connection (name, replication port); the lanes get
	// fresh connections afterwards so that later behaviours start from the same connection state on every lane.
	Reconnect bool
	// Pre: a command sent on the same connections right before Args (recorded and judged like any step): the
	// state of the connection or dataset that Args is meant to show.
	Pre []string
	// Resets: the command may change a server setting that the dataset projection does not show
	// (READONLY, FOLLOW, CONFIG SET, SCRIPT FLUSH); Restore() is sent afterwards.
	Resets bool
	// Rewrites: the command starts a rewrite of the log in the background (AOFSHRINK); the next behaviour
	// starts when it has ended on every server, so that log sizes are again the same everywhere.
	Rewrites bool
	// AckFrames (live templates): how many frames are replies to the command; what follows is a raw
	// stream (AOF: the log itself), not a reply. 0 = every frame that arrives before the triggers.
	AckFrames int
}

func w(s string) Template { return Template{Args: strings.Fields(s)} }
func a(args ...string) Template {
	return Template{Args: args}
}
func deep(t Template) Template          { t.Thorough = true; return t }
func rc(t Template) Template            { t.Reconnect = true; return t }
func pre(p string, t Template) Template { t.Pre = strings.Fields(p); return t }
func rs(ts ...Template) []Template {
	for i := range ts {
		ts[i].Resets = true
	}
	return ts
}
func live(trigger [][]string, s string) Template {
	return Template{Args: strings.Fields(s), Live: true, Trigger: trigger}
}

const fenceTail = "FENCE DETECT enter POINT 10 10 100"

var (
	// the last trigger carries the marker: its message is the last one a live connection is waited for
	trigSet = [][]string{{"SET", "{key}", "{id}", "FIELD", "{field}", "3", "FIELD", "{field2}", "{fval}", "POINT", "33.5", "-115.5"},
		{"SET", "{key}", Marker, "POINT", "33.5", "-115.5"}}
	// a plain PUBLISH and a SET that enters the fence of the {chan} channel of the fixture
	trigPub = [][]string{{"PUBLISH", "{chan}", "{msg}"}, {"SET", "{key}", "{id3}", "FIELD", "{field2}", "{fval}", "POINT", "80.5", "100.5"},
		{"PUBLISH", "{chan}", Marker}}
)

// Templates: every command name found in the source (gates.ExtractCommands)
// needs at least one entry; a name without one is an INFRA error, so that a
// new command cannot go unchecked.
var Templates = map[string][]Template{
	// ---- writes
	"set": {w("SET {key} new1 POINT 10.5 20.5"),
		w("SET {key} {id} FIELD {field} 5 POINT 33.1 -112.1"),
		w("SET {key} {id} FIELD {field} 5 FIELD {field2} {fval} EX 5000 POINT 33.1 -112.1 7"),
		w("SET {key} new2 STRING {sval}"),
		w("SET {key} {id} NX POINT 1 2"),
		w("SET {key} nosuch XX POINT 1 2"),
		w("SET nosuchkey nosuch XX POINT 1 2"),
		w("SET {key} {id} XX HASH 9my5xp7"),
		w("SET {key} {id} BOUNDS 30 -120 40 -110"),
		a("sEt", "{key}", "new3", "OBJECT", `{"type":"Point","coordinates":[1,2]}`),
		a("SET", "{key}", "new4", "OBJECT", `{"type":"Point","coordinates":[1,2`),
		w("SET {key} {id} FIELD z 1 POINT 1 2"),
		w("SET {key} {id} RETURN WITHFIELDS OBJECT POINT 5 6"),
		w("SET {key} {id} FIELD {field2} {fval} RETURN WITHFIELDS POINT POINT 5 6 7"),
		w("SET {key} {id} RETURN POINT POINT 5 6 -7.25"), w("SET {key} {id} RETURN WITHFIELDS POINT POINT 5 6 0"), w("SET {key} {id} RETURN OBJECT POINT 5 6 -7.25"),
		w("SET {key} {id} RETURN BOUNDS POINT 5 6"),
		w("SET {key} {id} RETURN HASH 7 POINT 5 6"),
		w("SET {key} {id} RETURN HASH 13 POINT 5 6"),
		w("SET {key} {id} POINT 95 6"), w("SET {key} {id} POINT NaN 6"), w("SET {key} {id} POINT 1e999 6"), w("SET {key} {id} POINT 5 inf"), w("SET {key} {id} POINT 5 6 NaN"),
		w("SET {key} {id} POINT 5 6 -Inf"), w("SET {key} {id} BOUNDS NaN 1 2 3"), w("SET {key} {id} BOUNDS 0 1 2 +Inf"), w("SET {key} {id} RETURN POINT POINT NaN 6"), w("SET {key} {id} RETURN OBJECT POINT NaN 6"),
		w("SET {key} {id} RETURN BOUNDS BOUNDS NaN 1 2 3"), w("SET {key} {id} RETURN HASH 5 POINT NaN 6")},
	// ---- coordinates that are not numbers
	"+nan": {pre("SET {key} nanpt POINT NaN 6", w("GET {key} nanpt")), pre("SET {key} nanpt POINT NaN 6", w("GET {key} nanpt POINT")), pre("SET {key} nanpt POINT NaN 6", w("GET {key} nanpt BOUNDS")),
		pre("SET {key} nanpt POINT NaN 6", w("SCAN {key} POINTS")), pre("SET {key} nanpt POINT 5 6 NaN", w("SCAN {key} OBJECTS")), pre("SET {key} nanpt BOUNDS NaN 1 2 3", w("SCAN {key} BOUNDS")),
		pre("SET {key} nanpt POINT NaN 6", w("NEARBY {key} DISTANCE POINT 1 2")), pre("SET {key} nanpt POINT inf 6", w("BOUNDS {key}")), pre("SET {key} nanpt POINT NaN 6", w("WITHIN {key} BOUNDS -90 -180 90 180")),
		w("NEARBY {key} DISTANCE POINT NaN 6"), w("NEARBY {key} DISTANCE POINT 33 -115 NaN"), w("NEARBY {key} DISTANCE POINT inf 6 100"), w("WITHIN {key} BOUNDS NaN 0 1 1"), w("WITHIN {key} CIRCLE NaN 1 100"),
		w("WITHIN {key} CIRCLE 33.5 -115.5 NaN"), w("INTERSECTS {key} BUFFER NaN POINT 1 1"), w("TEST POINT NaN 1 WITHIN BOUNDS 0 0 1 1"), w("TEST POINT 1 1 INTERSECTS CLIP BOUNDS NaN 0 2 2"),
		w("WITHIN {key} SECTOR 33.5 -115.5 NaN 0 90"), w("INTERSECTS {key} TILE NaN 1 1"), w("SCAN {key} WHERE {field} NaN +inf"), w("SCAN {key} WHEREIN {field} 1 NaN")},
	"fset": {w("FSET {key} {id} {field} 42"), w("FSET {key} {id} {field2} {fval}"), w("FSET {key} {id} {field} 10.5"),
		w("FSET {key} nosuch XX {field} 3"), w("FSET {key} nosuch {field} 3"), w("FSET nosuchkey {id} {field} 3"),
		w("FSET {key} {id} {field} 1 {field2} 2 newf {fval}"), w("FSET {key} {id} lat 3"),
		w("FSET {key} {id} {field} 9 RETURN WITHFIELDS OBJECT"), w("FSET {key} {id3} {field2} {fval} RETURN WITHFIELDS POINT"),
		w("FSET {key} {id2} {field} 9 RETURN BOUNDS"), w("FSET {key} {id} RETURN HASH 5 {field} 9"),
		w("FSET {key} nosuch XX RETURN WITHFIELDS {field} 9")},
	"del":      {w("DEL {key} {id}"), w("DEL {key} nosuch"), w("DEL nosuchkey {id}"), w("DEL {key} nosuch ERRON404"), w("DEL nosuchkey x ERRON404"), w("del {key} {sid} ERRON404")},
	"pdel":     {w("PDEL {key} tr*"), w("PDEL {key} *"), w("PDEL nosuchkey *"), w("PDEL {key} {id}")},
	"drop":     {w("DROP {key}"), w("DROP nosuchkey")},
	"flushdb":  {w("FLUSHDB")},
	"rename":   {w("RENAME {key2} other"), w("RENAME {key2} {key2}"), w("RENAME nosuchkey other"), w("RENAME {key} other")},
	"renamenx": {w("RENAMENX {key2} other"), w("RENAMENX {key2} {key2}"), w("RENAMENX nosuchkey other"), w("RENAMENX {key} other")},
	"sethook": {w("SETHOOK hooknew http://127.0.0.1:9/h NEARBY {key} " + fenceTail),
		w("SETHOOK {hook} http://127.0.0.1:9/other META {meta} {metav} WITHIN {key} FENCE DETECT enter BOUNDS 1 2 3 4"),
		w("SETHOOK {chan} http://127.0.0.1:9/other NEARBY {key} " + fenceTail),
		w("SETHOOK hooknew notaurl NEARBY {key} " + fenceTail),
		w("SETHOOK hooknew http://127.0.0.1:9/h NEARBY {key} POINT 10 10 100"),
		w("SETHOOK hooknew http://127.0.0.1:9/h EX 5000 INTERSECTS {key} FENCE DETECT bogus BOUNDS 1 2 3 4")},
	"delhook":  {w("DELHOOK {hook}"), w("DELHOOK nosuch"), w("DELHOOK {chan}")},
	"pdelhook": {w("PDELHOOK *"), w("PDELHOOK nosuch*")},
	"setchan": {w("SETCHAN channew NEARBY {key} " + fenceTail), w("SETCHAN {hook} NEARBY {key} " + fenceTail),
		w("SETCHAN {chan} META {meta} {metav} EX 100000 WITHIN {key} FENCE DETECT enter BOUNDS 80 100 81 101")},
	"delchan":  {w("DELCHAN {chan}"), w("DELCHAN nosuch")},
	"pdelchan": {w("PDELCHAN *"), w("PDELCHAN nosuch*")},
	"expire":   {w("EXPIRE {key} {id} 1000"), w("EXPIRE {key} nosuch 10"), w("EXPIRE nosuchkey {id} 10"), w("EXPIRE {key} {id} abc"), w("EXPIRE {key} {id} 1e3")},
	"persist":  {w("PERSIST {key} {id2}"), w("PERSIST {key} {id}"), w("PERSIST {key} nosuch"), w("PERSIST nosuchkey {id}")},
	"jset": {w("JSET {key} {doc} name.last {sval}"), w("JSET {key} {doc} n 6"), w("JSET {key} {id2} properties.tag {fval}"),
		w("JSET {key} newdoc a.b {fval}"), w("JSET newkey newdoc a {fval} RAW"), w("JSET {key} {doc} s 12 STR"), w("JSET {key} {doc} s 12 BOGUS"),
		w("JSET {key} {id} coordinates.0 5"), w("JSET {key} {id} type Bogus")},
	"jdel": {w("JDEL {key} {doc} name.first"), w("JDEL {key} {doc} nosuch.path"), w("jdel {key} {doc} name"), w("JDEL {key} nosuch a"),
		w("JDEL nosuchkey {doc} a"), w("JDEL {key} {id2} properties.n"), w("JDEL {key} {id2} properties.nosuch"), w("JDEL {key} {id} type")},
	// ---- object reads
	"get": {w("GET {key} {id}"), pre("SET {key} {id} POINT -5.5 -6.5 -7.5", w("GET {key} {id} POINT")), pre("SET {key} {id} POINT -5.5 -6.5 -7.5", w("GET {key} {id} WITHFIELDS OBJECT")),
		pre("SET {key} lowz POINT 1 2 -0.5", w("SCAN {key} POINTS")), pre("SET {key} lowz POINT 1 2 -0.5", w("NEARBY {key} DISTANCE POINTS POINT 1 2")), w("GET {key} {id} WITHFIELDS"), w("GET {key} {id2} WITHFIELDS OBJECT"), w("GET {key} {id3} WITHFIELDS POINT"),
		w("GET {key} {id} POINT"), w("GET {key} {id2} BOUNDS"), w("GET {key} {id2} WITHFIELDS BOUNDS"), w("GET {key} {id} HASH 6"), w("GET {key} {id3} WITHFIELDS HASH 12"),
		w("GET {key} {id} HASH 0"), w("GET {key} {id} HASH"), w("GET {key} {sid}"), w("GET {key} {sid} WITHFIELDS"), w("GET {key} {sid} POINT"), w("GET {key} {sid} BOUNDS"),
		w("get {key} {doc}"), w("GET {key} {doc} WITHFIELDS"), w("GET {key} nosuch"), w("GET nosuchkey {id}"), w("GET {key2} {id} WITHFIELDS"), w("GET {key} {id} BOGUS")},
	"fget":    {w("FGET {key} {id} {field}"), w("FGET {key} {id} {field2}"), w("FGET {key} {id2} {field}"), w("FGET {key} {id} nosuchfield"), w("FGET {key} nosuch {field}"), w("FGET nosuchkey {id} {field}")},
	"jget":    {w("JGET {key} {doc}"), w("JGET {key} {doc} name.first"), w("JGET {key} {doc} name"), w("JGET {key} {doc} name RAW"), w("JGET {key} {doc} n"), w("JGET {key} {doc} list"), w("JGET {key} {doc} list.0"), w("JGET {key} {doc} list.0 RAW"), w("JGET {key} {doc} nosuch"), w("JGET {key} {id2} properties.name"), w("JGET {key} {id2} properties"), w("JGET {key} {id2}"), w("JGET {key} {sid}"), w("JGET {key} {sid} a"), w("JGET {key} nosuch"), w("JGET nosuchkey {doc}"), w("JGET {key} {doc} n BOGUS")},
	"exists":  {w("EXISTS {key} {id}"), w("EXISTS {key} nosuch"), w("EXISTS nosuchkey {id}")},
	"fexists": {w("FEXISTS {key} {id} {field}"), w("FEXISTS {key} {id} nosuchfield"), w("FEXISTS {key} nosuch {field}"), w("FEXISTS nosuchkey {id} {field}")},
	"ttl":     {w("TTL {key} {id2}"), w("TTL {key} {id}"), w("TTL {key} nosuch"), w("TTL nosuchkey {id}")},
	"type":    {w("TYPE {key}"), w("TYPE nosuchkey")},
	"bounds":  {w("BOUNDS {key}"), w("BOUNDS {key2}"), w("BOUNDS nosuchkey")},
	"keys":    {w("KEYS *"), w("KEYS nosuch*"), w("KEYS {key}")},
	"stats":   {w("STATS {key}"), w("STATS {key} nosuchkey {key2}"), w("STATS nosuchkey")},
	// ---- searches
	"scan": {w("SCAN {key}"), w("SCAN {key} LIMIT 2"), w("SCAN {key} CURSOR 1 LIMIT 2"), w("SCAN {key} IDS"), w("SCAN {key} LIMIT 1 IDS"), w("SCAN {key} COUNT"),
		w("SCAN {key} OBJECTS"), w("SCAN {key} POINTS"), w("SCAN {key} BOUNDS"), w("SCAN {key} HASHES 7"), w("SCAN {key} HASHES 0"), w("SCAN {key} NOFIELDS"), w("SCAN {key} NOFIELDS POINTS"),
		w("SCAN {key} DESC LIMIT 3 POINTS"), w("SCAN {key} MATCH tr* OBJECTS"), w("SCAN {key} MATCH nosuch* OBJECTS"), w("SCAN {key} MATCH nosuch* IDS"), w("SCAN {key} MATCH nosuch* COUNT"),
		w("SCAN {key} WHERE {field} 0 +inf OBJECTS"), w("SCAN {key} WHERE {field} 100 200"), w("SCAN {key} WHEREIN {field} 2 10.5 abc IDS"),
		a("SCAN", "{key}", "WHERE", "{field} > 1 || {field2} == 7", "IDS"),
		a("SCAN", "{key}", "WHEREEVAL", "return FIELDS['{field}'] ~= nil", "0", "COUNT"),
		a("SCAN", "{key}", "WHEREEVAL", "return nosuchfunction()", "0", "COUNT"),
		w("SCAN {key2}"), w("SCAN {key2} BOUNDS"), w("SCAN nosuchkey"), w("SCAN nosuchkey COUNT"), w("SCAN nosuchkey IDS"), w("SCAN {key} LIMIT abc"), w("SCAN {key} CURSOR -1"), w("SCAN {key} LIMIT 1 LIMIT 2"), w("SCAN {key} BOGUS")},
	"search": {w("SEARCH {key}"), w("SEARCH {key} IDS"), w("SEARCH {key} COUNT"), w("SEARCH {key} MATCH h* OBJECTS"), w("SEARCH {key} DESC LIMIT 1"), w("SEARCH {key2}"), w("SEARCH {key2} NOFIELDS"),
		w("SEARCH nosuchkey"), w("SEARCH {key} POINTS"), w("SEARCH {key} WHERE {field} 0 +inf")},
	"nearby": {w("NEARBY {key} POINT 33.46 -115.4 100000"), w("NEARBY {key} POINT 33.46 -115.4"), w("NEARBY {key} LIMIT 1 IDS POINT 33.46 -115.4"),
		w("NEARBY {key} DISTANCE POINT 33.46 -115.4 100000"), w("NEARBY {key} DISTANCE IDS POINT 33.46 -115.4"), w("NEARBY {key} DISTANCE POINTS POINT 33.5 -115.5"),
		w("NEARBY {key} DISTANCE BOUNDS POINT 33.5 -115.5 1"), w("NEARBY {key} DISTANCE HASHES 5 POINT 33.5 -115.5"), w("NEARBY {key} COUNT POINT 33.46 -115.4"),
		w("NEARBY {key} NOFIELDS DISTANCE POINT 33.46 -115.4"), w("NEARBY {key} SPARSE 2 POINT 33.46 -115.4 100000"), w("NEARBY {key} SPARSE 2 POINT 33.46 -115.4"),
		w("NEARBY {key} MATCH tr* POINT 33.46 -115.4"), w("NEARBY nosuchkey POINT 33.46 -115.4"), w("NEARBY nosuchkey DISTANCE IDS POINT 33.46 -115.4"), w("NEARBY {key} POINT 133.46 -115.4 -5"),
		w("NEARBY {key} BOUNDS 1 2 3 4"), w("NEARBY {key} WHERE {field} 1 100 DISTANCE POINT 33.5 -115.5")},
	"within": {w("WITHIN {key} BOUNDS 32 -117 35 -114"), w("WITHIN {key} COUNT BOUNDS 32 -117 35 -114"), w("WITHIN {key} IDS BOUNDS 32 -117 35 -114"), w("WITHIN {key} POINTS BOUNDS 32 -117 35 -114"),
		w("WITHIN {key} BOUNDS BOUNDS 32 -117 35 -114"), w("WITHIN {key} HASHES 9 BOUNDS 32 -117 35 -114"), w("WITHIN {key} BOUNDS 0 0 1 1"), w("WITHIN {key} IDS BOUNDS 0 0 1 1"),
		w("WITHIN {key} CIRCLE 33.5 -115.5 100000"), w("WITHIN {key} GET {key} {id2}"), w("WITHIN {key} GET {key} nosuch"), w("WITHIN {key} GET nosuchkey x"), w("WITHIN {key} HASH 9my5"), w("WITHIN {key} TILE 1 1 1"), w("WITHIN {key} QUADKEY 0231"),
		a("WITHIN", "{key}", "LIMIT", "1", "OBJECT", `{"type":"Polygon","coordinates":[[[-117,32],[-114,32],[-114,35],[-117,35],[-117,32]]]}`),
		a("WITHIN", "{key}", "OBJECT", `{"type":"Polygon","coordinates":[[[-117,32],`), w("WITHIN {key} SECTOR 33.5 -115.5 100000 0 90"), w("WITHIN {key} SECTOR 33.5 -115.5 100000 90 90"), w("WITHIN nosuchkey BOUNDS 0 0 1 1"), w("WITHIN {key} BOUNDS 0 0 1")},
	"intersects": {w("INTERSECTS {key} BOUNDS 32 -117 35 -114"), w("INTERSECTS {key} POINTS GET {key} {id2}"), w("INTERSECTS {key} CLIP BOUNDS 33.2 -115.8 33.8 -115.2"), w("INTERSECTS {key} CLIP IDS BOUNDS 33.2 -115.8 33.8 -115.2"),
		w("INTERSECTS {key} CLIP CIRCLE 33.5 -115.5 1000"), w("INTERSECTS {key} COUNT CIRCLE 33.5 -115.5 100000"), w("INTERSECTS {key} NOFIELDS HASHES 3 BOUNDS 32 -117 35 -114"), w("INTERSECTS {key} SPARSE 1 BOUNDS 32 -117 35 -114"),
		w("INTERSECTS {key} BUFFER 1000 POINT 33.5 -115.5"), w("INTERSECTS {key} BUFFER -1 POINT 33.5 -115.5"), w("INTERSECTS nosuchkey BOUNDS 32 -117 35 -114")},
	"test": {w("TEST GET {key} {id} INTERSECTS CLIP BOUNDS -90 -180 90 180"), w("TEST POINT 1 1 INTERSECTS BOUNDS 0 0 2 2"), w("TEST POINT 5 5 INTERSECTS BOUNDS 0 0 2 2"),
		w("TEST GET {key} {id2} WITHIN BOUNDS -90 -180 90 180"), w("TEST GET {key} {id2} INTERSECTS CLIP BOUNDS 33.2 -115.8 33.8 -115.2"), w("TEST GET {key} {id2} INTERSECTS CLIP BOUNDS 1 1 2 2"),
		w("TEST GET {key} nosuch WITHIN BOUNDS 0 0 1 1"), w("TEST GET nosuchkey x WITHIN BOUNDS 0 0 1 1"), w("TEST POINT 1 1 WITHIN CLIP BOUNDS 0 0 2 2"), w("TEST POINT 1 1 NEAR BOUNDS 0 0 2 2"),
		w("TEST GET {key} {sid} WITHIN BOUNDS 0 0 1 1")},
	"hooks": {w("HOOKS *"), w("HOOKS nosuch*"), w("HOOKS {hook}")},
	"chans": {w("CHANS *"), w("CHANS nosuch*"), w("CHANS {chan}")},
	// ---- scripts: every Lua type a script can return
	"eval": {a("EVAL", "return(tile38.call('get','{key}','{id}'))", "0"), a("EVAL", "return(tile38.call('set','{key}','viaeval','POINT',3,4))", "0"), a("EVAL", "return 1", "0"),
		a("EVAL", "return 1.5", "0"), a("EVAL", "return -1.5", "0"), a("EVAL", "return 0/0", "0"), a("EVAL", "return 1/0", "0"), a("EVAL", "return -1/0", "0"), a("EVAL", "return 1e300", "0"), a("EVAL", "return 123456789012", "0"),
		a("EVAL", "return true", "0"), a("EVAL", "return false", "0"), a("EVAL", "return nil", "0"), a("EVAL", "return", "0"), a("EVAL", "return ''", "0"), a("EVAL", "return KEYS[1]", "1", "{sval}"), a("EVAL", "return ARGV[1]", "0", "{fval}"),
		a("EVAL", "return {}", "0"), a("EVAL", "return {1,2,3}", "0"), a("EVAL", "return {1,'two',true,false,{3,{4}}}", "0"), a("EVAL", "return {1,nil,3}", "0"), a("EVAL", "return {a=1}", "0"), a("EVAL", "return {a=1,b='x'}", "0"),
		a("EVAL", "return {[1.5]='x'}", "0"), a("EVAL", "return {[true]='x'}", "0"), a("EVAL", "return {1,2,a='x'}", "0"), a("EVAL", "return {ok='fine'}", "0"), a("EVAL", "return {err='my error'}", "0"), a("EVAL", "return {ok='fine',extra=1}", "0"),
		a("EVAL", "return {{ok='nested'},{err='nested error'}}", "0"), a("EVAL", "return tile38.error_reply('custom failure')", "0"), a("EVAL", "return tile38.status_reply('custom status')", "0"),
		a("EVAL", "return {ARGV[1], KEYS[1]}", "1", "{key}", "{sval}"), a("EVAL", "return {['{field}']=ARGV[1]}", "0", "{fval}"), a("EVAL", "return os.clock", "0"), a("EVAL", "return {os.clock}", "0"), a("EVAL", "return {f=os.clock}", "0"), a("EVAL", "return {1,{2,os.clock}}", "0"), a("EVAL", "return print", "0"),
		a("EVAL", "error('boom')", "0"), a("EVAL", "error({code=1})", "0"), a("EVAL", "error('multi\\nline')", "0"), a("EVAL", "this is not lua", "0"), a("EVAL", "return 1", "abc"), a("EVAL", "return 1", "2", "onlyone"),
		a("EVAL", "return tile38.call('nosuchcommand')", "0"), a("EVAL", "return tile38.pcall('get','{key}','nosuch')", "0"), a("EVAL", "return tile38.pcall('get')", "0"), a("EVAL", "return tile38.call('scan','{key}','LIMIT',2)", "0"),
		a("EVAL", "return tile38.call('get','{key}','{id}','WITHFIELDS')", "0"), a("EVAL", "return tile38.sha1hex(ARGV[1])", "0", "{sval}"), a("EVAL", "return math.huge", "0"), a("EVAL", "return -0.0", "0"), a("EVAL", "return '{sval}'", "0"),
		a("EVAL", "return string.rep('x', 3) .. string.char(255,0,10,34,92)", "0")},
	"evalro":        {a("EVALRO", "return(tile38.call('get','{key}','{id}'))", "0"), a("EVALRO", "return(tile38.call('set','{key}','viaevalro','POINT',3,4))", "0"), a("EVALRO", "return {1.5,'x',{a=true}}", "0")},
	"evalna":        {a("EVALNA", "return(tile38.call('get','{key}','{id}'))", "0"), a("EVALNA", "return(tile38.call('del','{key}','{id}'))", "0"), a("EVALNA", "return {0/0}", "0")},
	"evalsha":       {w("EVALSHA {sha} 1 {key} {fval}"), w("EVALSHA {sha} 0"), w("EVALSHA 0000000000000000000000000000000000000000 0")},
	"evalrosha":     {w("EVALROSHA {sha} 1 {key} {fval}"), w("EVALROSHA nosuchsha 0")},
	"evalnasha":     {w("EVALNASHA {sha} 1 {key} {fval}"), w("EVALNASHA nosuchsha 0")},
	"script":        rs(w("SCRIPT"), w("SCRIPT BOGUS")),
	"script load":   rs(a("SCRIPT", "LOAD", "return 2"), a("SCRIPT", "LOAD", "this is not lua"), a("SCRIPT", "LOAD", "return '{sval}'")),
	"script exists": {w("SCRIPT EXISTS {sha}"), w("SCRIPT EXISTS {sha} nosuchsha {sha}"), w("SCRIPT EXISTS nosuchsha"), w("SCRIPT EXISTS")},
	"script flush":  rs(w("SCRIPT FLUSH")),
	// ---- replication, configuration, administration
	"follow":         rs(w("FOLLOW no one"), w("FOLLOW 127.0.0.1 {fakeport}"), w("FOLLOW 127.0.0.1 abc")),
	"slaveof":        rs(w("SLAVEOF no one"), w("SLAVEOF 127.0.0.1 {fakeport}")),
	"replconf":       {rc(w("REPLCONF listening-port 9999")), w("REPLCONF listening-port abc"), rc(w("REPLCONF ip-address 10.0.0.1")), w("REPLCONF bogus 1")},
	"readonly":       rs(w("READONLY no"), w("READONLY yes"), w("READONLY maybe")),
	"config":         rs(w("CONFIG"), w("CONFIG BOGUS")),
	"config get":     {w("CONFIG GET keepalive"), w("CONFIG GET requirepass"), w("CONFIG GET *"), w("CONFIG GET nosuch"), w("CONFIG GET maxmemory")},
	"config set":     rs(w("CONFIG SET keepalive 300"), w("CONFIG SET keepalive abc"), w("CONFIG SET nosuch 1"), w("CONFIG SET maxmemory 1gb")),
	"config rewrite": rs(w("CONFIG REWRITE")),
	"client":         {w("CLIENT LIST"), w("CLIENT GETNAME"), rc(pre("CLIENT SETNAME {hook}", w("CLIENT GETNAME"))), rc(pre("CLIENT SETNAME {hook}", w("CLIENT LIST"))), rc(w("CLIENT SETNAME {hook}")), rc(w("CLIENT SETNAME myname")), w("CLIENT KILL id 999999"), w("CLIENT KILL 1.2.3.4:5"), w("CLIENT KILL bogus"), w("CLIENT BOGUS")},
	"aof":            {Template{Args: []string{"AOF", "0"}, Live: true, AckFrames: 1}, w("AOF abc"), w("AOF 999999999999")},
	"aofmd5":         {w("AOFMD5 0 10"), w("AOFMD5 0 0"), w("AOFMD5 abc 1"), w("AOFMD5 0 999999999999"), w("AOFMD5 0 -1")},
	"aofshrink":      {Template{Args: []string{"AOFSHRINK"}, Rewrites: true}},
	"gc":             {w("GC")},
	"server":         {w("SERVER"), w("SERVER EXT"), w("SERVER BOGUS")},
	"info":           {w("INFO"), w("INFO server"), w("INFO all"), w("INFO replication stats"), w("INFO nosuchsection")},
	"role":           {w("ROLE")},
	"healthz":        {w("HEALTHZ")},
	"output":         {w("OUTPUT"), w("OUTPUT json"), w("OUTPUT resp"), w("OUTPUT JSON"), w("OUTPUT xml")},
	"monitor":        {live(trigSet, "MONITOR")},
	"subscribe":      {live(trigPub, "SUBSCRIBE {chan}"), Template{Args: strings.Fields("SUBSCRIBE other {chan}"), Live: true, Trigger: trigPub, AckFrames: 2}},
	"psubscribe":     {live(trigPub, "PSUBSCRIBE *"), Template{Args: strings.Fields("PSUBSCRIBE nosuch* *"), Live: true, Trigger: trigPub, AckFrames: 2}},
	"publish":        {w("PUBLISH {chan} {msg}"), w("PUBLISH nosuchchan hello")},
	// ---- dev-mode commands (servers run with DevMode off, as in production)
	"shutdown":   {w("SHUTDOWN")},
	"massinsert": {w("MASSINSERT 1 1")},
	"sleep":      {w("SLEEP 0")},
	// ---- connection level
	"ping":    {w("PING"), w("PING {sval}"), w("ping {fval}")},
	"echo":    {w("ECHO {sval}"), w("ECHO"), w("echo {fval}")},
	"quit":    {live(nil, "QUIT")},
	"auth":    {w("AUTH nopassword"), w("AUTH")},
	"hello":   {w("HELLO 3"), w("HELLO")},
	"command": {w("COMMAND"), w("COMMAND DOCS")},
	"timeout": {w("TIMEOUT 10 GET {key} {id}"), w("TIMEOUT 10 SET {key} viatimeout POINT 1 2"), w("TIMEOUT 10 SCAN {key} LIMIT 2 IDS"), w("TIMEOUT abc GET {key} {id}"), w("TIMEOUT -1 GET {key} {id}"),
		w("TIMEOUT 10"), w("TIMEOUT 10 NOSUCHCOMMAND"), w("TIMEOUT 0.000000001 SCAN {key}"), a("TIMEOUT", "0.05", "EVALRO", "while true do end", "0"),
		a("TIMEOUT", "0.05", "EVAL", "while true do end", "0")},
	// ---- errors that quote an argument
	"+echo": {w("GET {key} {id} HASH {fval}"), w("DEL {key} {id} {fval}"), w("EXPIRE {key} {id} x{fval}"), w("OUTPUT {fval}"), w("SERVER {fval}"), w("READONLY {fval}"),
		w("{fval}"), w("{hook} {key}"), w("SET {key} {id} {fval}"), w("SCAN {key} LIMIT {fval}"), w("SCAN {key} CURSOR {fval}"), w("NEARBY {key} POINT {fval} 1"), w("JGET {key} {doc} n {fval}"),
		w("CONFIG SET {fval} 1"), w("CONFIG {fval}"), w("SCRIPT {fval}"), w("CLIENT {fval}"), w("TIMEOUT x{fval} GET {key} {id}"), w("EVAL {fval} 0"), w("EVALSHA {fval} 0"), w("SETHOOK {hook} {fval} NEARBY {key} FENCE POINT 1 1 1"),
		w("WITHIN {key} {fval} 1 2 3 4"), w("TEST POINT 1 1 {fval} POINT 1 1"), w("SET {key} {id} FIELD lat {fval} POINT 1 1"), w("FSET {key} {id} lon {fval}"), w("AOFMD5 {fval} 1"), w("SCAN {key} HASHES {fval}"),
		a("SET", "{key}", "{id}", "OBJECT", "{sval}"), a("WITHIN", "{key}", "OBJECT", "{sval}"), a("EVAL", "return tile38.call('get', ARGV[1])", "0", "{fval}"), a("EVAL", "return {err=ARGV[1]}", "0", "{fval}"), a("EVAL", "return {ok=ARGV[1]}", "0", "{fval}")},
	// ---- live searches (the first reply and the pushed messages are compared by the live driver)
	"+fence": {live(trigSet, "NEARBY {key} FENCE POINT 33.5 -115.5 100000"), live(trigSet, "WITHIN {key} FENCE DETECT enter,inside BOUNDS 32 -117 35 -114"),
		live(trigSet, "INTERSECTS {key} FENCE NOFIELDS BOUNDS 32 -117 35 -114"), live(trigSet, "NEARBY {key} FENCE DISTANCE POINTS POINT 33.5 -115.5 100000"),
		live(trigSet, "WITHIN {key} FENCE IDS BOUNDS 32 -117 35 -114"), live(trigSet, "WITHIN {key} FENCE HASHES 5 BOUNDS 32 -117 35 -114"), live(trigSet, "WITHIN {key} FENCE BOUNDS BOUNDS 32 -117 35 -114")},
}

// Instance is one (command, template) pair.
type Instance struct {
	ID        string     `json:"id"`   // "get", "get~2", ...
	Base      string     `json:"base"` // command name as found in the source ("+fence" for live searches)
	Args      []string   `json:"args"` // placeholders unfilled
	Live      bool       `json:"live"`
	Trigger   [][]string `json:"trigger,omitempty"`
	Thorough  bool       `json:"thorough"`
	Reconnect bool       `json:"reconnect"`
	AckFrames int        `json:"ackframes"`
	Resets    bool       `json:"resets"`
	Rewrites  bool       `json:"rewrites"`
	Pre       []string   `json:"pre,omitempty"`
	Named     bool       `json:"named"` // the arguments depend on the naming, or the reply lists names of the state
}

func named(args []string) bool {
	for _, a := range args {
		if strings.Contains(a, "{") && strings.Contains(a, "}") || a == "*" {
			return true
		}
	}
	return false
}

// Instances builds the instance list for the commands found in the source; a
// command without a template is an error.
func Instances(cmds []gates.SourceCmd) ([]Instance, error) {
	var missing []string
	var out []Instance
	names := []string{}
	for _, c := range cmds {
		names = append(names, c.Name)
	}
	names = append(names, "+echo", "+nan", "+fence")
	for _, name := range names {
		tps := Templates[name]
		if len(tps) == 0 {
			missing = append(missing, name)
			continue
		}
		for k, tp := range tps {
			id := name
			if k > 0 {
				id = fmt.Sprintf("%s~%d", name, k+1)
			}
			out = append(out, Instance{ID: id, Base: name, Args: tp.Args, Live: tp.Live, Trigger: tp.Trigger, Thorough: tp.Thorough, Reconnect: tp.Reconnect, AckFrames: tp.AckFrames,
				Resets: tp.Resets, Rewrites: tp.Rewrites, Pre: tp.Pre, Named: named(tp.Args) || named(tp.Pre)})
		}
	}
	if len(missing) > 0 {
		sort.Strings(missing)
		return nil, fmt.Errorf("no reply template for command(s): %s -- add an argument template to harness/reply/templates.go",
			strings.Join(missing, ", "))
	}
	return out, nil
}

// Token is the concrete meaning of one token of the Keyspace model (harness/ks): the string the server
// must show for it and, for geometries and JSON field values, the JSON value it must read back as.
type Token struct {
	S   string `json:"s"`
	J   J      `json:"j"`
	Geo bool   `json:"geo"`
}

// Tokens is the table handed to TLC as the constant Conc of ReplyTrace.
func Tokens() map[string]Token {
	out := map[string]Token{}
	put := func(tok, s string, geo bool) {
		j, why := ParseJSONStrict(s)
		if why != "" {
			j = NoJ()
		}
		out[tok] = Token{S: Enc(s), J: j, Geo: geo}
	}
	for i, k := range ks.Keys {
		put(fmt.Sprintf("k:%d", i+1), k, false)
	}
	for i, k := range ks.Ids {
		put(fmt.Sprintf("i:%d", i+1), k, false)
	}
	for i, k := range ks.FNames {
		put(fmt.Sprintf("n:%d", i+1), k, false)
	}
	for i, k := range ks.Hooks {
		put(fmt.Sprintf("h:%d", i+1), k, false)
	}
	for tok, v := range ks.FVals {
		put(tok, v.Stored, false)
	}
	for tok, g := range ks.Geos {
		if g.Spatial {
			put(tok, g.JSON, true)
		} else {
			put(tok, g.Str, false)
		}
	}
	for _, m := range []string{"m:a", "m:b"} {
		put(m, ks.JMember(m), false)
	}
	// JSET values: "j:1" is the raw number 1, "j:x" the string x; j is the value inside the document
	out["j:1"] = Token{S: "1", J: mustJ("1")}
	out["j:x"] = Token{S: "x", J: mustJ(`"x"`)}
	return out
}

func mustJ(s string) J {
	j, why := ParseJSONStrict(s)
	if why != "" {
		panic(why)
	}
	return j
}
