"""C08  A write is handed to the log file before its acknowledgement is sent.

Specification: spec/Prewrite.tla (the pre-write protocol of netServe, one action per gate step).
TLC (design): AckImpliesFlushed / DirtyCoversBuf on the intended design; the as-coded deviation
constants must produce the known counterexamples (otherwise the model is vacuous).
Binding: TLC enumerates every transition of the protocol graph as a schedule (PrewriteGen); the
harness forces each schedule on a real server through the `verif` gates and records
append/flush/test/write events (write carries the size of the file on disk at that instant);
PrewriteTrace.tla validates the recorded trace: AckImpliesFlushed at every socket write.
"""
import json
import os
import shutil

from . import common
from .common import cfg_consts

MODS = ["Prewrite.tla", "PrewriteGen.tla"]


def design(ctx):
    mc = "---- MODULE MC_design ----\nEXTENDS Prewrite\nMCConn == {1, 2, 3}\n====\n"
    base = dict(Conn="<- MCConn", NCmd=2, WithBg=True, WithLive=True)
    r = ctx.tlc("design", ["Prewrite.tla"], mc,
                "SPECIFICATION Spec\n" + cfg_consts(ClearOutsideLock=False, GoLiveSkipsFlush=False, **base) +
                "INVARIANT TypeOK BufIsSuffix AckImpliesFlushed DirtyCoversBuf\n", timeout=600)
    if not r["ok"]:
        raise common.Infra("the intended Prewrite design violates %s: specification error" % r["violated"])
    ctx.log("TLC design (intended): %d distinct states, invariants hold" % r["distinct"])
    # non-vacuity: each deviation alone must break AckImpliesFlushed
    for dev in ("ClearOutsideLock", "GoLiveSkipsFlush"):
        kw = dict(ClearOutsideLock=False, GoLiveSkipsFlush=False)
        kw[dev] = True
        r2 = ctx.tlc("dev_" + dev, ["Prewrite.tla"], mc.replace("MC_design", "MC_dev_" + dev),
                     "SPECIFICATION Spec\n" + cfg_consts(**kw, **base) + "INVARIANT AckImpliesFlushed\n",
                     timeout=300, expect_violation=True)
        if r2["violated"] != "AckImpliesFlushed":
            raise common.Infra("deviation %s does not violate AckImpliesFlushed: the design model is vacuous" % dev)
    return r


def schedules(ctx, name, conns, ncmd, simulate=None, depth=None):
    mc = "---- MODULE MC_%s ----\nEXTENDS PrewriteGen\nMCConn == 1..%d\n====\n" % (name, conns)
    consts = cfg_consts(Conn="<- MCConn", NCmd=ncmd, ClearOutsideLock=True, GoLiveSkipsFlush=True,
                        WithBg=False, WithLive=True)
    if simulate:
        cfg = "SPECIFICATION SimSpec\n" + consts
        r = ctx.tlc(name, MODS, mc, cfg, workers=4, simulate=max(1, simulate // 4), depth=depth, timeout=600)
    else:
        cfg = "SPECIFICATION GSpec\n" + consts + "VIEW View\nPROPERTY Emit\n"
        r = ctx.tlc(name, MODS, mc, cfg, timeout=600)
    sched = os.path.join(r["dir"], "schedules.ndjson")
    n = ctx.extract_tr(r["out"], sched)
    ctx.log("TLC %s: %d schedules (%d distinct protocol states)" % (name, n, r["distinct"]))
    return r, sched, n


def force_and_validate(ctx, label, sched, conns, spin=False, batches=0):
    trace = os.path.join(ctx.scratch, "trace_%s.ndjson" % label)
    rc, js, err = ctx.harness(["prewrite", "-in", sched, "-out", trace, "-conns", str(conns), "-par", "8", "-batches", str(batches)] +
                              (["-spinlock"] if spin else []))
    if batches and not js.get("batches"):
        raise common.Infra("no pipelined batch was run (vacuous)")
    if js["writes"] == 0 or js["appends"] == 0:
        raise common.Infra("forced schedules produced no socket writes (vacuous)")
    tdir = os.path.join(ctx.scratch, "tv_" + label)
    os.makedirs(tdir, exist_ok=True)
    shutil.copyfile(trace, os.path.join(tdir, "trace.ndjson"))
    r = ctx.tlc("tv_" + label, ["PrewriteTrace.tla"],
                "---- MODULE MC_tv_%s ----\nEXTENDS PrewriteTrace\n====\n" % label,
                "SPECIFICATION Spec\nINVARIANT TraceWellFormed\nPOSTCONDITION Post\n",
                workers=1, timeout=900, files=[os.path.join(tdir, "trace.ndjson")], expect_violation=True)
    fails, flagdiffs, accepted = [], 0, True
    for line in open(r["out"], errors="replace"):
        if line.startswith('<<"ACKFAIL", '):
            p = line.strip()[2:-2].split(", ")
            fails.append((int(p[1]), int(p[2]), int(p[3])))
        elif line.startswith('<<"FLAGDIFFS", '):
            flagdiffs = int(line.strip()[2:-2].split(", ")[1])
    if r["violated"] == "TraceWellFormed":
        raise common.Infra("trace of %s is not well-formed (harness bookkeeping disagrees with the design variables): %s"
                           % (label, r["out"]))
    out_txt = open(r["out"], errors="replace").read()
    if "Postcondition" in out_txt and not fails:
        raise common.Infra("trace of %s was not consumed completely by PrewriteTrace: %s" % (label, r["out"]))
    ctx.log("%s: %d schedules forced, %d events, %d socket writes validated, %d ack-before-flush, flag diagnostics %d"
            % (label, js["schedules"], js["events"], js["writes"], len(fails), flagdiffs))
    if fails:
        lines = open(sched).read().split("\n")
        events = open(trace).read().split("\n")
        seen = {}
        BATCH = "[\"pipelined batch: one segment with a SET followed by SCANs whose replies add up to several MB\"]"
        for (l, s, c) in fails:
            if s >= 1000000:
                seen.setdefault("batch: part of the output of a pipelined batch (replies of several MB) is written to the socket while the "
                                "batch's write is still in the AOF buffer", []).append((l, s, c))
                continue
            steps = json.loads(lines[s])
            live = any(st["c"] == c and st["a"] == "execlive" for st in steps)
            cls = ("go-live hand-off: replies pending on a connection whose pipelined command goes live are written to the socket without flushing the AOF buffer"
                   if live else
                   "dirty flag: a connection's acknowledgement is written although its command is still in the AOF buffer (flag cleared/tested without covering the buffer)")
            seen.setdefault(cls, []).append((l, s, c))
        for cls, lst in seen.items():
            l, s, c = lst[0]
            sline = BATCH if s >= 1000000 else lines[s]
            text = "ack-before-flush (%d schedules): %s; first: schedule %s connection %d event %s" % (
                len(lst), cls, sline, c, events[l - 1])
            kind = "batch" if s >= 1000000 else ("golive" if "go-live" in cls else "flag")
            common.report(ctx, "c08-%s-%s" % (label, kind), text, {"kind": "prewrite-schedule", "conns": conns,
                                                        "schedule": lines[0] if s >= 1000000 else lines[s], "batches": 2 if s >= 1000000 else 0,
                                                        "event": events[l - 1]})
    return js, flagdiffs, len(fails)


def run(ctx):
    if ctx.replay:
        p = json.load(open(ctx.replay))
        sched = os.path.join(ctx.scratch, "replay.ndjson")
        open(sched, "w").write(p["schedule"] + "\n")
        force_and_validate(ctx, "replay", sched, p.get("conns", 2), batches=p.get("batches", 0))
        return
    d = design(ctx)
    states, trans, forced, writes = d["distinct"], d["generated"], 0, 0
    samples = []
    # every transition of the 2-connection x 2-command protocol graph
    r, sched, n = schedules(ctx, "two", 2, 2)
    states += r["distinct"]
    trans += n
    samples.append(open(sched).readline().strip())
    js, fd, nf = force_and_validate(ctx, "two", sched, 2, batches=2)
    forced += js["schedules"] + js.get("batches", 0)
    writes += js["writes"]
    # random schedules of 3 connections
    r, sched, n = schedules(ctx, "three", 3, 2, simulate=ctx.pick(400, 6000), depth=80)
    trans += r["generated"]
    with open(sched) as f:
        samples.append(f.readline().strip())
    js, fd2, nf2 = force_and_validate(ctx, "three", sched, 3, spin=True)
    forced += js["schedules"]
    writes += js["writes"]
    if not ctx.quick:
        r, sched, n = schedules(ctx, "four", 4, 3, simulate=4000, depth=150)
        trans += r["generated"]
        js, fd3, nf3 = force_and_validate(ctx, "four", sched, 4)
        forced += js["schedules"]
        writes += js["writes"]
    common.write_evidence(ctx, "model_checking", {
        "states": states, "transitions": trans, "traces_validated_against_impl": forced,
        "socket_writes_validated": writes, "samples": samples, "exhaustive": True,
        "flag_protocol_diagnostics": fd + fd2,
        "explanation": "Design: TLC checks AckImpliesFlushed/DirtyCoversBuf for 3 connections x 2 commands with background flusher "
                       "and go-live pipelines, and that each as-coded deviation breaks it. Conformance: every transition of the "
                       "2x2 protocol graph (and random 3/4-connection schedules) is forced on a real server through gates; the "
                       "recorded trace is validated by PrewriteTrace (ack implies flushed, checked against the file size on disk).",
    }, [
        "gates park connections only outside the server lock; lock acquisition + flush is one step",
        "the background flusher runs on its own clock and can only add flushes (it can hide, never cause, a failure)",
        "durability against OS crash (fsync) is not part of the property",
    ])
