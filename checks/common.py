"""Shared machinery of the /verif checks: build, TLC, harness, evidence, verdicts.

Exit codes of a check: 0 = property held on everything explored (known findings are
printed as KNOWN-FINDING lines), 1 = VIOLATION line printed, 2 = infrastructure trouble
(build failure, TLC error, timeout, dead driver) -- never a verdict.
"""
import atexit
import json
import os
import re
import shutil
import subprocess
import sys
import tempfile
import time

VERIF = os.path.dirname(os.path.dirname(os.path.abspath(__file__)))
REPO = os.environ.get("VERIF_REPO", "/repo")
SPEC = os.path.join(VERIF, "spec")
HARNESS = os.path.join(VERIF, "harness")
BUILD = os.environ.get("VERIF_BUILD", os.path.join(VERIF, ".build"))
# one source copy and one binary per check process: checks may run side by side on one build directory
SRC = os.path.join(BUILD, "src.%d" % os.getpid())
BIN = os.path.join(BUILD, "t38conf.%d" % os.getpid())


def _drop_build():
    shutil.rmtree(SRC, ignore_errors=True)
    try:
        os.remove(BIN)
    except OSError:
        pass
NCPU = os.cpu_count() or 4


class Infra(Exception):
    """Infrastructure failure: exit 2, never a violation."""


def goenv():
    env = dict(os.environ)
    env["GOFLAGS"] = "-mod=mod"
    env["GOPROXY"] = "off"
    env.pop("GOSUMDB", None)      # GOSUMDB=off breaks the offline toolchain switch
    env["GOTOOLCHAIN"] = "auto"
    env.setdefault("GOCACHE", os.path.join(os.path.expanduser("~"), ".cache", "go-build"))
    return env


def build_server():
    """Build the stock tile38-server binary from /repo's current tree (for checks that must survive a process crash)."""
    os.makedirs(BUILD, exist_ok=True)
    out = os.path.join(BUILD, "tile38-server")
    p = subprocess.run(["go", "build", "-tags", "verif", "-o", out, "./cmd/tile38-server"],
                       cwd=REPO, env=goenv(), stdout=subprocess.PIPE, stderr=subprocess.STDOUT, text=True)
    if p.returncode != 0:
        raise Infra("tile38-server build failed:\n" + p.stdout[-4000:])
    return out


def build_harness(log=None):
    """(Re)build the harness against /repo's current working tree with hooks on.

    The harness source is copied into the build directory first and go.mod / go.sum are written there, so that
    concurrent runs with different VERIF_REPO / VERIF_BUILD never share a go.mod."""
    os.makedirs(BUILD, exist_ok=True)
    src = SRC
    atexit.register(_drop_build)
    shutil.rmtree(src, ignore_errors=True)
    shutil.copytree(HARNESS, src, ignore=shutil.ignore_patterns("go.mod", "go.sum", "zz_*"))
    txt = open(os.path.join(HARNESS, "go.mod.tmpl")).read().replace("=> /repo", "=> " + REPO)
    open(os.path.join(src, "go.mod"), "w").write(txt)
    shutil.copyfile(os.path.join(REPO, "go.sum"), os.path.join(src, "go.sum"))
    t0 = time.time()
    p = subprocess.run(["go", "build", "-tags", "verif", "-o", BIN, "./cmd/t38conf"],
                       cwd=src, env=goenv(), stdout=subprocess.PIPE, stderr=subprocess.STDOUT, text=True)
    if p.returncode != 0:
        raise Infra("harness build failed (does /repo compile with -tags verif?):\n" + p.stdout[-4000:])
    return time.time() - t0


class Ctx:
    def __init__(self, pid, tier, seed, replay=None):
        self.pid = pid
        self.tier = tier
        self.seed = seed
        self.replay = replay
        self.t0 = time.time()
        self.scratch = tempfile.mkdtemp(prefix="verif.%s." % pid, dir=os.environ.get("VERIF_TMP", "/tmp"))
        self.violations = []      # (replay path, text)
        self.known = []           # text
        self.notes = []
        self.tlc_runs = []        # dicts with stats
        self.replaydir = os.path.join(os.environ.get("VERIF_OUT", VERIF), "replays", pid)
        self.cov = {}

    @property
    def quick(self):
        return self.tier == "quick"

    def pick(self, q, t):
        return q if self.quick else t

    def cleanup(self):
        shutil.rmtree(self.scratch, ignore_errors=True)

    def log(self, *a):
        print("[%s %6.1fs]" % (self.pid, time.time() - self.t0), *a, flush=True)

    # ------------------------------------------------------------------ TLC
    def tlc(self, name, modules, mc_tla, cfg, workers=None, simulate=None, depth=None,
            timeout=600, extra=(), expect_violation=False, deadlock=False, stdout_to=None,
            files=()):
        """Run TLC in a scratch copy. modules: spec file names to copy from /verif/spec.
        mc_tla: text of the wrapper module MC_<name>.tla (or None to run modules[0]).
        Returns a dict: out (path), generated, distinct, depth, ok, violated (name of the
        violated invariant/property or None), errors (text)."""
        d = os.path.join(self.scratch, "tlc_" + name)
        os.makedirs(d, exist_ok=True)
        for m in modules:
            shutil.copyfile(os.path.join(SPEC, m), os.path.join(d, m))
        for f in files:
            shutil.copyfile(f, os.path.join(d, os.path.basename(f)))
        mod = "MC_" + name
        open(os.path.join(d, mod + ".tla"), "w").write(mc_tla)
        open(os.path.join(d, mod + ".cfg"), "w").write(cfg)
        cmd = ["timeout", str(timeout), "tlc", "-metadir", os.path.join(d, "meta"),
               "-workers", str(workers or min(NCPU, 16))]
        if simulate:
            cmd += ["-simulate", "num=%d" % simulate, "-depth", str(depth or 100)]
        cmd += ["-seed", str(self.seed)]
        if not deadlock:
            cmd += ["-deadlock"]
        cmd += list(extra) + ["-config", mod + ".cfg", mod + ".tla"]
        out = stdout_to or os.path.join(d, "out.txt")
        t0 = time.time()
        # TLC leaves a tlc-<n> directory under java.io.tmpdir per run: keep it inside the scratch directory
        jenv = dict(os.environ)
        jtmp = os.path.join(self.scratch, "jtmp")
        os.makedirs(jtmp, exist_ok=True)
        jenv["JAVA_TOOL_OPTIONS"] = (jenv.get("JAVA_TOOL_OPTIONS", "") + " -Djava.io.tmpdir=" + jtmp).strip()
        with open(out, "w") as fo:
            p = subprocess.run(cmd, cwd=d, stdout=fo, stderr=subprocess.STDOUT, env=jenv)
        wall = time.time() - t0
        res = {"name": name, "out": out, "dir": d, "rc": p.returncode, "wall_s": round(wall, 1),
               "generated": 0, "distinct": 0, "depth": 0, "violated": None, "errors": "",
               "mode": "simulate" if simulate else "bfs"}
        errs = []
        with open(out, errors="replace") as fi:
            for line in fi:
                if line.startswith('<<"TR"'):
                    continue
                m = re.match(r"(\d+) states generated, (\d+) distinct states found", line)
                if m:
                    res["generated"], res["distinct"] = int(m.group(1)), int(m.group(2))
                m = re.match(r"The number of states generated: (\d+)", line)
                if m:
                    res["generated"] = int(m.group(1))
                m = re.match(r"The depth of the complete state graph search is (\d+)", line)
                if m:
                    res["depth"] = int(m.group(1))
                m = re.match(r"Error: Invariant (\S+) is violated", line)
                if m:
                    res["violated"] = m.group(1)
                m = re.match(r"Error: Action property (\S+) is violated", line)
                if m:
                    res["violated"] = m.group(1)
                if "Temporal properties were violated" in line:
                    res["violated"] = res["violated"] or "temporal"
                if line.startswith("Error:") or "Exception" in line or "***" in line:
                    errs.append(line.rstrip())
        res["errors"] = "\n".join(errs[:20])
        if p.returncode == 124:
            raise Infra("TLC %s timed out after %ss" % (name, timeout))
        finished = False
        with open(out, errors="replace") as fi:
            tail = fi.read()[-3000:]
            finished = "Finished in" in tail
        if not finished:
            raise Infra("TLC %s did not finish (rc=%s): %s" % (name, p.returncode, tail[-1500:]))
        if res["violated"] is None and errs and not expect_violation:
            # an evaluation error in the spec is infrastructure trouble, not a verdict
            raise Infra("TLC %s reported errors:\n%s" % (name, res["errors"]))
        res["ok"] = res["violated"] is None
        self.tlc_runs.append({k: res[k] for k in ("name", "mode", "generated", "distinct", "depth", "wall_s", "violated")})
        return res

    @staticmethod
    def extract_tr(tlc_out, dest, tag="TR"):
        """Extract the JSON payloads of PrintT(<<"TR", json>>) lines into an NDJSON file."""
        n = 0
        pre = '<<"%s", ' % tag
        with open(tlc_out, errors="replace") as fi, open(dest, "w") as fo:
            for line in fi:
                if line.startswith(pre):
                    s = line.rstrip("\n")[len(pre):-2]
                    fo.write(json.loads(s) + "\n")
                    n += 1
        return n

    # -------------------------------------------------------------- harness
    def harness(self, args, timeout=1800, env=None):
        """Run a harness sub-command; returns (rc, parsed JSON of the last stdout line or None, stderr)."""
        e = goenv()
        e["VERIF_SEED"] = str(self.seed)
        # data directories of in-process servers (os.MkdirTemp) go into the scratch directory, which is removed at exit
        # even when a driver dies
        htmp = os.path.join(self.scratch, "htmp")
        os.makedirs(htmp, exist_ok=True)
        e["TMPDIR"] = htmp
        if env:
            e.update(env)
        try:
            p = subprocess.run([BIN] + list(args), stdout=subprocess.PIPE, stderr=subprocess.PIPE,
                               text=True, timeout=timeout, env=e, cwd=self.scratch)
        except subprocess.TimeoutExpired:
            raise Infra("harness %s timed out after %ss" % (args[0], timeout))
        js = None
        lines = [l for l in p.stdout.splitlines() if l.strip()]
        if lines:
            try:
                js = json.loads(lines[-1])
            except ValueError:
                js = None
        if p.returncode not in (0, 1) or js is None:
            raise Infra("harness %s failed rc=%s\nstdout: %s\nstderr: %s" %
                        (" ".join(args[:3]), p.returncode, p.stdout[-1500:], p.stderr[-3000:]))
        return p.returncode, js, p.stderr

    # ------------------------------------------------------------- verdicts
    def save_replay(self, name, payload):
        os.makedirs(self.replaydir, exist_ok=True)
        path = os.path.join(self.replaydir, "%s-seed%d-%s.json" % (name, self.seed, self.tier))
        with open(path, "w") as f:
            json.dump(payload, f, indent=1, sort_keys=True)
        return path

    def violation(self, name, text, payload):
        path = self.save_replay(name, payload)
        self.violations.append((path, text))
        print("VIOLATION property=%s replay=%s" % (self.pid, path), flush=True)
        print("  " + text[:2000], flush=True)

    def known_finding(self, text):
        self.known.append(text)
        print("KNOWN-FINDING: property=%s %s" % (self.pid, text), flush=True)


def load_known():
    """known_findings.json, plus fragments known_findings.d/*.json while checks are being built."""
    out = {"findings": [], "fixed": []}
    paths = [os.path.join(VERIF, "known_findings.json")]
    d = os.path.join(VERIF, "known_findings.d")
    if os.path.isdir(d):
        paths += sorted(os.path.join(d, f) for f in os.listdir(d) if f.endswith(".json"))
    for p in paths:
        if os.path.exists(p):
            j = json.load(open(p))
            out["findings"] += j.get("findings", [])
            out["fixed"] += j.get("fixed", [])
    return out


def classify(ctx, signature_text):
    """Return the known finding whose every 'match' substring occurs in signature_text, or None."""
    for f in load_known().get("findings", []):
        if f.get("property") != ctx.pid:
            continue
        if all(m in signature_text for m in f.get("match", [])):
            return f
    return None


def report(ctx, name, text, payload):
    """A disagreement between model and real code: known finding or violation."""
    f = classify(ctx, text)
    if f is not None:
        if f["id"] not in [k for k in getattr(ctx, "_known_ids", [])]:
            ctx._known_ids = getattr(ctx, "_known_ids", []) + [f["id"]]
            ctx.known_finding("%s: %s" % (f["id"], f["what"]))
        return False
    ctx.violation(name, text, payload)
    return True


def write_evidence(ctx, level, coverage, assumptions):
    evdir = os.path.join(os.environ.get("VERIF_OUT", VERIF), "evidence")
    os.makedirs(evdir, exist_ok=True)
    ev = {
        "property_id": ctx.pid,
        "tier": ctx.tier,
        "seed": ctx.seed,
        "level": level,
        "coverage": coverage,
        "assumptions": assumptions,
        "wall_s": round(time.time() - ctx.t0, 1),
        "violations": len(ctx.violations),
        "known_findings": ctx.known,
        "tlc_runs": ctx.tlc_runs,
        "notes": ctx.notes,
    }
    with open(os.path.join(evdir, ctx.pid + ".json"), "w") as f:
        json.dump(ev, f, indent=1, sort_keys=True)


def cfg_consts(**kw):
    """Render CONSTANTS lines; values: python bool/int/str; a str starting with '<-' is a substitution."""
    lines = []
    for k, v in kw.items():
        if isinstance(v, bool):
            lines.append(" %s = %s" % (k, "TRUE" if v else "FALSE"))
        elif isinstance(v, int):
            lines.append(" %s = %d" % (k, v))
        elif isinstance(v, str) and v.startswith("<-"):
            lines.append(" %s <- %s" % (k, v[2:].strip()))
        elif isinstance(v, str) and v.startswith("raw:"):
            lines.append(" %s = %s" % (k, v[4:]))
        else:
            lines.append(' %s = "%s"' % (k, v))
    return "CONSTANTS\n" + "\n".join(lines) + "\n"


def tla_seq(xs):
    return "<<" + ", ".join('"%s"' % x for x in xs) + ">>"


def tla_set(xs):
    return "{" + ", ".join('"%s"' % x for x in xs) + "}"
