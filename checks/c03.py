"""C03  Restart reproduces exactly the acknowledged state (AOF replay equivalence).

Specification: spec/AOF.tla (Exec appends iff updated and in the write-command table; Snap = kill
after the last acknowledgement; Restart), design check spec/AOFDesign.tla.
Binding: TLC-simulated behaviours (all write kinds incl. JSET/JDEL, script-issued writes, expiry as a
logged DEL, hooks/channels) are executed on a real server; at every Snap the log file is copied (what a
killed process leaves behind) and a fresh server is started on the copy; at every Restart the server is
stopped and started; pipelined bursts are "killed" while replies are outstanding.  The recovered dataset
projection must equal the specification's state (for a burst: the state after some prefix).
"""
import json
import os

from . import common
from .common import cfg_consts
from . import c01

SUBST = c01.SUBST


def design(ctx):
    mc = c01.mc_module("aofdesign", "AOFDesign", 2, 1, ["g:P1"], 1, ["v:0", "v:abc"], ["p:*"], 1)
    base = dict(MaxHist=ctx.pick(3, 4), TwoUpdates=False, WithHooks=True, WithJson=True, **SUBST)
    mods = ["Keyspace.tla", "KeyspaceGen.tla", "AOFDesign.tla"]
    r = ctx.tlc("aofdesign", mods, mc, "SPECIFICATION ASpec\n" + cfg_consts(Unlogged="raw:{}", **base) +
                "VIEW AView\nINVARIANT RestartEquivalence\n", timeout=ctx.pick(600, 3000))
    if not r["ok"]:
        raise common.Infra("AOF design violates RestartEquivalence with the intended table: specification error")
    r2 = ctx.tlc("aofdesign_dev", mods, mc.replace("MC_aofdesign", "MC_aofdesign_dev"),
                 "SPECIFICATION ASpec\n" + cfg_consts(Unlogged='raw:{"jdel"}', **dict(base, MaxHist=3)) +
                 "VIEW AView\nINVARIANT RestartEquivalence\n", timeout=600, expect_violation=True)
    if r2["violated"] != "RestartEquivalence":
        raise common.Infra("a mutating command missing from the write table does not violate RestartEquivalence: vacuous model")
    ctx.log("TLC design: %d distinct (state, log) pairs; RestartEquivalence holds; fails when JDEL is unlogged" % r["distinct"])
    return r


def simulate(ctx, name, num, depth):
    mc = c01.mc_module(name, "AOF", 3, 3, c01.ALL_GEOS, 2, c01.ALL_VALS, c01.ALL_PATS, 2)
    cfg = "SPECIFICATION SimSpec\n" + cfg_consts(MaxHist=depth, WithHooks=True, Unlogged="raw:{}", **SUBST) + \
          "INVARIANT RestartEquivalence\n"
    r = ctx.tlc(name, ["Keyspace.tla", "KeyspaceRand.tla", "AOF.tla"], mc, cfg, workers=8,
                simulate=max(1, num // 8), depth=depth + 20, timeout=1800)
    if not r["ok"]:
        raise common.Infra("AOF simulation violates %s" % r["violated"])
    beh = os.path.join(r["dir"], "behaviours.ndjson")
    n = ctx.extract_tr(r["out"], beh)
    return r, beh, n


def replay(ctx, beh, label):
    rc, js, err = ctx.harness(["aof-replay", "-in", beh, "-par", "8", "-seed", str(ctx.seed)], timeout=3000)
    st = js["stats"]
    ctx.log("%s: %d behaviours, %d commands (%d script-issued writes, %d expiries), %d kill snapshots, %d clean restarts, "
            "%d killed bursts, %d mismatches" % (label, st["Behaviours"], st["Cmds"], st["ScriptWrites"], st["Expiries"],
                                                 st["Snapshots"], st["Restarts"], st["Bursts"], len(js.get("mismatches") or [])))
    lines = None
    groups = {}
    for m in js.get("mismatches") or []:
        groups.setdefault(m["what"], []).append(m)
    for what, ms in groups.items():
        m = ms[0]
        if lines is None:
            lines = open(beh).read().split("\n")
        text = "%s mismatch (%d behaviours) at event %d of behaviour %d: %s %s" % (
            what, len(ms), m["step"], m["behaviour"], m.get("cmd") or "", m["detail"])
        common.report(ctx, "c03-%s-%s" % (label, what), text, {"kind": "aof-behaviour", "behaviour": lines[m["behaviour"]], "mismatch": m})
    return st


def limbo(ctx, only=None):
    """spec/Limbo.tla: commands on an object between its deadline and the sweep; RestartEquivalence by TLC, every
    behaviour with a passing deadline replayed on real servers (the deadline passes inside a script)."""
    mc = ("---- MODULE MC_%s ----\nEXTENDS Limbo, Json\n"
          "Emit == [][PrintT(<<\"TR\", ToJson([steps |-> hist', fin |-> Quiet(obj')])>>)]_vars\n====\n")
    if only is not None:
        beh = os.path.join(ctx.scratch, "limbo_replay.ndjson")
        open(beh, "w").write(json.dumps(only) + "\n")
        r = {"distinct": 0, "generated": 0}
    else:
        n = ctx.pick(4, 5)
        r = ctx.tlc("limbo", ["Limbo.tla"], mc % "limbo", "SPECIFICATION Spec\n" + cfg_consts(MaxOps=n, LimboMeans="present") +
                    "VIEW View\nINVARIANT RestartEquivalence OnlyByDel\nPROPERTY Emit\n", workers=4, timeout=900)
        if not r["ok"]:
            raise common.Infra("Limbo (as coded) violates %s" % r["violated"])
        r2 = ctx.tlc("limbo_dev", ["Limbo.tla"], mc % "limbo_dev", "SPECIFICATION Spec\n" + cfg_consts(MaxOps=3, LimboMeans="absent") +
                     "VIEW View\nINVARIANT RestartEquivalence\n", workers=4, timeout=600, expect_violation=True)
        if r2["violated"] != "RestartEquivalence":
            raise common.Infra("Limbo: an existence test that skips overdue objects does not violate RestartEquivalence (vacuous)")
        allb = os.path.join(r["dir"], "all.ndjson")
        ctx.extract_tr(r["out"], allb)
        import random
        bl = [l for l in open(allb) if '"pass"' in l]
        random.Random(ctx.seed).shuffle(bl)
        bl = bl[:ctx.pick(600, 6000)]
        beh = os.path.join(r["dir"], "beh.ndjson")
        open(beh, "w").write("".join(bl))
    rc, js, err = ctx.harness(["aof-limbo", "-in", beh, "-par", "8"], timeout=2400)
    st = js["stats"]
    ctx.log("limbo: TLC %d states (RestartEquivalence, OnlyByDel; refuted when NX/XX skip overdue objects); %d behaviours, %d deadlines "
            "passed inside scripts, %d differences from the specification's replies/states (recorded), %d mismatches"
            % (r["distinct"], st["behaviours"], st["passes"], st["model_diffs"], len(js.get("mismatches") or [])))
    lines = open(beh).read().split("\n")
    groups = {}
    for m in js.get("mismatches") or []:
        groups.setdefault(m["what"], []).append(m)
    for what, ms in groups.items():
        m = ms[0]
        common.report(ctx, "c03-limbo-%s" % what, "limbo %s mismatch (%d behaviours), behaviour %d: %s"
                      % (what, len(ms), m["behaviour"], m["detail"]),
                      {"kind": "limbo", "behaviour": json.loads(lines[m["behaviour"]])})
    if only is None and st["passes"] == 0:
        raise common.Infra("no deadline passed inside a script (vacuous)")
    return r, st


def run(ctx):
    if ctx.replay:
        p = json.load(open(ctx.replay))
        if p.get("kind") == "limbo":
            limbo(ctx, only=p["behaviour"])
            return
        beh = os.path.join(ctx.scratch, "replay.ndjson")
        open(beh, "w").write(p["behaviour"] + "\n")
        replay(ctx, beh, "replay")
        return
    d = design(ctx)
    r, beh, n = simulate(ctx, "aofsim", ctx.pick(160, 4000), ctx.pick(40, 60))
    ctx.log("TLC simulate: %d behaviours" % n)
    st = replay(ctx, beh, "sim")
    if st["Snapshots"] + st["Restarts"] == 0:
        raise common.Infra("no restart was exercised (vacuous)")
    lr, lst = limbo(ctx)
    with open(beh) as f:
        sample = f.readline()[:2000]
    common.write_evidence(ctx, "model_checking", {
        "states": d["distinct"] + r["generated"], "transitions": d["generated"] + r["generated"],
        "traces_validated_against_impl": st["Behaviours"],
        "samples": [sample], "commands": st["Cmds"], "kill_snapshots": st["Snapshots"], "clean_restarts": st["Restarts"],
        "killed_bursts": st["Bursts"], "script_issued_writes": st["ScriptWrites"], "expiries": st["Expiries"],
        "limbo": {"states": lr["distinct"], "behaviours": lst["behaviours"], "deadlines_passed_inside_scripts": lst["passes"],
                  "differences_from_the_specification_recorded": lst["model_diffs"]},
        "explanation": "Design: RestartEquivalence (Replay(log) = state) over all histories of a small alphabet incl. JSET/JDEL, hooks, "
                       "RENAME(NX); it fails when JDEL is removed from the write table. Conformance: simulated behaviours executed on a "
                       "real server; the log as left at each kill instant / after each clean stop is loaded by a fresh server and its "
                       "dataset compared with the specification's state.",
    }, [
        "a process kill is emulated by copying the log file at that instant (what write(2) has handed to the OS survives the process)",
        "deadlines are compared as has-deadline (EX restarts at replay time)",
        "power-loss (fsync) semantics are outside the property",
    ])
