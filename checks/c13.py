"""C13  NEARBY returns nearest neighbours in distance order.

Specification: spec/Nearby.tla
  * the dataset of one collection and its update history (Set / Del over shapes: points, extended objects
    - rectangle, LineString, Polygon, MultiPoint, Feature -, string values, absent);
  * the STATEMENT of C13 as a judgement of an observed NEARBY run (Defects / Accepts): candidates (MATCH, WHERE),
    Sorted, KClosest, RadiusExact (objects within the stated tolerance of the radius are not judged), count against
    LIMIT / the default limit, paging runs (concatenation of the pages = one distance order, cursor 0 = everything
    reported), DISTANCE within 0.5 % / 1 m;
  * a model of the implementation (best-first traversal of a tree with lower bounds, radius cut-off, filters,
    LIMIT / CURSOR counting) that TLC checks against the statement on every reachable dataset x query x tree, and
    broken variants of it that TLC refutes.
Distances are not computed in TLA+: Dist / FarLB are integer tables (mm) from the harness' own geometry
(`t38conf nearby-world`: unit-vector great-circle distance, numerical minimisation over the rectangle boundary).

Legs of one run
  1. design       TLC, exhaustive on a small world: DesignOK for the variant "ok" and the harmless "radius-skips";
                  every broken variant must violate it.
  2. model->code  spec/NearbyGen.tla: breadth-first, one shortest history per transition of the dataset graph (every
                  insert / move / overwrite / delete from every dataset); spec/NearbySim.tla: random long histories on
                  larger grids.  `t38conf nearby-run` executes every history on real collections that also hold hundreds
                  to thousands of filler objects (near ones known to the model, far ones anonymous), asks a battery of
                  NEARBY queries (query cells, k, radii at / around the occurring distances, filters, paging, outputs,
                  RESP and JSON) on the dataset reached and records the replies.
                  The cover is repeated on a collection that holds nothing else (empty index, single-leaf tree).
  3. code->model  random worlds (random positions incl. poles / 180th meridian), random histories that also move the
                  fillers, random queries; a dense world without far objects (more than 100 candidates: the default
                  limit); worlds around both poles with annuli of hundreds of objects ~10 cm apart in distance (seen
                  from a pole every node bound is tight: the order is decided by the exactness of the bounds).
  Every recorded trace is judged by TLC with spec/NearbyTrace.tla (Nearby!Defects on the dataset at that moment).
  4. self-test    corrupted copies of recorded replies must be rejected by TLC (else the binding is vacuous: Infra).
A VIOLATION is a reply of the real server that TLC rejects.
"""
import concurrent.futures as cf
import json
import os
import random
import shutil

from . import common
from .common import cfg_consts

MODS = ["Nearby.tla", "NearbyGen.tla", "NearbySim.tla", "NearbyTrace.tla", "NearbyDesign.tla"]
PAR = max(4, min(common.NCPU, 12))       # parallel real servers
JUDGES = max(2, min(common.NCPU // 2, 6))   # parallel TLC processes judging traces
os.environ.setdefault("JAVA_TOOL_OPTIONS", "-Xss16m")   # Defects recurses over the items of a reply
TOL = dict(OrdEps=5, TolAbs=1000, TolDiv=200)
JUDGE_RUNS = set()

# ---------------------------------------------------------------------------------------------- worlds
# grid worlds: (lat0, lon0) south-west cell, steps in degrees
W_EQ = dict(lat0=-0.004, lon0=10.0, dlat=0.008, dlon=0.008)            # straddles the equator
W_NP = dict(lat0=89.985, lon0=-170.0, dlat=0.005, dlon=90.0)           # around the north pole, columns 90 degrees apart
W_SP = dict(lat0=-89.996, lon0=30.0, dlat=0.004, dlon=50.0)            # around the south pole
W_AM = dict(lat0=-17.0, lon0=179.985, dlat=0.01, dlon=0.01)            # columns straddle the 180th meridian
W_N52 = dict(lat0=52.0, lon0=4.9, dlat=0.004, dlon=0.009)              # mid latitude, anisotropic
W_PHX = dict(lat0=33.4, lon0=-111.9, dlat=0.01, dlon=0.01)
GRIDS = {"eq": W_EQ, "np": W_NP, "sp": W_SP, "am": W_AM, "n52": W_N52, "phx": W_PHX}


def make_world(ctx, name, base, **kw):
    """Runs `nearby-world`; returns (world dict, path of the world file)."""
    path = os.path.join(ctx.scratch, "world_%s.json" % name)
    args = ["nearby-world", "-name", name, "-out", path]
    p = dict(base)
    p.update(kw)
    for k, v in p.items():
        args += ["-" + k, repr(float(v)) if isinstance(v, float) else str(v)]
    rc, w, err = ctx.harness(args)
    if rc != 0:
        raise common.Infra("nearby-world %s failed: %s" % (name, err))
    return w, path


def tla_chars(s):
    return "<<" + ", ".join('"%s"' % c for c in s) + ">>"


def tla_ints(xs):
    return "<<" + ", ".join(str(x) for x in xs) + ">>"


def mc_module(name, base, w, movers_only=False, nofar=False):
    """The wrapper module with the sequence / function valued constants of a world."""
    n = w["nmov"] if movers_only else len(w["ids"])
    ids = w["ids"][:n]
    far = [] if (nofar or movers_only) else [f["id"] for f in (w["far"] or [])]
    dist = "<<" + ",\n  ".join(tla_ints(row) for row in w["dist_mm"]) + ">>"
    indexed = "<<" + ", ".join("TRUE" if s["indexed"] else "FALSE" for s in w["shapes"]) + ">>"
    return """---- MODULE MC_%s ----
EXTENDS %s
MCIdSeq == <<%s>>
MCDist == %s
MCIndexed == %s
MCInitAt == %s
MCInitF == %s
MCMovers == 1..%d
MCGenShapes == {%s}
MCFarIds == <<%s>>
MCFarLB == %s
MCPats == <<%s>>
====
""" % (name, base, ", ".join(tla_chars(i) for i in ids), dist, indexed,
       tla_ints(w["init_at"][:n]), tla_ints(w["init_f"][:n]), w["nmov"],
       ", ".join(str(s) for s in w["gen_shapes"]), ", ".join(tla_chars(i) for i in far),
       tla_ints(w["far_lb_mm"]), ", ".join(tla_chars(p) for p in w["pats"]))


def consts(w, maxhist=0, variant="ok", default_limit=100, design=None):
    c = cfg_consts(NShape=len(w["shapes"]), NQuery=len(w["queries"]), DefaultLimit=default_limit, MaxHist=maxhist,
                   Variant=variant, IdSeq="<- MCIdSeq", Dist="<- MCDist", Indexed="<- MCIndexed",
                   InitAt="<- MCInitAt", InitF="<- MCInitF", Movers="<- MCMovers", GenShapes="<- MCGenShapes",
                   FarIds="<- MCFarIds", FarLB="<- MCFarLB", Pats="<- MCPats", **TOL)
    if design:
        c += " DesignGroups = %d\n DesignK = %s\n DesignPages = %s\n" % (design["groups"], design["k"], design["pages"])
    return c


# ---------------------------------------------------------------------------------------------- 1. design
VARIANTS_BROKEN = ["lb-inadmissible", "limit-before-filter", "cursor-counts-items"]
VARIANTS_FINE = ["ok", "radius-skips"]


def design(ctx):
    """TLC on the design: the implementation model satisfies the statement; the broken variants do not."""
    w, _ = make_world(ctx, "design", W_N52, rows=ctx.pick(1, 2), cols=2, ext=ctx.pick(1, 2), mov=2, near=1, far=0,
                      extraq=ctx.pick(0, 1), seed=ctx.seed)
    w["pats"] = w["pats"][:2]
    dz = dict(k="{0, 1, 3}", groups=2, pages="{1, 4}")
    out = {}

    def one(v):
        nm = "design_" + v.replace("-", "_")
        mc = mc_module(nm, "NearbyDesign", w)
        cfg = ("SPECIFICATION Spec\n" + consts(w, maxhist=3, variant=v, default_limit=2, design=dz) +
               "VIEW View\nINVARIANT TypeOK DesignOK SortedReplies\n")
        return v, ctx.tlc(nm, [MODS[0], MODS[4]], mc, cfg, workers=2, timeout=1500, expect_violation=(v in VARIANTS_BROKEN))

    with cf.ThreadPoolExecutor(max_workers=5) as ex:
        for v, r in ex.map(one, VARIANTS_FINE + VARIANTS_BROKEN):
            out[v] = r
    for v in VARIANTS_FINE + VARIANTS_BROKEN:
        r = out[v]
        if v in VARIANTS_FINE and not r["ok"]:
            raise common.Infra("the implementation model (variant %s) violates %s: specification error, see %s"
                               % (v, r["violated"], r["out"]))
        if v in VARIANTS_BROKEN and r["ok"]:
            raise common.Infra("the broken variant %s satisfies the statement on this world: the design check is vacuous" % v)
        ctx.log("TLC design %-20s %6d datasets: %s" % (v, r["distinct"],
                                                       "statement holds" if r["ok"] else "refuted (%s)" % r["violated"]))
    return out


# ---------------------------------------------------------------------------------------------- judging a trace
def judge(ctx, name, w, trace_path, timeout=1500):
    """TLC judges a recorded trace with NearbyTrace; returns (summary dict, list of REJ dicts, tlc result)."""
    mc = mc_module(name, "NearbyTrace", w)
    cfg = ("SPECIFICATION TraceSpec\n" + consts(w) + "POSTCONDITION Consumed\n")
    d = os.path.join(ctx.scratch, "trace_" + name)
    os.makedirs(d, exist_ok=True)
    tp = os.path.join(d, "trace.ndjson")
    if os.path.abspath(trace_path) != tp:
        shutil.copyfile(trace_path, tp)
    JUDGE_RUNS.add(name)
    r = ctx.tlc(name, [MODS[0], MODS[3]], mc, cfg, workers=1, timeout=timeout, files=[tp])
    os.remove(tp)
    if not r["ok"]:
        raise common.Infra("TLC could not judge the trace %s (%s): see %s" % (name, r["violated"], r["out"]))
    summ, rej = None, []
    with open(r["out"], errors="replace") as f:
        for line in f:
            if line.startswith('<<"REJ", '):
                rej.append(json.loads(json.loads(line.rstrip("\n")[len('<<"REJ", '):-2])))
            elif line.startswith('<<"SUM", '):
                summ = json.loads(json.loads(line.rstrip("\n")[len('<<"SUM", '):-2]))
    if summ is None:
        raise common.Infra("TLC did not consume the whole trace %s: see %s" % (name, r["out"]))
    if summ["rejected"] != len(rej):
        raise common.Infra("TLC %s: %d rejections counted, %d printed" % (name, summ["rejected"], len(rej)))
    return summ, rej, r


def judge_split(ctx, name, w, trace_path, parts):
    """Splits a trace at lines that start a fresh collection (or anywhere, carrying no state: a part that does not
    start with a reset is preceded by the set/del events of its worker so far) and judges the parts concurrently.
    Returns (queries judged, rejections as (line text, REJ dict))."""
    lines = [l for l in open(trace_path).read().split("\n") if l]
    if not lines:
        raise common.Infra("empty trace %s" % trace_path)
    # cut points: only where a line resets the dataset, so that every part is self-contained
    resets = [i for i, l in enumerate(lines) if '"reset":true' in l[:80]]
    if not resets or resets[0] != 0:
        raise common.Infra("trace %s does not start with a fresh collection" % trace_path)
    target = max(1, len(lines) // parts)
    cuts, last = [0], 0
    for i in resets[1:]:
        if i - last >= target:
            cuts.append(i)
            last = i
    cuts.append(len(lines))
    jobs = []
    for j in range(len(cuts) - 1):
        pp = os.path.join(ctx.scratch, "part_%s_%d.ndjson" % (name, j))
        with open(pp, "w") as f:
            f.write("\n".join(lines[cuts[j]:cuts[j + 1]]) + "\n")
        jobs.append((j, cuts[j], pp))
    out, nq = [], 0

    def one(job):
        j, off, pp = job
        s, rej, r = judge(ctx, "%s_%d" % (name, j), w, pp)
        os.remove(pp)
        return off, s, rej

    with cf.ThreadPoolExecutor(max_workers=JUDGES) as ex:
        for off, s, rej in ex.map(one, jobs):
            nq += s["queries"]
            for x in rej:
                x["line"] += off                      # 1-based line of the whole trace
                out.append(x)
    return nq, out, lines


# ---------------------------------------------------------------------------------------------- 2. histories from TLC
def gen_bfs(ctx, name, w):
    """Breadth-first: one shortest history per transition of the dataset graph of the movers."""
    mc = mc_module(name, "NearbyGen", w, movers_only=True)
    nm, ns = w["nmov"], len(w["gen_shapes"])
    cfg = ("SPECIFICATION Spec\n" + consts(w, maxhist=nm + 2) + "VIEW View\nINVARIANT TypeOK\nPROPERTY Emit\n")
    r = ctx.tlc(name, MODS[:2], mc, cfg, workers=1, timeout=1500)     # one worker: strict BFS, deterministic output
    if not r["ok"]:
        raise common.Infra("NearbyGen violates %s: see %s" % (r["violated"], r["out"]))
    beh = os.path.join(r["dir"], "histories.ndjson")
    k = ctx.extract_tr(r["out"], beh)
    os.remove(r["out"])
    states = (ns + 1) ** nm
    want = states * nm * ns + nm * (ns + 1) ** (nm - 1) * ns          # every Set, every Del of a present object
    if r["distinct"] != states or k != want:
        raise common.Infra("TLC %s: incomplete transition cover: %d datasets, %d histories (expected %d, %d)"
                           % (name, r["distinct"], k, states, want))
    ctx.log("TLC %s: %d datasets, every transition emitted as a shortest history: %d" % (name, r["distinct"], k))
    return r, beh, k


def gen_sim(ctx, name, w, num, depth):
    """Random long histories (tlc -simulate)."""
    mc = mc_module(name, "NearbySim", w, movers_only=True)
    cfg = "SPECIFICATION SimSpec\n" + consts(w, maxhist=depth) + "INVARIANT TypeOK\n"
    r = ctx.tlc(name, [MODS[0], MODS[2]], mc, cfg, workers=1, simulate=num, depth=depth + 5, timeout=900)
    if not r["ok"]:
        raise common.Infra("NearbySim violates %s: see %s" % (r["violated"], r["out"]))
    beh = os.path.join(r["dir"], "histories.ndjson")
    k = ctx.extract_tr(r["out"], beh)
    if k != num:
        raise common.Infra("TLC %s emitted %d histories instead of %d" % (name, k, num))
    ctx.log("TLC %s (simulate, seed %d): %d histories of %d steps" % (name, ctx.seed, k, depth))
    return r, beh, k


# ---------------------------------------------------------------------------------------------- executing and judging
class Acc:
    """What the run exercised (evidence and vacuity guards)."""

    def __init__(self):
        self.stats = {}
        self.states = self.trans = self.lines = self.judged = self.rejected = self.reported = 0
        self.samples, self.worlds, self.legs = [], {}, []

    def add_stats(self, st):
        for k, v in st.items():
            if isinstance(v, dict):
                d = self.stats.setdefault(k, {})
                for kk, vv in v.items():
                    d[kk] = d.get(kk, 0) + vv
            else:
                self.stats[k] = self.stats.get(k, 0) + v


def world_info(w):
    kinds = {}
    for s in w["shapes"]:
        kinds[s["kind"]] = kinds.get(s["kind"], 0) + 1
    return {"params": w["params"], "shapes_by_kind": kinds, "query_points": len(w["queries"]), "known_objects": len(w["ids"]),
            "far_objects": len(w["far"] or []), "max_known_m": w["max_known_mm"] / 1000.0,
            "nearest_far_m": w["min_far_lb_mm"] / 1000.0 if w["far"] else None,
            "pairs_at_distance_zero": w["pairs_at_distance_zero"], "queries_inside_a_rectangle": w["queries_inside_rectangle"],
            "shapes_spanning_180": w["shapes_spanning_the_180th_meridian"], "tied_shape_pairs": w["tied_shape_pairs"]}


def run_leg(ctx, acc, name, w, wpath, source, par=PAR, nq=1, nb=12, every=False, churn=0, spin=False, parts=JUDGES,
            report=True, maxpages=6):
    """Executes histories (source = ("in", path) | ("random", episodes, steps) | ("events", path)) on real servers,
    records, lets TLC judge; reports every rejection.  Returns (rejections, trace lines)."""
    trace = os.path.join(ctx.scratch, "trace_%s.ndjson" % name)
    args = ["nearby-run", "-world", wpath, "-out", trace, "-par", str(par), "-seed", str(ctx.seed), "-nq", str(nq),
            "-nb", str(nb), "-maxpages", str(maxpages), "-churn", str(churn), "-dir", os.path.join(ctx.scratch, "srv_" + name)]
    if every:
        args.append("-every")
    if spin:
        args.append("-spinlock")
    if source[0] == "in":
        args += ["-in", source[1]]
    elif source[0] == "random":
        args += ["-random", str(source[1]), "-steps", str(source[2])]
    else:
        args += ["-events", source[1]]
    rc, js, err = ctx.harness(args, timeout=3000)
    if rc != 0:
        raise common.Infra("nearby-run %s failed: %s" % (name, err[-2000:]))
    st = js["stats"]
    parts = max(1, min(parts, st["queries"] // 4000))      # a TLC launch costs seconds: small traces are not split
    nq_j, rej, lines = judge_split(ctx, name, w, trace, parts)
    if nq_j != st["queries"]:
        raise common.Infra("leg %s: %d queries recorded, %d judged by TLC" % (name, st["queries"], nq_j))
    ctx.log("leg %-14s %5d histories, %6d set/del, %7d queries (%d pages, %d items) on real servers; TLC judged %d, rejected %d"
            % (name, st["histories"], st["sets"] + st["dels"], st["queries"], st["pages"], st["items"], nq_j, len(rej)))
    if report:
        acc.add_stats(st)
        acc.lines += len(lines)
        acc.judged += nq_j
        acc.rejected += len(rej)
        acc.legs.append({"leg": name, "world": w["params"]["name"], "histories": st["histories"], "queries": st["queries"],
                         "rejected": len(rej)})
        if js.get("samples") and len(acc.samples) < 4:
            acc.samples.append(js["samples"][0][:1200])
        for x in rej:
            if acc.reported >= 6:
                break
            acc.reported += 1
            report_rejection(ctx, name, w, args, lines, x)
    os.remove(trace)
    return rej, lines


def describe(w, ev, why):
    q = w["queries"][ev["q"] - 1]
    items = [[(w["ids"][it["o"] - 1] if it["o"] > 0 else ("far#%d" % -it["o"] if it["o"] < 0 else "?")), it["mm"]]
             for pg in ev["pages"] for it in pg["items"]]
    return ("TLC rejects a NEARBY reply of the real server: %s; query point (%s, %s), command `%s`, %d page(s), "
            "reply (id, mm) %s" % (", ".join(sorted(why)), q["lat"], q["lon"], ev["cmd"], len(ev["pages"]), items[:30]))


def report_rejection(ctx, leg, w, args, lines, x):
    """x = REJ record of TLC (line, ev 1-based, why).  The replay payload carries the set/del events that led to the
    dataset (from the start of the collection) and the rejected query."""
    li = x["line"] - 1
    rec = json.loads(lines[li])
    ev = rec["ev"][x["ev"] - 1]
    start = li
    while start > 0 and not json.loads(lines[start])["reset"]:
        start -= 1
    evs = []
    for j in range(start, li + 1):
        r = json.loads(lines[j])
        last = x["ev"] if j == li else len(r["ev"])
        evs += [e for e in r["ev"][:last - (1 if j == li else 0)] if e["t"] != "q"]
    evs.append(ev)
    text = describe(w, ev, x["why"]) + " [leg %s, line %s]" % (leg, rec["id"])
    common.report(ctx, "c13-%s-%s-e%d" % (leg, rec["id"].replace("#", "_"), x["ev"]), text,
                  {"kind": "nearby-events", "world_params": w["params"], "world_max_known_mm": w["max_known_mm"],
                   "events": evs, "why": x["why"], "run_args": [a for a in args[1:] if not a.startswith("/")]})


# ---------------------------------------------------------------------------------------------- 4. self-test of the binding
def corrupt(ev, rng):
    """Corrupts the recorded reply of one query event in place so that it certainly contradicts C13 whatever the dataset;
    returns a description or None when the event offers no such corruption."""
    pages = ev["pages"]
    items = pages[0]["items"]
    kinds = ["swap", "drop", "mm", "dup", "alien", "nomm"]
    rng.shuffle(kinds)
    for kind in kinds:
        if kind == "swap" and ev["dist"] and len(pages) == 1 and len(items) >= 2:
            a, b = items[0], items[-1]
            if a["o"] > 0 and b["o"] > 0 and a["mm"] >= 0 and b["mm"] - a["mm"] > 2 * max(1000, b["mm"] // 200) + 10:
                items[0], items[-1] = b, a
                return "first and last entry swapped"
        if kind == "drop" and len(pages) == 1 and pages[0]["next"] == 0 and len(items) >= 1 and ev["r"] <= 0:
            del items[rng.randrange(len(items))]
            return "an entry of a complete reply dropped"
        if kind == "mm" and ev["dist"]:
            c = [it for pg in pages for it in pg["items"] if it["o"] > 0 and it["mm"] > 60000]
            if c:
                it = rng.choice(c)
                it["mm"] = int(it["mm"] * (1.02 if rng.random() < 0.5 else 0.98))
                return "a reported distance changed by 2 %"
        if kind == "dup" and len(items) >= 1:
            items.append(dict(items[0]))
            return "an entry duplicated"
        if kind == "alien" and len(items) >= 1:
            items[rng.randrange(len(items))]["o"] = 0
            return "an entry replaced by an id the collection never held"
        if kind == "nomm" and ev["dist"] and len(items) >= 1:
            items[rng.randrange(len(items))]["mm"] = -1
            return "a reported distance removed"
    return None


def selftest(ctx, w, lines, want, rejected_before):
    """Corrupted copies of recorded replies must be rejected by TLC - exactly those (and the ones TLC rejected
    in the first place, rejected_before = {(line, ev)})."""
    rng = random.Random(ctx.seed * 7919 + 13)
    n = len(lines)
    end = n
    for i in range(1, n):                       # a prefix that ends before a fresh collection, about 400 lines
        if i >= 400 and '"reset":true' in lines[i][:80]:
            end = i
            break
    recs = [json.loads(l) for l in lines[:min(end, 1200)]]
    cand = [(i, j) for i, r in enumerate(recs) for j, e in enumerate(r["ev"])
            if e["t"] == "q" and (i + 1, j + 1) not in rejected_before]
    rng.shuffle(cand)
    done, kinds = {}, {}
    for i, j in cand:
        if len(done) >= want:
            break
        d = corrupt(recs[i]["ev"][j], rng)
        if d:
            done[(i + 1, j + 1)] = d
            kinds[d] = kinds.get(d, 0) + 1
    if len(done) < min(want, 10) or len(kinds) < 4:
        raise common.Infra("self-test could not build enough corrupted replies (%d, %s)" % (len(done), kinds))
    path = os.path.join(ctx.scratch, "corrupted.ndjson")
    with open(path, "w") as f:
        for r in recs:
            f.write(json.dumps(r, separators=(",", ":")) + "\n")
    nq, rej, _ = judge_split(ctx, "selftest", w, path, 2)
    got = {(x["line"], x["ev"]) for x in rej}
    missed = [done[k] for k in done if k not in got]
    extra = [k for k in got if k not in done and k not in rejected_before]
    ctx.log("self-test: %d recorded replies corrupted %s: TLC rejected %d of them (and %d others)"
            % (len(done), kinds, len(done) - len(missed), len(extra)))
    if missed:
        raise common.Infra("binding is vacuous: %d corrupted replies were accepted by TLC, e.g. %s" % (len(missed), missed[:3]))
    if extra:
        raise common.Infra("self-test: TLC rejected %d replies that were not corrupted (and were accepted before)" % len(extra))
    return len(done), kinds


# ---------------------------------------------------------------------------------------------- tiers
COVER = ["np", "am", "sp", "eq", "n52"]                    # grids of the exhaustive covers
CENTRES = [dict(lat0=89.97, lon0=40.0, dlat=0.04, dlon=180.0),       # random worlds: a cap around the north pole,
           dict(lat0=12.0, lon0=180.0, dlat=0.05, dlon=0.05),        # a patch on the 180th meridian,
           dict(lat0=0.0, lon0=-60.0, dlat=0.03, dlon=0.03),         # on the equator,
           dict(lat0=-89.96, lon0=0.0, dlat=0.05, dlon=180.0),       # around the south pole,
           dict(lat0=47.0, lon0=8.0, dlat=0.2, dlon=0.3)]            # mid latitude, 40 km wide


def run(ctx):
    if ctx.replay:
        return run_replay(ctx)
    acc = Acc()
    q = ctx.quick
    # 1. design
    dz = design(ctx)
    # 2. exhaustive covers of the dataset graph, on grids at the poles / the 180th meridian / the equator / mid latitude
    first = None
    order = COVER[(ctx.seed - 1) % len(COVER):] + COVER[:(ctx.seed - 1) % len(COVER)]
    for n, g in enumerate(order[:ctx.pick(1, len(COVER))]):
        big = (not q) and n < 1          # one cover with three movers (43 560 histories), the others with two
        w, wp = make_world(ctx, "cover_" + g, GRIDS[g], rows=2, cols=2, ext=3, mov=3 if big else 2, near=ctx.pick(30, 40),
                           far=ctx.pick(1500, 6000), extraq=3, nring=12, seed=ctx.seed)
        acc.worlds["cover_" + g] = world_info(w)
        r, beh, k = gen_bfs(ctx, "gen_" + g, w)
        acc.states += r["distinct"]
        acc.trans += k
        # big covers are executed and judged in pieces (memory of the trace, of TLC's copy of it)
        hs = [l for l in open(beh).read().split("\n") if l]
        os.remove(beh)
        piece = 6000
        for c in range(0, len(hs), piece):
            part = os.path.join(ctx.scratch, "hist_%s_%d.ndjson" % (g, c // piece))
            with open(part, "w") as f:
                f.write("\n".join(hs[c:c + piece]) + "\n")
            rej, lines = run_leg(ctx, acc, "cover_%s%s" % (g, "" if len(hs) <= piece else "_%d" % (c // piece)), w, wp,
                                 ("in", part), nq=1 if (q or big) else 2, nb=ctx.pick(9, 14), churn=ctx.pick(200, 500), spin=(n == 1))
            os.remove(part)
            if first is None:
                first = (w, lines, {(x["line"], x["ev"]) for x in rej})
            del lines
    # the same cover on a collection that holds nothing else (empty index, single-leaf tree, replies of 0..3 objects)
    g = order[ctx.pick(0, 2)]
    w, wp = make_world(ctx, "pure_" + g, GRIDS[g], rows=2, cols=2, ext=3, mov=2, near=0, far=0, extraq=3, seed=ctx.seed + 7)
    acc.worlds["pure_" + g] = world_info(w)
    r, beh, k = gen_bfs(ctx, "genpure_" + g, w)
    acc.states += r["distinct"]
    acc.trans += k
    run_leg(ctx, acc, "pure_" + g, w, wp, ("in", beh), nq=ctx.pick(1, 2), nb=ctx.pick(6, 14))
    os.remove(beh)
    # 3. random long histories from TLC on a 5x5 grid with 5 movers
    g = order[1]
    w, wp = make_world(ctx, "sim_" + g, GRIDS[g], rows=5, cols=5, ext=ctx.pick(12, 20), mov=5, near=ctx.pick(40, 60),
                       far=ctx.pick(3000, 10000), extraq=4, nring=10, seed=ctx.seed + 1)
    acc.worlds["sim_" + g] = world_info(w)
    r, beh, k = gen_sim(ctx, "sim_" + g, w, ctx.pick(40, 400), ctx.pick(15, 30))
    acc.states += r["generated"]
    acc.trans += r["generated"]
    run_leg(ctx, acc, "sim_" + g, w, wp, ("in", beh), nq=1, nb=5, every=True, churn=7)
    # 4. code -> model: random worlds, random histories (fillers move too), random queries
    nworlds = ctx.pick(2, len(CENTRES))
    for n in range(nworlds):
        c = CENTRES[(ctx.seed - 1 + n) % len(CENTRES)]
        name = "rand%d" % n
        w, wp = make_world(ctx, name, c, rows=0, cols=0, pool=ctx.pick(60, 120), ext=ctx.pick(15, 30), mov=6,
                           near=ctx.pick(40, 60), far=ctx.pick(2000, 8000), extraq=ctx.pick(12, 20), nring=10, seed=ctx.seed * 31 + n)
        acc.worlds[name] = world_info(w)
        run_leg(ctx, acc, name, w, wp, ("random", ctx.pick(PAR, 4 * PAR), ctx.pick(20, 40)), nq=1, nb=8, churn=9, spin=(n == 1))
    # a dense world without far objects: more than a hundred known candidates (the default limit is exact)
    c = CENTRES[1] if "am" not in order[:2] else CENTRES[(ctx.seed + 1) % len(CENTRES)]    # every seed visits the 180th meridian
    w, wp = make_world(ctx, "dense", c, rows=0, cols=0, pool=30, ext=10, mov=4, near=ctx.pick(140, 220), far=0,
                       extraq=8, nring=15, seed=ctx.seed * 17 + 5)
    acc.worlds["dense"] = world_info(w)
    run_leg(ctx, acc, "dense", w, wp, ("random", ctx.pick(4, PAR), ctx.pick(8, 20)), nq=1, nb=6)
    # near ties around both poles: seen from a pole every rectangle is due north / south, so every node bound is
    # tight and the order among objects a few centimetres apart is decided by the exactness of the bounds
    for nm, c in (("ties_np", CENTRES[0]), ("ties_sp", CENTRES[3])):
        w, wp = make_world(ctx, nm, c, rows=0, cols=0, pool=20, ext=5, mov=4, near=100, far=0, extraq=6,
                           nring=ctx.pick(300, 600), seed=ctx.seed * 13 + 3)
        acc.worlds[nm] = world_info(w)
        run_leg(ctx, acc, nm, w, wp, ("random", ctx.pick(4, PAR), ctx.pick(6, 15)), nq=2, nb=8, par=4, parts=4)
    try:
        # 5. self-test
        nmut, mkinds = selftest(ctx, first[0], first[1], ctx.pick(60, 300), first[2])
        if ctx.violations:
            # the verdict is out (exit 1); the vacuity guards below describe a run without findings
            ctx.log("%d replies rejected by TLC in total, %d reported" % (acc.rejected, acc.reported))

        st = acc.stats
        need = ["default-limit", "knn", "radius-just-outside", "radius-just-inside", "radius-at-distance", "radius-and-limit",
                "radius-zero", "radius-small", "match", "where", "filter-and-radius", "paging", "output", "random", "knn-large"]
        missing = [c for c in need if not st.get("queries_by_class", {}).get(c)]
        guard = not ctx.violations
        if guard and (acc.judged == 0 or st.get("queries", 0) == 0 or missing):
            raise common.Infra("vacuous: %d queries judged, classes never asked: %s" % (acc.judged, missing))
        ow = st.get("overwrites_by_kind_change", {})
        for kk in ("point->extended", "extended->point", "point->string", "string->point", "absent->extended", "extended->extended"):
            if guard and not ow.get(kk):
                raise common.Infra("vacuous: no history overwrote %s" % kk)
        if guard and not (st["dels"] and st["items_at_distance_zero"] and st["items_extended_objects"] and st["items_far_objects"]
                and st["replies_with_default_limit_items"] and st["paging_runs_completed"] and st["queries_json"]
                and st["far_objects_churned"] and len(st["queries_by_output"]) == 5):
            raise common.Infra("vacuous: a situation of the quantifier was never exercised: %s" % st)
        if st["negative_radius_answered"]:
            ctx.notes.append("observation (not part of C13): %d NEARBY queries with a negative radius were answered instead of refused"
                             % st["negative_radius_answered"])
        # one line for the many TLC launches that judged pieces of traces
        jud = [r for r in ctx.tlc_runs if r["name"] in JUDGE_RUNS]
        if jud:
            ctx.tlc_runs = [r for r in ctx.tlc_runs if r["name"] not in JUDGE_RUNS] + [{
                "name": "NearbyTrace: %d launches judging pieces of the recorded traces" % len(jud), "mode": "bfs",
                "generated": sum(r["generated"] for r in jud), "distinct": sum(r["distinct"] for r in jud),
                "depth": max(r["depth"] for r in jud), "wall_s": round(sum(r["wall_s"] for r in jud), 1), "violated": None}]
        common.write_evidence(ctx, "model_checking", {
            "states": acc.states,
            "transitions": acc.trans,
            "traces_validated_against_impl": st["histories"],
            "samples": acc.samples,
            "trace_lines_judged": acc.lines,
            "nearby_queries_judged_by_TLC": acc.judged,
            "rejected": acc.rejected,
            "legs": acc.legs,
            "execution": st,
            "worlds": acc.worlds,
            "design_level": {v: ("statement holds on %d datasets x queries x trees" % r["distinct"]) if r["ok"]
                             else "refuted: %s" % r["violated"] for v, r in dz.items()},
            "selftest_corrupted_replies_rejected": nmut,
            "selftest_kinds": mkinds,
            "tolerances": dict(TOL, note="mm; metres within max(TolAbs, d/TolDiv); order margin OrdEps"),
            "exhaustive": True,
            "explanation": "TLC enumerated every dataset of the movers over the shapes of a grid (VIEW hides the history) and emitted "
                           "every transition as a shortest history; each was executed on a real collection holding near and far "
                           "fillers and a battery of NEARBY queries was recorded on the dataset reached; random histories (TLC "
                           "simulation on a 5x5 grid, harness-drawn on random worlds) likewise; TLC judged every recorded reply "
                           "against the statement (Nearby!Defects) over the harness' independent distance tables.",
        }, [
            "distances enter the specification as integer tables (mm) from the harness' own geometry: great circle on the mean "
            "sphere 6371008.8 m via unit vectors; point-to-rectangle by numerical minimisation over the rectangle boundary; "
            "metres are compared within max(1 m, 0.5 %), objects within that band of the radius are not judged, two objects "
            "whose table distances differ by at most 5 mm may come in either order",
            "the bounding rectangle of an object with coordinates on both sides of the 180th meridian is the numeric min/max "
            "rectangle (it spans the globe the long way round), as the statement's 'bounding rectangle' is read",
            "radius 0 is read as 'no radius' (as coded; the statement speaks of positive radii); far filler objects are anonymous "
            "to the model: only a lower bound of their distance is known, radii never reach them",
            "a reply with cursor 0 is read as 'everything was reported' (documented meaning of the cursor); cursor values are "
            "otherwise opaque; SPARSE, FENCE, non-POINT targets and ROAM are not exercised",
        ])
    except common.Infra as e:
        if not ctx.violations:
            raise
        # the verdict is out (exit 1): the self-test / vacuity guards describe runs without findings
        ctx.log("after %d violation(s): %s" % (len(ctx.violations), str(e)[:300]))


def run_replay(ctx):
    p = json.load(open(ctx.replay))
    wp = dict(p["world_params"])
    name = wp.pop("name")
    flag = {"next": "ext", "npool": "pool", "nmov": "mov", "nnear": "near", "nfar": "far", "nextra": "extraq"}
    w, wpath = make_world(ctx, name, {}, **{flag.get(k, k): v for k, v in wp.items()})
    if w["max_known_mm"] != p["world_max_known_mm"]:
        raise common.Infra("the world of the replay file could not be rebuilt")
    evp = os.path.join(ctx.scratch, "replay_events.ndjson")
    evs = p["events"]
    with open(evp, "w") as f:
        for i in range(0, len(evs), 40):
            f.write(json.dumps({"id": "replay#%d" % (i // 40), "reset": i == 0, "ev": evs[i:i + 40]},
                               separators=(",", ":")) + "\n")
    acc = Acc()
    spin = "-spinlock" in p.get("run_args", [])
    rej, _ = run_leg(ctx, acc, "replay", w, wpath, ("events", evp), par=1, spin=spin, parts=1)
    if acc.judged == 0:
        raise common.Infra("replay judged nothing")
    ctx.log("replay: %d queries judged, %d rejected" % (acc.judged, len(rej)))
