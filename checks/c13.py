"""C13  NEARBY returns nearest neighbours in distance order.

Specification: spec/Nearby.tla
  * the dataset of one collection and its update history (Set / Del over shapes: points, extended objects
    - rectangle, LineString, Polygon, MultiPoint, Feature -, string values, absent);
  * the STATEMENT of C13 as a judgement of an observed NEARBY run (Defects / Accepts): candidates (MATCH, WHERE),
    Sorted, KClosest, RadiusExact (objects within the stated tolerance of the radius are not judged), count against
    LIMIT / the default limit, paging runs (concatenation of the pages = one distance order, cursor 0 = everything
    reported), DISTANCE within 0.5 % / 1 m;
  * a model of the implementation (best-first traversal of a tree with lower bounds, radius cut-off, filters,
    LIMIT / CURSOR counting) that TLC checks against the statement on every reachable dataset x query x tree, and
    broken variants of it that TLC refutes.
Distances are not computed in TLA+: Dist / FarLB are integer tables (mm) from the harness' own geometry
(`t38conf nearby-world`: unit-vector great-circle distance, numerical minimisation over the rectangle boundary).

Legs of one run
  1. design       TLC, exhaustive on a small world: DesignOK for the variant "ok" and the harmless "radius-skips";
                  every broken variant must violate it.
  2. model->code  spec/NearbyGen.tla: breadth-first, one shortest history per transition of the dataset graph (every
                  insert / move / overwrite / delete from every dataset); spec/NearbySim.tla: random long histories on
                  larger grids.  `t38conf nearby-run` executes every history on real collections that also hold hundreds
                  to thousands of filler objects (near ones known to the model, far ones anonymous), asks a battery of
                  NEARBY queries (query cells, k, radii at / around the occurring distances, filters, paging, outputs,
                  RESP and JSON) on the dataset reached and records the replies.
  3. code->model  random worlds (random positions incl. poles / 180th meridian), random histories that also move the
                  fillers, random queries; recorded.
  Every recorded trace is judged by TLC with spec/NearbyTrace.tla (Nearby!Defects on the dataset at that moment).
  4. self-test    corrupted copies of recorded replies must be rejected by TLC (else the binding is vacuous: Infra).
A VIOLATION is a reply of the real server that TLC rejects.
"""
import json
import os
import random

from . import common
from .common import cfg_consts

MODS = ["Nearby.tla", "NearbyGen.tla", "NearbySim.tla", "NearbyTrace.tla"]
PAR = max(4, min(common.NCPU, 12))
TOL = dict(OrdEps=5, TolAbs=1000, TolDiv=200)

# ---------------------------------------------------------------------------------------------- worlds
# grid worlds: (lat0, lon0) south-west cell, steps in degrees
W_EQ = dict(lat0=-0.004, lon0=10.0, dlat=0.008, dlon=0.008)            # straddles the equator
W_NP = dict(lat0=89.985, lon0=-170.0, dlat=0.005, dlon=90.0)           # around the north pole, columns 90 degrees apart
W_SP = dict(lat0=-89.996, lon0=30.0, dlat=0.004, dlon=50.0)            # around the south pole
W_AM = dict(lat0=-17.0, lon0=179.985, dlat=0.01, dlon=0.01)            # columns straddle the 180th meridian
W_N52 = dict(lat0=52.0, lon0=4.9, dlat=0.004, dlon=0.009)              # mid latitude, anisotropic
W_PHX = dict(lat0=33.4, lon0=-111.9, dlat=0.01, dlon=0.01)
GRIDS = {"eq": W_EQ, "np": W_NP, "sp": W_SP, "am": W_AM, "n52": W_N52, "phx": W_PHX}


def make_world(ctx, name, base, **kw):
    """Runs `nearby-world`; returns (world dict, path of the world file)."""
    path = os.path.join(ctx.scratch, "world_%s.json" % name)
    args = ["nearby-world", "-name", name, "-out", path]
    p = dict(base)
    p.update(kw)
    for k, v in p.items():
        args += ["-" + k, repr(float(v)) if isinstance(v, float) else str(v)]
    rc, w, err = ctx.harness(args)
    if rc != 0:
        raise common.Infra("nearby-world %s failed: %s" % (name, err))
    return w, path


def tla_chars(s):
    return "<<" + ", ".join('"%s"' % c for c in s) + ">>"


def tla_ints(xs):
    return "<<" + ", ".join(str(x) for x in xs) + ">>"


def mc_module(name, base, w, movers_only=False, nofar=False):
    """The wrapper module with the sequence / function valued constants of a world."""
    n = w["nmov"] if movers_only else len(w["ids"])
    ids = w["ids"][:n]
    far = [] if (nofar or movers_only) else [f["id"] for f in (w["far"] or [])]
    dist = "<<" + ",\n  ".join(tla_ints(row) for row in w["dist_mm"]) + ">>"
    indexed = "<<" + ", ".join("TRUE" if s["indexed"] else "FALSE" for s in w["shapes"]) + ">>"
    return """---- MODULE MC_%s ----
EXTENDS %s
MCIdSeq == <<%s>>
MCDist == %s
MCIndexed == %s
MCInitAt == %s
MCInitF == %s
MCMovers == 1..%d
MCGenShapes == {%s}
MCFarIds == <<%s>>
MCFarLB == %s
MCPats == <<%s>>
====
""" % (name, base, ", ".join(tla_chars(i) for i in ids), dist, indexed,
       tla_ints(w["init_at"][:n]), tla_ints(w["init_f"][:n]), w["nmov"],
       ", ".join(str(s) for s in w["gen_shapes"]), ", ".join(tla_chars(i) for i in far),
       tla_ints(w["far_lb_mm"]), ", ".join(tla_chars(p) for p in w["pats"]))


def consts(w, maxhist=0, variant="ok", default_limit=100, design=None):
    d = design or dict(k="{0}", groups=1, pages="{1}")
    return (cfg_consts(NShape=len(w["shapes"]), NQuery=len(w["queries"]), DefaultLimit=default_limit, MaxHist=maxhist,
                       Variant=variant, IdSeq="<- MCIdSeq", Dist="<- MCDist", Indexed="<- MCIndexed",
                       InitAt="<- MCInitAt", InitF="<- MCInitF", Movers="<- MCMovers", GenShapes="<- MCGenShapes",
                       FarIds="<- MCFarIds", FarLB="<- MCFarLB", Pats="<- MCPats", DesignGroups=d["groups"], **TOL) +
            " DesignK = %s\n DesignPages = %s\n" % (d["k"], d["pages"]))


# ---------------------------------------------------------------------------------------------- 1. design
VARIANTS_BROKEN = ["lb-inadmissible", "limit-before-filter", "cursor-counts-items"]
VARIANTS_FINE = ["ok", "radius-skips"]


def design(ctx):
    """TLC on the design: the implementation model satisfies the statement; the broken variants do not."""
    w, _ = make_world(ctx, "design", W_N52, rows=ctx.pick(1, 2), cols=2, ext=ctx.pick(1, 2), mov=2, near=1, far=0,
                      extraq=1, seed=ctx.seed)
    w["pats"] = w["pats"][:2]
    dz = dict(k="{0, 1, 3}", groups=2, pages="{1, 4}")
    out = {}
    for v in VARIANTS_FINE + VARIANTS_BROKEN:
        nm = "design_" + v.replace("-", "_")
        mc = mc_module(nm, "Nearby", w)
        cfg = ("SPECIFICATION Spec\n" + consts(w, maxhist=3, variant=v, default_limit=2, design=dz) +
               "VIEW View\nINVARIANT TypeOK DesignOK SortedReplies\n")
        r = ctx.tlc(nm, MODS[:1], mc, cfg, workers=ctx.pick(4, 8), timeout=1500, expect_violation=(v in VARIANTS_BROKEN))
        out[v] = r
        if v in VARIANTS_FINE and not r["ok"]:
            raise common.Infra("the implementation model (variant %s) violates %s: specification error, see %s"
                               % (v, r["violated"], r["out"]))
        if v in VARIANTS_BROKEN and r["ok"]:
            raise common.Infra("the broken variant %s satisfies the statement on this world: the design check is vacuous" % v)
        ctx.log("TLC design %-20s %6d datasets: %s" % (v, r["distinct"],
                                                       "statement holds" if r["ok"] else "refuted (%s)" % r["violated"]))
    return out


def run(ctx):
    if ctx.replay:
        return run_replay(ctx)
    design(ctx)


def run_replay(ctx):
    raise common.Infra("not yet")
