"""C20  Roaming geofences report exactly the neighbours inside the radius.

Specification: spec/Roam.tla (neighbour sets over an integer distance table, nearby /
faraway / NODWELL, glob id patterns; the statement of C20 as action property RoamExact,
the client-side consequence TrackedPairsExact as invariant; named deviation AsCoded = D8).
Generators: RoamGen (BFS: one shortest behaviour per transition = every move of every
object from every configuration x pattern x NODWELL) and RoamSim (random long behaviours
on larger grids).

The distance / rectangle tables are computed by the harness' own haversine code
(`t38conf roam-table`) for concrete coordinates and enter the specification as CONSTANTS.

Binding (model -> code): `t38conf roam-replay` executes every behaviour on real servers
with the fence registered as channel (SETCHAN + SUBSCRIBE), webhook (SETHOOK to an HTTP
endpoint inside the harness) and live connection, and compares after every SET the
nearby / faraway entries of each transport with TLC's (ids exactly, metres within 0.5 %).
A mutation self-test corrupts expected values of a sample of behaviours and requires the
harness to notice every corruption (otherwise the run is vacuous: Infra).
"""
import json
import os
import random
import time

from . import common
from .common import cfg_consts

MODS = ["Roam.tla", "RoamGen.tla", "RoamSim.tla"]
IDS3 = ["a1", "a2", "b1"]
IDS4 = ["a1", "a2", "b1", "b2"]
IDS5 = ["a1", "a2", "b1", "b2", "c1"]
TRANSPORTS = "chan,hook,live"
THOROUGH_BUDGET_S = 600                      # extra simulation rounds are started until this much time has passed
PAR = str(max(4, min(common.NCPU, 16)))      # parallel real servers

# grids: (name, lat0, lon0, rows, cols, side_ns, side_ew, radius)
G_PHX = dict(lat0=33.4, lon0=-111.9, side_ns=800, side_ew=800, radius="1000")       # as tests/fence_roaming_test.go
G_EQ = dict(lat0=-0.0036, lon0=10.0, side_ns=800, side_ew=800, radius="1000")      # straddles the equator
G_N60 = dict(lat0=60.0, lon0=24.9, side_ns=700, side_ew=900, radius="1000")         # anisotropic in degrees and metres
G_S45 = dict(lat0=-45.0, lon0=170.2, side_ns=80, side_ew=80, radius="100.5")        # small radius, southern/eastern
G_AM = dict(lat0=-17.0, lon0=179.989, side_ns=800, side_ew=800, radius="1000")       # columns straddle the 180th meridian
G_FINE = dict(lat0=33.4, lon0=-111.9, side_ns=400, side_ew=400, radius="1000")      # radius spans two cells


def tla_chars(s):
    return "<<" + ", ".join('"%s"' % c for c in s) + ">>"


def make_table(ctx, name, grid, rows, cols):
    args = ["roam-table", "-rows", str(rows), "-cols", str(cols), "-radius", grid["radius"]]
    for k in ("lat0", "lon0", "side_ns", "side_ew"):
        args += ["-" + k.replace("_", "-"), repr(float(grid[k]))]
    rc, t, err = ctx.harness(args)
    if rc != 0:
        raise common.Infra("roam-table failed: " + err)
    if t["min_margin_pct"] < 5 or t["min_rect_margin_pct"] < 5:
        raise common.Infra("grid %s unfit: a distance is within %.2f %% of the radius / %.2f %% of the rectangle edge"
                           % (name, t["min_margin_pct"], t["min_rect_margin_pct"]))
    if not (t["pairs_inside_circle"] and t["pairs_in_rect_outside_circle"] and t["pairs_outside_rect"]):
        raise common.Infra("grid %s does not exercise the quantifier (inside/corner/outside pairs: %d/%d/%d)" % (
            name, t["pairs_inside_circle"], t["pairs_in_rect_outside_circle"], t["pairs_outside_rect"]))
    path = os.path.join(ctx.scratch, "table_%s.json" % name)
    json.dump(t, open(path, "w"))
    return t, path


def mc_module(name, base, t, ids, pats):
    n = len(t["cells"])
    dist = "<<" + ",\n  ".join("<<" + ", ".join(str(x) for x in row) + ">>" for row in t["dist_mm"]) + ">>"
    rect = "<<" + ",\n  ".join("<<" + ", ".join("TRUE" if x else "FALSE" for x in row) + ">>" for row in t["rect"]) + ">>"
    return """---- MODULE MC_%s ----
EXTENDS %s
MCIdSeq == <<%s>>
MCPatterns == {%s}
MCDist == %s
MCRect == %s
====
""" % (name, base, ", ".join(tla_chars(i) for i in ids), ", ".join(tla_chars(p) for p in pats), dist, rect), n


def consts(t, n, maxhist, nodwells, withdel, ascoded):
    return (cfg_consts(NCells=n, Radius=int(t["radius_mm"]), WithDel=withdel, AsCoded=ascoded, MaxHist=maxhist,
                       IdSeq="<- MCIdSeq", Patterns="<- MCPatterns", Dist="<- MCDist", Rect="<- MCRect") +
            " NoDwells = {%s}\n" % ", ".join("TRUE" if x else "FALSE" for x in nodwells))


PROPS = "INVARIANT TypeOK TrackedPairsExact\nPROPERTY HistConsistent RoamExact RadiusRespected SortedByDistance"


def bfs(ctx, name, t, ids, pats, nodwells=(False, True), withdel=True, timeout=900):
    mc, n = mc_module(name, "RoamGen", t, ids, pats)
    cfg = ("SPECIFICATION Spec\n" + consts(t, n, len(ids) + 2, nodwells, withdel, False) +
           "VIEW View\n" + PROPS + " Emit\n")
    # one worker: strict breadth-first order, so the output is deterministic and every configuration is
    # reached by a shortest behaviour (never cut by MaxHist)
    r = ctx.tlc(name, MODS[:2], mc, cfg, timeout=timeout, workers=1)
    if not r["ok"]:
        raise common.Infra("the intended Roam design violates its own property %s (specification error): see %s"
                           % (r["violated"], r["out"]))
    beh = os.path.join(r["dir"], "behaviours.ndjson")
    k = ctx.extract_tr(r["out"], beh)
    os.remove(r["out"])
    ctx.log("TLC %s: %d distinct configurations, %d transitions emitted as behaviours (%.0fs)"
            % (name, r["distinct"], k, r["wall_s"]))
    ninit = len(pats) * len(nodwells)
    want = ((len(ids) * n + (len(ids) if withdel else 0)) * (n + 1) ** len(ids)
            - (len(ids) * (n + 1) ** (len(ids) - 1) if withdel else 0)) * ninit
    if r["distinct"] != ninit * (n + 1) ** len(ids) or k != want or k != r["generated"] - ninit:
        raise common.Infra("TLC %s: incomplete transition cover: %d configurations, %d behaviours (expected %d, %d)"
                           % (name, r["distinct"], k, ninit * (n + 1) ** len(ids), want))
    return r, beh, k


def sim(ctx, name, t, ids, pats, num, depth, timeout=900):
    mc, n = mc_module(name, "RoamSim", t, ids, pats)
    cfg = ("SPECIFICATION SimSpec\n" + consts(t, n, depth, (False, True), True, False) + PROPS + "\n")
    r = ctx.tlc(name, MODS[:1] + MODS[2:], mc, cfg, workers=1, simulate=num, depth=depth + 5, timeout=timeout)
    if not r["ok"]:
        raise common.Infra("RoamSim violates %s: see %s" % (r["violated"], r["out"]))
    beh = os.path.join(r["dir"], "behaviours.ndjson")
    k = ctx.extract_tr(r["out"], beh)
    ctx.log("TLC %s (simulate, seed %d): %d behaviours of %d steps" % (name, ctx.seed, k, depth))
    if k != num:
        raise common.Infra("TLC %s emitted %d behaviours instead of %d" % (name, k, num))
    return r, beh, k


def design_deviation(ctx, t, ids, pats):
    """TLC on the design: the as-coded deviation (neighbour set = search rectangle) must violate C20."""
    mc, n = mc_module("ascoded", "RoamGen", t, ids, pats)
    out = []
    for prop in ("PROPERTY RoamExact", "INVARIANT TrackedPairsExact"):
        cfg = "SPECIFICATION Spec\n" + consts(t, n, len(ids) + 1, (False, True), True, True) + "VIEW View\n" + prop + "\n"
        r = ctx.tlc("ascoded", MODS[:2], mc, cfg, timeout=300, expect_violation=True, workers=4)
        out.append(r["violated"])
        if r["violated"] is None:
            raise common.Infra("the as-coded deviation does not violate %s on this grid: the grid cannot tell a "
                               "rectangle from a circle (vacuous)" % prop)
    ctx.log("TLC ascoded: deviation D8 (radius filter ineffective) violates %s on the design, as expected" % " and ".join(out))
    return out


TOTAL_KEYS = ("behaviours", "steps", "set_steps", "del_steps", "compared", "entries_agreed", "meters_checked",
              "empty_agreed", "corner_steps", "corner_steps_agreed", "order_same", "order_diff", "messages")


def replay(ctx, beh, table_path, label, report=True, transports=TRANSPORTS, spin=False):
    args = ["roam-replay", "-in", beh, "-table", table_path, "-par", PAR, "-transports", transports,
            "-dir", os.path.join(ctx.scratch, "srv_" + label)]
    if spin:
        args.append("-spinlock")
    rc, js, err = ctx.harness(args, timeout=3000)
    st = js["stats"]
    ctx.log("replay %s: %d behaviours, %d steps, %d (step,transport) comparisons, %d entries agreed, %d corner steps, "
            "%d disagreeing comparisons %s" % (label, st["behaviours"], st["steps"], st["compared"], st["entries_agreed"],
                                               st["corner_steps"], js["mismatch_count"], st["mismatch_classes"] or ""))
    if report and js["mismatches"]:
        lines = open(beh).read().split("\n")
        table = json.load(open(table_path))
        for m in js["mismatches"]:
            text = "%s disagreement on transport %s at step %d of behaviour %d (%s): %s" % (
                m["class"], m["transport"], m["step"], m["behaviour"], label, m["text"])
            common.report(ctx, "c20-%s-%s-b%d-s%d-%s" % (label, m["class"], m["behaviour"], m["step"], m["transport"]), text,
                          {"kind": "roam-behaviour", "behaviour": lines[m["behaviour"]], "table": table,
                           "transports": transports, "mismatch": m})
    return st, js


# ---------------------------------------------------------------- self-test of the binding
def mutate(b, rng):
    """Corrupt ONE expected value of a behaviour, at a step where the intended and the as-coded outcome coincide
    (so that the real code agrees with the uncorrupted step whether or not D8 is present).
    Returns (step index, description) or None."""
    steps = [i for i, h in enumerate(b["h"]) if h["op"] == "set" and h["exp"] == h["dev"]]
    rng.shuffle(steps)
    kinds = ["drop", "add", "meters", "swap"]
    rng.shuffle(kinds)
    for kind in kinds:
        for i in steps:
            h = b["h"][i]
            for part in rng.sample(["nearby", "faraway"], 2):
                if kind == "drop" and h["exp"][part]:
                    e = h["exp"][part].pop(0)
                    h["dev"] = json.loads(json.dumps(h["exp"]))
                    return i, "step %d: expected %s entry %s removed" % (i, part, e)
                if kind == "meters" and h["exp"][part] and h["exp"][part][0]["mm"] > 0:
                    e = dict(h["exp"][part][0])
                    h["exp"][part][0]["mm"] = int(e["mm"] * 1.02)
                    h["dev"] = json.loads(json.dumps(h["exp"]))
                    return i, "step %d: expected metres of %s entry %s raised by 2 %%" % (i, part, e)
                if kind == "add":
                    present = {x["o"] for q in ("nearby", "faraway") for x in h["exp"][q]} | {h["o"]}
                    free = [o for o in range(1, len(b["ids"]) + 1) if o not in present]
                    if free:
                        ne = {"o": free[0], "mm": 500000}
                        h["exp"][part].append(ne)
                        h["dev"] = json.loads(json.dumps(h["exp"]))
                        return i, "step %d: spurious expected %s entry %s added" % (i, part, ne)
                if kind == "swap" and part == "nearby" and h["exp"]["nearby"] and not h["exp"]["faraway"]:
                    h["exp"]["nearby"], h["exp"]["faraway"] = [], h["exp"]["nearby"]
                    h["dev"] = json.loads(json.dumps(h["exp"]))
                    return i, "step %d: expected nearby entries moved to faraway" % i
    return None


def selftest(ctx, beh, table_path, want):
    """Mutation self-test: every corrupted expected value must be flagged by the harness, on every transport."""
    rng = random.Random(ctx.seed * 7919 + 13)
    lines = [l for l in open(beh).read().split("\n") if l]
    idx = list(range(len(lines)))
    rng.shuffle(idx)
    path = os.path.join(ctx.scratch, "mutants.ndjson")
    descr, where, kinds = [], [], {}
    with open(path, "w") as f:
        for i in idx:
            b = json.loads(lines[i])
            d = mutate(b, rng)
            if d:
                f.write(json.dumps(b) + "\n")
                where.append(d[0])
                descr.append(d[1])
                k = d[1].split(": ")[1].split(" {")[0].replace(" entry", "").replace(" entries", "")
                kinds[k] = kinds.get(k, 0) + 1
                if len(descr) >= want:
                    break
    if len(descr) < min(want, 5):
        raise common.Infra("self-test could not build mutants")
    rc, js, err = ctx.harness(["roam-replay", "-in", path, "-table", table_path, "-par", PAR, "-transports", TRANSPORTS,
                               "-examples", "1000000", "-dir", os.path.join(ctx.scratch, "srv_mut")])
    flagged = {}
    for m in js["mismatches"] or []:
        if m["class"] != "rectfilter" and m["step"] == where[m["behaviour"]]:
            flagged.setdefault(m["behaviour"], set()).add(m["transport"])
    ntr = len(TRANSPORTS.split(","))
    missed = [descr[i] for i in range(len(descr)) if len(flagged.get(i, ())) < ntr]
    ctx.log("self-test: %d behaviours with one corrupted expected value %s, %d detected on all %d transports"
            % (len(descr), kinds, len(descr) - len(missed), ntr))
    if missed:
        raise common.Infra("binding is vacuous: %d corrupted expectations were not noticed, e.g. %s" % (len(missed), missed[:3]))
    return len(descr), descr[:3]


# ---------------------------------------------------------------- tiers
def run(ctx):
    if ctx.replay:
        return run_replay(ctx)
    total = {k: 0 for k in TOTAL_KEYS}
    per_transport, classes, by_pattern, by_nodwell = {}, {}, {}, {}
    samples, grids, order_examples = [], {}, []
    states = trans = 0
    maxrel = 0.0

    areas = [0]

    def acc(st, js):
        nonlocal maxrel
        areas[0] += st.get("behaviours_with_a_covering_area_object", 0)
        for k in TOTAL_KEYS:
            total[k] += st[k]
        for src, dst in ((st["per_transport"], per_transport), (st["mismatch_classes"], classes),
                         (st["by_pattern"], by_pattern), (st["by_nodwell"], by_nodwell)):
            for k, v in src.items():
                dst[k] = dst.get(k, 0) + v
        maxrel = max(maxrel, st["max_rel_meter_error"])
        order_examples.extend(st.get("order_examples") or [])
        if len(samples) < 4 and js.get("samples"):
            samples.append(js["samples"][-1][:1500])

    def grid(name, g, rows, cols):
        t, path = make_table(ctx, name, g, rows, cols)
        grids[name] = {"rows": rows, "cols": cols, "radius_m": g["radius"], "origin": [g["lat0"], g["lon0"]],
                       "pairs_inside/corner/outside": [t["pairs_inside_circle"], t["pairs_in_rect_outside_circle"],
                                                       t["pairs_outside_rect"]],
                       "min_margin_pct": round(t["min_margin_pct"], 2)}
        return t, path

    pats3 = ["*", "a*", "b1"]                       # everything, a prefix, an exact id
    pats_more = ["*", "a*", "b1", "*1", "?2", "a1", "a?"]

    # 0. TLC on the design: the recorded deviation D8 must violate C20 (the grid can tell rectangle from circle)
    t23, p23 = grid("g2x3", G_PHX, 2, 3)
    deviation = design_deviation(ctx, t23, IDS3, ["*"])

    # 1. complete transition cover: every move (and DEL) of every object from every configuration
    if ctx.quick:
        r, beh, n = bfs(ctx, "cover2x3", t23, IDS3, pats3)
        first = (beh, p23)
        states += r["distinct"]; trans += n
        acc(*replay(ctx, beh, p23, "cover2x3"))
        # the same cover across the 180th meridian (the search rectangle wraps there), everything-pattern only
        tam, pam = grid("coverAM", G_AM, 2, 3)
        r, beh2, n = bfs(ctx, "coverAM", tam, IDS3, ["*"])
        states += r["distinct"]; trans += n
        acc(*replay(ctx, beh2, pam, "coverAM"))
        os.remove(beh2)
    else:
        t33, p33 = grid("g3x3", G_PHX, 3, 3)
        r, beh, n = bfs(ctx, "cover3x3", t33, IDS3, pats3, timeout=2400)
        first = (beh, p33)
        states += r["distinct"]; trans += n
        acc(*replay(ctx, beh, p33, "cover3x3"))
        # other places on the globe: cells that are anisotropic in degrees and in metres at 60 N; across the
        # equator (spinlock build); a small fractional radius in the southern / eastern hemisphere; across the
        # 180th meridian (the search rectangle becomes a belt there)
        for name, g, pats in (("coverN60", G_N60, ["*", "?2"]), ("coverEq", G_EQ, ["*"]),
                              ("coverS45", G_S45, ["a*"]), ("coverAM", G_AM, ["*", "b1"])):
            t, p = grid(name, g, 2, 3)
            r, beh, n = bfs(ctx, name, t, IDS3, pats, timeout=2400)
            states += r["distinct"]; trans += n
            acc(*replay(ctx, beh, p, name, spin=(name == "coverEq")))
            os.remove(beh)

    # 2. random long behaviours: 4x4 grid, 4-5 objects (several neighbours at once), all patterns; and a finer
    #    grid whose radius spans two cells
    t44, p44 = grid("g4x4", G_PHX, 4, 4)
    t55, p55 = grid("g5x5fine", G_FINE, 5, 5)

    def sims(rnd, n44, n55, depth):
        nonlocal states, trans
        for name, t, p, ids, num in (("sim4x4", t44, p44, ctx.pick(IDS4, IDS5), n44), ("sim5x5", t55, p55, IDS4, n55)):
            r, beh, n = sim(ctx, "%s_%d" % (name, rnd), t, ids, pats_more, num, depth)
            states += r["generated"]; trans += r["generated"]
            acc(*replay(ctx, beh, p, "%s_%d" % (name, rnd)))
            os.remove(beh)

    sims(0, ctx.pick(300, 1500), ctx.pick(200, 1000), ctx.pick(30, 50))
    if not ctx.quick:
        # more random behaviours (fresh TLC seeds derived from the seed) while the time budget lasts: the fixed part
        # above is the same on every machine, only the number of extra rounds depends on its speed
        seed0, rnd = ctx.seed, 0
        try:
            while time.time() - ctx.t0 < THOROUGH_BUDGET_S and rnd < 12:
                rnd += 1
                ctx.seed = seed0 * 1000 + rnd
                sims(rnd, 1500, 1000, 50)
        finally:
            ctx.seed = seed0
        ctx.log("%d extra simulation rounds" % rnd)

    # 3. self-test of the binding: corrupted expected values must be noticed
    nmut, mut_samples = selftest(ctx, first[0], first[1], ctx.pick(60, 300))

    if total["compared"] == 0 or total["entries_agreed"] == 0 or total["set_steps"] == 0 or total["del_steps"] == 0 \
            or total["empty_agreed"] == 0:
        raise common.Infra("replay compared nothing, or an action of the specification was never taken (vacuous): %s" % total)
    if len(by_nodwell) != 2 or len(by_pattern) < 3:
        raise common.Infra("NODWELL on/off or the id patterns were not all exercised: %s %s" % (by_nodwell, by_pattern))
    if areas[0] == 0:
        raise common.Infra("no behaviour ran next to a non-point object covering the cells (vacuous for extended neighbours)")
    if total["corner_steps"] == 0:
        raise common.Infra("no SET had a neighbour inside the rectangle but outside the circle (vacuous for C20)")
    if set(per_transport) != set(TRANSPORTS.split(",")):
        raise common.Infra("a transport was never compared: %s" % per_transport)
    if total["order_diff"]:
        ctx.notes.append("observation (not part of C20): %d agreeing comparisons listed the entries in another order "
                         "than ascending distance, e.g. %s" % (total["order_diff"], order_examples[:2]))
    common.write_evidence(ctx, "model_checking", {
        "states": states,
        "transitions": trans,
        "traces_validated_against_impl": total["behaviours"],
        "samples": samples,
        "replayed_steps": total["steps"],
        "set_steps": total["set_steps"],
        "del_steps": total["del_steps"],
        "comparisons_step_x_transport": total["compared"],
        "comparisons_per_transport": per_transport,
        "reported_entries_equal_to_TLC": total["entries_agreed"],
        "meters_checked_within_0.5pct": total["meters_checked"],
        "max_relative_meter_error": maxrel,
        "comparisons_expecting_no_message": total["empty_agreed"],
        "steps_with_neighbour_in_rectangle_outside_circle": total["corner_steps"],
        "of_which_agreeing_on_all_transports": total["corner_steps_agreed"],
        "notifications_received": total["messages"],
        "behaviours_by_pattern": by_pattern,
        "behaviours_next_to_a_covering_non_point_object": areas[0],
        "behaviours_by_nodwell": by_nodwell,
        "disagreeing_comparisons_by_class": classes,
        "grids": grids,
        "design_level": "as-coded deviation D8 violates %s (TLC counterexample); intended design satisfies "
                        "RoamExact, RadiusRespected, SortedByDistance, TrackedPairsExact on every generated step" % ", ".join(deviation),
        "selftest_mutants_detected": nmut,
        "selftest_samples": mut_samples,
        "exhaustive": True,
        "explanation": "TLC enumerated every configuration of the objects on the grid x id pattern x NODWELL (VIEW hides the "
                       "history) and emitted every transition (every SET of every object to every cell, every DEL) as a shortest "
                       "behaviour; each was executed on a real server with the ROAM fence on a channel, a webhook and a live "
                       "connection and the entries of every transport were compared with TLC's after each step; simulation "
                       "behaviours cover larger grids and more objects.",
    }, [
        "distances/rectangles enter the specification as integer tables from the harness' own haversine (mean sphere "
        "6371008.8 m); 'true distance' is therefore the great-circle distance, metres compared within 0.5 % (+1.5 mm)",
        "grids keep every pair at least 5 % away from the radius and from the rectangle edges, so the tolerance never "
        "decides membership; positions are points; the fence key and the ROAM key are the same collection",
        "order of the entries and the object payloads of the notifications are not part of the statement (order is "
        "recorded as an observation); glob patterns use literals, * and ? only; SCAN sub-option of ROAM not exercised",
        "quiescence by sentinels: PUBLISH on the channel, SET+DEL of a far-away object for webhook and live connection",
    ])


def run_replay(ctx):
    p = json.load(open(ctx.replay))
    beh = os.path.join(ctx.scratch, "replay.ndjson")
    open(beh, "w").write(p["behaviour"] + "\n")
    tp = os.path.join(ctx.scratch, "replay_table.json")
    json.dump(p["table"], open(tp, "w"))
    st, js = replay(ctx, beh, tp, "replay", transports=p.get("transports", TRANSPORTS))
    if st["compared"] == 0:
        raise common.Infra("replay compared nothing")
