"""C04  A torn or padded log tail is repaired and loses nothing but the torn command.

Specification: spec/Torn.tla (loadAOF's chunked parse loop over abstract bytes: NUL skipping, fragment cut,
aofsz accounting; checked for every log shape x padding x tear offset within the bound) and AOF.tla
(TornSpec: the state each prefix of the log must recover to, and the state after one more acknowledged write).
Binding / fault enumeration: logs are produced by the real server from TLC behaviours; for byte offsets of each
log (quick: every offset within 3 bytes of a command boundary plus a stride sample; thorough: every offset),
with and without NUL runs at the boundaries, a real server is started on the cut file: its dataset must equal
the specification's state after the last complete command, the file must be cut back to that boundary, and a
further acknowledged write must survive another restart.
"""
import json
import os

from . import common
from .common import cfg_consts
from . import c01


def design(ctx):
    cfg = "SPECIFICATION Spec\n" + cfg_consts(NCmd=3, MaxLen=3, MaxPad=2, Chunk=2) + "PROPERTY RecoveredProp\n"
    r = ctx.tlc("torn", ["Torn.tla"], "---- MODULE MC_torn ----\nEXTENDS Torn\n====\n", cfg, timeout=600)
    if not r["ok"]:
        raise common.Infra("Torn design violates %s" % r["violated"])
    cfg2 = "SPECIFICATION Spec\n" + cfg_consts(NCmd=ctx.pick(2, 4), MaxLen=ctx.pick(4, 3), MaxPad=1, Chunk=3) + "PROPERTY RecoveredProp\n"
    r2 = ctx.tlc("torn2", ["Torn.tla"], "---- MODULE MC_torn2 ----\nEXTENDS Torn\n====\n", cfg2, timeout=900)
    if not r2["ok"]:
        raise common.Infra("Torn design (second bound) violates %s" % r2["violated"])
    ctx.log("TLC Torn: %d + %d (log shape, padding, tear) cases, recovery invariants hold" % (r["distinct"], r2["distinct"]))
    return r["distinct"] + r2["distinct"], r["generated"] + r2["generated"]


def run(ctx):
    states, trans = design(ctx)
    if ctx.replay:
        p = json.load(open(ctx.replay))
        beh = os.path.join(ctx.scratch, "replay.ndjson")
        open(beh, "w").write(p["behaviour"] + "\n")
        n = 1
    else:
        mc = c01.mc_module("tornsim", "AOF", 3, 3, c01.ALL_GEOS, 2, c01.ALL_VALS, c01.ALL_PATS, 2)
        cfg = "SPECIFICATION TornSpec\n" + cfg_consts(MaxHist=ctx.pick(18, 30), WithHooks=True, Unlogged="raw:{}", **c01.SUBST)
        nb = ctx.pick(8, 64)
        r = ctx.tlc("tornsim", ["Keyspace.tla", "KeyspaceRand.tla", "AOF.tla"], mc, cfg, workers=4,
                    simulate=max(1, nb // 4), depth=60, timeout=900)
        beh = os.path.join(r["dir"], "behaviours.ndjson")
        n = ctx.extract_tr(r["out"], beh)
        states += r["generated"]
        trans += r["generated"]
    args = ["aof-torn", "-in", beh, "-seed", str(ctx.seed), "-par", "24"]
    if not ctx.quick:
        args.append("-all")
    rc, js, err = ctx.harness(args, timeout=3300)
    ctx.log("%d logs (%d commands, %d bytes), %d of them also behind a prefix that puts a command across the loader's 64 KiB read "
            "chunk: %d tear offsets, %d recoveries on real servers, %d mismatches" %
            (js["logs"], js["commands"], js["bytes"], js.get("logs_across_chunk_boundary", 0), js["offsets"], js["recoveries"],
             len(js.get("mismatches") or [])))
    lines = open(beh).read().split("\n")
    groups = {}
    for m in js.get("mismatches") or []:
        if m["what"] == "log":
            raise common.Infra("precondition of C04 not met (the log or a reply differs from the model; that is C01/C03's "
                               "domain): behaviour %d: %s" % (m["behaviour"], m["detail"][:600]))
        groups.setdefault(m["what"], []).append(m)
    for what, ms in groups.items():
        m = ms[0]
        text = "%s (%d cases): log of behaviour %d cut at byte %d (NUL padding %d): %s" % (
            what, len(ms), m["behaviour"], m["offset"], m["pad"], m["detail"])
        common.report(ctx, "c04-" + what, text, {"kind": "torn", "behaviour": lines[m["behaviour"]], "mismatch": m})
    if js["recoveries"] == 0:
        raise common.Infra("no recovery was exercised (vacuous)")
    if not ctx.replay and js.get("logs_across_chunk_boundary", 0) == 0:
        raise common.Infra("no log was torn across a read-chunk boundary of the loader (vacuous for the carry-over logic)")
    common.write_evidence(ctx, "fault_enumeration", {
        "evaluations": js["recoveries"], "distinct_nontrivial": js["offsets"],
        "rule": "one case = (log produced by the real server from a TLC behaviour, byte offset of the tear, NUL padding at command "
                "boundaries); distinct = distinct (log, offset, padding); non-trivial = every case requires a real start-up on the cut "
                "file; quick samples every offset within 3 bytes of a command boundary plus a stride, thorough takes every offset",
        "samples": [lines[0][:1500]],
        "states": states, "transitions": trans, "logs": js["logs"], "log_bytes": js["bytes"],
        "logs_torn_across_a_read_chunk_boundary": js.get("logs_across_chunk_boundary", 0),
        "exhaustive": not ctx.quick,
    }, [
        "expected states come from TLC (AOF.tla TornSpec), byte boundaries from the harness' own RESP encoder",
        "NULs inside a command and corruption other than truncation/padding are out of scope",
    ])
