"""C18  Scripts are atomic, honour their read-only variants, and are sandboxed.

Specifications: spec/Scripts.tla (EVAL / EVALRO / EVALNA on the lock discipline: ScriptAtomic, RoNoWriteInside,
RONeverWrites, and what another client's command may do while a script is between two calls), spec/ScriptEnv.tla
(the allow-list of the script environment), spec/KeyspaceOrder.tla (sequential model along the recorded lock order).
Binding: (1) forced schedules: the `script.call` gate parks a real script between two of its calls while another
client issues a read / a write; blocked-or-proceeds and what the reader saw are compared with TLC's expectation;
(2) script-heavy concurrent runs validated in lock order (replies, final state, script windows, log = what restarts
and followers replay); (3) sandbox: everything reachable from the globals of every pooled interpreter is enumerated
(from Go) before and after adversarial scripts and judged against the allow-list by TLC (ScriptsTrace).
"""
import json
import os
import random
import shutil

from . import common
from .common import cfg_consts
from . import c07


def design_and_cases(ctx):
    cases = []
    states = trans = 0
    for kind in ("eval", "evalro", "evalna"):
        for other in ("read", "write"):
            for cw in (True, False):
                name = "scr_%s_%s_%s" % (kind, other, "w" if cw else "r")
                mc = ("---- MODULE MC_%s ----\nEXTENDS Scripts, Json\n"
                      "ASSUME PrintT(<<\"TR\", ToJson([kind |-> Kind, other |-> OtherClass, writes |-> CallWrites, "
                      "expect |-> IF MayProceedBetweenCalls THEN \"proceeds\" ELSE \"blocked\"])>>)\n====\n" % name)
                cfg = "SPECIFICATION Spec\n" + cfg_consts(Kind=kind, NCalls=3, CallWrites=cw, OtherClass=other, RoChecksWrites=True, DispatchBy="command") + \
                      "INVARIANT ScriptAtomic RoNoWriteInside RONeverWrites\n"
                r = ctx.tlc(name, ["Scripts.tla"], mc, cfg, workers=2, timeout=300)
                if not r["ok"]:
                    raise common.Infra("Scripts design violates %s for %s" % (r["violated"], name))
                states += r["distinct"]
                trans += r["generated"]
                for line in open(r["out"], errors="replace"):
                    if line.startswith('<<"TR", '):
                        e = json.loads(json.loads(line.rstrip("\n")[len('<<"TR", '):-2]))
                        if kind == "evalro" and cw:
                            continue      # a writing call ends an EVALRO script: nothing to park between
                        for park in (2, 3):
                            cases.append({"kind": kind, "ncalls": 3, "park": park, "other": other,
                                          "expect": e["expect"], "writes": cw})
                        break
    # vacuity guard: an EVALRO that does not refuse writes violates RONeverWrites
    mc = "---- MODULE MC_scr_dev ----\nEXTENDS Scripts\n====\n"
    for nm, rc_, by in (("scr_dev", False, "command"), ("scr_dev_dispatch", True, "script")):
        cfg = "SPECIFICATION Spec\n" + cfg_consts(Kind="evalro", NCalls=2, CallWrites=True, OtherClass="read", RoChecksWrites=rc_,
                                                  DispatchBy=by) + "INVARIANT RONeverWrites\n"
        r = ctx.tlc(nm, ["Scripts.tla"], mc.replace("MC_scr_dev", "MC_" + nm), cfg, workers=2, timeout=300, expect_violation=True)
        if r["violated"] != "RONeverWrites":
            raise common.Infra("Scripts: the %s deviation is not detected (vacuous)" % nm)
    ctx.log("TLC Scripts: 12 configurations, %d states; ScriptAtomic / RoNoWriteInside / RONeverWrites hold; %d forced schedules generated"
            % (states, len(cases)))
    return states, trans, cases


def sandbox(ctx):
    trace = os.path.join(ctx.scratch, "sandbox.ndjson")
    rc, js, err = ctx.harness(["script-sandbox", "-out", trace])
    r = ctx.tlc("sandbox", ["ScriptEnv.tla", "ScriptsTrace.tla"], "---- MODULE MC_sandbox ----\nEXTENDS ScriptsTrace\n====\n",
                "SPECIFICATION TSpec\nPOSTCONDITION Accepted\n", workers=1, timeout=300, files=[trace])
    if not r["ok"]:
        raise common.Infra("ScriptsTrace did not consume the sandbox trace")
    recs = [json.loads(l) for l in open(trace)]
    envs = 0
    for line in open(r["out"], errors="replace"):
        if line.startswith('<<"ENV", '):
            e = json.loads(json.loads(line.rstrip("\n")[len('<<"ENV", '):-2]))
            envs += 1
            for nm in sorted(e["extra"]):
                common.report(ctx, "c18-sandbox-extra",
                              "sandbox: [%s] is reachable from the script environment of a pooled interpreter (%s the adversarial "
                              "scripts) but is not in the allow-list" % (nm, e["phase"]), {"kind": "sandbox", "record": recs[e["l"] - 1]})
            for nm in sorted(e["missing"]):
                common.report(ctx, "c18-sandbox-missing",
                              "sandbox: allow-listed [%s] is no longer in the script environment of a pooled interpreter (%s the "
                              "adversarial scripts)" % (nm, e["phase"]), {"kind": "sandbox", "record": recs[e["l"] - 1]})
    attacks = 0
    for rec in recs:
        if rec["e"] != "attack":
            continue
        attacks += 1
        if rec["script"] in ("mutate-existing-global", "stash-argv-in-library-table"):
            continue      # judged by the environment comparison after the attacks
        if rec["script"].startswith("evalro-"):
            # Scripts!DispatchBy: an EVALRO script that tries to have its calls run as EVAL's must not change data
            if rec["probe"] == ":1":
                common.report(ctx, "c18-sandbox-" + rec["script"],
                              "EVALRO modified data: the script overwrote the global that names the variant its calls run as "
                              "(`%s`), reply %s, and the object it SET exists afterwards (EXISTS -> %s)"
                              % (rec.get("source", ""), rec["result"], rec["probe"]), {"kind": "sandbox", "record": rec})
            continue
        if not rec["result"].startswith("-"):
            common.report(ctx, "c18-sandbox-attack-" + rec["script"],
                          "adversarial script '%s' was not refused: reply %s" % (rec["script"], rec["result"]),
                          {"kind": "sandbox", "record": rec})
        elif rec["probe"] not in ('$"nil"', '$"n/a"'):
            common.report(ctx, "c18-sandbox-probe-" + rec["script"],
                          "after adversarial script '%s' a later script sees %s" % (rec["script"], rec["probe"]),
                          {"kind": "sandbox", "record": rec})
    if envs == 0 or attacks == 0:
        raise common.Infra("sandbox probe recorded nothing (vacuous)")
    ctx.log("sandbox: %d interpreter environments judged against the allow-list by TLC, %d adversarial scripts" % (envs, attacks))
    return envs, attacks, r


POOL_KINDS = ["eval", "evalro", "evalna", "evalerr", "scan1", "scan2", "scan3", "within1", "within2", "scan1bad", "scan2bad",
              "scan3bad", "nearby2bad", "scan2syn", "within1badarea", "within2badarea", "nested1", "nested2", "nestedro2", "nested2bad",
              "setchan", "delchan", "fire", "evalfire", "evalshamiss", "evalsyntax"]


def pool(ctx, only=None):
    """ScriptPool: the interpreter pool is sound for every sequence of commands that take interpreters (design), the real
    pool follows the specification after every step (model -> code)."""
    mc = ("---- MODULE MC_%%s ----\nEXTENDS ScriptPool, Json\nMCKinds == %s\n"
          "Emit == [][PrintT(<<\"TR\", ToJson([steps |-> hist'])>>)]_vars\n====\n" % common.tla_set(POOL_KINDS))

    # the number of interpreters the real server starts with
    rc, pj, err = ctx.harness(["pool-replay", "-ini"], timeout=300)
    ini = pj["ini"]
    if not 1 <= ini <= 64:
        raise common.Infra("the real pool starts with %s interpreters: outside what the specification is run for" % ini)

    def cfg(steps, mode, emit, keeps="shared", inv="PoolSound ArgvKept Accounted", early="clears"):
        return ("SPECIFICATION Spec\n" + cfg_consts(Ini=ini, Kinds="<- MCKinds", MaxSteps=steps, OnParseError=mode, HookKeeps=keeps,
                                                    EarlyReturn=early) +
                "VIEW View\nINVARIANT %s\n" % inv + ("PROPERTY Emit\n" if emit else ""))
    if only is not None:
        beh = os.path.join(ctx.scratch, "pool_replay.ndjson")
        open(beh, "w").write(json.dumps(only) + "\n")
        r = {"distinct": 0, "generated": 0}
        n = 1
    else:
        r = ctx.tlc("pool", ["ScriptPool.tla"], mc % "pool", cfg(ctx.pick(3, 4), "leak", True), workers=4, timeout=900)
        if not r["ok"]:
            raise common.Infra("ScriptPool (as coded) violates %s" % r["violated"])
        beh = os.path.join(r["dir"], "beh.ndjson")
        n = ctx.extract_tr(r["out"], beh)
        for mode in ("once", "perclause"):
            r2 = ctx.tlc("pool_" + mode, ["ScriptPool.tla"], mc % ("pool_" + mode), cfg(3, mode, False), workers=4, timeout=600,
                         expect_violation=(mode == "perclause"))
            if (mode == "perclause") != (r2["violated"] is not None):
                raise common.Infra("ScriptPool with OnParseError=%s: expected %s, TLC says %s"
                                   % (mode, "a violation" if mode == "perclause" else "no violation", r2["violated"]))
        # fences: as coded the clause's interpreter goes back to the pool while the fence keeps evaluating on it
        hk = "PoolSound ArgvKept Accounted HookExclusive HookSeesOwn"
        r3 = ctx.tlc("pool_hook_shared", ["ScriptPool.tla"], mc % "pool_hook_shared", cfg(3, "leak", False, "shared", hk),
                     workers=4, timeout=600, expect_violation=True)
        r4 = ctx.tlc("pool_hook_owned", ["ScriptPool.tla"], mc % "pool_hook_owned", cfg(3, "once", False, "owned", hk),
                     workers=4, timeout=600)
        r5 = ctx.tlc("pool_early_keeps", ["ScriptPool.tla"], mc % "pool_early_keeps", cfg(3, "leak", False, "shared", early="keeps"),
                     workers=4, timeout=600, expect_violation=True)
        if r5["violated"] != "PoolSound":
            raise common.Infra("ScriptPool EarlyReturn=keeps: expected PoolSound to be refuted, TLC says %s" % r5["violated"])
        if r3["violated"] not in ("HookExclusive", "HookSeesOwn") or r4["violated"] is not None:
            raise common.Infra("ScriptPool HookKeeps: shared -> %s (expected HookExclusive/HookSeesOwn), owned -> %s (expected none)"
                               % (r3["violated"], r4["violated"]))
    # the accounting of every behaviour under every discipline the specification was checked for (first: as coded)
    bl = [json.loads(l) for l in open(beh) if l.strip()]
    seqs = "<<" + ", ".join("<<" + ", ".join('"%s"' % x["kind"] for x in b["steps"]) + ">>" for b in bl) + ">>"
    alts = []
    for mode, keeps in (("leak", "shared"), ("once", "shared"), ("leak", "owned"), ("once", "owned")):
        nm = "pool_alt_%s_%s" % (mode, keeps)
        amc = ("---- MODULE MC_%s ----\nEXTENDS ScriptPool, Json\nMCKinds == %s\nSeqs == %s\n"
               "ASSUME \\A i \\in 1..Len(Seqs) : PrintT(<<\"VR\", ToJson([i |-> i, c |-> RunCounts(InitSt, Seqs[i], 1)])>>)\n====\n"
               % (nm, common.tla_set(POOL_KINDS), seqs))
        ra = ctx.tlc(nm, ["ScriptPool.tla"], amc, cfg(0, mode, False, keeps), workers=1, timeout=900)
        if not ra["ok"]:
            raise common.Infra("ScriptPool accounting run %s failed: %s" % (nm, ra["violated"]))
        got = {}
        for line in open(ra["out"], errors="replace"):
            if line.startswith('<<"VR", '):
                e = json.loads(json.loads(line.rstrip("\n")[len('<<"VR", '):-2]))
                got[e["i"]] = e["c"]
        if len(got) != len(bl):
            raise common.Infra("ScriptPool accounting run %s: %d of %d behaviours evaluated" % (nm, len(got), len(bl)))
        alts.append(got)
    with open(beh, "w") as f:
        for i, b in enumerate(bl):
            for si, stp in enumerate(b["steps"]):
                stp["alts"] = [a[i + 1][si] for a in alts]
                if only is None and stp["alts"][0] != [stp["idle"], stp["total"]]:
                    raise common.Infra("ScriptPool: RunCounts and the explored behaviour disagree on %s" % b)
            f.write(json.dumps(b) + "\n")
    rc, js, err = ctx.harness(["pool-replay", "-in", beh, "-par", "16"], timeout=2400)
    st = js["stats"]
    ctx.log("interpreter pool: TLC %d states (as coded and with every taken interpreter closed once: sound; closed once per clause: "
            "refuted; a fence's clause on a shared interpreter: refuted, on an owned one: sound); %d behaviours / %d steps replayed, "
            "pool audited after each step, %d mismatches"
            % (r["distinct"], st["behaviours"], st["steps"], len(js.get("mismatches") or [])))
    behs = open(beh).read().split("\n")
    groups = {}
    for m in js.get("mismatches") or []:
        b = json.loads(behs[m["behaviour"]])
        kinds = [x["kind"] for x in b["steps"]][:m["step"] + 1]
        groups.setdefault((m["what"], kinds[-1]), []).append((m, b, kinds))
    unexplained = None
    for (what, kind), ms in sorted(groups.items()):
        m, b, kinds = ms[0]
        if what == "accounting":
            # the counts follow none of the checked disciplines: the specification does not describe this pool - no verdict
            unexplained = unexplained or "after %s: %s" % (" ; ".join(kinds), m["detail"])
            continue
        common.report(ctx, "c18-pool-%s-%s" % (what, kind), "interpreter pool (%d behaviours) after %s: %s"
                      % (len(ms), " ; ".join(kinds), m["detail"]), {"kind": "pool", "behaviour": b})
    if unexplained and not ctx.violations:
        raise common.Infra("interpreter pool: " + unexplained)
    if st["steps"] == 0 or len(st["by_kind"]) < (len(POOL_KINDS) if only is None else 1):
        raise common.Infra("pool replay did not exercise every step kind (vacuous): %s" % st["by_kind"])
    return r, st


def run(ctx):
    rng = random.Random(ctx.seed)
    if ctx.replay:
        p = json.load(open(ctx.replay))
        if p.get("kind") == "conc-run":
            runs = os.path.join(ctx.scratch, "replay_runs.ndjson")
            open(runs, "w").write((p["run"] + "\n") * 20)
            c07.record_and_validate(ctx, "replay", runs)
        elif p.get("kind") == "pool":
            pool(ctx, only=p["behaviour"])
        elif p.get("kind") == "script-gate":
            cf = os.path.join(ctx.scratch, "case.ndjson")
            open(cf, "w").write(json.dumps(p["case"]) + "\n")
            gates(ctx, cf, "replay")
        else:
            sandbox(ctx)
        return
    states, trans, cases = design_and_cases(ctx)
    cf = os.path.join(ctx.scratch, "gate_cases.ndjson")
    with open(cf, "w") as f:
        for c in cases:
            f.write(json.dumps(c) + "\n")
    ng = gates(ctx, cf, "mutex")
    ng += gates(ctx, cf, "spin", spin=True)
    # script-heavy concurrent runs, validated in lock order
    r, beh, n = c07.gen_behaviours(ctx, "progs", ctx.pick(120, 3000), ctx.pick(60, 100))
    runs = os.path.join(ctx.scratch, "runs.ndjson")
    c07.make_runs(ctx, beh, runs, [2, 3, 4], 0.6, rng)
    st, ko, rec = c07.record_and_validate(ctx, "scripts", runs)
    envs, attacks, sb = sandbox(ctx)
    pr, pst = pool(ctx)
    nscripts = st.get("scripts_eval", 0) + st.get("scripts_evalro", 0) + st.get("scripts_evalna", 0)
    if nscripts == 0 or st.get("evalna_interleaved", 0) == 0:
        raise common.Infra("no script / no EVALNA interleaving observed (vacuous)")
    common.write_evidence(ctx, "model_checking", {
        "states": states + ko["distinct"] + sb["distinct"] + pr["distinct"],
        "transitions": trans + ko["generated"] + sb["generated"] + pr["generated"],
        "traces_validated_against_impl": ng + st.get("runs", 0) + envs + pst["behaviours"],
        "interpreter_pool": {"behaviours": pst["behaviours"], "steps_audited": pst["steps"], "step_kinds": len(pst["by_kind"])},
        "forced_schedules": ng, "concurrent_runs": st.get("runs", 0), "scripts_in_runs": nscripts,
        "script_calls_validated": st.get("modelled", 0), "evalna_interleavings_observed": st.get("evalna_interleaved", 0),
        "interpreter_environments_judged": envs, "adversarial_scripts": attacks,
        "samples": [cases[0], cases[-1]],
        "explanation": "Atomicity: forced schedules (script parked between calls by the script.call gate) + script-heavy concurrent "
                       "runs validated in lock order. Sandbox: reachable globals of every pooled interpreter, enumerated from Go, "
                       "must equal ScriptEnv!AllowList before and after adversarial scripts.",
    }, [
        "the sandbox leg decides what is reachable from the environment; it cannot prove that an allow-listed function has no escape inside gopher-lua",
        "a parked script holds the server lock (EVAL/EVALRO): 'blocked' is observed as no reply within 250 ms",
    ])


def gates(ctx, cf, label, spin=False):
    rc, js, err = ctx.harness(["script-gate", "-in", cf] + (["-spinlock"] if spin else []), timeout=900)
    nbad = 0
    for res in js["results"]:
        if not res["ok"]:
            nbad += 1
            common.report(ctx, "c18-gate-%s-%s-%s" % (label, res["case"]["kind"], res["case"]["other"]),
                          "forced schedule: " + res["detail"], {"kind": "script-gate", "case": res["case"]})
    proceeds = sum(1 for r in js["results"] if r["outcome"] == "proceeds")
    ctx.log("forced schedules (%s): %d cases, %d blocked, %d proceeded, %d disagree with the specification"
            % (label, js["cases"], js["cases"] - proceeds, proceeds, nbad))
    if proceeds == 0:
        raise common.Infra("no forced schedule let the other client proceed (EVALNA / EVALRO-read): vacuous")
    return js["cases"]
