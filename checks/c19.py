"""C19  Counters, bounds and every access path agree with the retrievable dataset.

Specification: spec/Index.tla (the four access paths and four counters of a collection, updated incrementally by
setFill/Delete exactly as coded; BookkeepingExact checked by TLC over all kind-changing histories, and shown to
fail for two broken bookkeepings) + Keyspace (history generator and state oracle).
Binding: TLC's transition cover of kind-changing alphabets (string <-> point <-> empty geometry <-> polygon,
deadline on/off, fields on/off, rename/drop) and random behaviours are replayed on real servers; after EVERY
step (i) the in-package audit walks objs/spatial/values/expires, recomputes the counters and checks the hook
registries and group maps, (ii) black-box: STATS, SERVER, BOUNDS, KEYS, SCAN COUNT/IDS, SEARCH COUNT/IDS,
WITHIN/INTERSECTS/NEARBY over the world are compared with a recomputation from the retrievable objects.
"""
import json
import os

from . import common
from .common import cfg_consts
from . import c01


def design(ctx):
    mc = ("---- MODULE MC_%s ----\nEXTENDS Index\n"
          "MCObjs == {[kind |-> k, ex |-> e, np |-> n, w |-> n + 3] : k \\in {\"point\", \"geom\", \"empty\", \"string\"}, "
          "e \\in BOOLEAN, n \\in {0, 1, 5}}\n====\n")
    tot = 0
    for name, a, b, expect in (("idx", False, False, None), ("idx_kind", True, False, "BookkeepingExact"),
                               ("idx_ex", False, True, "BookkeepingExact")):
        cfg = "SPECIFICATION Spec\n" + cfg_consts(Ids="raw:{1, 2}", Objs="<- MCObjs", StaleOnKindChange=a, StaleExpires=b) + \
              "INVARIANT BookkeepingExact\n"
        r = ctx.tlc(name, ["Index.tla"], mc % name, cfg, timeout=600, expect_violation=expect is not None)
        if r["violated"] != expect:
            raise common.Infra("Index design %s: expected %s, TLC says %s" % (name, expect, r["violated"]))
        if expect is None:
            tot = r["distinct"]
            gen = r["generated"]
    ctx.log("TLC Index: %d bookkeeping states, BookkeepingExact holds; both broken bookkeepings are detected" % tot)
    return tot, gen


def replay(ctx, beh, label):
    rc, js, err = ctx.harness(["ks-replay", "-c19", "-in", beh, "-par", "8"], timeout=3000)
    st = js["stats"]
    ctx.log("replay %s: %d behaviours, %d steps audited, %d mismatches" %
            (label, st["behaviours"], st["steps"], len(js.get("mismatches") or [])))
    groups = {}
    for m in js.get("mismatches") or []:
        groups.setdefault((m["what"], m["detail"].split(" ")[0]), []).append(m)
    lines = None
    for (what, first), ms in list(groups.items())[:8]:
        m = ms[0]
        if lines is None:
            lines = open(beh).read().split("\n")
        text = "%s (%d behaviours) after step %d of behaviour %d (%s) cmd=%s: %s" % (
            what, len(ms), m["step"], m["behaviour"], label, m.get("cmd"), m["detail"])
        common.report(ctx, "c19-%s-%s-%s" % (label, what, first.lower().strip('":')), text,
                      {"kind": "ks-behaviour", "behaviour": lines[m["behaviour"]], "mismatch": m})
    return st, js


def run(ctx):
    if ctx.replay:
        p = json.load(open(ctx.replay))
        beh = os.path.join(ctx.scratch, "replay.ndjson")
        open(beh, "w").write(p["behaviour"] + "\n")
        replay(ctx, beh, "replay")
        return
    states, trans = design(ctx)
    total = {"behaviours": 0, "steps": 0}
    samples = []
    # kind-changing transition cover: string <-> point <-> empty geometry, deadline, fields
    r, beh, n = c01.bfs(ctx, "kinds", 1, 2, ["g:P1", "g:GE", "g:S1"], 1, ["v:0", "v:abc"], ["p:*", "p:=1"], 1,
                        withhooks=False, two=False)
    states += r["distinct"]
    trans += n
    st, js = replay(ctx, beh, "kinds")
    total["behaviours"] += st["behaviours"]
    total["steps"] += st["steps"]
    samples += (js.get("samples") or [])[:1]
    # two keys: rename / drop / hooks / JSON documents
    r, beh, n = c01.bfs(ctx, "twokeys", 2, 1, ["g:G1", "g:S1"], 1, ["v:0"], ["p:*"], 1, withhooks=True, two=False,
                        withjson=False)
    states += r["distinct"]
    trans += n
    st, js = replay(ctx, beh, "twokeys")
    total["behaviours"] += st["behaviours"]
    total["steps"] += st["steps"]
    # random behaviours over the full token table
    r, beh, n = c01.sim(ctx, "sim", ctx.pick(250, 8000), ctx.pick(30, 50))
    trans += r["generated"]
    st, js = replay(ctx, beh, "sim")
    total["behaviours"] += st["behaviours"]
    total["steps"] += st["steps"]
    samples += (js.get("samples") or [])[:1]
    if total["steps"] == 0:
        raise common.Infra("nothing audited (vacuous)")
    common.write_evidence(ctx, "model_checking", {
        "states": states, "transitions": trans, "traces_validated_against_impl": total["behaviours"],
        "steps_audited": total["steps"], "samples": [s[:1500] for s in samples], "exhaustive": True,
        "explanation": "Design: BookkeepingExact on the incremental bookkeeping model for all histories over 2 ids x 24 object values "
                       "(and detection of two broken bookkeepings). Conformance: complete transition cover of kind-changing alphabets and "
                       "random behaviours replayed; audit + black-box recomputation after every step.",
    }, [
        "points / bounds / spatial-indexed contributed by one geometry are calibrated on a server holding only that object "
        "(history-free reference); the check is that they add up the same after any history",
        "in_memory_size is recomputed in-package only (audit), with the implementation's own Weight()",
    ])
