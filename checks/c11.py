"""C11  Cursor pagination is complete and duplicate-free.

Specification: spec/Cursor.tla - the counting rule of scanWriter / collection (Walk, Page), its declarative
reading (PageD), the paging state machine and the paging theorem (invariants / action properties / liveness),
and the statement of C11 as a predicate on observed replies (Satisfies).

Legs of one run
  1. design      TLC, exhaustive: every index length <= MaxLen, every filter mask, every stop position, every
                 LIMIT 1..MaxLen+1: the theorem holds of the rule; the defect classifier is total.
  2. model->code spec/CursorGen.tla generates datasets (exhaustively over a small universe, randomly over a
                 larger one) and, for SCAN (id order) and SEARCH (value order), every reply of every paging run
                 LIMIT 1..n+1 - items AND cursor values.  harness `cur-replay` materialises each dataset in a real
                 server, pages every query and compares reply by reply (RESP and JSON connections).
  3. code->model the same datasets plus seeded random collections of up to hundreds of objects are queried through
                 all five families (SCAN, SEARCH, WITHIN, INTERSECTS, NEARBY) x filters; every paging run and the
                 unlimited reply are recorded and judged by TLC with spec/CursorTrace.tla (Cursor!Satisfies); for
                 the R-tree walks the cursor is an opaque token.
A VIOLATION is a real reply that differs from the reply TLC computed (2) or a recorded run TLC rejects (3).
"""
import itertools
import json
import os

from . import common
from .common import cfg_consts

LETTERS = "abcdefgh"

# ---------------------------------------------------------------------------------------------- TLA+ rendering


def tseq(t):
    return "<<" + ", ".join(str(x) for x in t) + ">>"


def tseqs(ts):
    return "<<" + ", ".join(tseq(t) for t in ts) + ">>"


def word(s):
    return tuple(LETTERS.index(c) + 1 for c in s)


def pat(kind, lit=""):
    return '[kind |-> "%s", lit |-> %s]' % (kind, tseq(word(lit)))


def where(kind, lo=0, hi=0, vals=()):
    return '[kind |-> "%s", lo |-> %d, hi |-> %d, vals |-> %s]' % (kind, lo, hi, tseq(vals))


def universe(alpha, maxlen):
    ids = []
    for n in range(1, maxlen + 1):
        ids += ["".join(t) for t in itertools.product(LETTERS[:alpha], repeat=n)]
    return sorted(ids)


PATS_SMALL = [pat("all"), pat("prefix", "a"), pat("prefix", "b"), pat("suffix", "b"), pat("exact", "ab")]
WHERES_SMALL = [where("none"), where("range", 1, 1), where("in", vals=(0,))]
PATS_FULL = [pat("all"), pat("prefix", "a"), pat("prefix", "b"), pat("prefix", "ab"), pat("suffix", "b"),
             pat("exact", "b"), pat("exact", "ba"), pat("prefix", "c"), pat("prefix1", "b")]
WHERES_FULL = [where("none"), where("range", 1, 2), where("range", 0, 0), where("in", vals=(0, 2)),
               where("eval", 2, 2)]


def gen_module(name, ids, vals, pats, wheres):
    return """---- MODULE MC_%s ----
EXTENDS CursorGen
MCIdSeq == %s
MCValSeq == %s
MCPatSeq == <<%s>>
MCWhereSeq == <<%s>>
====
""" % (name, tseqs([word(i) for i in ids]), tseqs([word(v) for v in vals]), ", ".join(pats), ", ".join(wheres))


GEN_SUBST = dict(IdSeq="<- MCIdSeq", ValSeq="<- MCValSeq", PatSeq="<- MCPatSeq", WhereSeq="<- MCWhereSeq")

# ---------------------------------------------------------------------------------------------- mutations (self-test)
# name -> (file, old text, new text): one place of the specification is corrupted; the unchanged tree must then
# be reported as violating.  Used by checks/c11_selftest.py only.
MUTATIONS = {
    # the model forgets that objs.Descend(bound) also visits (and counts) an id equal to the bound
    "gen-desc-start": ("CursorGen.tla",
                       "LET it == SelectSeq(Rev(ds), LAMBDA o : LexLeq(o.id, a)) IN",
                       "LET it == SelectSeq(Rev(ds), LAMBDA o : LexLess(o.id, a)) IN"),
    # the model reports the number of returned items instead of the number of iterated entries
    "rule-counts-items": ("Cursor.tla",
                          "IF w.hit THEN w.iters ELSE 0]",
                          "IF w.hit THEN c + Len(w.items) ELSE 0]"),
    # the statement is read more strictly: the last reply must not be empty (cursor 0 together with the last item)
    "stmt-no-empty-last": ("Cursor.tla",
                           "  /\\ ~trunc                                               \\* the cursor became 0",
                           "  /\\ ~trunc /\\ (Len(pages) <= 1 \\/ Len(pages[Len(pages)].items) > 0)"),
}


def spec_files(ctx, names):
    """Returns (modules, files) for ctx.tlc: mutated copies go through `files`."""
    mut = getattr(ctx, "c11_mutate", None)
    modules, files = [], []
    for n in names:
        if mut in MUTATIONS and MUTATIONS[mut][0] == n:
            _, old, new = MUTATIONS[mut]
            txt = open(os.path.join(common.SPEC, n)).read()
            if txt.count(old) != 1:
                raise common.Infra("mutation %s does not apply to %s" % (mut, n))
            d = os.path.join(ctx.scratch, "mutated")
            os.makedirs(d, exist_ok=True)
            p = os.path.join(d, n)
            open(p, "w").write(txt.replace(old, new))
            files.append(p)
        else:
            modules.append(n)
    return modules, files


# ---------------------------------------------------------------------------------------------- 1. design

def design(ctx, maxlen):
    mc = """---- MODULE MC_design ----
EXTENDS Cursor
\\* Satisfies <=> Defects = {} for every observation over a small alphabet (u without duplicates, up to 3 replies)
Items == {<<>>} \\cup {<<a>> : a \\in 1..3} \\cup {<<a, b>> : a, b \\in 1..3}
Us == {<<>>} \\cup {<<a>> : a \\in 1..3} \\cup {<<a, b>> \\in (1..3) \\X (1..3) : a # b}
        \\cup {<<a, b, c>> \\in (1..3) \\X (1..3) \\X (1..3) : a # b /\\ b # c /\\ a # c}
Pg(s) == [items |-> s, next |-> 0]
Obs == {<<Pg(s)>> : s \\in Items} \\cup {<<Pg(s), Pg(t)>> : s, t \\in Items}
         \\cup {<<Pg(s), Pg(t), Pg(v)>> : s, t, v \\in Items}
ASSUME ClassifierTotal ==
  \\A u \\in Us, ps \\in Obs, n \\in 1..2, tr \\in BOOLEAN :
     Satisfies(u, ps, n, tr) <=> (Defects(u, ps, n, tr) = {})
====
"""
    cfg = ("SPECIFICATION Spec\n" + cfg_consts(MaxLen=maxlen, MaxLimit=maxlen + 1) +
           "INVARIANT TypeOK RuleIsDeclarative NothingSkippedOrRepeated Complete UnlimitedIsExpected PageShape "
           "PageCount RuleSatisfiesStatement\n"
           "PROPERTY ZeroOnlyAtEnd CursorIncreases Terminates\n")
    r = ctx.tlc("design", ["Cursor.tla"], mc, cfg, timeout=ctx.pick(600, 3000))
    if not r["ok"]:
        raise common.Infra("the Cursor specification violates its own theorem %s (specification error): see %s"
                           % (r["violated"], r["out"]))
    ctx.log("TLC design: lengths <= %d, all masks / stops / limits 1..%d: %d distinct states, theorem holds (%.0fs)"
            % (maxlen, maxlen + 1, r["distinct"], r["wall_s"]))
    return r


# ---------------------------------------------------------------------------------------------- 2. generation

def gen_bfs(ctx, name, ids, vals, fmax, cells, pats, wheres, timeout=900):
    modules, files = spec_files(ctx, ["Cursor.tla", "CursorGen.tla"])
    cfg = ("SPECIFICATION Spec\n" + cfg_consts(FMax=fmax, Cells=cells, Density=4, **GEN_SUBST) +
           ("" if getattr(ctx, "c11_mutate", None) else "INVARIANT WalkTheorem\n"))
    r = ctx.tlc(name, modules, gen_module(name, ids, vals, pats, wheres), cfg, timeout=timeout, files=files)
    if not r["ok"]:
        raise common.Infra("CursorGen violates %s (specification error): see %s" % (r["violated"], r["out"]))
    cases = os.path.join(r["dir"], "cases.ndjson")
    n = ctx.extract_tr(r["out"], cases)
    os.remove(r["out"])
    lines = sorted(open(cases).read().split("\n"))      # TLC's workers print in any order: fix the order of the cases
    open(cases, "w").write("\n".join(ln for ln in lines if ln) + "\n")
    ctx.log("TLC %s: %d datasets over ids %s (exhaustive), %d queries each with every LIMIT 1..n+1 predicted"
            % (name, n, ids, 4 * len(pats) * len(wheres)))
    return r, cases, n


def gen_sim(ctx, name, num, ids, vals, fmax, cells, pats, wheres, timeout=900):
    modules, files = spec_files(ctx, ["Cursor.tla", "CursorGen.tla"])
    cfg = "SPECIFICATION SimSpec\n" + cfg_consts(FMax=fmax, Cells=cells, Density=5, **GEN_SUBST)
    r = ctx.tlc(name, modules, gen_module(name, ids, vals, pats, wheres), cfg, workers=1, simulate=num, depth=6,
                timeout=timeout, files=files)
    if not r["ok"]:
        raise common.Infra("CursorGen (simulation) violates %s: see %s" % (r["violated"], r["out"]))
    cases = os.path.join(r["dir"], "cases.ndjson")
    n = ctx.extract_tr(r["out"], cases)
    os.remove(r["out"])
    ctx.log("TLC %s (simulate): %d random datasets over %d ids, %d queries each" %
            (name, n, len(ids), 4 * len(pats) * len(wheres)))
    return r, cases, n


# ---------------------------------------------------------------------------------------------- harness legs

class Acc:
    def __init__(self):
        self.stats = {}
        self.samples = []
        self.traces = []       # (trace file, lines file, setups file)
        self.violations = 0
        self.nreplay = {}

    def add(self, st):
        for k, v in st.items():
            if isinstance(v, dict):
                d = self.stats.setdefault(k, {})
                for a, b in v.items():
                    d[a] = d.get(a, 0) + b
            elif k == "max_n":
                self.stats[k] = max(self.stats.get(k, 0), v)
            else:
                self.stats[k] = self.stats.get(k, 0) + v


def mismatch_text(m):
    return ("%s: model and real reply disagree: %s | LIMIT %d reply %d | model %s | real %s | %s | dataset: %s" %
            (m["what"], m["cmd"], m["limit"], m["page"], m["want"], m["got"], m["detail"],
             "; ".join(m.get("setup") or [])[:600]))


def replay_name(acc, base):
    """a few distinct replay files per leg, then the last name is re-used"""
    k = acc.nreplay.get(base, 0)
    acc.nreplay[base] = k + 1
    return "%s-%d" % (base, min(k, 4))


def replay_cases(ctx, acc, cases, label, corrupt=False, spin=False):
    """model -> code: every predicted reply compared; paging runs of all families recorded."""
    if corrupt:
        corrupt_one_expected_value(cases)
    prefix = os.path.join(ctx.scratch, "rec_" + label)
    rc, js, err = ctx.harness(["cur-replay", "-in", cases, "-out", prefix, "-par", "8"] + (["-spinlock"] if spin else []))
    st = js["stats"]
    acc.add(st)
    mism = js.get("mismatches") or []
    ctx.log("replay %s: %d datasets, %d model queries, %d paging runs, %d replies (items+cursor) compared, "
            "%d mismatches; %d lines recorded" % (label, st["cases"], st["queries"], st["runs"], st["replies"],
                                                  len(mism), st["trace_lines"]))
    if js.get("samples") and len(acc.samples) < 3:
        acc.samples.append({"case": js["samples"][0][:1500]})
    # The model predicts the replies as the code computes them today (order among EQUAL values by id, cursor = number of
    # items counted).  The statement of C11 fixes neither: it compares paging with the server's OWN unlimited reply - and
    # exactly that is judged by TLC on the runs recorded here (validate_traces).  A reply that differs from the model's
    # is therefore reported as a difference (evidence, log), not as a violation; the self-test (corrupt) still needs them.
    acc.model_diffs = getattr(acc, "model_diffs", 0) + len(mism)
    if mism:
        ctx.log("replay %s: %d replies differ from the model's prediction (not judged: the statement compares paging with the "
                "server's own unlimited reply); first: %s" % (label, len(mism), mismatch_text(mism[0])[:400]))
        if corrupt:
            lines = open(cases).read().split("\n")
            for m in mism[:3]:
                if common.report(ctx, replay_name(acc, "c11-" + label), mismatch_text(m),
                                 {"kind": "cur-case", "case": lines[m["case"]], "mismatch": m}):
                    acc.violations += 1
    acc.traces.append((prefix + ".trace.ndjson", prefix + ".lines.ndjson", prefix + ".setups.ndjson"))
    return st


def corrupt_one_expected_value(cases):
    """self-test: change one predicted item of one reply in the file of cases."""
    lines = open(cases).read().split("\n")
    for i, ln in enumerate(lines):
        if not ln:
            continue
        c = json.loads(ln)
        for q in c["qs"]:
            if len(q["u"]) >= 2 and len(q["runs"]) >= 2:
                pg = q["runs"][1][0]          # first reply of the LIMIT 2 run: swap its two items
                pg["items"][0], pg["items"][1] = pg["items"][1], pg["items"][0]
                lines[i] = json.dumps(c)
                open(cases, "w").write("\n".join(lines))
                return
    raise common.Infra("self-test: no case to corrupt")


def record_random(ctx, acc, label, sizes, rounds, queries, spin=False):
    prefix = os.path.join(ctx.scratch, "rec_" + label)
    rc, js, err = ctx.harness(["cur-random", "-out", prefix, "-seed", str(ctx.seed), "-sizes",
                               ",".join(str(s) for s in sizes), "-rounds", str(rounds), "-queries", str(queries),
                               "-par", "8"] + (["-spinlock"] if spin else []))
    st = js["stats"]
    acc.add(st)
    ctx.log("record %s: %d seeded collections (sizes %s), %d (dataset, query) lines, %d paging runs, %d replies" %
            (label, st["cases"], sizes, st["trace_lines"], st["trace_runs"], st["trace_replies"]))
    if js.get("samples") and len(acc.samples) < 4:
        acc.samples.append({"random_query": js["samples"][0]})
    acc.traces.append((prefix + ".trace.ndjson", prefix + ".lines.ndjson", prefix + ".setups.ndjson"))
    return st


def validate_traces(ctx, acc, name, all_limits_for=None):
    """code -> model: TLC judges every recorded paging run with CursorTrace."""
    trace = os.path.join(ctx.scratch, "trace_%s" % name, "trace.ndjson")
    os.makedirs(os.path.dirname(trace), exist_ok=True)
    index = []                      # line number -> (lines file, offset in it, setups file)
    with open(trace, "w") as fo:
        for tf, lf, sf in acc.traces:
            k = 0
            with open(tf) as fi:
                for ln in fi:
                    fo.write(ln)
                    index.append((lf, k, sf))
                    k += 1
    if not index:
        raise common.Infra("nothing was recorded (vacuous)")
    modules, files = spec_files(ctx, ["Cursor.tla", "CursorTrace.tla"])
    mc = "---- MODULE MC_%s ----\nEXTENDS CursorTrace\n====\n" % name
    r = ctx.tlc(name, modules, mc, "SPECIFICATION Spec\nPOSTCONDITION Consumed\n", workers=1,
                timeout=ctx.pick(900, 3600), files=files + [trace])
    if not r["ok"]:
        raise common.Infra("CursorTrace did not consume the trace: %s, see %s" % (r["violated"], r["out"]))
    summ, rej = None, {}
    with open(r["out"], errors="replace") as fi:
        for ln in fi:
            if ln.startswith('<<"SUM", '):
                summ = json.loads(json.loads(ln.rstrip("\n")[len('<<"SUM", '):-2]))
            elif ln.startswith('<<"REJ", '):
                j = json.loads(json.loads(ln.rstrip("\n")[len('<<"REJ", '):-2]))
                rej[(j["line"], j["limit"])] = j
    if summ is None or summ["lines"] != len(index):
        raise common.Infra("CursorTrace judged %s of %d lines" % (summ, len(index)))
    if summ["rejected"] != len(rej):
        raise common.Infra("CursorTrace counted %d rejections but printed %d" % (summ["rejected"], len(rej)))
    ctx.log("TLC %s: %d recorded lines, %d paging runs judged by Cursor!Satisfies, %d rejected (%.0fs)" %
            (name, summ["lines"], summ["runs"], summ["rejected"], r["wall_s"]))
    if len(acc.samples) < 6:
        with open(trace) as fi:
            acc.samples.append({"recorded_line": fi.readline()[:1500]})
    cache = {}
    for (line, limit), j in sorted(rej.items())[:60]:
        lf, k, sf = index[line - 1]
        if lf not in cache:
            cache[lf] = (open(lf).read().split("\n"), open(sf).read().split("\n"))
        info = json.loads(cache[lf][0][k])
        setup = json.loads(cache[lf][1][info["setup"]])
        q = info["query"]
        text = ("paging run rejected by CursorTrace (%s): %s [CURSOR c] LIMIT %s %s | %s | collection of %d objects | "
                "output %s" % (",".join(sorted(j["why"])), " ".join(q["pre"]),
                               limit if limit else "n+1", " ".join(q["post"]), j["fam"], info["n"],
                               "json" if info["json"] else "resp"))
        if common.report(ctx, replay_name(acc, "c11-trace"), text,
                         {"kind": "cur-trace", "id": info["id"], "setup": setup, "query": q, "json": info["json"],
                          "n": info["n"], "all_limits": info["n"] <= 24, "rejected": j}):
            acc.violations += 1
    os.remove(trace)
    return r, summ


# ---------------------------------------------------------------------------------------------- run

def run(ctx):
    if ctx.replay:
        return run_replay(ctx)
    mutate = getattr(ctx, "c11_mutate", None)
    small = getattr(ctx, "c11_small", False)
    acc = Acc()
    states = trans = 0

    def count(r):
        nonlocal states, trans
        if r is not None:
            states += r["distinct"] or r["generated"]
            trans += r["generated"]

    # 1. the theorem on the design
    if mutate not in ("rule-counts-items", "stmt-no-empty-last"):
        count(design(ctx, ctx.pick(7, 11)))

    # 2a. exhaustive small datasets: ids a < ab < b (a bare prefix, an id equal to a range bound), points and strings
    r, cases, n = gen_bfs(ctx, "gen_small", ["a", "ab", "b"], ["a", "b"], 1, 2, PATS_SMALL, WHERES_SMALL)
    count(r)
    if n:
        replay_cases(ctx, acc, cases, "small", corrupt=(mutate == "case-value"))
    if not ctx.quick and not small:
        r, cases, n = gen_bfs(ctx, "gen_four", ["a", "ab", "b", "ba"], ["a", "b"], 1, 1, PATS_SMALL, WHERES_SMALL,
                              timeout=3000)
        count(r)
        replay_cases(ctx, acc, cases, "four")
    if not small:
        # 2b. random datasets over a larger universe, the full filter set (incl. WHEREEVAL, exact patterns)
        r, cases, n = gen_sim(ctx, "gen_sim", ctx.pick(250, 2500), universe(3, 2), ["a", "ab", "b", "ba", "c"], 2, 4,
                              PATS_FULL, WHERES_FULL, timeout=ctx.pick(900, 3000))
        count(r)
        replay_cases(ctx, acc, cases, "sim")
        if not ctx.quick:
            r, cases, n = gen_sim(ctx, "gen_sim3", 500, universe(2, 3) + ["c", "ca"], ["a", "aa", "ab", "b", "ba", "bb"],
                                  3, 4, PATS_FULL, WHERES_FULL, timeout=3000)
            count(r)
            replay_cases(ctx, acc, cases, "sim3", spin=True)
        # 3a. seeded random collections, large enough for multi-level R-tree / B-trees
        record_random(ctx, acc, "random", ctx.pick([0, 1, 2, 7, 23, 40, 150, 400], [0, 1, 3, 9, 24, 60, 130, 300, 700, 1500]),
                      ctx.pick(4, 10), ctx.pick(40, 60))
        if not ctx.quick:
            record_random(ctx, acc, "random_spin", [2, 8, 25, 64, 65, 257, 1000], 4, 60, spin=True)
    # 3b. TLC judges everything that was recorded
    r, summ = validate_traces(ctx, acc, "trace")
    count(r)

    st = acc.stats
    fams = st.get("fams", {})
    if not mutate:
        if st.get("replies", 0) == 0 or summ["runs"] == 0:
            raise common.Infra("nothing was compared (vacuous)")
        missing = [f for f in ("scan", "search", "within", "intersects", "nearby") if fams.get(f, 0) == 0]
        if missing:
            raise common.Infra("no paging run recorded for %s (vacuous)" % missing)
        for k in ("cursor_ahead", "exact_end", "multi_page"):
            if st.get(k, 0) == 0:
                raise common.Infra("coverage counter %s is 0: the datasets never exercised it (vacuous)" % k)
    common.write_evidence(ctx, "model_checking", {
        "states": states,
        "transitions": trans,
        "traces_validated_against_impl": st.get("runs", 0) + summ["runs"],
        "samples": acc.samples,
        "model_to_code": {
            "datasets": st.get("cases", 0),
            "queries_scan_search": st.get("queries", 0),
            "paging_runs_compared": st.get("runs", 0),
            "replies_compared_items_and_cursor": st.get("replies", 0),
            "items_compared": st.get("items", 0),
            "replies_whose_cursor_exceeds_items_returned": st.get("cursor_ahead", 0),
            "replies_differing_from_the_models_prediction_not_judged": getattr(acc, "model_diffs", 0),
        },
        "code_to_model": {
            "recorded_lines": summ["lines"],
            "paging_runs_judged_by_tlc": summ["runs"],
            "rejected": summ["rejected"],
            "lines_per_family": fams,
            "replies_recorded": st.get("trace_replies", 0),
            "runs_with_3_or_more_replies": st.get("multi_page", 0),
            "runs_where_limit_hits_the_end_exactly": st.get("exact_end", 0),
            "largest_collection": st.get("max_n", 0),
        },
        "requests_sent": st.get("requests", 0),
        "exhaustive": True,
        "explanation": "TLC proved the paging theorem of the counting rule for every index length/mask/stop/limit within "
                       "the bound, generated every dataset over the small universe (and random ones over the larger) with "
                       "all replies and cursor values of every SCAN/SEARCH paging run LIMIT 1..n+1, which were compared "
                       "reply by reply with real servers; paging runs of all five families (incl. R-tree walks on "
                       "collections of hundreds of objects) were recorded and judged by TLC against the statement.",
    }, [
        "on WITHIN / INTERSECTS / NEARBY the cursor is an opaque token: only the statement (concatenation = unlimited "
        "reply, 0 only at the end, at most LIMIT items per reply) is demanded, not the counting rule",
        "ids, values and patterns of the model are strings over the letters a.. (byte order = model order); MATCH "
        "patterns are '*', literal, literal'*', '*'literal only - glob semantics beyond that is C12's",
        "in JSON output the positional per-object \"fields\" array depends on the field names of the whole reply and is "
        "dropped before items are compared; RESP items are compared verbatim",
        "the collection does not change between replies (statement); SPARSE is excluded (it refuses CURSOR and LIMIT)",
    ])


def run_replay(ctx):
    p = json.load(open(ctx.replay))
    acc = Acc()
    if p.get("kind") == "cur-case":
        cases = os.path.join(ctx.scratch, "replay_cases.ndjson")
        open(cases, "w").write(p["case"] + "\n")
        replay_cases(ctx, acc, cases, "replay")
    elif p.get("kind") == "cur-trace":
        f = os.path.join(ctx.scratch, "replay_one.json")
        json.dump(p, open(f, "w"))
        prefix = os.path.join(ctx.scratch, "rec_replay")
        ctx.harness(["cur-one", "-in", f, "-out", prefix])
        acc.traces.append((prefix + ".trace.ndjson", prefix + ".lines.ndjson", prefix + ".setups.ndjson"))
    else:
        raise common.Infra("not a C11 replay file: %s" % ctx.replay)
    validate_traces(ctx, acc, "trace")
    ctx.log("replay: %d disagreement(s) reproduced" % (len(ctx.violations) + len(ctx.known)))
