"""C09  AOFSHRINK preserves the dataset - concurrently with writes and across crashes.

Specification: spec/Shrink.tla (batched rewrite under the lock, shrinklog, two-rename swap, Kill/Restart;
ShrunkEquivalent, CrashRecoverable, LiveLogAlwaysGood).  TLC: holds for writers {set, del, drop} at every interleaving
point and every kill point; fails for RENAME and for non-idempotent appends (the design as coded) and for the swap
without start-up recovery of -bak.
Binding: TLC-generated programs build datasets on a real server (plus filler collections / objects of every kind so that
every model key and id falls into a different scan batch); the `shrink.*` gates park the real rewrite between batches
while TLC-generated commands are issued at chosen gates; at each step of the swap the data directory is copied (crash
point).  Oracle: the dataset served at the end (all acknowledged writes) must equal what a fresh server recovers from the
rewritten log, and from every crash-point copy.
"""
import json
import os
import random

from . import common
from .common import cfg_consts
from . import c01

SAFE_WRITES = {"set", "fset", "del", "pdel", "drop", "expire", "persist", "jset", "jdel", "sethook", "delhook", "pdelhook", "flushdb"}
KS_KEYS = ["alpha", "bravo key", "charlie\"q"]     # harness/ks/tokens.go Keys[0:3]: the filler collections are <key>-f-NN
CRASH_POINTS = ["shrink.final.flushed", "shrink.final.written", "shrink.final.closed", "shrink.final.renamed1",
                "shrink.final.renamed2", "shrink.final.reopened"]


def design(ctx):
    base = dict(NKeys=3, NIds=2, MaxKeys=2, MaxIds=1)
    small = dict(NKeys=2, NIds=2, MaxKeys=1, MaxIds=1)
    tot = gen = 0
    tiny = dict(NKeys=1, NIds=2, MaxKeys=1, MaxIds=1)
    # (name, constants, MaxWrites, writer ops, RecoverBak, process lifetimes, TruncNew, expected violation[, SlogCompacts])
    runs = [("shr_safe", base, 2, '{"set", "del", "drop"}', True, 1, True, None),
            # SETs that merge (fields kept, XX): every command appended to shrinklog -> equivalent; a shrinklog that lets a
            # SET replace the SET of the same object recorded just before -> refuted
            ("shr_merge", tiny, 3, '{"setf", "setp", "setxx", "del"}', True, 1, True, None),
            ("shr_compact", tiny, 3, '{"setf", "setp", "setxx", "del"}', True, 1, True, "any", True),
            ("shr_rounds", small, 2, '{"set", "del", "drop"}', True, 2, True, None),      # kill, restart, write, shrink again
            ("shr_rename", base, 1, '{"rename"}', True, 1, True, "any"),
            ("shr_append", base, 1, '{"append"}', True, 1, True, "any"),
            ("shr_nobak", base, 1, '{"set"}', False, 1, True, "CrashRecoverable"),
            ("shr_notrunc", small, 2, '{"set", "del", "drop"}', True, 2, False, "any")]   # leftover rewrite target not truncated
    for name, consts, mw, ops, bak, rounds, trunc, expect, *more in runs:
        cfg = "SPECIFICATION Spec\n" + cfg_consts(MaxWrites=mw, WriterOps="raw:" + ops, RecoverBak=bak, MaxRounds=rounds,
                                                  TruncNew=trunc, SlogCompacts=bool(more and more[0]), **consts) + \
              "INVARIANT ShrunkEquivalent CrashRecoverable LiveLogAlwaysGood\n"
        r = ctx.tlc(name, ["Shrink.tla"], "---- MODULE MC_%s ----\nEXTENDS Shrink\n====\n" % name, cfg, timeout=900,
                    expect_violation=expect is not None)
        if expect is None and not r["ok"]:
            raise common.Infra("Shrink design (%s) violates %s" % (name, r["violated"]))
        if expect is not None and r["violated"] is None:
            raise common.Infra("Shrink design (%s): the deviation is not detected (vacuous)" % name)
        if expect is None:
            tot, gen = tot + r["distinct"], gen + r["generated"]
    ctx.log("TLC Shrink: writers {set, del, drop} x every interleaving and kill point, and a second process lifetime (restart, "
            "writes, second rewrite) after every kill; merging SETs (fields kept, XX): %d states, all invariants hold; RENAME, "
            "non-idempotent append, the swap without -bak recovery, a rewrite target that is not truncated and a shrinklog that "
            "compacts consecutive SETs of one object are refuted" % tot)
    return tot, gen


def make_cases(beh_file, out_file, rng, quick):
    n = 0
    with open(beh_file) as f, open(out_file, "w") as o:
        for bi, line in enumerate(f):
            if not line.strip():
                continue
            cmds = [s["c"] for s in json.loads(line)["h"]]
            init = [c for c in cmds[:-12] if c["op"] != "expirenow"]
            tail = [c for c in cmds[-12:] if c["op"] in SAFE_WRITES or c["op"] == "rename"]
            safe = [c for c in tail if c["op"] in SAFE_WRITES][:4]
            ren = [c for c in tail if c["op"] == "rename"][:2]
            def during(cs):
                return [{"gate": rng.choice(["keys", "ids", "ids", "ids", "hooks", "final"]), "frac": rng.random(), "c": c} for c in cs]
            kind = bi % 3
            if kind == 0 or (kind == 2 and not ren):
                case = {"init": init, "during": during(safe), "crash": "", "cls": "safe"}
            elif kind == 1:
                # second process lifetime after the kill: TLC's deleting commands (the dataset gets smaller), a complete
                # rewrite, one more write, restart
                dels = [c for c in cmds if c["op"] in ("del", "pdel", "drop")][-3:]
                r2raw = [["DROP", "%s-f-%02d" % (ks_key, i)] for ks_key in KS_KEYS for i in range(1, 9)] if (bi // 3) % 2 == 0 else []
                case = {"init": init, "during": during(safe), "crash": CRASH_POINTS[(bi // 3) % len(CRASH_POINTS)], "cls": "safe",
                        "round2": dels, "round2raw": r2raw}
            else:
                case = {"init": init, "during": during(ren), "crash": "", "cls": "rename"}
            o.write(json.dumps(case) + "\n")
            n += 1
    return n


def directed_cases():
    """The two counterexamples TLC finds for the design as coded (shr_rename, shr_append), as concrete cases."""
    setc = lambda k, g: {"op": "set", "k": k, "id": "i:1", "g": g, "fu": [], "ex": False, "cond": "-"}
    return [
        # key batch 1 (with k:1) rendered, then RENAME k:3 -> k:1: k:3 is gone when its batch is loaded and the replayed
        # RENAME fails with key-not-found (ignored by loadAOF): k:1 keeps the stale snapshot, k:3's objects are lost
        {"init": [setc("k:1", "g:P1"), setc("k:3", "g:S1")], "crash": "", "cls": "rename-directed",
         "during": [{"gate": "ids", "occ": 4, "frac": 0, "c": {"op": "rename", "k": "k:3", "k2": "k:1", "nx": False}}]},
        # a non-idempotent write (array append) made before its collection is rendered is in the snapshot AND replayed
        {"init": [], "initraw": [["JSET", "alpha", "doc", "list.-1", "a"]], "crash": "", "cls": "append-directed",
         "during": [{"gate": "keys", "occ": 1, "frac": 0, "raw": ["JSET", "alpha", "doc", "list.-1", "b"]}]},
    ] + merge_cases()


def merge_cases():
    """Shrink.tla shr_merge / shr_compact as concrete cases: back-to-back SETs of one object while the rewrite is parked -
    the earlier one carries a field the later one keeps (setf ; setp), or creates the object the later one (XX) needs."""
    out = []
    for gate, frac in (("ids", 0.05), ("ids", 0.5), ("ids", 0.97), ("keys", 0.9), ("hooks", 0.0), ("final", 0.0)):
        during = []
        for obj in ("0-first", "m-mid", "zz-last"):
            during += [["SET", "alpha", obj, "FIELD", "speed", "55", "POINT", "2", "2"], ["SET", "alpha", obj, "POINT", "3", "3"],
                       ["SET", "alpha", obj + "-new", "POINT", "5", "5"], ["SET", "alpha", obj + "-new", "XX", "FIELD", "x", "1", "POINT", "6", "6"]]
        out.append({"init": [], "initraw": [["SET", "alpha", o, "FIELD", "speed", "10", "POINT", "1", "1"] for o in ("0-first", "m-mid", "zz-last")],
                    "crash": "", "cls": "merge-directed",
                    "during": [{"gate": gate, "occ": 0, "frac": frac, "raw": raw} for raw in during]})
    return out


def run_cases(ctx, cases_file, label):
    rc, js, err = ctx.harness(["shrink-run", "-in", cases_file, "-par", "6"], timeout=3000)
    st = js["stats"]
    ctx.log("%s: %d cases, %d commands issued while the rewrite was parked, %d key-batch and %d id-batch gates, %d restarts on "
            "rewritten logs, %d crash-point restarts, %d mismatches" % (label, st.get("cases", 0), st.get("issued", 0),
            st.get("gates_keys", 0), st.get("gates_ids", 0), st.get("restarts", 0), st.get("crash_restarts", 0),
            len(js.get("mismatches") or [])) + "; %d second process lifetimes (restart, writes, second rewrite, restart)" % st.get("round2", 0))
    cases = open(cases_file).read().split("\n")
    groups = {}
    for m in js.get("mismatches") or []:
        case = json.loads(cases[m["case"]])
        key = (m["what"], case["cls"], case["crash"])
        groups.setdefault(key, []).append(m)
    for (what, cls, crash), ms in groups.items():
        m = ms[0]
        case = json.loads(cases[m["case"]])
        ops = ",".join("%s@%s" % ((d.get("c") or {"op": " ".join(d.get("raw", [])[:1]).lower()})["op"], d["gate"]) for d in case["during"])
        text = "%s (%d cases) class=%s crash=%s during=[%s]: %s" % (what, len(ms), cls, crash or "-", ops, m["detail"])
        common.report(ctx, "c09-%s-%s-%s" % (what, cls, (crash or "none").split(".")[-1]), text,
                      {"kind": "shrink-case", "case": cases[m["case"]]})
    return st


def run(ctx):
    rng = random.Random(ctx.seed)
    if ctx.replay:
        p = json.load(open(ctx.replay))
        cf = os.path.join(ctx.scratch, "replay.ndjson")
        open(cf, "w").write(p["case"] + "\n")
        run_cases(ctx, cf, "replay")
        return
    states, trans = design(ctx)
    r, beh, n = c01.sim(ctx, "progs", ctx.pick(36, 600), 60)
    cf = os.path.join(ctx.scratch, "cases.ndjson")
    nc = make_cases(beh, cf, rng, ctx.quick)
    with open(cf, "a") as f:
        for dc in directed_cases():
            f.write(json.dumps(dc) + "\n")
    st = run_cases(ctx, cf, "shrink")
    if st.get("issued", 0) == 0 or st.get("crash_restarts", 0) == 0:
        raise common.Infra("no command interleaved with the rewrite / no crash point exercised (vacuous)")
    with open(cf) as f:
        sample = f.readline()[:1500]
    common.write_evidence(ctx, "model_checking", {
        "states": states + r["generated"], "transitions": trans + r["generated"],
        "traces_validated_against_impl": st.get("cases", 0),
        "commands_interleaved_with_the_rewrite": st.get("issued", 0),
        "restarts_on_rewritten_logs": st.get("restarts", 0), "crash_point_restarts": st.get("crash_restarts", 0),
        "second_process_lifetimes_after_a_kill": st.get("round2", 0),
        "samples": [sample],
        "explanation": "Design: TLC explores every interleaving of the batched rewrite with a writer and every kill point. "
                       "Conformance: gates park the real rewrite between batches while commands run; crash points copy the data "
                       "directory at each step of the swap; recovered datasets are compared with the dataset served.",
    }, [
        "a process kill is emulated by copying the data directory at that instant",
        "deadlines may be shortened by the rewrite's rounding (0.1 s) plus the time the check itself takes (2 s slack)",
        "Windows rename semantics are out of scope",
    ])
