"""C07  Concurrent clients see one serial order, and it is the order in the log.

Specifications: spec/Locking.tla (lock discipline; checked for all interleavings with the intended class table,
with the historical deviations, and with the table OBSERVED on the real server), spec/KeyspaceOrder.tla (the
sequential Keyspace model run along a recorded lock order).
Binding (code -> model): concurrent clients (plain commands, multi-object commands, EVAL / EVALRO / EVALNA scripts)
run TLC-generated programs against a real server; the hooks stamp every command and script call with its position
in the order in which the server lock was held and with the lock mode.  TLC runs the sequential model along that
order; every real reply, the final dataset, the lock mode of every dataset-changing step, the log (must be the
logged commands in lock order), the real-time order (completed-before-sent => earlier in lock order) and script
atomicity windows are compared with it.
"""
import json
import os
import random

from . import common
from .common import cfg_consts
from . import c01
from . import sysrepo

JSON_OPS = {"jset", "jdel", "jget"}
SCRIPTABLE = {"set", "fset", "del", "pdel", "drop", "rename", "expire", "persist", "get", "ttl", "exists", "fget",
              "fexists", "type", "keys", "scan"}

LOCK_TABLE_INTENDED = {
    # name: (class, writes, reads)
    "read": ("R", [], ["data"]),
    "write": ("W", ["data", "aof"], ["data"]),
    "script": ("W", ["data", "aof"], ["data"]),
    "scriptro": ("R", [], ["data"]),
    "liveeval": ("R", [], ["data", "groups"]),
    "bgexpire": ("W", ["data", "aof", "groups"], ["data"]),
    "bgflush": ("W", ["aof"], []),
    "output": ("none", [], []),
}


def locking_mc(ctx, name, table, expect=None):
    def fn(idx):
        return "[c \\in MCCmds |-> CASE " + " [] ".join(
            'c = "%s" -> %s' % (k, ('"%s"' % v[idx]) if idx == 0 else common.tla_set(v[idx])) for k, v in table.items()) + "]"
    mc = "---- MODULE MC_%s ----\nEXTENDS Locking\nMCCmds == %s\nMCClass == %s\nMCWrites == %s\nMCReads == %s\n====\n" % (
        name, common.tla_set(table.keys()), fn(0), fn(1), fn(2))
    cfg = "SPECIFICATION Spec\n" + cfg_consts(Clients="raw:{1, 2, 3}", Cmds="<- MCCmds", ClassOf="<- MCClass",
                                               Writes="<- MCWrites", ReadsS="<- MCReads") + \
          "INVARIANT NoConflict MutatorsHoldW ReadersHoldLock LockSound\n"
    r = ctx.tlc(name, ["Locking.tla"], mc, cfg, timeout=600, expect_violation=expect is not None)
    return r


def design(ctx):
    r = locking_mc(ctx, "lock_intended", LOCK_TABLE_INTENDED)
    if not r["ok"]:
        raise common.Infra("Locking: intended table violates %s" % r["violated"])
    # historical deviations must be detected (vacuity guard)
    dev = dict(LOCK_TABLE_INTENDED)
    dev["jdel"] = ("R", ["data"], ["data"])               # JDEL under the shared lock (fixed: 6cf1e6b)
    r2 = locking_mc(ctx, "lock_jdel", dev, expect=True)
    dev2 = dict(LOCK_TABLE_INTENDED)
    dev2["liveeval"] = ("R", ["groups"], ["data", "groups"])   # live fence evaluation writes the group maps
    r3 = locking_mc(ctx, "lock_live", dev2, expect=True)
    if r2["violated"] is None or r3["violated"] is None:
        raise common.Infra("Locking deviations are not detected: vacuous design model")
    ctx.log("TLC Locking: intended table %d states, discipline holds; JDEL-under-R and live-eval-writes-groups are detected"
            % r["distinct"])
    return r


def make_runs(ctx, beh_file, out_file, nclients_choices, script_prob, rng):
    """Deal the commands of each TLC behaviour to concurrent clients; group some into scripts."""
    n = 0
    with open(beh_file) as f, open(out_file, "w") as o:
        for line in f:
            if not line.strip():
                continue
            b = json.loads(line)
            cmds = []
            for s in b["h"]:
                c = s["c"]
                if c["op"] == "expirenow":
                    continue
                # JSON document commands work on their own collection (k:3), which no other command touches:
                # in a concurrent run the generator's guard "the target is missing or a document" cannot be
                # evaluated ahead of time
                if c["op"] in JSON_OPS:
                    c = dict(c, k="k:3")
                else:
                    c = {k: ("k:2" if (k in ("k", "k2") and v == "k:3") else v) for k, v in c.items()}
                cmds.append(c)
            k = rng.choice(nclients_choices)
            clients = [[] for _ in range(k)]
            i = 0
            while i < len(cmds):
                ci = rng.randrange(k)
                if rng.random() < script_prob:
                    grp = []
                    while i < len(cmds) and len(grp) < rng.choice([2, 3, 4]):
                        if cmds[i]["op"] in SCRIPTABLE:
                            grp.append(cmds[i])
                        else:
                            clients[ci].append({"c": cmds[i]})
                        i += 1
                    if grp:
                        clients[ci].append({"script": {"kind": rng.choice(["eval", "eval", "evalro", "evalna"]), "calls": grp}})
                else:
                    clients[ci].append({"c": cmds[i]})
                    i += 1
            o.write(json.dumps({"clients": clients}) + "\n")
            n += 1
    return n


def record_and_validate(ctx, label, runs_file, spin=False):
    rec = os.path.join(ctx.scratch, "rec_%s.ndjson" % label)
    rc, js, err = ctx.harness(["conc-record", "-in", runs_file, "-out", rec, "-par", "6"] + (["-spinlock"] if spin else []),
                              timeout=3000)
    # the order file for TLC: abstract commands in lock order
    tdir = os.path.join(ctx.scratch, "ko_" + label)
    os.makedirs(tdir, exist_ok=True)
    order = os.path.join(tdir, "order.ndjson")
    nlines = 0
    observed = {}
    with open(rec) as f, open(order, "w") as o:
        for line in f:
            run = json.loads(line)
            o.write('{"e":"reset","c":{"op":"none"}}\n')
            nlines += 1
            for e in run["events"]:
                if e.get("c") is None:
                    continue
                o.write(json.dumps({"e": "cmd", "c": e["c"]}) + "\n")
                nlines += 1
            o.write('{"e":"end","c":{"op":"none"}}\n')
            nlines += 1
    mc = c01.mc_module("ko_" + label, "KeyspaceOrder", 3, 3, c01.ALL_GEOS, 2, c01.ALL_VALS, c01.ALL_PATS, 2)
    cfg = "SPECIFICATION Spec\n" + cfg_consts(**c01.SUBST) + "POSTCONDITION Accepted\n"
    r = ctx.tlc("ko_" + label, ["Keyspace.tla", "KeyspaceOrder.tla"], mc, cfg, workers=1, timeout=1800, files=[order])
    if not r["ok"]:
        raise common.Infra("KeyspaceOrder did not consume the recorded order: %s" % r["out"])
    exp = os.path.join(tdir, "expect.ndjson")
    n = ctx.extract_tr(r["out"], exp, tag="EX")
    rc, vj, err = ctx.harness(["conc-verify", "-rec", rec, "-exp", exp], timeout=1800)
    st = vj["stats"]
    ctx.log("%s: %d runs, %d steps in lock order validated (%d logged), %d scripts (eval %d, evalro %d, evalna %d; %d interleavings "
            "inside EVALNA), %d mismatches" % (label, st.get("runs", 0), st.get("modelled", 0), st.get("logged", 0),
            st.get("scripts_eval", 0) + st.get("scripts_evalro", 0) + st.get("scripts_evalna", 0), st.get("scripts_eval", 0),
            st.get("scripts_evalro", 0), st.get("scripts_evalna", 0), st.get("evalna_interleaved", 0), len(vj.get("mismatches") or [])))
    groups = {}
    for m in vj.get("mismatches") or []:
        groups.setdefault(m["what"], []).append(m)
    recs = None
    for what, ms in groups.items():
        m = ms[0]
        if recs is None:
            recs = open(rec).read().split("\n")
            runs = open(runs_file).read().split("\n")
        text = "%s (%d cases) in run %d at lock order %d: %s" % (what, len(ms), m["run"], m["ord"], m["detail"])
        common.report(ctx, "%s-%s-%s" % (ctx.pid.lower(), label, what), text,
                      {"kind": "conc-run", "run": runs[m["run"]], "mismatch": m})
    return st, r, rec


def observed_table(rec, expect_dir=None):
    """Lock mode observed per operation (from the recorded events)."""
    obs = {}
    with open(rec) as f:
        for line in f:
            for e in json.loads(line)["events"]:
                if e.get("c") is None:
                    continue
                key = e["c"]["op"] + ("/script" if e["kind"] == "scall" else "")
                obs.setdefault(key, set()).add(e["mode"])
    return obs


def gen_behaviours(ctx, name, num, depth):
    r, beh, n = c01.sim(ctx, name, num, depth)
    return r, beh, n


def run(ctx):
    rng = random.Random(ctx.seed)
    if ctx.replay:
        p = json.load(open(ctx.replay))
        if p.get("kind") in ("systrace", "suite-table"):
            sysrepo.run(ctx, locking_mc, LOCK_TABLE_INTENDED)
            return
        if p.get("kind") == "bulk":
            rc, bj, err = ctx.harness(["conc-bulk", "-n", "20000", "-rounds", "2"], timeout=1800)
            for m in (bj.get("mismatches") or [])[:4]:
                common.report(ctx, "c07-bulk-%s" % m["op"], "bulk %s: %s" % (m["op"], m["detail"]), {"kind": "bulk", "op": m["op"]})
            return
        runs = os.path.join(ctx.scratch, "replay_runs.ndjson")
        open(runs, "w").write((p["run"] + "\n") * 20)      # schedules differ from run to run: repeat
        record_and_validate(ctx, "replay", runs)
        return
    d = design(ctx)
    # every command the repository's own suite issues, judged at its linearization point (SysTrace) and as a class table (Locking)
    # multi-object operations on large collections are one step (Locking: the exclusive lock is held from the first to the
    # last object): readers never see them half applied, and the log order is the order of application
    rc, bj, err = ctx.harness(["conc-bulk", "-n", str(ctx.pick(20000, 60000)), "-rounds", str(ctx.pick(2, 4))], timeout=1800)
    bst = bj["stats"]
    ctx.log("bulk operations: %d operations (PDEL, DROP, FLUSHDB, RENAME) on %d objects with %d concurrent reads and %d concurrent writes, %d mismatches"
            % (bst["operations"], bst["objects"], bst["concurrent_reads"], bst["concurrent_writes"], len(bj.get("mismatches") or [])))
    for m in (bj.get("mismatches") or [])[:4]:
        common.report(ctx, "c07-bulk-%s" % m["op"], "bulk %s: %s" % (m["op"], m["detail"]), {"kind": "bulk", "op": m["op"]})
    if bst["concurrent_reads"] == 0 or bst["concurrent_writes"] == 0:
        raise common.Infra("no command ran next to the bulk operations (vacuous)")
    sysr = sysrepo.run(ctx, locking_mc, LOCK_TABLE_INTENDED)
    r, beh, n = gen_behaviours(ctx, "progs", ctx.pick(240, 6000), ctx.pick(60, 100))
    runs = os.path.join(ctx.scratch, "runs.ndjson")
    nr = make_runs(ctx, beh, runs, [2, 3, 4, 6, 8], 0.15, rng)
    st, ko, rec = record_and_validate(ctx, "mutex", runs)
    st2, ko2, rec2 = record_and_validate(ctx, "spin", runs, spin=True)
    # the class table the code really implements, fed back to TLC
    obs = observed_table(rec)
    table = dict(LOCK_TABLE_INTENDED)
    changed_ops = {"set", "fset", "del", "pdel", "drop", "rename", "flushdb", "expire", "persist", "sethook", "delhook", "pdelhook"}
    for key, modes in obs.items():
        op = key.split("/")[0]
        cls = "W" if modes == {"W"} else ("R" if modes <= {"R", "W"} and "R" in modes else "none")
        table["obs_" + key.replace("/", "_")] = (cls, ["data", "aof"] if op in changed_ops else [], ["data"])
    r3 = locking_mc(ctx, "lock_observed", table)
    if not r3["ok"]:
        common.report(ctx, "c07-observed-table", "lock discipline %s violated with the class table observed on the real server: %s"
                      % (r3["violated"], {k: sorted(v) for k, v in obs.items()}), {"kind": "observed-table",
                      "table": {k: sorted(v) for k, v in obs.items()}})
    ctx.log("TLC Locking with the observed class table (%d operations): %s" % (len(obs), "holds" if r3["ok"] else r3["violated"]))
    if st.get("modelled", 0) == 0:
        raise common.Infra("nothing validated (vacuous)")
    with open(runs) as f:
        sample = f.readline()[:1500]
    common.write_evidence(ctx, "model_checking", {
        "states": d["distinct"] + r3["distinct"] + ko["distinct"] + ko2["distinct"] + sysr["tlc"]["distinct"] + sysr["tlc_table"]["distinct"],
        "transitions": d["generated"] + r3["generated"] + ko["generated"] + ko2["generated"] + sysr["tlc"]["generated"] + sysr["tlc_table"]["generated"],
        "traces_validated_against_impl": st.get("runs", 0) + st2.get("runs", 0) + 1,
        "repository_suite_trace": {k: v for k, v in sysr.items() if k not in ("tlc", "tlc_table")},
        "steps_validated_in_lock_order": st.get("modelled", 0) + st2.get("modelled", 0),
        "logged_commands_compared_with_the_log": st.get("logged", 0) + st2.get("logged", 0),
        "scripts": {k: st.get(k, 0) + st2.get(k, 0) for k in ("scripts_eval", "scripts_evalro", "scripts_evalna", "evalna_interleaved")},
        "observed_lock_table": {k: sorted(v) for k, v in obs.items()},
        "samples": [sample],
        "explanation": "code->model: concurrent runs on both lock implementations; every step validated against the sequential "
                       "model run in lock order (reply, final dataset, lock mode, log order, real-time order, script windows).",
    }, [
        "the order of steps is the order in which the hooks ran while the server lock was held (per-process counter taken under the lock)",
        "schedule coverage on the real code is what the OS scheduler produces over the runs; the design-level interleavings are exhaustive in TLC",
        "live fences / background expiry / flush are covered at design level (Locking) and by C08/C14/C05, not in these runs",
        "repository-suite trace: the dataset projection is compared before/after a command only on servers holding <= 400 objects; "
        "the suite's own verdicts are not used",
    ])
