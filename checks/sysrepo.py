"""System-trace validation of the repository's own integration suite (code -> model), used by C07.

The `tests` package of /repo's working tree is copied into the (private) harness source tree together with a recorder
(harness/reposuite/verifrec_test.go.txt) and run with `-tags verif`: every client command the suite issues on any of
its servers is recorded at its linearization point (lock mode, write class, dataset projection changed, log grew).
TLC judges every line against the per-step discipline of spec/SysTrace.tla (WriteClassHoldsW, MutatorsHoldW,
LogOnlyUnderW, ChangedIsLogged) and prints the class table the execution exhibited, which is then re-checked in
spec/Locking.tla for all interleavings.  The suite's own pass/fail verdicts are irrelevant here (it is timing
sensitive): only the recorded commands are judged.
"""
import glob
import json
import os
import shutil
import subprocess

from . import common
from .common import cfg_consts


def record(ctx, timeout=200):
    src = common.SRC
    if not os.path.isdir(src):
        raise common.Infra("harness source copy missing (build_harness not run)")
    pkg = os.path.join(src, "zz_reposuite", "tests")
    shutil.rmtree(os.path.join(src, "zz_reposuite"), ignore_errors=True)
    shutil.copytree(os.path.join(common.REPO, "tests"), pkg, ignore=shutil.ignore_patterns("data-mock-*"))
    shutil.copyfile(os.path.join(common.HARNESS, "reposuite", "verifrec_test.go.txt"), os.path.join(pkg, "verifrec_test.go"))
    trace = os.path.join(ctx.scratch, "sys.ndjson")
    env = common.goenv()
    env["VERIF_SYS_TRACE"] = trace
    # the three roaming-fence sub-tests start their writers without waiting for the subscriber and hang on a busy
    # machine until the suite's timeout; they add no command names, so they are left out (the pattern keeps every
    # sub-test whose name does not start with "ro")
    cmd = ("go test -tags verif -vet=off -count=1 -timeout %ds -run \"TestIntegration/.*/^([^r]|r[^o])\" ./zz_reposuite/tests/"
           % (timeout - 50))
    # the suite takes its ports from 10000 upwards: a private network namespace keeps other processes out of its way
    if subprocess.run(["unshare", "-n", "true"], stdout=subprocess.DEVNULL, stderr=subprocess.DEVNULL).returncode == 0:
        cmd = "unshare -n sh -c 'ip link set lo up; %s'" % cmd
    try:
        p = subprocess.run(cmd, shell=True, cwd=src, env=env, stdout=subprocess.PIPE, stderr=subprocess.STDOUT, text=True, timeout=timeout)
        out, rc = p.stdout, p.returncode
    except subprocess.TimeoutExpired as e:
        out, rc = (e.stdout or b"").decode(errors="replace") if isinstance(e.stdout, bytes) else (e.stdout or ""), 124
    for d in glob.glob(os.path.join(pkg, "data-mock-*")):
        shutil.rmtree(d, ignore_errors=True)
    if "build failed" in out or "cannot find package" in out or "[setup failed]" in out:
        raise common.Infra("the repository's tests package does not build with the recorder:\n" + out[-2500:])
    n = 0
    if os.path.exists(trace):
        with open(trace) as f:
            for _ in f:
                n += 1
    return trace, n, rc, out


def validate(ctx, trace, name="systrace"):
    tdir = os.path.join(ctx.scratch, "sys_" + name)
    os.makedirs(tdir, exist_ok=True)
    tf = os.path.join(tdir, "sys.ndjson")
    # TLC reads whole lines: drop a last line cut short by a timeout
    with open(trace) as f, open(tf, "w") as o:
        for line in f:
            try:
                json.loads(line)
            except ValueError:
                continue
            o.write(line)
    mc = "---- MODULE MC_%s ----\nEXTENDS SysTrace\nMCReset == {\"follow\", \"slaveof\"}\n====\n" % name
    cfg = "SPECIFICATION Spec\n" + cfg_consts(ResetNames="<- MCReset") + "POSTCONDITION Accepted\n"
    r = ctx.tlc(name, ["SysTrace.tla"], mc, cfg, workers=1, timeout=900, files=[tf])
    if not r["ok"]:
        raise common.Infra("SysTrace did not consume the recorded trace: %s" % r["out"])
    viol, table = [], None
    with open(r["out"], errors="replace") as f:
        for line in f:
            if line.startswith('<<"SV", '):
                viol.append(json.loads(json.loads(line.rstrip("\n")[len('<<"SV", '):-2])))
            elif line.startswith('<<"ST", '):
                table = json.loads(json.loads(line.rstrip("\n")[len('<<"ST", '):-2]))
    if table is None:
        raise common.Infra("SysTrace printed no class table: %s" % r["out"])
    return r, viol, table


def run(ctx, locking_mc, intended_table):
    """Returns a dict for the evidence of the calling check; reports violations through common.report."""
    trace, n, rc, out = record(ctx)
    if n < 500:
        raise common.Infra("the repository's suite recorded only %d commands under the hooks (rc=%s):\n%s" % (n, rc, out[-2000:]))
    r, viol, table = validate(ctx, trace)
    sampled = sum(v["sampled"] for v in table.values())
    ctx.log("repo suite under hooks: %d commands of %d distinct names recorded at their linearization points (%d with the dataset "
            "projection compared before/after; suite exit %s), %d lines violate the discipline of SysTrace"
            % (n, len(table), sampled, rc, len(viol)))
    groups = {}
    for v in viol:
        for w in v["why"]:
            groups.setdefault((w, v["e"]["name"], v["e"]["mode"]), []).append(v)
    for (w, name, mode), vs in sorted(groups.items()):
        e = vs[0]["e"]
        text = ("repo-suite trace: %s violated by %s (lock mode %r, write class %s, dataset changed %s, log grew %s) - %d commands"
                % (w, name.upper(), mode, e["write"], e["chg"], e["grew"], len(vs)))
        common.report(ctx, "c07-systrace-%s-%s" % (w, name), text, {"kind": "systrace", "event": e, "why": w, "count": len(vs)})
    if sampled == 0:
        raise common.Infra("no command was sampled before/after (vacuous)")
    # the class table exhibited by the suite, for all interleavings
    tab = dict(intended_table)
    for k, v in table.items():
        modes = set(v["modes"])
        cls = "W" if modes == {"W"} else ("R" if "R" in modes and modes <= {"R", "W"} else "none")
        writes = (["data"] if v["chg"] else []) + (["aof"] if v["grew"] else [])
        # commands without any lock (OUTPUT, ECHO, pub/sub, EVALNA ...) do not touch the shared structures themselves
        reads = ["data"] if cls != "none" else []
        tab["suite_" + k.replace(" ", "_")] = (cls, writes, reads)
    r3 = locking_mc(ctx, "lock_suite", tab)
    if not r3["ok"]:
        bad = {k: v for k, v in table.items() if (v["chg"] or v["grew"]) and set(v["modes"]) != {"W"}}
        common.report(ctx, "c07-suite-table", "lock discipline %s violated with the class table the repository's suite exhibits: %s"
                      % (r3["violated"], json.dumps(bad, sort_keys=True)), {"kind": "suite-table", "table": table})
    ctx.log("TLC Locking with the class table exhibited by the suite (%d command names): %s"
            % (len(table), "holds" if r3["ok"] else r3["violated"]))
    return {"commands_recorded": n, "distinct_command_names": len(table), "commands_sampled_before_after": sampled,
            "violating_lines": len(viol), "suite_exit": rc, "tlc": r, "tlc_table": r3,
            "mutating_names": sorted(k for k, v in table.items() if v["chg"]),
            "logging_names": sorted(k for k, v in table.items() if v["grew"])}
