"""C02  Spatial search returns exactly the objects satisfying the geometric predicate.

Specification: spec/Spatial.tla - one collection as `objs' (primary map) plus `spatial', the R-tree as a set of
entries [id, box, obj]; box = the object's rectangle rounded OUTWARD from the fine (float64) grid to the coarse
(float32) grid, the abstract image of rtreeValueDown/Up; Cand = geoSearch, Result = Collection.Within/Intersects,
Pred = exact integer geometry of closed points/rectangles, Clip = CLIPBY, SparseOutcomes = geoSparse; actions
Set/SetFill, Del, Drop, Rename.  Invariants IndexComplete, IndexSound, IndexMatchesObjs, SearchExact, SparseSubset;
six named deviations (inward rounding, nearest-vs-inward rounding, removal under another box, stale entry on a kind
change, entry kept when the rectangle did not change) are each refuted by TLC.  spec/SpatialStmt.tla is the statement
(Exact / Thinned), spec/SpatialTrace.tla judges recorded searches.

Legs of one run
  1. design       TLC, exhaustive, for the float32 structure (CoarseX/CoarseY) of every embedding the harness uses;
                  every deviation must violate the invariant it is named for.
  2. model->code  SpatialGen (breadth-first: one shortest behaviour per transition of the dataset graph - every insert,
                  overwrite with the same / another kind / the same rectangle, move, delete, rename, drop) and SpatialSim
                  (random long behaviours) supply, with each checked step, the expected reply of WITHIN and INTERSECTS for
                  EVERY rectangle of the grid and the CLIPBY table.  `t38conf spatial-replay` executes them on real servers
                  under order-preserving embeddings of the grid into float64 coordinates that float32 cannot represent
                  (inside one float32 gap around its rounding midpoint; alternating representable / not; around 0.0 below the
                  smallest float32 subnormal; at +-89.9 / +-179.9 / 1e-40; ordinary coordinates), with filler objects outside
                  every query area inserted and deleted in bulk between the steps (R-tree splits / condensing), and compares
                  every reply (plain, CLIPBY, second CLIPBY, SPARSE as subset, absent key) with TLC's set; the in-package
                  audit checks IndexMatchesObjs on the real tree.
  3. code->model  `spatial-record`: random histories of objects of every kind at arbitrary coordinates (poles, antimeridian,
                  sub-float32 regions) and random areas of every kind the property lists, optionally CLIPBY'd / SPARSE; for
                  every query the returned ids and, for EVERY id of the collection, `TEST GET key id WITHIN|INTERSECTS area`.
                  `spatial-inpkg`: internal/collection driven directly with 10^4-10^5 objects, Collection.Within/Intersects
                  versus a full Scan applying the same predicate.  TLC (SpatialTrace) evolves the dataset through the logged
                  history and judges every query with the statement.
  4. self-test    corrupted expected tables / corrupted traces must be noticed (otherwise Infra).
A VIOLATION is a real reply that differs from TLC's set (2) or a recorded query that TLC rejects (3).
"""
import json
import os
import random
import time

from . import common
from .common import cfg_consts

MODS = ["SpatialStmt.tla", "Spatial.tla", "SpatialGen.tla", "SpatialSim.tla"]
TRACE_MODS = ["SpatialStmt.tla", "SpatialTrace.tla"]
INVS = "TypeOK IndexComplete IndexSound IndexMatchesObjs SearchExact SparseSubset"
PAR = max(3, min(common.NCPU // 2, 8))
TLC_WORKERS = 4

# deviation name -> (constants, invariants each of which must be violated)
DEVIATIONS = {
    "inward-rounding": (dict(ObjRound="inward", QryRound="inward", DelRound="inward"), ["IndexComplete", "SearchExact"]),
    "nearest-objects-inward-queries": (dict(ObjRound="nearest", QryRound="inward", DelRound="nearest"), ["IndexComplete"]),
    "removal-under-another-box": (dict(DelRound="nearest"), ["IndexMatchesObjs", "IndexSound", "SparseSubset"]),
    "stale-entry-on-kind-change": (dict(StaleOnKindChange=True), ["IndexMatchesObjs", "IndexSound", "SearchExact"]),
    "entry-kept-when-rectangle-unchanged": (dict(SkipSameBox=True), ["IndexMatchesObjs"]),
}


def tla_intset(xs):
    return "{" + ", ".join(str(x) for x in xs) + "}"


def mc_module(name, base, cx, cy):
    return "---- MODULE MC_%s ----\nEXTENDS %s\nMCCoarseX == %s\nMCCoarseY == %s\n====\n" % (name, base, tla_intset(cx), tla_intset(cy))


def consts(nids, nx, ny, maxhist, withkeys=True, **dev):
    c = dict(NIds=nids, NX=nx, NY=ny, CoarseX="<- MCCoarseX", CoarseY="<- MCCoarseY", ObjRound="outward", QryRound="outward",
             DelRound="outward", StaleOnKindChange=False, SkipSameBox=False, WithKeys=withkeys, MaxHist=maxhist)
    c.update(dev)
    return cfg_consts(**c)


def coarse_for(cells, n):
    """Restrict / extend a coarse set computed for a grid 0..m to a grid 0..n (same family)."""
    return sorted(set([-1, n + 1] + [c for c in cells if 0 <= c <= n]))


# ------------------------------------------------------------------------------------------------- 1. design

def embeddings(ctx, n):
    rc, js, err = ctx.harness(["spatial-embed", "-n", str(n)])
    if rc != 0:
        raise common.Infra("spatial-embed failed: " + err)
    return js["embeddings"]


def design(ctx, embeds):
    """TLC on the design for the float32 structure of every embedding; the deviations must be refuted."""
    structures = {}
    for e in embeds:
        if e["has_coarse_grid"]:
            structures.setdefault((tuple(e["coarse_x"]), tuple(e["coarse_y"])), []).append(e["name"])
    if len(structures) < 3:
        raise common.Infra("the embeddings have only %d float32 structures" % len(structures))
    states = trans = 0
    n = 2
    first = True
    for (cx, cy), names in sorted(structures.items()):
        cx, cy = coarse_for(cx, n), coarse_for(cy, n)
        # the first structure with two ids (interplay of two entries), the others with one
        nids = 2 if first else 1
        ny = 1 if (first and ctx.quick) else n       # quick: the two-id run on a 3 x 2 grid
        if ny != n:
            cy = coarse_for(cy, ny)
        name = "design%d" % len(ctx.tlc_runs)
        cfg = "SPECIFICATION Spec\n" + consts(nids, n, ny, 3 * nids + 2) + "VIEW View\nINVARIANT " + INVS + "\nPROPERTY HistConsistent\n"
        r = ctx.tlc(name, MODS[:2], mc_module(name, "Spatial", cx, cy), cfg, workers=TLC_WORKERS, timeout=900)
        if not r["ok"]:
            raise common.Infra("the intended Spatial design violates %s for CoarseX=%s CoarseY=%s (specification error): see %s"
                               % (r["violated"], cx, cy, r["out"]))
        ctx.log("TLC design %d id(s), CoarseX=%s CoarseY=%s (%s): %d datasets, %d transitions, all invariants hold (%.0fs)"
                % (nids, cx, cy, ",".join(names)[:60], r["distinct"], r["generated"], r["wall_s"]))
        states += r["distinct"]
        trans += r["generated"]
        first = False
    if not ctx.quick:
        # three ids on a 3 x 2 grid: every dataset of three objects, every transition between them
        cx, cy = coarse_for([-1, 0, 2, 3], 2), coarse_for([-1, 1, 2], 1)
        name = "design3ids"
        cfg = "SPECIFICATION Spec\n" + consts(3, 2, 1, 11) + "VIEW View\nINVARIANT " + INVS + "\n"
        r = ctx.tlc(name, MODS[:2], mc_module(name, "Spatial", cx, cy), cfg, workers=TLC_WORKERS, timeout=1800)
        if not r["ok"]:
            raise common.Infra("the intended Spatial design violates %s with three ids: see %s" % (r["violated"], r["out"]))
        ctx.log("TLC design 3 ids, 3 x 2 grid: %d datasets, %d transitions, all invariants hold (%.0fs)" % (r["distinct"], r["generated"], r["wall_s"]))
        states += r["distinct"]
        trans += r["generated"]
    # deviations: one TLC run per (deviation, invariant) on the structure "all cells inside one float32 gap"
    refuted = {}
    cx = cy = [-1, n + 1]
    for dev, (cs, invs) in DEVIATIONS.items():
        for inv in invs[:ctx.pick(1, len(invs))]:
            name = "dev%d" % len(ctx.tlc_runs)
            cfg = "SPECIFICATION Spec\n" + consts(1, n, n, 4, **cs) + "VIEW View\nINVARIANT " + inv + "\n"
            r = ctx.tlc(name, MODS[:2], mc_module(name, "Spatial", cx, cy), cfg, workers=1, timeout=600, expect_violation=True)
            if r["violated"] != inv:
                raise common.Infra("deviation %s does not violate %s (TLC: %s): the grid cannot tell it from the design (vacuous)"
                                   % (dev, inv, r["violated"]))
            refuted.setdefault(dev, []).append(inv)
    # rounding every coordinate to the NEAREST float32 is monotone, hence complete: TLC confirms that it is NOT a deviation
    name = "nearest%d" % len(ctx.tlc_runs)
    cfg = "SPECIFICATION Spec\n" + consts(1, n, n, 4, ObjRound="nearest", QryRound="nearest", DelRound="nearest") + \
          "VIEW View\nINVARIANT " + INVS + "\n"
    r = ctx.tlc(name, MODS[:2], mc_module(name, "Spatial", cx, cy), cfg, workers=1, timeout=600)
    if not r["ok"]:
        raise common.Infra("nearest rounding on both sides violates %s" % r["violated"])
    ctx.log("TLC deviations refuted: %s" % "; ".join("%s -> %s" % (d, "/".join(v)) for d, v in refuted.items()))
    return states, trans, refuted, len(structures)


# ------------------------------------------------------------------------------------------------- 2. generation

def gen_bfs(ctx, name, nids, nx, ny, maxhist, withkeys=True, timeout=1800):
    cx, cy = [-1, nx + 1], [-1, ny + 1]
    cfg = "SPECIFICATION Spec\n" + consts(nids, nx, ny, maxhist, withkeys) + "VIEW View\nINVARIANT " + INVS + "\nPROPERTY HistConsistent Emit\n"
    # one worker: strict breadth-first order (shortest behaviours, deterministic output)
    r = ctx.tlc(name, MODS[:3], mc_module(name, "SpatialGen", cx, cy), cfg, workers=1, timeout=timeout)
    if not r["ok"]:
        raise common.Infra("SpatialGen violates %s (specification error): see %s" % (r["violated"], r["out"]))
    beh = os.path.join(r["dir"], "behaviours.ndjson")
    areas = os.path.join(r["dir"], "areas.json")
    k = ctx.extract_tr(r["out"], beh)
    if ctx.extract_tr(r["out"], areas, tag="AREAS") != 1:
        raise common.Infra("TLC %s did not print the AREAS table" % name)
    os.remove(r["out"])
    if k != r["generated"] - 1:
        raise common.Infra("TLC %s: %d behaviours for %d transitions (incomplete transition cover)" % (name, k, r["generated"] - 1))
    ctx.log("TLC %s: %d datasets, %d transitions emitted as behaviours with expected replies (%.0fs)" % (name, r["distinct"], k, r["wall_s"]))
    return r, beh, areas, k


def gen_sim(ctx, name, nids, n, num, depth, timeout=1800):
    cx, cy = [-1, n + 1], [-1, n + 1]
    # (IndexComplete and SparseSubset quantify over subsets / candidates of every area and are checked exhaustively in the design runs)
    cfg = "SPECIFICATION SimSpec\n" + consts(nids, n, n, depth) + "INVARIANT TypeOK IndexSound IndexMatchesObjs SearchExact\n"
    r = ctx.tlc(name, [MODS[0], MODS[1], MODS[3]], mc_module(name, "SpatialSim", cx, cy), cfg, workers=1, simulate=num,
                depth=depth + 5, timeout=timeout)
    if not r["ok"]:
        raise common.Infra("SpatialSim violates %s: see %s" % (r["violated"], r["out"]))
    beh = os.path.join(r["dir"], "behaviours.ndjson")
    areas = os.path.join(r["dir"], "areas.json")
    k = ctx.extract_tr(r["out"], beh)
    if ctx.extract_tr(r["out"], areas, tag="AREAS") != 1:
        raise common.Infra("TLC %s did not print the AREAS table" % name)
    os.remove(r["out"])
    if k != num:
        raise common.Infra("TLC %s emitted %d behaviours instead of %d" % (name, k, num))
    ctx.log("TLC %s (simulate, seed %d): %d behaviours of %d steps, expected replies after every step" % (name, ctx.seed, k, depth))
    return r, beh, areas, k


REPLAY_KEYS = ("behaviours", "steps", "checked_steps", "queries_compared", "queries_expecting_ids", "ids_agreed", "clipby_queries",
               "clipby_queries_with_empty_area", "sparse_queries", "sparse_replies_smaller_than_exact", "absent_key_queries", "audits",
               "filler_sets", "filler_dels")
REPLAY_MAPS = ("ops", "overwrite_classes", "queries_by_kind", "checked_steps_by_embedding", "object_renderings", "area_renderings",
               "mismatch_classes")


class Acc:
    def __init__(self):
        self.n = {k: 0 for k in REPLAY_KEYS}
        self.m = {k: {} for k in REPLAY_MAPS}
        self.max_fillers = 0
        self.samples = []

    def add(self, st, js):
        for k in REPLAY_KEYS:
            self.n[k] += st[k]
        for k in REPLAY_MAPS:
            for a, b in (st.get(k) or {}).items():
                self.m[k][a] = self.m[k].get(a, 0) + b
        self.max_fillers = max(self.max_fillers, st["max_fillers_alive"])
        if len(self.samples) < 3 and js.get("samples"):
            self.samples.append(js["samples"][0][:1500])


def replay(ctx, beh, areas, label, extra=(), report=True):
    args = ["spatial-replay", "-in", beh, "-areas", areas, "-par", str(PAR), "-dir", os.path.join(ctx.scratch, "srv_" + label)] + list(extra)
    rc, js, err = ctx.harness(args, timeout=3000)
    st = js["stats"]
    ctx.log("replay %s: %d behaviours, %d steps, %d checked steps, %d queries compared (%d expecting ids), %d filler ops, %d disagreements %s"
            % (label, st["behaviours"], st["steps"], st["checked_steps"], st["queries_compared"], st["queries_expecting_ids"],
               st["filler_sets"] + st["filler_dels"], js["mismatch_count"], st["mismatch_classes"] or ""))
    if report and js["mismatches"]:
        lines = open(beh).read().split("\n")
        adoc = json.load(open(areas))
        for m in js["mismatches"]:
            text = "%s: %s under embedding %s at step %d of behaviour %d (%s): %s" % (
                m["class"], m["cmd"], m["embedding"], m["step"], m["behaviour"], label, m["text"])
            common.report(ctx, "c02-%s-%s-b%d-s%d-%s" % (label, m["class"], m["behaviour"], m["step"], m["embedding"]), text,
                          {"kind": "spatial-behaviour", "behaviour": lines[m["behaviour"]], "areas": adoc, "embedding": m["embedding"],
                           "extra": list(extra), "mismatch": m})
    return st, js


# ------------------------------------------------------------------------------------------------- 3. traces

def validate(ctx, name, trace, timeout=1800):
    """TLC judges a recorded trace; returns (summary, rejections, malformed)."""
    t = os.path.join(ctx.scratch, "trace_" + name)
    os.makedirs(t, exist_ok=True)
    tp = os.path.join(t, "trace.ndjson")
    if os.path.abspath(trace) != tp:
        with open(trace) as fi, open(tp, "w") as fo:
            fo.write(fi.read())
    mc = "---- MODULE MC_%s ----\nEXTENDS SpatialTrace\n====\n" % name
    cfg = "SPECIFICATION Spec\n" + cfg_consts(NKeys=3) + "POSTCONDITION Consumed\n"
    r = ctx.tlc(name, TRACE_MODS, mc, cfg, workers=1, timeout=timeout, files=[tp])
    summ, rej, bad = None, [], []
    with open(r["out"], errors="replace") as f:
        for line in f:
            for tag, dst in (("REJ", rej), ("BAD", bad)):
                pre = '<<"%s", ' % tag
                if line.startswith(pre):
                    dst.append(json.loads(json.loads(line.rstrip("\n")[len(pre):-2])))
            if line.startswith('<<"SUM", '):
                summ = json.loads(json.loads(line.rstrip("\n")[len('<<"SUM", '):-2]))
    if not r["ok"] or summ is None:
        raise common.Infra("SpatialTrace did not consume the trace %s: %s" % (name, r["errors"] or r["out"]))
    nlines = sum(1 for _ in open(tp))
    if summ["lines"] != nlines or summ["rejected"] != len(rej) or summ["malformed"] != len(bad):
        raise common.Infra("SpatialTrace summary %s does not match the trace (%d lines, %d REJ, %d BAD)" % (summ, nlines, len(rej), len(bad)))
    return summ, rej, bad, r


def describe(rej, ev, qi):
    """Text of one rejected query (diagnosis; the verdict is TLC's)."""
    res, yes = set(ev["res"]), set(ev["yes"])
    lost = sorted(yes - res) if ev["sparse"] == 0 else []
    invented = sorted(res - yes)
    kinds = {int(k): v for k, v in (qi.get("kinds") or {}).items()}

    def kd(ids):
        d = {}
        for i in ids:
            d[kinds.get(i, "unknown")] = d.get(kinds.get(i, "unknown"), 0) + 1
        return d
    text = "%s (region %s, area %s, %d objects, predicate holds for %d): TLC rejects the reply: %s" % (
        qi["search"][:700], qi["region"], qi["kind"], rej["n"], rej["holds"], "+".join(sorted(rej["why"])))
    if lost:
        text += "; lost %d ids e.g. %s of kinds %s" % (len(lost), lost[:8], kd(lost))
        # recognise the two recorded findings exactly: every lost object must be explained by one of them
        why = set()
        for i in lost:
            k = kinds.get(i, "unknown")
            if k == "empty-geometry" and qi["kind"].startswith(("CIRCLE", "GET(Feature(Circle))")) and ev["cmd"] == "within":
                why.add("empty geometries inside a CIRCLE")
            elif k == "Feature(Circle)":
                why.add("stored Circle features")
            else:
                why.add("?")
        if "?" not in why and not invented and len(ev["res"]) == len(res):
            text += " - every lost object is explained by: " + ", ".join(sorted(why))
    if invented:
        text += "; invented %d ids e.g. %s of kinds %s" % (len(invented), invented[:8], kd(invented))
    if len(ev["res"]) != len(res):
        text += "; an id is returned twice"
    text += "; oracle: " + qi["test"][:300]
    return text


def judge(ctx, leg, trace, info, replay_payload, timeout=1800):
    summ, rej, bad, r = validate(ctx, leg, trace, timeout)
    if bad:
        raise common.Infra("%s: %d malformed query records, e.g. %s" % (leg, len(bad), bad[:2]))
    qi = {q["q"]: q for q in json.load(open(info))}
    lines = open(trace).read().split("\n")
    unknown = 0
    for rj in rej:
        ev = json.loads(lines[rj["line"] - 1])
        q = qi[rj["q"]]
        text = "%s run %d query %d: %s" % (leg, rj["run"], rj["q"], describe(rj, ev, q))
        if common.classify(ctx, text) is None:
            unknown += 1
            if unknown > 8:          # every one counts; only the first few are written out
                continue
        payload = dict(replay_payload)
        payload.update({"run": rj["run"], "query": q, "rejection": rj})
        common.report(ctx, "c02-%s-run%d-q%d" % (leg, rj["run"], rj["q"]), text, payload)
    if unknown > 8:
        ctx.log("%s: %d further rejected queries not written out" % (leg, unknown - 8))
    ctx.log("TLC %s: %d events, %d queries judged, %d rejected (%.0fs)" % (leg, summ["lines"], summ["queries"], summ["rejected"], r["wall_s"]))
    return summ, rej


def record(ctx, leg, sub, opts, runs, first=0, timeout=3000):
    trace = os.path.join(ctx.scratch, "%s.ndjson" % leg)
    info = os.path.join(ctx.scratch, "%s_queries.json" % leg)
    args = [sub, "-runs", str(runs), "-first", str(first), "-out", trace, "-info", info]
    for k, v in opts.items():
        args += ["-" + k, str(v)]
    if sub == "spatial-record":
        args += ["-dir", os.path.join(ctx.scratch, "rec_" + leg)]
    rc, js, err = ctx.harness(args, timeout=timeout)
    if rc != 0:
        raise common.Infra("%s failed: %s" % (sub, err[-2000:]))
    st = js["stats"]
    for h in st.get("commands_never_answered") or []:
        ctx.notes.append("observation (not part of C02): the server never answered %s; the run was cut there" % h[:600])
        ctx.log("observation: no reply within the patience: %s" % h[:300])
    if len(st.get("commands_never_answered") or []) > max(1, runs // 10):
        raise common.Infra("%s: %d runs cut short by commands that were never answered" % (leg, len(st["commands_never_answered"])))
    ctx.log("%s: %d runs, %d events, %d queries (%d with matches, %d matches), %d predicate evaluations, up to %d objects alive"
            % (leg, st["runs"], js["events"], st["queries"], st["queries_with_matches"], st["matches_total"], st["test_commands"],
               st["max_objects_alive"]))
    return trace, info, st, js


# ------------------------------------------------------------------------------------------------- 4. self-test

def selftest_replay(ctx, beh, areas, want):
    """Corrupted expected tables must be noticed at every corrupted step."""
    lines = [l for l in open(beh).read().split("\n") if l]
    rng = random.Random(ctx.seed * 7919 + 2)
    rng.shuffle(lines)
    path = os.path.join(ctx.scratch, "selftest.ndjson")
    open(path, "w").write("\n".join(lines[:want]) + "\n")
    total = 0
    for mode in ("drop", "add"):
        st, js = replay(ctx, path, areas, "selftest-" + mode, extra=["-corrupt", mode, "-fillers", "0", "-clip-pairs", "2", "-sparse", "0"],
                        report=False)
        if st["selftest_corrupted_steps"] == 0 or st["selftest_corrupted_steps_noticed"] != st["selftest_corrupted_steps"]:
            raise common.Infra("binding is vacuous: %d expected tables corrupted (%s), %d noticed" %
                               (st["selftest_corrupted_steps"], mode, st["selftest_corrupted_steps_noticed"]))
        total += st["selftest_corrupted_steps"]
    ctx.log("self-test (model->code): %d corrupted expected tables, every one noticed" % total)
    return total


def selftest_trace(ctx, trace, base_rej):
    """A corrupted copy of a recorded trace: every corruption must be rejected by TLC at its query."""
    rng = random.Random(ctx.seed * 104729 + 3)
    evs = [json.loads(l) for l in open(trace) if l.strip()]
    already = {r["q"] for r in base_rej}
    qidx = [i for i, e in enumerate(evs) if e["e"] == "q" and e["q"] not in already and e["sparse"] == 0]
    rng.shuffle(qidx)
    expect = {}
    kinds = ["drop", "add", "dup", "unset"]
    drop_lines = set()
    for i in qidx:
        if len(expect) >= 24:
            break
        e = evs[i]
        kind = kinds[len(expect) % len(kinds)]
        if kind == "drop" and e["res"]:
            e["res"] = e["res"][1:]
            expect[e["q"]] = "lost"
        elif kind == "add":
            e["res"] = e["res"] + [987654321]
            expect[e["q"]] = "invented"
        elif kind == "dup" and e["res"]:
            e["res"] = e["res"] + [e["res"][0]]
            expect[e["q"]] = "duplicate"
        elif kind == "unset" and e["yes"] and e["ntested"] < 0:
            # the object is removed from the evaluated list AND from the matches: the search returns an id for which
            # nothing was evaluated -> the record is no longer a complete evaluation (malformed), never accepted
            victim = e["yes"][0]
            e["tested"] = [x for x in e["tested"] if x != victim]
            e["yes"] = e["yes"][1:]
            expect[e["q"]] = "bad"
    if len(expect) < 8 or len(set(expect.values())) < 3:
        raise common.Infra("self-test could not corrupt the trace (%s)" % expect)
    path = os.path.join(ctx.scratch, "corrupted.ndjson")
    with open(path, "w") as f:
        for i, e in enumerate(evs):
            if i not in drop_lines:
                f.write(json.dumps(e) + "\n")
    summ, rej, bad, r = validate(ctx, "selftest_trace", path)
    got = {}
    for x in rej:
        got[x["q"]] = set(x["why"])
    for x in bad:
        got[x["q"]] = {"bad"}
    missed = [q for q, w in expect.items() if w not in got.get(q, set())]
    if missed:
        raise common.Infra("trace validation is vacuous: corruptions of queries %s were accepted" % missed[:5])
    extra = [q for q in got if q not in expect and q not in already]
    if extra:
        raise common.Infra("trace validation rejected uncorrupted queries %s of the corrupted copy" % extra[:5])
    ctx.log("self-test (code->model): %d corrupted queries (%s), every one rejected by TLC, nothing else" %
            (len(expect), ",".join(sorted(set(expect.values())))))
    return len(expect)


# ------------------------------------------------------------------------------------------------- tiers

def run(ctx):
    if ctx.replay:
        return run_replay(ctx)
    try:
        run_legs(ctx)
    except common.Infra as e:
        # a verdict that was already reached stays a verdict: trouble in a LATER leg (e.g. a self-test that cannot work
        # on a tree that violates the property) must not turn exit 1 into exit 2
        if not ctx.violations:
            raise
        ctx.log("later legs not completed after the violations above: %s" % str(e)[:600])


def run_legs(ctx):
    acc = Acc()
    states = trans = 0

    # 1. design
    embeds = embeddings(ctx, 2)
    s, t, refuted, nstruct = design(ctx, embeds)
    states += s
    trans += t

    # 2. model -> code
    # 2a. complete transition cover, one id (every pair previous object -> new object), with rename / drop
    n1 = ctx.pick(2, 3)
    r, beh1, areas1, k = gen_bfs(ctx, "cover1", 1, n1, n1, 4)
    states += r["distinct"]
    trans += k
    acc.add(*replay(ctx, beh1, areas1, "cover1", extra=["-fillers", str(ctx.pick(40, 40))]))
    if not ctx.quick:
        r, beh1b, areas1b, k = gen_bfs(ctx, "cover1b", 1, 2, 2, 4)
        states += r["distinct"]
        trans += k
        acc.add(*replay(ctx, beh1b, areas1b, "cover1-all-embeddings", extra=["-fillers", "20", "-all-embeddings"]))
        os.remove(beh1b)
    # 2b. two ids: interplay of two entries (one moves, is overwritten, deleted while the other stays)
    nx, ny = ctx.pick((1, 1), (2, 1))
    r, beh2, areas2, k = gen_bfs(ctx, "cover2", 2, nx, ny, 7, withkeys=not ctx.quick)
    states += r["distinct"]
    trans += k
    acc.add(*replay(ctx, beh2, areas2, "cover2", extra=["-fillers", str(ctx.pick(0, 10)), "-clip-pairs", "8", "-sparse", "4"]))
    os.remove(beh2)
    # 2c. random long behaviours on a finer grid with more ids, heavy churn, big filler populations
    sims = ctx.pick([(3, 3, 80, 12)], [(4, 3, 250, 14), (3, 4, 100, 12)])
    for si, (nids, n, num, depth) in enumerate(sims):
        r, beh, areas, k = gen_sim(ctx, "sim%d" % si, nids, n, num, depth)
        states += r["generated"]
        trans += r["generated"]
        acc.add(*replay(ctx, beh, areas, "sim%d" % si, extra=["-fillers", str(ctx.pick(1200, 2000)), "-big-every", str(ctx.pick(8, 25)),
                                                               "-big", str(ctx.pick(6000, 100000)), "-clip-pairs", "30", "-sparse", "10"]))
        os.remove(beh)
    # self-test of the binding
    nmut = selftest_replay(ctx, beh1, areas1, ctx.pick(150, 600))
    os.remove(beh1)

    # 3. code -> model
    rec_opts = dict(ops=ctx.pick(260, 500), pool=ctx.pick(40, 70), burst=ctx.pick(400, 1500), par=PAR)
    rec_runs = ctx.pick(30, 200)
    trace, info, rst, rjs = record(ctx, "recorded", "spatial-record", rec_opts, rec_runs)
    rsum, rrej = judge(ctx, "recorded", trace, info, {"kind": "spatial-record", "sub": "spatial-record", "opts": rec_opts})
    ntr = selftest_trace(ctx, trace, rrej)
    in_opts = dict(n=ctx.pick(12000, 60000), queries=ctx.pick(12, 25), par=min(PAR, 4))
    in_runs = ctx.pick(3, 6)
    itrace, iinfo, ist, ijs = record(ctx, "inpackage", "spatial-inpkg", in_opts, in_runs)
    isum, irej = judge(ctx, "inpackage", itrace, iinfo, {"kind": "spatial-record", "sub": "spatial-inpkg", "opts": in_opts})

    # vacuity
    n, m = acc.n, acc.m
    if n["queries_compared"] == 0 or n["queries_expecting_ids"] == 0 or n["ids_agreed"] == 0:
        raise common.Infra("replay compared nothing (vacuous): %s" % n)
    for op in ("set", "del", "drop", "rename"):
        if not m["ops"].get(op):
            raise common.Infra("action %s of the specification was never replayed (vacuous)" % op)
    need = ["insert:point", "insert:rect", "insert:string", "insert:empty", "move:point", "move:rect", "other-kind-same-rectangle",
            "other-kind:point->string", "other-kind:rect->empty", "other-kind:string->rect", "other-kind:empty->point", "overwrite-identical"]
    missing = [c for c in need if not m["overwrite_classes"].get(c)]
    if missing:
        raise common.Infra("overwrite classes never replayed: %s" % missing)
    if not (n["clipby_queries"] and n["clipby_queries_with_empty_area"] and n["sparse_queries"] and n["sparse_replies_smaller_than_exact"]
            and n["absent_key_queries"] and n["audits"] and n["filler_sets"] and n["filler_dels"]):
        raise common.Infra("a query class or the churn was never exercised: %s" % n)
    if len(m["checked_steps_by_embedding"]) < len(embeds):
        raise common.Infra("embeddings never used: %s" % sorted(set(e["name"] for e in embeds) - set(m["checked_steps_by_embedding"])))
    if acc.max_fillers < 1000:
        raise common.Infra("the R-tree never held more than %d filler objects" % acc.max_fillers)
    kinds_needed = ["BOUNDS", "CIRCLE", "SECTOR", "TILE", "QUADKEY", "HASH", "GET", "CLIPBY", "POINT"]
    miss = [k for k in kinds_needed if not rst["queries_by_area_kind"].get(k)]
    if miss or not any(k.startswith("OBJECT") for k in rst["queries_by_area_kind"]):
        raise common.Infra("area kinds never recorded: %s" % miss)
    if not rst.get("named_cells_compared_with_their_rectangle"):
        raise common.Infra("no TILE / QUADKEY / HASH search was compared with the rectangle its name denotes (vacuous)")
    if rsum["queries"] == 0 or isum["queries"] == 0 or rst["queries_with_matches"] == 0 or ist["queries_with_matches"] == 0 \
            or rst["sparse_queries"] == 0 or rst["clipby_queries"] == 0 or rst["filler_bursts"] == 0:
        raise common.Infra("recorded legs are vacuous: %s %s" % (rsum, isum))
    skipped = sum(rst["skipped"].values())
    if skipped > rst["queries"] // 10:
        raise common.Infra("too many recorded queries skipped because of error replies: %s" % rst["skipped"])

    common.write_evidence(ctx, "model_checking", {
        "states": states,
        "transitions": trans,
        "traces_validated_against_impl": n["behaviours"] + rst["runs"] + ist["runs"],
        "samples": acc.samples[:2] + [json.dumps(q)[:1500] for q in (rjs.get("samples") or [])[:2]] +
                   [json.dumps(q)[:1500] for q in (ijs.get("samples") or [])[:1]],
        "exhaustive": True,
        "design_float32_structures_checked": nstruct,
        "design_deviations_refuted": refuted,
        "behaviours_replayed": n["behaviours"],
        "replayed_steps": n["steps"],
        "steps_with_every_rectangle_queried": n["checked_steps"],
        "queries_compared_with_TLC": n["queries_compared"],
        "queries_expecting_ids": n["queries_expecting_ids"],
        "returned_ids_equal_to_TLC": n["ids_agreed"],
        "queries_by_kind": m["queries_by_kind"],
        "clipby_queries": n["clipby_queries"],
        "clipby_queries_with_empty_area": n["clipby_queries_with_empty_area"],
        "sparse_queries": n["sparse_queries"],
        "sparse_replies_smaller_than_exact": n["sparse_replies_smaller_than_exact"],
        "audits_of_the_real_tree": n["audits"],
        "actions_replayed": m["ops"],
        "overwrite_classes_replayed": m["overwrite_classes"],
        "checked_steps_by_embedding": m["checked_steps_by_embedding"],
        "object_renderings": m["object_renderings"],
        "filler_inserts": n["filler_sets"], "filler_deletes": n["filler_dels"], "max_fillers_alive": acc.max_fillers,
        "disagreements_by_class": m["mismatch_classes"],
        "recorded_runs": rst["runs"], "recorded_queries_judged": rsum["queries"], "recorded_queries_rejected": rsum["rejected"],
        "recorded_TEST_commands": rst["test_commands"], "recorded_queries_by_area_kind": rst["queries_by_area_kind"],
        "named_cells_compared_with_their_rectangle": rst["named_cells_compared_with_their_rectangle"],
        "recorded_queries_by_region": rst["queries_by_region"], "recorded_object_kinds": rst["object_kinds"],
        "recorded_history_ops": rst["ops"], "recorded_queries_with_matches": rst["queries_with_matches"],
        "recorded_clipby_skipped_disjoint": rst["clipby_skipped_area_disjoint_from_rectangle"], "recorded_skipped": rst["skipped"],
        "inpackage_collections": ist["runs"], "inpackage_max_objects": ist["max_objects_alive"],
        "inpackage_queries_judged": isum["queries"], "inpackage_queries_rejected": isum["rejected"],
        "inpackage_predicate_evaluations": ist["test_commands"], "inpackage_matches": ist["matches_total"],
        "selftest_corrupted_tables_noticed": nmut, "selftest_corrupted_queries_rejected": ntr,
        "explanation": "TLC enumerated every dataset over the grid (VIEW hides the history) and emitted every transition as a shortest "
                       "behaviour with the expected reply of WITHIN/INTERSECTS for every rectangle of the grid; each was executed on a real "
                       "server under embeddings that put the grid between / onto float32 values, with bulk filler churn, and every reply "
                       "compared with TLC's set. Recorded random histories and areas of every kind are judged by TLC against the "
                       "index-free predicate (TEST / full scan) evaluated for every object of the collection.",
    }, [
        "grid legs: expected sets are TLC's exact integer geometry of closed points/rectangles; an abstract rectangle is rendered as "
        "BOUNDS / Polygon / MultiPolygon / Feature / LineString (degenerate) and a point as POINT / Point / MultiPoint / Feature: that these "
        "denote the same closed sets is the premise of the rendering (it held on every query of this run)",
        "arbitrary-geometry legs: the oracle of the predicate is the implementation's own index-free evaluation (TEST GET key id ..., "
        "resp. Geo().Within/Intersects in a full scan), by the statement of the property; correctness of the geometric predicates "
        "themselves is not decided",
        "a CLIPBY'd area is handed to TEST as the GeoJSON that `TEST area INTERSECTS CLIP rect` returns (clip.Clip, the function the search "
        "applies); queries whose rectangle cuts the whole area away have no TEST equivalent over the socket and are covered by the grid "
        "legs (empty area) and the in-package leg only",
        "filler objects lie outside every query rectangle by construction (outside the hull of the grid); the R-tree implementation "
        "(github.com/tidwall/rtree) is exercised as a black box",
        "float32 structure of an embedding (which cells are representable) is computed by the harness with IEEE arithmetic and enters the "
        "specification as CoarseX/CoarseY; SPARSE is checked as 'subset without duplicates', not which subset",
    ])


def run_replay(ctx):
    p = json.load(open(ctx.replay))
    if p["kind"] == "spatial-behaviour":
        beh = os.path.join(ctx.scratch, "replay.ndjson")
        open(beh, "w").write(p["behaviour"] + "\n")
        ap = os.path.join(ctx.scratch, "replay_areas.json")
        json.dump(p["areas"], open(ap, "w"))
        extra = [x for x in p.get("extra", []) if x != "-all-embeddings"] + ["-embeddings", p["embedding"]]
        st, js = replay(ctx, beh, ap, "replay", extra=extra)
        if st["queries_compared"] == 0:
            raise common.Infra("replay compared nothing")
        return
    if p["kind"] == "spatial-record":
        opts = dict(p["opts"])
        opts["par"] = 1
        trace, info, st, js = record(ctx, "replay", p["sub"], opts, 1, first=p["run"])
        judge(ctx, "replay", trace, info, {"kind": "spatial-record", "sub": p["sub"], "opts": p["opts"]})
        return
    raise common.Infra("unknown replay kind %r" % p["kind"])
