"""C05  Fence notifications follow the documented enter/exit/inside/outside/cross rules.

Specification: spec/Fence.tla.  Objects of one collection sit on numbered cells; every write
(SET with / without FIELD and EX, FSET, DEL, PDEL, DROP, expiry) yields for EVERY fence of the
collection the notifications its receiver must see.  Two formulations - `Documented' (the
statement of C05: the documented sequence for the (previous, new) position filtered by DETECT,
COMMANDS, MATCH, WHERE, NOFIELDS) and `Coded' (the structure of fenceMatch: one detect value,
the nocross rule, the detect-filter fallback loop, first + companion message) - are shown equal
by TLC on every transition (NoOther), the pre-selection of webhook / channel fences
(getQueueCandidates) is shown to lose nothing (TransportsAgree, DelReachesDefault), and six
named broken designs are refuted.  The geometry (is a cell inside an area, does the segment
between two cells meet it, bounding-rectangle relations) is computed by the harness' own
geometry (`t38conf fence-table') for concrete coordinates and enters as CONSTANT tables.

Binding (model -> code): `t38conf fence-replay' executes every behaviour TLC emits (FenceGen:
one shortest behaviour per transition of the reachable graph; FenceSim: random long ones) on
real servers on which every fence of the scene - all 31 DETECT subsets + no DETECT clause,
COMMANDS / MATCH / WHERE / NOFIELDS variants, on BOUNDS, TILE, HASH, polygon OBJECT (convex and
U-shaped), CIRCLE and NEARBY POINT areas - is registered as webhook, channel and live
connection among 0 / 1 / 50 / 2000 other hooks, and compares after every step what each fence
received on each transport with TLC's items.  A self-test corrupts expected items and must be
noticed on every transport.
"""
import itertools
import json
import os
import random
import time

from . import common
from .common import cfg_consts

MODS = ["Fence.tla", "FenceGen.tla", "FenceSim.tla"]
TRANSPORTS = "hook,chan,live"
DETECTS = ["inside", "outside", "enter", "exit", "cross"]
VARIANTS = {"NoFallback": "NoOther", "CrossAlone": "NoOther", "FsetEnter": "NoOther", "CrossFromInside": "NoOther",
            "NoUnionSearch": "TransportsAgree", "NewRectOnly": "TransportsAgree", "StrOrigin": "NoOther"}
THOROUGH_BUDGET_S = 900
PAR = max(4, min(common.NCPU, 12))

# ---------------------------------------------------------------- scenes (frame coordinates: the frame is [0,1] x [0,1])
CELLS = {
    "A": dict(u=-0.5, v=0.5),     # west of the frame
    "B": dict(u=0.15, v=0.5),     # inside, western part (left arm of the U)
    "C": dict(u=0.85, v=0.4),     # inside, eastern part (right arm of the U)
    "D": dict(u=1.5, v=0.5),      # east of the frame: A-D runs through the middle
    "E": dict(u=-0.5, v=1.9),     # north-west: E-D clips the north-east corner of the frame, misses an inscribed circle
    "H": dict(u=0.4, v=-0.9),     # south: A-H misses the frame although the rectangle spanned by A and H overlaps it
    "K": dict(u=0.93, v=0.93),    # in the north-east corner: inside the frame, outside an inscribed circle
    "N": dict(u=0.5, v=0.55),     # middle: inside the frame and the circle, in the notch of the U (outside it)
    "M": dict(u=0.5, v=1.8),      # north of the frame: M-N stays in the notch
    "S": dict(u=-0.05, v=0.35, hw=0.12, hh=0.05),   # a small rectangle across the western edge: INTERSECTS yes, WITHIN no
}
U_RING = [[0, 0], [1, 0], [1, 1], [0.7, 1], [0.7, 0.3], [0.3, 0.3], [0.3, 1], [0, 1], [0, 0]]

F_PHX = dict(type="bounds", minlat=33.40, minlon=-112.10, maxlat=33.44, maxlon=-112.05)
F_EQ = dict(type="bounds", minlat=-0.02, minlon=10.00, maxlat=0.02, maxlon=10.04)          # straddles the equator
F_SOUTH = dict(type="bounds", minlat=-45.03, minlon=170.20, maxlat=-45.00, maxlon=170.24)
F_TILE = dict(type="tile", x=3118, y=6580, z=14)                                          # a web-mercator tile near Phoenix
F_HASH = dict(type="hash", hash="9tbnt")                                                  # a geohash cell (5 characters)


def all_detects():
    """no DETECT clause + the 31 non-empty subsets"""
    out = [None]
    for k in range(1, 6):
        out += [list(c) for c in itertools.combinations(DETECTS, k)]
    return out


def fence(area=1, detect=None, commands=(), match="", where=False, nofields=False):
    return dict(area=area, detect=detect, commands=list(commands), match=match, where=where, nofields=nofields)


def scene(name, frame, cells, areas, fences, margin=0.04):
    return dict(name=name, frame=frame, cells=[dict(name=c, **CELLS[c]) for c in cells], areas=areas, fences=fences,
                field="speed", wlo=10, whi=100, margin=margin)


def fences_detect32(area=1):
    return [fence(area, d) for d in all_detects()]


def fences_filters(area=1, full=True):
    """COMMANDS and MATCH filters, alone and together with DETECT subsets"""
    out = [fence(area, None, ["set"]), fence(area, None, ["fset", "del"]), fence(area, None, ["drop", "set", "del"]),
           fence(area, ["enter", "exit"], ["set"]), fence(area, ["inside", "outside"], ["fset"]),
           fence(area, ["cross", "outside"], ["del", "drop"]),
           fence(area, None, match="a*"), fence(area, ["exit", "inside"], match="b1")]           # a prefix, an exact id
    if full:
        # (fences that report neither the sentinel's del nor its first SET need a longer sentinel round)
        out += [fence(area, ["exit", "cross"], ["set"]), fence(area, ["outside"], ["fset", "drop"]),
                fence(area, ["enter", "cross"], match="?1"), fence(area, None, ["set", "del"], match="*2")]
    return out


def fences_where(area=1):
    out = []
    for d in (None, ["inside"], ["outside"], ["enter", "exit"], ["cross"], ["cross", "outside"], ["enter"], ["exit", "outside"],
              ["inside", "outside", "enter", "exit", "cross"], ["enter", "inside"], ["cross", "inside"]):
        out.append(fence(area, d, where=True))
    out += [fence(area, None, nofields=True), fence(area, ["inside", "outside"], where=True, nofields=True),
            fence(area, None, ["fset"], where=True), fence(area, ["enter", "exit", "cross"], ["set"], match="a*", where=True),
            fence(area, None), fence(area, ["outside", "cross"], nofields=True)]
    return out


def a_bounds(cmd="within"):
    return dict(cmd=cmd, form="bounds")


def a_object(cmd="intersects", ring=None):
    return dict(cmd=cmd, form="object", ring=ring or [])


def a_circle(cmd="within"):
    return dict(cmd=cmd, form="circle", cu=0.5, cv=0.5, rw=0.5)


def a_nearby():
    return dict(cmd="nearby", form="point", cu=0.5, cv=0.5, rw=0.5)


# ---------------------------------------------------------------- TLC
def tla_chars(s):
    return "<<" + ", ".join('"%s"' % c for c in s) + ">>"


def tla_bool(x):
    return "TRUE" if x else "FALSE"


def tla_mat(m):
    if m and isinstance(m[0], list):
        return "<<" + ",\n  ".join(tla_mat(r) for r in m) + ">>"
    return "<<" + ", ".join(tla_bool(x) for x in m) + ">>"


def make_table(ctx, sc):
    path = os.path.join(ctx.scratch, "scene_%s.json" % sc["name"])
    json.dump(sc, open(path, "w"))
    rc, t, err = ctx.harness(["fence-table", "-scene", path])
    if rc != 0:
        raise common.Infra("fence-table failed: " + err)
    tp = os.path.join(ctx.scratch, "table_%s.json" % sc["name"])
    json.dump(t, open(tp, "w"))
    return t, tp


def mc_module(name, base, t, ids, pats, fvals, setvals, excells):
    sc = t["scene"]
    classes, krecs, frecs = {}, [], []
    for f in sc["fences"]:
        key = (f["area"], tuple(f["commands"]), f["match"], f["where"], f["nofields"])
        if key not in classes:
            classes[key] = len(classes) + 1
            krecs.append("[area |-> %d, cmds |-> {%s}, glob |-> %s, where |-> %s, wlo |-> %d, whi |-> %d, nofields |-> %s]"
                         % (f["area"], ", ".join('"%s"' % c for c in f["commands"]), tla_chars(f["match"] or "*"),
                            tla_bool(f["where"]), sc["wlo"], sc["whi"], tla_bool(f["nofields"])))
        det = f["detect"] if f["detect"] is not None else DETECTS
        frecs.append("[cls |-> %d, dflt |-> %s, detect |-> {%s}]"
                     % (classes[key], tla_bool(f["detect"] is None), ", ".join('"%s"' % d for d in det)))
    return """---- MODULE MC_%s ----
EXTENDS %s
MCIdSeq == <<%s>>
MCPats == {%s}
MCClasses == <<%s>>
MCFences == <<%s>>
MCInside == %s
MCCross == %s
MCCrossO == %s
MCTouch == %s
MCTouchU == %s
MCFVals == %s
MCSetVals == %s
MCExCells == %s
====
""" % (name, base, ", ".join(tla_chars(i) for i in ids), ", ".join(tla_chars(p) for p in pats), ",\n  ".join(krecs), ",\n  ".join(frecs),
       tla_mat(t["inside"]), tla_mat(t["cross"]), tla_mat(t["cross_origin"]), tla_mat(t["touch"]), tla_mat(t["touch_u"]),
       tla_ints(fvals), tla_ints(setvals), tla_ints(excells))


def tla_ints(xs):
    return "{" + ", ".join(str(x) for x in xs) + "}"


def consts(t, maxhist, variant="intended", withstr=True):
    return cfg_consts(NCells=len(t["cells"]), MaxHist=maxhist, Variant=variant, WithStr=withstr, CrossO="<- MCCrossO",
                      IdSeq="<- MCIdSeq", PdelPats="<- MCPats", Classes="<- MCClasses", Fences="<- MCFences", Inside="<- MCInside",
                      Cross="<- MCCross", Touch="<- MCTouch", TouchU="<- MCTouchU", FVals="<- MCFVals",
                      SetVals="<- MCSetVals", ExCells="<- MCExCells")


PROPS = "INVARIANT TypeOK\nPROPERTY NoOther HistIsDocumented TransportsAgree DelReachesDefault Shape"
MAXHIST = 7


def bfs(ctx, name, t, ids, pats, fvals, setvals, excells, timeout=900, quiet=False):
    mc = mc_module(name, "FenceGen", t, ids, pats, fvals, setvals, excells)
    cfg = "SPECIFICATION Spec\n" + consts(t, MAXHIST) + "VIEW View\n" + PROPS + " Emit\n"
    # one worker: strict breadth-first order, so the output is deterministic and every configuration is reached by a
    # shortest behaviour
    r = ctx.tlc(name, MODS[:2], mc, cfg, timeout=timeout, workers=1)
    if not r["ok"]:
        raise common.Infra("the intended Fence design violates its own property %s (specification error): see %s"
                           % (r["violated"], r["out"]))
    beh = os.path.join(r["dir"], "behaviours.ndjson")
    k = ctx.extract_tr(r["out"], beh)
    os.remove(r["out"])
    if not quiet:
        ctx.log("TLC %s: %d fences x %d cells: %d distinct configurations, %d transitions emitted as behaviours (depth %d, %.0fs)"
                % (name, len(t["scene"]["fences"]), len(t["cells"]), r["distinct"], k, r["depth"], r["wall_s"]))
    if r["depth"] > MAXHIST or k != r["generated"] - 1 or k == 0:
        raise common.Infra("TLC %s: incomplete transition cover (depth %d, bound %d; %d behaviours for %d generated states)"
                           % (name, r["depth"], MAXHIST, k, r["generated"]))
    return r, beh, k


def sim(ctx, name, t, ids, pats, fvals, setvals, excells, num, depth, timeout=900):
    mc = mc_module(name, "FenceSim", t, ids, pats, fvals, setvals, excells)
    cfg = "SPECIFICATION SimSpec\n" + consts(t, depth) + "INVARIANT TypeOK\nPROPERTY NoOther TransportsAgree DelReachesDefault\n"
    r = ctx.tlc(name, MODS[:1] + MODS[2:], mc, cfg, workers=1, simulate=num, depth=depth + 5, timeout=timeout)
    if not r["ok"]:
        raise common.Infra("FenceSim violates %s: see %s" % (r["violated"], r["out"]))
    beh = os.path.join(r["dir"], "behaviours.ndjson")
    k = ctx.extract_tr(r["out"], beh)
    os.remove(r["out"])
    ctx.log("TLC %s (simulate, seed %d): %d behaviours of %d steps" % (name, ctx.seed, k, depth))
    if k != num:
        raise common.Infra("TLC %s emitted %d behaviours instead of %d" % (name, k, num))
    return r, beh, k


def design_variants(ctx, t, ids, pats, fvals, setvals, excells):
    """TLC on the design: every named broken design must violate the property it is meant to break."""
    from concurrent.futures import ThreadPoolExecutor
    out = {}

    def one(v):
        mc = mc_module("variant_" + v, "FenceGen", t, ids, pats, fvals, setvals, excells)
        cfg = ("SPECIFICATION Spec\n" + consts(t, MAXHIST, variant=v) + "VIEW View\nPROPERTY NoOther TransportsAgree\n")
        return v, ctx.tlc("variant_" + v, MODS[:2], mc, cfg, timeout=600, expect_violation=True, workers=1)

    with ThreadPoolExecutor(max_workers=6) as ex:
        for v, r in ex.map(one, list(VARIANTS)):
            if r["violated"] != VARIANTS[v]:
                raise common.Infra("broken design %s: TLC reports %s instead of a violation of %s (the scene cannot tell the "
                                   "designs apart: vacuous)" % (v, r["violated"], VARIANTS[v]))
            out[v] = VARIANTS[v]
    ctx.log("TLC variants: %d broken designs refuted (%s)" % (len(out), ", ".join("%s: %s" % kv for kv in out.items())))
    return out


# ---------------------------------------------------------------- replay
TOTAL_KEYS = ("behaviours", "steps", "compared", "agreed", "empty_agreed", "items_agreed", "may_items_present",
              "may_items_absent", "messages", "sentinel_messages", "re_registrations", "other_hooks_registered",
              "other_hooks_deleted", "expiry_steps", "hooks_replaced_under_the_same_name")
DICT_KEYS = ("steps_by_op", "items_agreed_by_kind", "per_transport", "mismatch_classes")


def replay(ctx, beh, table_path, label, others=0, report=True, transports=TRANSPORTS, spin=False, par=PAR, rereg=0,
           examples=3, quiet=False, only=0):
    args = ["fence-replay", "-in", beh, "-table", table_path, "-par", str(par), "-transports", transports,
            "-others", str(others), "-rereg", str(rereg), "-examples", str(examples), "-only", str(only),
            "-dir", os.path.join(ctx.scratch, "srv_" + label)]
    if spin:
        args.append("-spinlock")
    t0 = time.time()
    rc, js, err = ctx.harness(args, timeout=3000)
    st = js["stats"]
    if not quiet or js["mismatch_count"]:
        ctx.log("replay %s (%d other hooks/server): %d behaviours, %d steps, %d (step,fence,transport) comparisons, %d notifications "
                "equal to TLC's items, %d disagreeing comparisons %s (%.0fs)"
                % (label, others, st["behaviours"], st["steps"], st["compared"], st["items_agreed"], js["mismatch_count"],
                   st["mismatch_classes"] or "", time.time() - t0))
    lag = max(js.get("max_scheduling_lag_ms", 0), js.get("slowest_webhook_ms", 0))
    if report and js["mismatches"] and lag > 2500:
        # tile38 gives a webhook request 5 s and sends the notification again after a failure: on a machine that
        # starves the harness that long, a disagreement is not a verdict
        raise common.Infra("machine too slow: the harness was stalled for %d ms during replay %s (webhook requests may have "
                           "timed out and been re-sent); %d disagreeing comparisons not judged" % (lag, label, js["mismatch_count"]))
    if report and js["mismatches"]:
        lines = open(beh).read().split("\n")
        table = json.load(open(table_path))
        for m in js["mismatches"]:
            text = "%s disagreement on transport %s for fence %d at step %d of behaviour %d (%s): %s" % (
                m["class"], m["transport"], m["fence"], m["step"], m["behaviour"], label, m["text"])
            common.report(ctx, "c05-%s-%s-b%d-s%d-f%d-%s" % (label, m["class"], m["behaviour"], m["step"], m["fence"],
                                                             m["transport"]), text,
                          {"kind": "fence-behaviour", "behaviour": lines[m["behaviour"]], "table": table, "others": others,
                           "transports": transports, "only": only, "mismatch": m})
    return st, js


# ---------------------------------------------------------------- self-test of the binding
SWAP = {"inside": "outside", "outside": "inside", "enter": "exit", "exit": "enter", "cross": "enter"}


def mutate(b, t, rng):
    """Corrupt ONE expected item of a behaviour.  Returns (step, fence index, description) or None."""
    ncell = len(t["cells"])
    cand = []
    for si, h in enumerate(b["h"]):
        if h["op"] not in ("set", "fset") or h["ex"]:
            continue
        if si > 0 and b["h"][si - 1]["ex"]:
            continue
        for fi, items in enumerate(h["msgs"]):
            if all(it["need"] == "must" for it in items):
                cand.append((si, fi))
    rng.shuffle(cand)
    kinds = ["drop", "add", "detect", "cell", "field", "id"]
    rng.shuffle(kinds)
    for kind in kinds:
        for si, fi in cand:
            h = b["h"][si]
            items = h["msgs"][fi]
            f = t["scene"]["fences"][fi]
            if kind == "drop" and items:
                it = items.pop(rng.randrange(len(items)))
                return si, fi, "drop: expected %s:%s removed" % (it["c"], it["d"])
            if kind == "add" and not items and h["op"] == "set":
                items.append({"d": "inside", "c": "set", "o": h["o"], "cell": h["c"], "v": -1 if f["nofields"] else 0, "need": "must"})
                return si, fi, "add: spurious expected set:inside"
            if kind == "detect" and items:
                it = items[0]
                old = it["d"]
                it["d"] = SWAP[old]
                return si, fi, "detect: expected %s turned into %s" % (old, it["d"])
            if kind == "cell" and items and ncell > 1:
                it = items[-1]
                it["cell"] = it["cell"] % ncell + 1
                return si, fi, "cell: expected geometry moved to another cell"
            if kind == "field" and items and not f["nofields"]:
                it = items[-1]
                it["v"] = 7 if it["v"] != 7 else 8
                return si, fi, "field: expected field value changed"
            if kind == "id" and items and len(b["ids"]) > 1:
                it = items[0]
                it["o"] = it["o"] % len(b["ids"]) + 1
                return si, fi, "id: expected id changed"
    return None


def selftest(ctx, beh, table_path, want):
    """Every corrupted expected item must be flagged by the harness, on every transport."""
    rng = random.Random(ctx.seed * 7919 + 5)
    t = json.load(open(table_path))
    lines = [l for l in open(beh).read().split("\n") if l]
    idx = list(range(len(lines)))
    rng.shuffle(idx)
    path = os.path.join(ctx.scratch, "mutants.ndjson")
    descr, where, kinds = [], [], {}
    with open(path, "w") as f:
        for i in idx:
            b = json.loads(lines[i])
            d = mutate(b, t, rng)
            if d:
                f.write(json.dumps(b) + "\n")
                where.append((d[0], d[1] + 1))
                descr.append("behaviour %d step %d fence %d: %s" % (i, d[0], d[1] + 1, d[2]))
                k = d[2].split(":")[0]
                kinds[k] = kinds.get(k, 0) + 1
                if len(descr) >= want:
                    break
    if len(descr) < min(want, 5) or len(kinds) < 4:
        raise common.Infra("self-test could not build mutants (%d, kinds %s)" % (len(descr), kinds))
    st, js = replay(ctx, path, table_path, "selftest", report=False, examples=1000000)
    flagged = {}
    for m in js["mismatches"] or []:
        if (m["step"], m["fence"]) == where[m["behaviour"]]:
            flagged.setdefault(m["behaviour"], set()).add(m["transport"])
    ntr = len(TRANSPORTS.split(","))
    missed = [descr[i] for i in range(len(descr)) if len(flagged.get(i, ())) < ntr]
    ctx.log("self-test: %d behaviours with one corrupted expected item %s, %d detected on all %d transports"
            % (len(descr), kinds, len(descr) - len(missed), ntr))
    if missed:
        raise common.Infra("binding is vacuous: %d corrupted expectations were not noticed, e.g. %s" % (len(missed), missed[:3]))
    return len(descr), kinds, descr[:3]


# ---------------------------------------------------------------- tiers
IDS1 = ["a1"]
IDS2 = ["a1", "b1"]
IDS3 = ["a1", "a2", "b1"]
PATS = ["a*", "*1"]


def run(ctx):
    if ctx.replay:
        return run_replay(ctx)
    total = {k: 0 for k in TOTAL_KEYS}
    dicts = {k: {} for k in DICT_KEYS}
    samples, scenes, by_others = [], {}, {}
    states = trans = 0
    solo = [0, 0]

    def acc(st, js, others):
        for k in TOTAL_KEYS:
            total[k] += st[k]
        for k in DICT_KEYS:
            for kk, v in st[k].items():
                dicts[k][kk] = dicts[k].get(kk, 0) + v
        by_others[str(others)] = by_others.get(str(others), 0) + st["behaviours"]
        if len(samples) < 3 and js.get("samples"):
            samples.append(js["samples"][0][:1200])

    def table(sc):
        t, tp = make_table(ctx, sc)
        scenes[sc["name"]] = {"frame": sc["frame"], "cells": [c["name"] for c in sc["cells"]],
                              "areas": ["%s %s" % (a["cmd"].upper(), " ".join(a["args"])[:60]) for a in t["areas"]],
                              "fences": len(sc["fences"]), "min_clearance": round(t["min_clearance"], 4),
                              "positions": t["counts"]}
        return t, tp

    def cover(name, sc, ids, fvals, setvals, excells, others, spin=False, rereg=0, timeout=900):
        nonlocal states, trans
        t, tp = table(sc)
        r, beh, n = bfs(ctx, name, t, ids, PATS, fvals, setvals, excells, timeout=timeout)
        states += r["distinct"]
        trans += n
        for o in others:
            acc(*replay(ctx, beh, tp, "%s_o%d" % (name, o), others=o, spin=spin, rereg=rereg,
                        par=PAR if o < 1000 else max(2, PAR // 3)), o)
        return t, tp, beh

    def simulate(name, sc, ids, fvals, setvals, excells, depth, split, rereg=0):
        """split: [(population of other hooks, number of behaviours)]: one TLC run, replayed in parts"""
        nonlocal states, trans
        t, tp = table(sc)
        r, beh, n = sim(ctx, name, t, ids, PATS, fvals, setvals, excells, sum(k for _, k in split), depth)
        states += r["generated"]
        trans += r["generated"]
        lines = open(beh).read().split("\n")
        at = 0
        for others, k in split:
            part = os.path.join(ctx.scratch, "%s_o%d.ndjson" % (name, others))
            open(part, "w").write("\n".join(lines[at:at + k]) + "\n")
            at += k
            acc(*replay(ctx, part, tp, "%s_o%d" % (name, others), others=others, rereg=rereg,
                        par=PAR if others < 1000 else max(2, PAR // 3)), others)
            os.remove(part)
        os.remove(beh)

    # ---- scene 1: one rectangular area, every DETECT subset, COMMANDS / MATCH filters; one object: every (previous, new)
    #      position class x every fence; thorough: more cells, the fences that need a touring sentinel, all populations
    cells1 = ["A", "B", "C", "D", "E", "H", "S"] if ctx.quick else ["A", "B", "C", "D", "E", "H", "K", "S"]
    sc1 = scene("detect32", F_PHX, cells1, [a_bounds("within")], fences_detect32() + fences_filters(full=not ctx.quick))
    t1, tp1, beh1 = cover("detect32", sc1, IDS1, [0], [-1], [2, 1], ctx.pick([50], [0, 1, 50, 2000]), rereg=4, timeout=2400)
    variants = design_variants(ctx, where_scene_table(table), IDS2, PATS, [0, 5, 20], [-1, 5, 20], [])

    # ---- scene 1b: two objects (PDEL, DROP, ids for MATCH) with a selection of the fences
    fs = [fence(1, d) for d in (None, ["cross"], ["enter", "exit"], ["inside"], ["outside"], ["exit", "cross"])] + \
        fences_filters(full=False)
    cover("pairs", scene("pairs", F_SOUTH, ["A", "B", "D", "S"] if ctx.quick else ["A", "B", "C", "D", "H", "S"],
                         [a_bounds("intersects")], fs), IDS2, [0], [-1], [2], ctx.pick([1], [1, 2000]), rereg=ctx.pick(0, 40), timeout=2400)

    # ---- scene 1c: a single fence on a server with no other hook at all, one registration at a time
    #      (registries with exactly one entry: "however many other fences exist" includes none)
    solo_dets = [["cross"], ["enter", "exit"], None, ["inside", "outside"]] if ctx.quick else all_detects()
    sc = scene("solo", F_PHX, ["A", "B", "D", "H"], [a_bounds("intersects")], [fence(1, d) for d in solo_dets])
    t, tp = table(sc)
    r, beh, n = bfs(ctx, "solo", t, IDS1, PATS, [0], [-1], [2], quiet=True)
    states += r["distinct"]
    trans += n
    for i in range(len(solo_dets)):
        for tr in ("hook,live", "chan"):
            st, js = replay(ctx, beh, tp, "solo%d_%s" % (i + 1, tr.replace(",", "")), transports=tr, par=2, quiet=True, only=i + 1)
            acc(st, js, 0)
            solo[0] += st["behaviours"]
            solo[1] += st["compared"]
    ctx.log("solo: %d behaviours replayed on servers with a single fence registered once, %d comparisons" % tuple(solo))

    # ---- scene 2: WHERE / NOFIELDS on a circle (NEARBY POINT), field values below / inside the WHERE range
    sc2 = scene("where", F_EQ, ["A", "N", "D"] if ctx.quick else ["A", "N", "D", "K"], [a_nearby()], fences_where())
    cover("where", sc2, IDS1, [0, 5, 20], [-1, 0, 5, 20], [2], ctx.pick([0], [0, 50]), rereg=ctx.pick(0, 20), timeout=2400)
    if not ctx.quick:
        # two objects: the fences that combine WHERE with MATCH / COMMANDS, PDEL and DROP of objects rejected by WHERE
        sc2b = scene("where2", F_EQ, ["A", "N", "D"], [a_nearby()], fences_where()[::2])
        cover("where2", sc2b, IDS2, [0, 5, 20], [-1, 5, 20], [], [1], timeout=2400)

    # ---- scene 3: several areas in one scene (shapes), random long behaviours, a large population
    def shapes(frame, name):
        areas = [a_object("intersects", U_RING), a_circle("within"), a_nearby(), a_bounds("intersects"), a_object("within")]
        if frame["type"] == "tile":
            areas.append(dict(cmd="within", form="tile"))
        if frame["type"] == "hash":
            areas.append(dict(cmd="intersects", form="hash"))
        fs = []
        for ai in range(1, len(areas) + 1):
            fs += [fence(ai, None), fence(ai, ["cross"]), fence(ai, ["enter", "exit"]), fence(ai, ["inside"]),
                   fence(ai, ["cross", "outside"], match="a*"), fence(ai, ["exit", "inside", "cross"], ["set", "del"], where=True)]
        return scene(name, frame, ["A", "B", "C", "D", "E", "H", "K", "N", "M", "S"], areas, fs)

    simulate("shapesTile", shapes(F_TILE, "shapesTile"), IDS3, [0, 5, 20], [-1, 5, 20], [2, 1], ctx.pick(20, 40),
             ctx.pick([(2000, 8), (50, 32)], [(2000, 40), (50, 160)]), rereg=ctx.pick(2, 8))

    if not ctx.quick:
        simulate("shapesHash", shapes(F_HASH, "shapesHash"), IDS3, [0, 5, 20], [-1, 5, 20], [2, 1], 40, [(1, 100), (50, 100)], rereg=8)
        simulate("shapesSouth", shapes(F_SOUTH, "shapesSouth"), IDS3, [0, 5, 20], [-1, 5, 20], [2, 1], 40, [(0, 200)])
        # complete transition covers on the other shapes: the U-shaped polygon (a notch: outside inside the bounding
        # rectangle), the circle (corners of its bounding rectangle), a tile and a geohash cell, INTERSECTS with a straddling object
        for name, frame, area, cells, others, spin in (
                ("coverU", F_SOUTH, a_object("intersects", U_RING), ["A", "B", "C", "D", "N", "M", "S"], [50], False),
                ("coverCircle", F_EQ, a_circle("intersects"), ["A", "B", "D", "E", "K", "S"], [0, 2000], False),
                ("coverTile", F_TILE, dict(cmd="intersects", form="tile"), ["A", "B", "D", "E", "H", "S"], [1], True),
                ("coverHash", F_HASH, dict(cmd="within", form="hash"), ["A", "C", "D", "H", "K", "S"], [50], False)):
            sc = scene(name, frame, cells, [area], fences_detect32() + fences_filters()[:4])
            cover(name, sc, IDS1, [0], [-1], [2], others, spin=spin, rereg=4, timeout=2400)
        seed0, rnd = ctx.seed, 0
        try:
            while time.time() - ctx.t0 < THOROUGH_BUDGET_S and rnd < 12:
                rnd += 1
                ctx.seed = seed0 * 1000 + rnd
                fr = [F_TILE, F_HASH, F_PHX, F_EQ, F_SOUTH][rnd % 5]
                simulate("shapes_r%d" % rnd, shapes(fr, "shapes_r%d" % rnd), IDS3, [0, 5, 20], [-1, 5, 20], [2, 1], 40,
                         [([0, 1, 50, 2000][rnd % 4], [150, 150, 150, 40][rnd % 4])], rereg=8)
        finally:
            ctx.seed = seed0
        ctx.log("%d extra simulation rounds" % rnd)

    # ---- self-test of the binding (it needs the real code to agree with the uncorrupted items: not after a violation)
    if ctx.violations:
        ctx.log("violations reported: self-test of the binding and vacuity checks skipped")
        return
    nmut, mutkinds, mut_samples = selftest(ctx, beh1, tp1, ctx.pick(60, 300))

    # ---- vacuity
    kinds = dicts["items_agreed_by_kind"]
    need_kinds = ["set:inside", "set:outside", "set:enter", "set:exit", "set:cross", "fset:inside", "fset:outside", "del", "drop"]
    if total["compared"] == 0 or total["items_agreed"] == 0 or total["empty_agreed"] == 0 or \
            any(kinds.get(k, 0) == 0 for k in need_kinds):
        raise common.Infra("replay compared nothing, or a kind of notification was never compared (vacuous): %s %s" % (total, kinds))
    ops = dicts["steps_by_op"]
    if any(ops.get(o, 0) == 0 for o in ("set", "setstr", "fset", "del", "pdel", "drop", "expire")):
        raise common.Infra("an action of the specification was never replayed: %s" % ops)
    if set(dicts["per_transport"]) != set(TRANSPORTS.split(",")):
        raise common.Infra("a transport was never compared: %s" % dicts["per_transport"])
    if total["may_items_present"] == 0:
        raise common.Infra("no optional del/drop notification was ever seen")
    if total["re_registrations"] == 0 or total["hooks_replaced_under_the_same_name"] == 0 or total["other_hooks_deleted"] == 0:
        raise common.Infra("the hook registries were never churned (re-registration / replacement / deletion of other hooks)")
    common.write_evidence(ctx, "model_checking", {
        "states": states,
        "transitions": trans,
        "traces_validated_against_impl": total["behaviours"],
        "samples": samples,
        "replayed_steps": total["steps"],
        "steps_by_op": ops,
        "comparisons_step_x_fence_x_transport": total["compared"],
        "comparisons_agreeing": total["agreed"],
        "comparisons_per_transport": dicts["per_transport"],
        "notifications_equal_to_TLC_items": total["items_agreed"],
        "notifications_equal_by_kind": kinds,
        "comparisons_expecting_no_message": total["empty_agreed"],
        "optional_del_drop_items_present/absent": [total["may_items_present"], total["may_items_absent"]],
        "notifications_received": total["messages"],
        "sentinel_notifications": total["sentinel_messages"],
        "behaviours_by_population_of_other_hooks": by_others,
        "other_hooks_registered/deleted": [total["other_hooks_registered"], total["other_hooks_deleted"]],
        "re_registrations_of_the_fences_under_test": total["re_registrations"],
        "registrations_that_replaced_a_decoy_of_the_same_name": total["hooks_replaced_under_the_same_name"],
        "disagreeing_comparisons_by_class": dicts["mismatch_classes"],
        "scenes": scenes,
        "design_level": "on every transition x every fence TLC checked Coded = Documented (NoOther), webhook/channel = live "
                        "(TransportsAgree), required del/drop reach pre-selected fences (DelReachesDefault), Shape; broken "
                        "designs refuted: %s" % ", ".join("%s (%s)" % kv for kv in variants.items()),
        "selftest_mutants_detected": nmut,
        "selftest_kinds": mutkinds,
        "selftest_samples": mut_samples,
        "exhaustive": True,
        "explanation": "For the cover scenes TLC enumerated every configuration (positions x field values x pending deadline; the "
                       "VIEW hides the history) and emitted every transition as a shortest behaviour - every (previous, new) position "
                       "class incl. first appearance - with the items of ALL fences of the scene (the 31 DETECT subsets + no DETECT, "
                       "COMMANDS / MATCH / WHERE / NOFIELDS variants); each was executed on a real server with every fence registered "
                       "as webhook, channel and live connection among a population of other hooks; simulation behaviours cover "
                       "several shapes at once, 3 objects, more cells.",
    }, [
        "geometry enters the specification as tables from the harness' own arithmetic (ray casting / segment intersection in "
        "frame coordinates, great-circle distance on the mean sphere for circles); scenes keep every position and every "
        "segment at least 4 % of the frame (of the radius) away from a boundary, so boundary conventions are not asserted",
        "`inside the fence' = spatial test AND WHERE, as fenceMatch has it; an object that was never inside and fails WHERE "
        "produces nothing on SET; FSET reports inside/outside by the current position (outside when WHERE fails); an FSET "
        "that changes no field and del/drop for fences with a DETECT clause are optional (the statement is silent)",
        "order among the del notifications of one PDEL is not asserted; group and time members are not compared",
        "quiescence by sentinels: PUBLISH on the subscriber connection, SET+DEL of an object with a ~ id inside the fence "
        "for webhook and live connection; notifications about ~ ids are ignored; fences with an exact-id MATCH get a second "
        "MATCH ~q* clause for the sentinel",
        "expiry is a SET .. EX 0.01 followed by polling GET until the sweeper has deleted the object; the SET's and the "
        "expiry's notifications are compared together",
    ])


def where_scene_table(table):
    """a small scene on which every broken design is distinguishable: WHERE fences, a cross-only fence, an exit-only fence"""
    fs = [fence(1, None), fence(1, ["cross"]), fence(1, ["exit"]), fence(1, ["inside"], where=True),
          fence(1, ["outside", "cross"], where=True), fence(1, ["enter", "exit"], ["set"], match="a*", where=True),
          fence(1, ["inside", "outside"]), fence(1, ["enter", "inside"])]
    sc = scene("variants", F_PHX, ["A", "B", "D", "H"], [a_bounds("within")], fs)
    return table(sc)[0]


def run_replay(ctx):
    p = json.load(open(ctx.replay))
    beh = os.path.join(ctx.scratch, "replay.ndjson")
    open(beh, "w").write(p["behaviour"] + "\n")
    tp = os.path.join(ctx.scratch, "replay_table.json")
    json.dump(p["table"], open(tp, "w"))
    st, js = replay(ctx, beh, tp, "replay", others=p.get("others", 0), transports=p.get("transports", TRANSPORTS), par=1,
                    only=p.get("only", 0))
    if st["compared"] == 0:
        raise common.Infra("replay compared nothing")
