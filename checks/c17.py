"""C17  Every reply is well-formed, and RESP and JSON outputs agree.

Specification: spec/Reply.tla -- the output mode of a connection (transport default, OUTPUT json|resp,
the reply to OUTPUT already in the new mode, one request per HTTP connection), when a reading is a
well-formed reply of a mode, and Agree(command, RESP reply, JSON reply): the two renderings convey the
same result, written from the JSON/RESP switch of every cmdXXX.  spec/ReplyGen.tla generates the
behaviours: every cell of (command instance of the table extracted from the CURRENT source) x (argument
shape: valid, first k arguments, one more, one garbled) x (naming of the fixture, with strings that need
JSON escaping), live commands, and it explores the mode machine with its invariants.  Behaviours of the
Keyspace model (KeyspaceGen / KeyspaceSim) come with the replies the model computed.

Binding: harness/reply executes every behaviour in lock-step on one real server per lane (RESP array,
telnet line, native "$len " frame, HTTP GET, HTTP POST; each stream transport once in RESP and once in
JSON mode), delimits every reply by the server's reply to a sentinel PING (not by the reply's own
framing), parses it with its own RESP and strict JSON readers and records the normal forms as NDJSON.
spec/ReplyTrace.tla (TLC) tracks the mode of every connection itself and judges every line:
well-formed in the mode the specification says, Agree for every (RESP lane, JSON lane) pair, equal to the
Keyspace model's result where the model covers the command.
"""
import concurrent.futures
import json
import os
import random
import re
import urllib.parse

from . import common
from .common import cfg_consts

MAX_REPORTS = 12
# namings used by the quick tier (the thorough tier uses all of them)
QUICK_ROWS = ("plain", "quote", "blank", "ctrl", "crlf", "utf8", "bin", "html", "numlike", "nan", "jsonval", "jsonish")


def tla_str(s):
    return '"' + s.replace("\\", "\\\\").replace('"', '\\"') + '"'


def to_tla(v):
    """JSON value -> TLA+ expression (objects become records, arrays sequences)."""
    if isinstance(v, bool):
        return "TRUE" if v else "FALSE"
    if isinstance(v, int):
        return str(v)
    if isinstance(v, str):
        return tla_str(v)
    if isinstance(v, list):
        return "<<" + ", ".join(to_tla(x) for x in v) + ">>"
    if isinstance(v, dict):
        return "[" + ", ".join("%s |-> %s" % (k, to_tla(x)) for k, x in v.items()) + "]"
    raise common.Infra("cannot render %r as TLA+" % (v,))


def conc_tla(tokens):
    items = sorted(tokens.items())
    return "(" + " @@ ".join("(%s :> %s)" % (tla_str(k), to_tla(v)) for k, v in items) + ")"


def dec(s):
    return urllib.parse.unquote_to_bytes(s).decode("utf-8", "backslashreplace")


# ------------------------------------------------------------------------------------------- generation
def table(ctx):
    rc, js, err = ctx.harness(["reply-table", "-repo", common.REPO])
    if not js.get("instances"):
        raise common.Infra("reply-table produced no instances")
    return js


def generate(ctx, tab, rows, shape_rows, insts):
    mc = """---- MODULE MC_gen ----
EXTENDS ReplyGen
MCInstSeq == %s
MCRowSeq == %s
====
""" % ("<<" + ", ".join('[id |-> %s, n |-> %d, live |-> %s, named |-> %s]' % (tla_str(i["id"]), len(i["args"]), "TRUE" if i["live"] else "FALSE",
                                                                              "TRUE" if i["named"] else "FALSE")
                         for i in insts) + ">>",
       "<<" + ", ".join(tla_str(r) for r in rows) + ">>")
    cfg = ("SPECIFICATION Spec\n" + cfg_consts(InstSeq="<- MCInstSeq", RowSeq="<- MCRowSeq", ShapeRows=shape_rows, ModeDepth=4) +
           "INVARIANT ModeTyped ModeIsLastSwitch RenderedRight\n")
    r = ctx.tlc("gen", ["Reply.tla", "ReplyGen.tla"], mc, cfg, workers=4, timeout=1200)
    if not r["ok"]:
        raise common.Infra("the mode machine of Reply violates its own invariant %s: see %s" % (r["violated"], r["out"]))
    beh = os.path.join(r["dir"], "cells.ndjson")
    n = ctx.extract_tr(r["out"], beh)
    if n == 0:
        raise common.Infra("ReplyGen produced no behaviours")
    # neighbours share a naming (fewer fixture loads); the order is otherwise TLC's
    lines = [l for l in open(beh).read().split("\n") if l]
    order = {r_: i for i, r_ in enumerate(rows)}
    lines.sort(key=lambda l: (json.loads(l)["kind"] == "live", order[json.loads(l)["row"]]))
    open(beh, "w").write("\n".join(lines) + "\n")
    ctx.log("TLC ReplyGen: %d distinct states, %d behaviours (cells of the matrix and live commands)" % (r["distinct"], n))
    return r, beh, n


def chains(ctx, rows, insts, num, length):
    mc = """---- MODULE MC_chains ----
EXTENDS ReplySim
MCInstSeq == %s
MCRowSeq == %s
====
""" % ("<<" + ", ".join('[id |-> %s, n |-> %d, live |-> %s]' % (tla_str(i["id"]), len(i["args"]), "TRUE" if i["live"] else "FALSE")
                         for i in insts) + ">>",
       "<<" + ", ".join(tla_str(r) for r in rows) + ">>")
    cfg = ("SPECIFICATION Spec\n" + cfg_consts(InstSeq="<- MCInstSeq", RowSeq="<- MCRowSeq", ChainLen=length) + "INVARIANT ChainTyped\n")
    # one worker: TLC's simulation workers draw the same random sequence
    r = ctx.tlc("chains", ["ReplySim.tla"], mc, cfg, workers=1, simulate=num, depth=length + 3, timeout=1500)
    if not r["ok"]:
        raise common.Infra("ReplySim violates %s: see %s" % (r["violated"], r["out"]))
    beh = os.path.join(r["dir"], "chains.ndjson")
    n = ctx.extract_tr(r["out"], beh)
    if n == 0:
        raise common.Infra("ReplySim produced no chains")
    ctx.log("TLC ReplySim (simulate): %d chains of %d commands" % (n, length))
    return r, beh, n


# ------------------------------------------------------------------------------------------- execution
def execute(ctx, beh, label, groups):
    out = os.path.join(ctx.scratch, "trace_" + label)
    rc, js, err = ctx.harness(["reply-run", "-repo", common.REPO, "-in", beh, "-out", out, "-dir", ctx.scratch,
                               "-groups", str(groups)], timeout=2400)
    st = js["stats"]
    ctx.log("run %s: %d behaviours, %d records, %d readings (%d lane/step pairs not carried by the transport), %d stalls" %
            (label, st["behaviours"], st["records"], st["readings"], st["not_carried"], st["stalls"]))
    if st["readings"] == 0:
        raise common.Infra("run %s recorded nothing" % label)
    return js


# ------------------------------------------------------------------------------------------- judgement
def judge(ctx, name, trace, tokens, expect_rejections=False):
    mc = """---- MODULE MC_%s ----
EXTENDS ReplyTrace
MCConc == %s
====
""" % (name, conc_tla(tokens))
    cfg = "SPECIFICATION Spec\nCONSTANT Conc <- MCConc\nPOSTCONDITION Consumed\n"
    d = os.path.join(ctx.scratch, "in_" + name)
    os.makedirs(d, exist_ok=True)
    tr = os.path.join(d, "trace.ndjson")
    if os.path.lexists(tr):
        os.remove(tr)
    os.symlink(os.path.abspath(trace), tr)
    r = ctx.tlc(name, ["Reply.tla", "ReplyTrace.tla"], mc, cfg, workers=1, timeout=1500, files=[tr])
    rej, summ = [], None
    for line in open(r["out"], errors="replace"):
        if line.startswith('<<"REJ", '):
            rej.append(json.loads(json.loads(line.rstrip("\n")[len('<<"REJ", '):-2])))
        elif line.startswith('<<"SUM", '):
            summ = json.loads(json.loads(line.rstrip("\n")[len('<<"SUM", '):-2]))
    if summ is None:
        raise common.Infra("ReplyTrace %s did not consume the trace: see %s" % (name, r["out"]))
    if summ["rejected"] != len(rej):
        raise common.Infra("ReplyTrace %s: %d rejections counted, %d printed" % (name, summ["rejected"], len(rej)))
    return r, summ, rej


def describe(rec, why):
    """One text per rejected line: stable words first (they are what known findings match on)."""
    cmd = " ".join(dec(a) for a in rec["args"])
    kinds = sorted(set(w.split(" ")[0] for w in why))
    lanes = {}
    for x in rec["lanes"]:
        if not x["sent"]:
            continue
        raw = re.sub(r'"elapsed":"[^"]*"', '"elapsed":"E"', dec(x["raw"]))
        lanes.setdefault(raw[:400], []).append(x["lane"] + (" [%s]" % x["ferr"] if x["ferr"] else "") +
                                               (" [json: %s]" % x["jerr"] if x["jerr"] not in ("", "-") and not x["fwf"] else ""))
    shown = "; ".join("%s -> %r" % (",".join(ls), raw) for raw, ls in list(lanes.items())[:6])
    return "%s on %s [%s] cmd=%r: %s || replies: %s" % ("+".join(kinds), rec["ev"], rec["tag"], cmd, ", ".join(sorted(why))[:600], shown)


def report_all(ctx, label, trace, rej, beh=None):
    if not rej:
        return 0
    lines = open(trace).read().split("\n")
    behs = [l for l in open(beh).read().split("\n") if l] if beh else []
    groups = {}
    for r in rej:
        rec = json.loads(lines[r["line"] - 1])
        kinds = "+".join(sorted(set(w.split(" ")[0] for w in r["why"])))
        base = rec["tag"].split("/")[0].split("~")[0]
        groups.setdefault((kinds, base), []).append((rec, r["why"]))
    n = 0
    for (kinds, base), items in sorted(groups.items(), key=lambda kv: kv[0]):
        rec, why = items[0]
        text = describe(rec, why) + (" (%d lines in this class)" % len(items))
        if n < MAX_REPORTS or common.classify(ctx, text) is not None:
            common.report(ctx, "c17-%s-%s-%s" % (label, kinds.replace("+", "_"), re.sub(r"[^a-z0-9]+", "_", base)), text,
                          {"kind": "reply-record", "record": rec, "why": sorted(why),
                           "behaviour": behs[rec["b"]] if 0 <= rec["b"] < len(behs) else None})
        n += 1
    return n


# ------------------------------------------------------------------------------------------- self-test of the binding
def corrupt(trace, dest, every=7):
    """Copy of a trace in which every 'every'-th judged line is damaged in one place (a payload string of a
    JSON reply changed, an element of a RESP array dropped, ok flipped, a reply made ill-formed). Returns the
    1-based numbers of the damaged lines; ReplyTrace must reject exactly those (plus what it rejects anyway)."""
    damaged = []
    out = []
    k = 0
    for ln, line in enumerate(open(trace).read().split("\n"), 1):
        if not line:
            continue
        rec = json.loads(line)
        if rec["ev"] == "step" and rec["src"] != "conn":
            k += 1
            if k % every == 0 and damage(rec, k // every):
                damaged.append(ln)
                line = json.dumps(rec)
        out.append(line)
    open(dest, "w").write("\n".join(out) + "\n")
    return damaged


# replies whose text is compared by kind only (they describe the process, not the dataset)
WEAK = ("info", "client", "server", "follow", "slaveof")


def damage(rec, n):
    if rec["largs"][0] in WEAK or (rec["largs"][0] == "timeout" and len(rec["largs"]) > 2 and rec["largs"][2] in WEAK):
        return False
    if rec["src"] == "ks" and n % 3 == 0:
        # the model's own result changed: the real reply no longer equals it
        rr = rec["exp"]["rr"]
        if rr["t"] == "int":
            rr["n"] += 1
        elif rr["t"] == "ok":
            rr["t"] = "nil"
        elif rr["t"] == "nil":
            rr["t"] = "ok"
        elif rr["t"] == "err":
            rr["e"] += "~"
        elif rr["t"] in ("str", "sstr"):
            rr["t"] = "nil"
        elif rr["t"] == "arr":
            rr["a"].append({"t": "nil"})
        else:
            return False
        return any(x["sent"] and x["ping"] == "resp" for x in rec["lanes"])
    js = [x for x in rec["lanes"] if x["sent"] and x["fwf"] and x["jerr"] == "" and x["jv"]["t"] == "obj" and x["ping"] == "json"]
    rs = [x for x in rec["lanes"] if x["sent"] and x["fwf"] and x["rv"]["t"] != "none" and x["ping"] == "resp"]
    if not js or not rs:
        return False
    mode = n % 4
    x = js[n % len(js)]
    d = x["jv"]
    if mode == 0:      # ok flipped
        i = d["k"].index("ok")
        d["a"][i]["s"] = "false" if d["a"][i]["s"] == "true" else "true"
        return True
    if mode == 1:      # the reply is not one JSON document any more
        x["jerr"] = "trailing bytes after the JSON document"
        return True
    if mode == 2:      # a string somewhere in the payload changed
        def walk(v):
            if v["t"] == "str" and v["s"] not in ("",):
                v["s"] += "~"
                v["l"] += "~"
                return True
            return any(walk(c) for c in v["a"])
        for i, m in enumerate(d["k"]):
            if m not in ("ok", "elapsed") and walk(d["a"][i]):
                return True
        return False
    # a RESP reply changed: an array loses its last element, a bulk string / integer its value
    y = rs[n % len(rs)]["rv"]
    if y["t"] == "arr" and y["a"]:
        y["a"].pop()
        return True
    if y["t"] in ("bulk", "simple", "error"):
        y["s"] += "~"
        y["u"] += "~"
        y["n"] = ""
        y["j"] = {"t": "none", "s": "", "l": "", "n": "", "i": "", "v": 0, "a": [], "k": []}
        return True
    if y["t"] == "int":
        y["t"] = "bulk"
        return True
    return False


# ------------------------------------------------------------------------------------------- the check
def keyspace_behaviours(ctx):
    from . import c01
    r1, beh1, n1 = c01.bfs(ctx, "ks_onekey", 1, 2, ["g:P1", "g:S1"], 1, ["v:0", "v:1", "v:abc"], ["p:*", "p:=1"], 1,
                           withhooks=False, two=False, maxhist=ctx.pick(3, 12))
    depth = ctx.pick(30, 50)
    mc = c01.mc_module("ks_sim", "KeyspaceSim", 3, 3, c01.ALL_GEOS, 2, c01.ALL_VALS, c01.ALL_PATS, 2)
    cfg = ("SPECIFICATION SimSpec\n" + cfg_consts(MaxHist=depth, WithHooks=True, **c01.SUBST) + "INVARIANT StoredForms\n")
    # one worker: TLC's simulation workers draw the same random sequence
    r2 = ctx.tlc("ks_sim", ["Keyspace.tla", "KeyspaceRand.tla", "KeyspaceSim.tla"], mc, cfg, workers=1,
                 simulate=ctx.pick(40, 800), depth=depth + 5, timeout=1500)
    if not r2["ok"]:
        raise common.Infra("KeyspaceSim violates %s: see %s" % (r2["violated"], r2["out"]))
    beh2 = r2["dir"] + "/behaviours.ndjson"
    n2 = ctx.extract_tr(r2["out"], beh2)
    ctx.log("TLC ks_sim (simulate): %d behaviours of depth %d" % (n2, depth))
    beh = os.path.join(ctx.scratch, "ks.ndjson")
    lines = [l for l in open(beh1).read().split("\n") if l]
    lines = lines[::max(1, len(lines) // ctx.pick(250, 6000))]
    lines += [l for l in open(beh2).read().split("\n") if l]
    random.Random(ctx.seed).shuffle(lines)       # long and short behaviours spread evenly over the lane groups
    open(beh, "w").write("\n".join(lines) + "\n")
    return beh, len(lines), r1["distinct"] + r2["generated"], n1 + r2["generated"]


def run(ctx):
    if ctx.replay:
        return run_replay(ctx)
    # TLC runs of this check are small: keep the JVM's collector from starting one thread per core
    os.environ.setdefault("JAVA_TOOL_OPTIONS", "-XX:ParallelGCThreads=2")
    tab = table(ctx)
    rows = [r for r in tab["rows"] if ctx.pick(r in QUICK_ROWS, True)]
    insts = [i for i in tab["instances"] if ctx.pick(not i["thorough"], True)]
    ctx.log("command table of %s: %d commands, %d instances, %d namings, %d lanes" %
            (common.REPO, len(tab["commands"]), len(insts), len(rows), len(tab["lanes"])))
    gen, cells, ncells = generate(ctx, tab, rows, ctx.pick(1, len(rows)), insts)
    ksbeh, nks, ksstates, kstrans = keyspace_behaviours(ctx)
    sim, chbeh, nchains = chains(ctx, rows, insts, ctx.pick(72, 3000), ctx.pick(25, 40))

    total = {"lines": 0, "checks": 0, "rejected": 0}
    stats = {}
    samples = []
    selftest = {"damaged": 0, "caught": 0}
    jobs = []          # (label, group index, trace file)
    for label, beh, groups in (("table", cells, ctx.pick(4, 8)), ("chain", chbeh, ctx.pick(3, 8)), ("ks", ksbeh, ctx.pick(2, 8))):
        js = execute(ctx, beh, label, groups)
        for k, v in js["stats"].items():
            if isinstance(v, int):
                stats[k] = stats.get(k, 0) + v
            else:
                stats.setdefault(k, {}).update({kk: stats.get(k, {}).get(kk, 0) + vv for kk, vv in v.items()})
        for gi, trace in enumerate(js["traces"]):
            jobs.append((label, gi, trace, False, beh))
            if gi == 0:
                jobs.append((label, gi, trace, True, beh))

    def work(job):
        label, gi, trace, self_test, _ = job
        if not self_test:
            return job, judge(ctx, "%s%d" % (label, gi), trace, tab["tokens"]), None
        # the binding is real: a damaged copy of this trace must be rejected where it was damaged
        bad = os.path.join(ctx.scratch, "corrupt_%s.ndjson" % label)
        damaged = corrupt(trace, bad)
        return job, judge(ctx, "%s_selftest" % label, bad, tab["tokens"]), (bad, damaged)

    with concurrent.futures.ThreadPoolExecutor(max_workers=6) as ex:
        results = list(ex.map(work, jobs))
    for (label, gi, trace, self_test, beh), (r, summ, rej), extra in results:
        if self_test:
            bad, damaged = extra
            got = set(x["line"] for x in rej)
            selftest["damaged"] += len(damaged)
            selftest["caught"] += len([d for d in damaged if d in got])
            missed = [d for d in damaged if d not in got]
            if missed:
                lines = open(bad).read().split("\n")
                raise common.Infra("self-test of the binding: ReplyTrace accepted %d of %d damaged lines, e.g. %s" %
                                   (len(missed), len(damaged), lines[missed[0] - 1][:600]))
            continue
        for k in total:
            total[k] += summ[k]
        ctx.log("ReplyTrace %s/%d: %d lines, %d comparisons, %d rejected" % (label, gi, summ["lines"], summ["checks"], summ["rejected"]))
        report_all(ctx, label, trace, rej, beh)
        if len(samples) < 4:
            for line in open(trace):
                rec = json.loads(line)
                if rec["ev"] == "step" and rec["src"] != "conn":
                    samples.append(("%s: %s" % (rec["tag"], " ".join(dec(a) for a in rec["args"])))[:300])
                    break
    if total["checks"] == 0 or selftest["damaged"] == 0:
        raise common.Infra("nothing was compared (vacuous)")
    missing = [c["name"] for c in tab["commands"] if c["name"] not in stats.get("commands", {})]
    if missing:
        raise common.Infra("commands of the table that were never executed: %s" % ", ".join(missing))
    # not only error paths: every command that can succeed on these servers did succeed in JSON mode at least once
    # (DevMode is off: SHUTDOWN, MASSINSERT, SLEEP are unknown; HELLO, COMMAND, bare CONFIG / SCRIPT always fail, AUTH
    # without a password set too; the live commands are judged by their own records)
    never_ok = {"shutdown", "massinsert", "sleep", "hello", "command", "config", "script", "auth",
                "aof", "monitor", "quit", "subscribe", "psubscribe"}
    noreply = [c["name"] for c in tab["commands"] if c["name"] not in never_ok and not stats.get("ok_replies", {}).get(c["name"])]
    if noreply:
        raise common.Infra("commands that never answered ok = true (only their error paths were compared): %s" % ", ".join(noreply))
    common.write_evidence(ctx, "model_checking", {
        "states": gen["distinct"] + ksstates + sim["generated"],
        "transitions": gen["generated"] + kstrans + sim["generated"],
        "chains": nchains,
        "traces_validated_against_impl": stats.get("behaviours", 0),
        "samples": samples,
        "commands_in_source": len(tab["commands"]),
        "instances": len(insts),
        "namings": len(rows),
        "lanes": [l["name"] for l in tab["lanes"]],
        "cells": ncells,
        "keyspace_behaviours": nks,
        "records": total["lines"],
        "readings": stats.get("readings", 0),
        "comparisons": total["checks"],
        "rejected_lines": total["rejected"],
        "not_carried": stats.get("not_carried", 0),
        "live_acks": stats.get("live_acks", 0),
        "live_pushes": stats.get("live_pushes", 0),
        "selftest_damaged_lines": selftest["damaged"],
        "selftest_rejected": selftest["caught"],
        "shapes": stats.get("shapes", {}),
        "commands_answering_ok": len([k for k, v in stats.get("ok_replies", {}).items() if v]),
        "commands_answering_error": len([k for k, v in stats.get("err_replies", {}).items() if v]),
        "exhaustive": True,
        "explanation": "TLC enumerated every cell (instance x argument shape x naming) of the command table extracted from "
                       "the source and the mode machine; every cell was executed on one real server per lane; TLC "
                       "(ReplyTrace) judged every recorded line.",
    }, [
        "syntax is decided by the harness' own parsers (RESP reader; strict single-document JSON reader on encoding/json's "
        "tokenizer plus a UTF-8 check); TLC decides the mode a reply must be in, the shape of a JSON reply and agreement",
        "values that differ between two servers or instants (ids, pids, memory statistics, client addresses, INFO text, "
        "CLIENT LIST text) are compared by presence and type only; TTLs within 60 s",
        "a JSON string shows U+FFFD for bytes that are not valid UTF-8: compared against the sanitised RESP bytes",
        "arguments a line transport cannot carry (blanks, empty) go over a RESP side connection on that lane; MVT / "
        "protobuf bodies, WebSocket frames and live commands over HTTP are not covered",
    ])


def run_replay(ctx):
    p = json.load(open(ctx.replay))
    tab = table(ctx)
    rec = p["record"]
    beh = os.path.join(ctx.scratch, "replay.ndjson")
    if p.get("behaviour"):
        # the whole behaviour the rejected line belongs to (a chain or a Keyspace behaviour sets up its state)
        open(beh, "w").write(p["behaviour"] + "\n")
    else:
        m = re.match(r"^(.*)/([a-z0-9]+)(?::([a-z]+)(\d+))?(?:@\d+)?$", rec["tag"].replace("~pre", ""))
        if not m:
            raise common.Infra("replay of %s: no behaviour in the replay file" % rec["tag"])
        b = {"kind": "live" if rec["ev"] in ("ack", "push") else "table", "inst": m.group(1), "row": m.group(2),
             "shape": m.group(3) or "valid", "p": int(m.group(4) or 0)}
        open(beh, "w").write(json.dumps(b) + "\n")
    js = execute(ctx, beh, "replay", 1)
    r, summ, rej = judge(ctx, "replay", js["traces"][0], tab["tokens"])
    ctx.log("replay %s: %d lines, %d rejected" % (rec["tag"], summ["lines"], summ["rejected"]))
    report_all(ctx, "replay", js["traces"][0], rej, beh)
